(* C14/Properties.v -- pinned statements of property C14 (ORDER BY sorts by a consistent total
   preorder that respects SPARQL's operator '<').

   [order_by] is the comparator of the repaired code (build/proposed/C14.diff),
   [order_by_prefix] the one of the original tree.  Abstractions (see Model.v): the lexical ->
   value mapping is an input ([item] = term + parsed value); finite floats are exact dyadic
   values; the integer/decimal -> float conversions used by the operator '<' are arbitrary
   functions c64 c32 that satisfy [conv_ok] (they never cross a number of the target format:
   true of IEEE round-to-nearest, not proved here for the Rust library routines);
   sort_unstable_by is specified by its contract (a sorted permutation). *)
From Coq Require Import QArith Sorting.Sorted Sorting.Permutation.
From Sophia.C14 Require Import Model Proofs.
Close Scope Q_scope.
Open Scope N_scope.

(* the repaired comparator is a total preorder on items (term + value attached to literals only,
   well-formed terms): antisymmetric/total, 'Equal' is a congruence, 'Less' is transitive *)
Check (order_by_preorder : preorder_on item_ok order_by).
Theorem order_by_antisym : forall a b, item_ok a -> item_ok b -> order_by b a = CompOpp (order_by a b).
Proof. exact (po_antisym _ _ order_by_preorder). Qed.
Theorem order_by_le_trans : forall a b d, item_ok a -> item_ok b -> item_ok d ->
  order_by a b <> Gt -> order_by b d <> Gt -> order_by a d <> Gt.
Proof. exact (po_le_trans _ _ order_by_preorder). Qed.
Theorem order_by_lt_trans : forall a b d, item_ok a -> item_ok b -> item_ok d ->
  order_by a b = Lt -> order_by b d = Lt -> order_by a d = Lt.
Proof. exact (po_lt _ _ order_by_preorder). Qed.
Theorem order_by_eq_congruence : forall a b d x, item_ok a -> item_ok b -> item_ok d ->
  order_by a b = Eq -> order_by b d = x -> order_by a d = x.
Proof. exact (po_eq _ _ order_by_preorder). Qed.

(* unbound < blank node < IRI < literal < triple term *)
Check (rank_order : forall k1 k2, key_rank k1 < key_rank k2 -> key_cmp order_by k1 k2 = Lt).
Check (rank_values :
  key_rank None = 0
  /\ (forall s v, key_rank (Some (mkItem (Bnode s) v)) = 1)
  /\ (forall s v, key_rank (Some (mkItem (Iri s) v)) = 2)
  /\ (forall l d v, key_rank (Some (mkItem (LitDt l d) v)) = 3)
  /\ (forall l t v, key_rank (Some (mkItem (LitLang l t) v)) = 3)
  /\ (forall s p o v, key_rank (Some (mkItem (Triple s p o) v)) = 4)).

(* the comparator agrees with the implementation's operator '<' (and '>') wherever it is defined *)
Check (order_by_refines_cmp : forall c64 c32 f64 f32 a b r,
  conv_ok c64 f64 -> conv_ok c32 f32 ->
  item_ok a -> item_ok b -> item_fmt f64 f32 a -> item_fmt f64 f32 b ->
  sparql_cmp c64 c32 a b = Some r -> r <> Eq -> order_by a b = r).
Check (order_by_respects_lt : forall c64 c32 f64 f32 a b,
  conv_ok c64 f64 -> conv_ok c32 f32 ->
  item_ok a -> item_ok b -> item_fmt f64 f32 a -> item_fmt f64 f32 b ->
  lt_sparql c64 c32 a b = Some true -> order_by a b = Lt).

(* DESC reverses; several criteria combine lexicographically into a total preorder on solutions *)
Check (desc_is_reversal : forall ob k1 k2,
  dir true (key_cmp ob k1 k2) = CompOpp (dir false (key_cmp ob k1 k2))).
Check (later_keys_break_ties : forall ob d ds k1 t1 k2 t2,
  cmp_bindings_with ob (d :: ds) (k1 :: t1) (k2 :: t2) =
  match dir d (key_cmp ob k1 k2) with Eq => cmp_bindings_with ob ds t1 t2 | c => c end).
Check (cmp_bindings_preorder : forall ob descs,
  preorder_on item_ok ob -> preorder_on (row_ok descs) (cmp_bindings_with ob descs)).
Theorem cmp_bindings_order_by_preorder : forall descs,
  preorder_on (row_ok descs) (cmp_bindings_with order_by descs).
Proof. intros. apply cmp_bindings_preorder. apply order_by_preorder. Qed.

(* sorting: a sorted permutation exists, and every sorted permutation is free of inversions at
   any distance, in particular with respect to '<' on the first key (reversed for DESC) *)
Check (sorted_permutation_exists : forall descs rows, Forall (row_ok descs) rows ->
  exists out, Permutation rows out /\ StronglySorted (rows_le descs) out).
Check (sorted_output_has_no_inversion : forall descs rows out,
  Forall (row_ok descs) rows -> Permutation rows out -> Sorted (rows_le descs) out ->
  forall i j, (i < j < length out)%nat ->
    cmp_bindings_with order_by descs (nth i out []) (nth j out []) <> Gt).
Check (sorted_output_respects_lt : forall c64 c32 f64 f32 d ds rows out,
  conv_ok c64 f64 -> conv_ok c32 f32 ->
  Forall (row_ok (d :: ds)) rows ->
  Forall (Forall (fun k => match k with Some a => item_fmt f64 f32 a | None => True end)) rows ->
  Permutation rows out -> Sorted (rows_le (d :: ds)) out ->
  forall i j a b, (i < j < length out)%nat ->
    hd None (nth i out []) = Some a -> hd None (nth j out []) = Some b ->
    (if d then lt_sparql c64 c32 a b else lt_sparql c64 c32 b a) <> Some true).

(* the same at any key whose predecessors tie *)
Check (sorted_output_key_order : forall descs rows out,
  Forall (row_ok descs) rows -> Permutation rows out -> Sorted (rows_le descs) out ->
  forall i j k, (i < j < length out)%nat -> (k < length descs)%nat ->
    (forall m, (m < k)%nat ->
       key_cmp order_by (nth m (nth i out []) None) (nth m (nth j out []) None) = Eq) ->
    dir (nth k descs false)
        (key_cmp order_by (nth k (nth i out []) None) (nth k (nth j out []) None)) <> Gt).
Check (sorted_output_respects_lt_at_key : forall c64 c32 f64 f32 descs rows out,
  conv_ok c64 f64 -> conv_ok c32 f32 ->
  Forall (row_ok descs) rows ->
  Forall (Forall (fun k => match k with Some a => item_fmt f64 f32 a | None => True end)) rows ->
  Permutation rows out -> Sorted (rows_le descs) out ->
  forall i j k a b, (i < j < length out)%nat -> (k < length descs)%nat ->
    (forall m, (m < k)%nat ->
       key_cmp order_by (nth m (nth i out []) None) (nth m (nth j out []) None) = Eq) ->
    nth k (nth i out []) None = Some a -> nth k (nth j out []) None = Some b ->
    (if nth k descs false then lt_sparql c64 c32 a b else lt_sparql c64 c32 b a) <> Some true).

(* the comparator of the original tree is not transitive, whatever the conversions are *)
Check (order_not_transitive_prefix : forall c64 c32, exists a b d,
  item_ok a /\ item_ok b /\ item_ok d /\
  order_by_prefix c64 c32 a b = Lt /\ order_by_prefix c64 c32 b d = Lt /\
  order_by_prefix c64 c32 a d = Gt).
Check (order_not_transitive_prefix_illtyped : forall c64 c32,
  order_by_prefix c64 c32 w_int10 w_bad = Lt /\ order_by_prefix c64 c32 w_bad w_int9 = Lt /\
  order_by_prefix c64 c32 w_int10 w_int9 = Gt).
Check (order_not_transitive_prefix_datetime : forall c64 c32,
  order_by_prefix c64 c32 w_t1 w_t2 = Lt /\ order_by_prefix c64 c32 w_t2 w_n = Lt /\
  order_by_prefix c64 c32 w_t1 w_n = Gt).
Check (order_equal_not_transitive_prefix_rounding :
  order_by_prefix c64_rne c32_rne w_2p53p1 w_2p53d = Eq /\
  order_by_prefix c64_rne c32_rne w_2p53d w_2p53 = Eq /\
  order_by_prefix c64_rne c32_rne w_2p53p1 w_2p53 = Gt).

(* ---------- end-to-end queries (harness kinds q:..): the operator '<' of expressions, equal values
   written differently, computed integer keys, windows ---------- *)
(* '<' as FILTER / BIND evaluate it (sparql_compare: two numbers are never an error) is true exactly when
   the relation lt_sparql of the theorems above is, so every sorted output respects it *)
Check (sparql_compare_lt_iff : forall c64 c32 a b,
  sparql_compare c64 c32 is_lt a b = Some true <-> lt_sparql c64 c32 a b = Some true).
Check (order_by_respects_compare : forall c64 c32 f64 f32 a b,
  conv_ok c64 f64 -> conv_ok c32 f32 ->
  item_ok a -> item_ok b -> item_fmt f64 f32 a -> item_fmt f64 f32 b ->
  sparql_compare c64 c32 is_lt a b = Some true -> order_by a b = Lt).
Check (sparql_compare_numbers_total : forall c64 c32 pred a b x y,
  val a = Some (VNum x) -> val b = Some (VNum y) -> sparql_compare c64 c32 pred a b <> None).
Check (lt_entry_ok_true : forall k1 k2, lt_entry_ok k1 k2 1 = true -> key_cmp order_by k1 k2 = Lt).
(* two literals whose values are equal (1 / 1.0 / 1e0, one instant in two time zones, true / "1") are
   tied whatever their spelling, and the next criterion decides *)
Check (order_by_value_tie : forall a b x y,
  val a = Some x -> val b = Some y -> is_literal (tm a) = true -> is_literal (tm b) = true ->
  value_order_by_cmp x y = Some Eq -> order_by a b = Eq).
Check (equal_values_defer_to_next_key : forall d ds a b t1 t2 x y,
  val a = Some x -> val b = Some y -> is_literal (tm a) = true -> is_literal (tm b) = true ->
  value_order_by_cmp x y = Some Eq ->
  cmp_bindings_with order_by (d :: ds) (Some a :: t1) (Some b :: t2) = cmp_bindings_with order_by ds t1 t2).
Check equal_values_witnesses.
(* integer arithmetic of the engine: exact, results of operations on a BigInt are not normalised, and
   ORDER BY sorts computed integers by value whatever their representation *)
Check (int_arith_value : forall o a b r, int_arith o a b = Some r ->
  exists x y, int_val a = Some x /\ (o = ONeg \/ int_val b = Some y) /\ int_val r = Some (z_op o x y)).
Check (int_arith_native_fits : forall o x y z,
  int_arith o (NativeInt x) (NativeInt y) = Some (NativeInt z) -> fits_isize z = true).
Check int_arith_not_normalised.
Check (computed_int_keys_order : forall a b n1 n2 x y,
  val a = Some (VNum n1) -> val b = Some (VNum n2) ->
  is_literal (tm a) = true -> is_literal (tm b) = true ->
  int_val n1 = Some x -> int_val n2 = Some y -> order_by a b = Z.compare x y).
Check (order_by_int_repr_indep : forall t z b,
  order_by (mkItem t (Some (VNum (BigInt z)))) b = order_by (mkItem t (Some (VNum (NativeInt z)))) b
  /\ order_by b (mkItem t (Some (VNum (BigInt z)))) = order_by b (mkItem t (Some (VNum (NativeInt z))))).
Check (cancelling_sums_sorted_by_value : forall a b ra rb h1 h2 d1 d2,
  int_arith OAdd (BigInt h1) (NativeInt (d1 - h1)) = Some ra ->
  int_arith OAdd (NativeInt d2) (NativeInt h2) = Some rb ->
  val a = Some (VNum ra) -> val b = Some (VNum rb) ->
  is_literal (tm a) = true -> is_literal (tm b) = true ->
  order_by a b = Z.compare d1 (d2 + h2)).
(* LIMIT / OFFSET above ORDER BY (exec.rs slice) and the removal of solutions (DISTINCT) keep the order *)
Check (window_sorted : forall descs start len rs,
  sorted_ok descs rs = true -> sorted_ok descs (window start len rs) = true).
Check (window_of_sorted_result : forall descs rows full start len,
  rows_ok descs rows full = true -> sorted_ok descs (rows_at rows (window start len full)) = true).
Check (@window_length : forall (A : Type) start len (l : list A),
  List.length (window start len l) =
  let rest := (List.length l - N.to_nat start)%nat in
  match len with Some n => Nat.min (N.to_nat n) rest | None => rest end).
Check (filter_sorted : forall descs (keep : row -> bool) rs,
  sorted_ok descs rs = true -> sorted_ok descs (filter keep rs) = true).

(* non-vacuity *)
Check order_by_on_witnesses.
Check hypotheses_inhabited.

Print Assumptions order_by_preorder.
Print Assumptions order_by_antisym.
Print Assumptions order_by_le_trans.
Print Assumptions order_by_lt_trans.
Print Assumptions order_by_eq_congruence.
Print Assumptions rank_order.
Print Assumptions rank_values.
Print Assumptions order_by_refines_cmp.
Print Assumptions order_by_respects_lt.
Print Assumptions desc_is_reversal.
Print Assumptions later_keys_break_ties.
Print Assumptions cmp_bindings_preorder.
Print Assumptions cmp_bindings_order_by_preorder.
Print Assumptions sorted_permutation_exists.
Print Assumptions sorted_output_has_no_inversion.
Print Assumptions sorted_output_respects_lt.
Print Assumptions sorted_output_key_order.
Print Assumptions sorted_output_respects_lt_at_key.
Print Assumptions order_not_transitive_prefix.
Print Assumptions order_not_transitive_prefix_illtyped.
Print Assumptions order_not_transitive_prefix_datetime.
Print Assumptions order_equal_not_transitive_prefix_rounding.
Print Assumptions order_by_on_witnesses.
Print Assumptions hypotheses_inhabited.
Print Assumptions sparql_compare_lt_iff.
Print Assumptions order_by_respects_compare.
Print Assumptions sparql_compare_numbers_total.
Print Assumptions lt_entry_ok_true.
Print Assumptions order_by_value_tie.
Print Assumptions equal_values_defer_to_next_key.
Print Assumptions equal_values_witnesses.
Print Assumptions int_arith_value.
Print Assumptions int_arith_native_fits.
Print Assumptions int_arith_not_normalised.
Print Assumptions computed_int_keys_order.
Print Assumptions order_by_int_repr_indep.
Print Assumptions cancelling_sums_sorted_by_value.
Print Assumptions window_sorted.
Print Assumptions window_of_sorted_result.
Print Assumptions window_length.
Print Assumptions filter_sorted.
