#!/bin/bash
# usage: confirm_batch.sh <worktree-tag> <seed-tag>...   e.g. confirm_batch.sh r2c03 r2c03 r2c03b r2c03c
# runs lib/confirm_seed.sh for each seed dir /tmp/seed-<seed-tag> in worktree /tmp/wt-<worktree-tag>,
# reading the test path and crate from the first line of demo_test.rs
wt=$1; shift
for s in "$@"; do
  sd=/tmp/seed-$s
  [ -f $sd/demo_test.rs ] || { echo "== $s: no demo_test.rs"; continue; }
  line=$(head -1 $sd/demo_test.rs)
  tp=$(echo "$line" | sed -E 's/.*Place this file at: *([^ ]+).*/\1/')
  crate=$(echo "$line" | sed -E 's/.*\(crate ([A-Za-z0-9_]+).*/\1/')
  feat=""
  grep -q 'cfg(feature = "jsonld")' $sd/demo_test.rs && feat="jsonld"
  f2=$(sed -n '1,3p' $sd/demo_test.rs | sed -nE 's|^// features: *([A-Za-z0-9_, -]+).*|\1|p' | head -1)
  [ -n "$f2" ] && feat="$f2"
  echo "== $s ($crate $tp $feat)"
  FEATURES=$feat /verif/lib/confirm_seed.sh $sd /tmp/wt-$wt $crate $tp
done
