(* C14/DirectedProofs.v -- proofs about Directed.v:
   - the value of a criterion only depends on the bindings of [expr_vars] (BOUND's variable included);
   - hence dropping, before the sort, variables that no criterion reads commutes with the sort
     ([prune_before_sort_sound]), and NOT counting the variable of BOUND does not ([prune_bound_variable_refuted]);
   - ORDER BY ties two dateTimes only when they are the same position to the nanosecond, and no coarser grain
     respects '<' ([coarse_timeline_refuted]). *)
From Coq Require Import QArith.
From Sophia.C14 Require Import Model Proofs Context Directed.
Close Scope Q_scope.
Open Scope N_scope.

(* ================= 1. criteria and the variables they read ================= *)
Lemma agree_incl V W b b' : agree V b b' -> incl W V -> agree W b b'.
Proof. intros A I v Hv. apply A, I, Hv. Qed.

Lemma bind_node_agree V n i b b' : agree V b b' -> incl (node_vars n) V ->
  match bind_node n i b, bind_node n i b' with
  | Some x, Some x' => agree V x x'
  | None, None => True
  | _, _ => False
  end.
Proof.
  intros A I. destruct n as [v|t]; simpl.
  - rewrite <- (A v) by (apply I; simpl; auto).
    destruct (lookup b v) as [j|].
    + destruct (term_eqb (tm j) (tm i)); auto.
    + intros w Hw. simpl. destruct (N.eqb w v); auto.
  - destruct (term_eqb t (tm i)); auto.
Qed.

Lemma match_tp_agree V gm p q b b' : agree V b b' -> incl (tpat_vars p) V ->
  match match_tp gm b p q, match_tp gm b' p q with
  | Some x, Some x' => agree V x x'
  | None, None => True
  | _, _ => False
  end.
Proof.
  intros A I. unfold match_tp. destruct (in_matcher gm (qg q)); auto.
  assert (I1 : incl (node_vars (tps p)) V).
  { intros v Hv. apply I. unfold tpat_vars. apply in_or_app. auto. }
  assert (I2 : incl (node_vars (tpp p)) V).
  { intros v Hv. apply I. unfold tpat_vars. apply in_or_app. right. apply in_or_app. auto. }
  assert (I3 : incl (node_vars (tpo p)) V).
  { intros v Hv. apply I. unfold tpat_vars. apply in_or_app. right. apply in_or_app. auto. }
  pose proof (bind_node_agree V (tps p) (mkItem (qs q) None) b b' A I1) as H1.
  destruct (bind_node (tps p) (mkItem (qs q) None) b) as [b1|],
           (bind_node (tps p) (mkItem (qs q) None) b') as [b1'|]; try contradiction; auto.
  pose proof (bind_node_agree V (tpp p) (mkItem (qp q) None) b1 b1' H1 I2) as H2.
  destruct (bind_node (tpp p) (mkItem (qp q) None) b1) as [b2|],
           (bind_node (tpp p) (mkItem (qp q) None) b1') as [b2'|]; try contradiction; auto.
  apply bind_node_agree; auto.
Qed.

Lemma exists_in_existsb ds gm b p :
  exists_in ds gm b p
  = existsb (fun q => match match_tp gm b p q with Some _ => true | None => false end) ds.
Proof.
  unfold exists_in. simpl. induction ds as [|q ds IH]; simpl; auto.
  destruct (match_tp gm b p q); simpl; auto.
Qed.

Lemma exists_in_agree V ds gm p b b' : agree V b b' -> incl (tpat_vars p) V ->
  exists_in ds gm b p = exists_in ds gm b' p.
Proof.
  intros A I. rewrite !exists_in_existsb. induction ds as [|q ds IH]; simpl; auto.
  rewrite IH. f_equal. pose proof (match_tp_agree V gm p q b b' A I) as H.
  destruct (match_tp gm b p q), (match_tp gm b' p q); try contradiction; auto.
Qed.

Lemma eval_exists_agree V ds gm g p b b' : agree V b b' -> incl (gspec_vars g ++ tpat_vars p) V ->
  eval_exists ds gm b g p = eval_exists ds gm b' g p.
Proof.
  intros A I.
  assert (Ip : incl (tpat_vars p) V) by (intros v Hv; apply I, in_or_app; auto).
  destruct g as [|t|v]; simpl.
  - apply (exists_in_agree V); auto.
  - f_equal. apply (exists_in_agree V); auto.
  - rewrite <- (A v) by (apply I; simpl; auto).
    destruct (lookup b v) as [i|].
    + f_equal. apply (exists_in_agree V); auto.
    + induction (graph_names ds) as [|t l IH]; simpl; auto.
      rewrite IH. f_equal. apply (exists_in_agree V); auto.
Qed.

(* the value of an expression only depends on the bindings of the variables it reads *)
Theorem eval_expr_agree ds gm e : forall b b',
  agree (expr_vars e) b b' -> eval_expr ds gm b e = eval_expr ds gm b' e.
Proof.
  induction e as [v|i|g p|v|a IHa|a IHa c IHc|c IHc t IHt f IHf]; intros b b' A; simpl.
  - apply A. simpl. auto.
  - reflexivity.
  - do 2 f_equal. apply (eval_exists_agree (expr_vars (EExists g p))); auto. apply incl_refl.
  - rewrite (A v) by (simpl; auto). reflexivity.
  - rewrite (IHa b b' A). reflexivity.
  - simpl in A.
    rewrite (IHa b b') by (eapply agree_incl; [exact A | apply incl_appl, incl_refl]).
    rewrite (IHc b b') by (eapply agree_incl; [exact A | apply incl_appr, incl_refl]).
    reflexivity.
  - simpl in A.
    rewrite (IHc b b') by (eapply agree_incl; [exact A | apply incl_appl, incl_refl]).
    rewrite (IHt b b') by (eapply agree_incl; [exact A | apply incl_appr, incl_appl, incl_refl]).
    rewrite (IHf b b') by (eapply agree_incl; [exact A | apply incl_appr, incl_appr, incl_refl]).
    reflexivity.
Qed.

Lemma lookup_project_to keep v : existsb (N.eqb v) keep = true ->
  forall b, lookup (project_to keep b) v = lookup b v.
Proof.
  intros K. induction b as [|[w i] b IH]; simpl; auto.
  destruct (existsb (N.eqb w) keep) eqn:E; simpl.
  - rewrite IH. reflexivity.
  - destruct (N.eqb v w) eqn:Evw; auto.
    apply N.eqb_eq in Evw. subst w. congruence.
Qed.

Lemma covers_spec keep vs : covers keep vs = true -> forall v, In v vs -> existsb (N.eqb v) keep = true.
Proof. unfold covers. rewrite forallb_forall. auto. Qed.

Lemma project_agree keep V b : covers keep V = true -> agree V (project_to keep b) b.
Proof. intros C v Hv. apply lookup_project_to. eapply covers_spec; eauto. Qed.

(* a criterion has the same value on a solution and on what is left of it, provided every variable it reads is kept *)
Theorem eval_expr_project ds gm keep e b : covers keep (expr_vars e) = true ->
  eval_expr ds gm (project_to keep b) e = eval_expr ds gm b e.
Proof. intros C. apply eval_expr_agree. apply project_agree. exact C. Qed.

Lemma covers_keys keep keys : covers keep (keys_vars keys) = true ->
  forall k, In k keys -> covers keep (expr_vars (fst k)) = true.
Proof.
  intros C k Hk. unfold covers in *. rewrite forallb_forall in *. intros v Hv. apply C.
  unfold keys_vars. apply in_flat_map. exists k. auto.
Qed.

Theorem keys_of_project ds gm keep keys b : covers keep (keys_vars keys) = true ->
  keys_of ds gm keys (project_to keep b) = keys_of ds gm keys b.
Proof.
  intros C. unfold keys_of. apply map_ext_in. intros k Hk.
  apply eval_expr_project. eapply covers_keys; eauto.
Qed.

Theorem cmp_sol_project ds gm keep keys b1 b2 : covers keep (keys_vars keys) = true ->
  cmp_sol ds gm keys (project_to keep b1) (project_to keep b2) = cmp_sol ds gm keys b1 b2.
Proof. intros C. unfold cmp_sol. rewrite !keys_of_project by exact C. reflexivity. Qed.

Lemma insert_map {A B} (f : A -> B) (c : B -> B -> comparison) (c' : A -> A -> comparison) :
  (forall a b, c (f a) (f b) = c' a b) ->
  forall x l, insert c (f x) (map f l) = map f (insert c' x l).
Proof.
  intros H x. induction l as [|y l IH]; simpl; auto.
  unfold leb_of. rewrite H. destruct (c' x y); simpl; try rewrite IH; reflexivity.
Qed.

Lemma isort_map {A B} (f : A -> B) (c : B -> B -> comparison) (c' : A -> A -> comparison) :
  (forall a b, c (f a) (f b) = c' a b) ->
  forall l, isort c (map f l) = map f (isort c' l).
Proof.
  intros H. induction l as [|x l IH]; simpl; auto.
  rewrite IH. apply insert_map. exact H.
Qed.

(* dropping before the sort the variables that neither the SELECT clause nor any criterion reads is harmless *)
Theorem prune_before_sort_sound ds gm keys keep l : covers keep (keys_vars keys) = true ->
  prune_then_sort ds gm keys keep l = sort_then_prune ds gm keys keep l.
Proof.
  intros C. unfold prune_then_sort, sort_then_prune. apply isort_map.
  intros a b. apply cmp_sol_project. exact C.
Qed.

(* ... but the variable of BOUND is read: ORDER BY DESC(BOUND(?1)) with only ?0 kept *)
Definition w_str (c : N) : item := mkItem (LitDt [c] (xsd_ns ++ [115;116;114;105;110;103])) (Some (VStr [c] None)).
Definition w_keys : list (expr * bool) := [(EBound 1, true)].
Definition w_sols : list binding := [ [(0, w_str 97)]; [(1, w_str 110); (0, w_str 98)] ].

Theorem prune_bound_variable_refuted :
  covers [0] (flat_map (fun k => value_vars (fst k)) w_keys) = true
  /\ map (map fst) (sort_then_prune [] default_matcher w_keys [0] w_sols) = [[0]; [0]]
  /\ map (fun b => option_map tm (lookup b 0)) (sort_then_prune [] default_matcher w_keys [0] w_sols)
     = [Some (tm (w_str 98)); Some (tm (w_str 97))]
  /\ map (fun b => option_map tm (lookup b 0)) (prune_then_sort [] default_matcher w_keys [0] w_sols)
     = [Some (tm (w_str 97)); Some (tm (w_str 98))].
Proof. repeat split; vm_compute; reflexivity. Qed.

(* ================= 2. the grain of the timeline ================= *)
Lemma then_cmp_eq c d : then_cmp c d = Eq -> c = Eq /\ d = Eq.
Proof. destruct c; simpl; intros H; try discriminate; auto. Qed.

(* ORDER BY ties two dateTimes only when they are the same position, to the nanosecond *)
Theorem timeline_cmp_eq a b : timeline_cmp a b = Eq <-> dt_position a = dt_position b.
Proof.
  unfold timeline_cmp, inst_cmp. destruct (dt_position a) as [s1 n1], (dt_position b) as [s2 n2]. simpl. split.
  - intros H. apply then_cmp_eq in H. destruct H as [Hs Hn].
    apply Z.compare_eq in Hs. apply N.compare_eq in Hn. congruence.
  - intros H. inversion H; subst. rewrite Z.compare_refl, N.compare_refl. reflexivity.
Qed.

Theorem date_keys_tied_only_when_same_position a b :
  value_order_by_cmp (VDate (Some a)) (VDate (Some b)) = Some Eq -> dt_position a = dt_position b.
Proof. simpl. intros H. apply timeline_cmp_eq. congruence. Qed.

Theorem coarse_timeline_unit_1 a b : coarse_timeline_cmp 1 a b = timeline_cmp a b.
Proof. unfold coarse_timeline_cmp, timeline_cmp. rewrite !N.div_1_r. reflexivity. Qed.

(* whatever the grain, a coarser timeline is still a total preorder; it just does not respect '<' *)
Theorem coarse_timeline_refuted unit : 1 < unit ->
  exists a b, dt_partial_cmp a b = Some Lt /\ coarse_timeline_cmp unit a b = Eq.
Proof.
  intros H. exists (Timezoned 0 0), (Timezoned 0 1). split; [reflexivity|].
  unfold coarse_timeline_cmp. simpl. rewrite N.div_0_l by lia. rewrite N.div_small by lia. reflexivity.
Qed.

(* the witness of the harness: 12:00:00.2503Z and 12:00:00.2507Z with a grain of one millisecond *)
Example coarse_timeline_ms :
  dt_partial_cmp (Timezoned 1714564800 250300000) (Timezoned 1714564800 250700000) = Some Lt
  /\ timeline_cmp (Timezoned 1714564800 250300000) (Timezoned 1714564800 250700000) = Lt
  /\ coarse_timeline_cmp 1000000 (Timezoned 1714564800 250300000) (Timezoned 1714564800 250700000) = Eq.
Proof. repeat split. Qed.
