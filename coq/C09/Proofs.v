(* C09/Proofs.v -- consequences of the two equivalence theorems for the validators of sophia_iri,
   facts about the RFC 3986 5.2 specification, and the recorded defects. *)
From Sophia.Common Require Import Prelude.
From Sophia.C09 Require Import Regex Rfc3987 Resolve Model PreFix.
From Sophia.C09 Require Lang EquivIri EquivIrel Classify.

(* ---------- part (1): validation = RFC 3987 ---------- *)
Theorem is_absolute_iri_ref_spec : forall s, is_absolute_iri_ref s = matchb IRI s.
Proof. exact EquivIri.iri_regex_is_rfc3987. Qed.

Theorem is_relative_iri_ref_spec : forall s, is_relative_iri_ref s = matchb irelative_ref s.
Proof. exact EquivIrel.irel_regex_is_rfc3987. Qed.

Theorem is_valid_iri_ref_spec : forall s, is_valid_iri_ref s = matchb IRI_reference s.
Proof.
  intro s. unfold is_valid_iri_ref, IRI_reference. rewrite Lang.matchb_alt.
  rewrite EquivIri.iri_regex_is_rfc3987, EquivIrel.irel_regex_is_rfc3987. reflexivity.
Qed.

Theorem iri_new_spec : forall s, iri_new_ok s = matchb IRI s.
Proof. exact is_absolute_iri_ref_spec. Qed.
Theorem iriref_new_spec : forall s, iriref_new_ok s = matchb IRI_reference s.
Proof. exact is_valid_iri_ref_spec. Qed.

Theorem namespace_get_spec : forall ns suffix,
  namespace_get_ok ns suffix = matchb IRI_reference ns && matchb IRI_reference (ns ++ suffix).
Proof.
  intros. unfold namespace_get_ok, is_valid_suffixed_iri_ref. rewrite !is_valid_iri_ref_spec. reflexivity.
Qed.

(* the same with the denotation of the grammar in the model of languages over code points *)
Theorem is_absolute_iri_ref_lang : forall s, is_absolute_iri_ref s = true <-> Lang.langc IRI s.
Proof. intro s. rewrite is_absolute_iri_ref_spec. apply Lang.matchb_spec. Qed.
Theorem is_relative_iri_ref_lang : forall s, is_relative_iri_ref s = true <-> Lang.langc irelative_ref s.
Proof. intro s. rewrite is_relative_iri_ref_spec. apply Lang.matchb_spec. Qed.

(* classification: an accepted reference is absolute or relative, never both *)
Theorem absolute_relative_exclusive : forall s,
  is_absolute_iri_ref s = true -> is_relative_iri_ref s = false.
Proof.
  intros s H. rewrite is_absolute_iri_ref_spec in H. rewrite is_relative_iri_ref_spec.
  apply Classify.iri_irelative_ref_disjoint. exact H.
Qed.
Theorem valid_iff_absolute_xor_relative : forall s,
  is_valid_iri_ref s = xorb (is_absolute_iri_ref s) (is_relative_iri_ref s).
Proof.
  intro s. unfold is_valid_iri_ref. fold (is_absolute_iri_ref s). fold (is_relative_iri_ref s).
  destruct (is_absolute_iri_ref s) eqn:E; [|destruct (is_relative_iri_ref s); reflexivity].
  rewrite (absolute_relative_exclusive s E). reflexivity.
Qed.

(* everything of part (1) in one statement (one Print Assumptions walks the two big `ka` proofs once) *)
Theorem validation_is_rfc3987 :
  (forall w, matchb iri_regex w = matchb IRI w) /\
  (forall w, matchb irelative_ref_regex w = matchb irelative_ref w) /\
  (forall s, is_absolute_iri_ref s = matchb IRI s) /\
  (forall s, is_relative_iri_ref s = matchb irelative_ref s) /\
  (forall s, is_valid_iri_ref s = matchb IRI_reference s) /\
  (forall s, iri_new_ok s = matchb IRI s) /\
  (forall s, iriref_new_ok s = matchb IRI_reference s) /\
  (forall ns suffix, namespace_get_ok ns suffix = matchb IRI_reference ns && matchb IRI_reference (ns ++ suffix)) /\
  (forall s, is_absolute_iri_ref s = true <-> Lang.langc IRI s) /\
  (forall s, is_relative_iri_ref s = true <-> Lang.langc irelative_ref s) /\
  (forall w, matchb IRI w = true -> matchb irelative_ref w = false) /\
  (forall s, is_absolute_iri_ref s = true -> is_relative_iri_ref s = false) /\
  (forall s, is_valid_iri_ref s = xorb (is_absolute_iri_ref s) (is_relative_iri_ref s)).
Proof.
  repeat split.
  - exact EquivIri.iri_regex_is_rfc3987.
  - exact EquivIrel.irel_regex_is_rfc3987.
  - exact is_absolute_iri_ref_spec.
  - exact is_relative_iri_ref_spec.
  - exact is_valid_iri_ref_spec.
  - exact iri_new_spec.
  - exact iriref_new_spec.
  - exact namespace_get_spec.
  - apply is_absolute_iri_ref_lang.
  - apply is_absolute_iri_ref_lang.
  - apply is_relative_iri_ref_lang.
  - apply is_relative_iri_ref_lang.
  - exact Classify.iri_irelative_ref_disjoint.
  - exact absolute_relative_exclusive.
  - exact valid_iff_absolute_xor_relative.
Qed.

(* ---------- the pre-fix regexes (frozen copy) are NOT the grammar ---------- *)
Definition s_valid_rejected : str :=    (* "http://[1:2::3]/" *)
  [104;116;116;112;58;47;47;91;49;58;50;58;58;51;93;47].
Definition s_invalid_accepted : str :=  (* "http://[:1::2:3:4:5:6]/" *)
  [104;116;116;112;58;47;47;91;58;49;58;58;50;58;51;58;52;58;53;58;54;93;47].
Definition s_port_junk : str :=         (* "s://a:b/" *)
  [115;58;47;47;97;58;98;47].
Definition s_upper_v : str :=           (* "http://[V1.x]/" *)
  [104;116;116;112;58;47;47;91;86;49;46;120;93;47].
Definition s_ka_word : str :=           (* "a://a@a@", the word printed by `ka` *)
  [97;58;47;47;97;64;97;64].

Example prefix_iri_refuted :
  (matchb PreFix.iri_regex s_valid_rejected = false /\ matchb IRI s_valid_rejected = true) /\
  (matchb PreFix.iri_regex s_invalid_accepted = true /\ matchb IRI s_invalid_accepted = false) /\
  (matchb PreFix.iri_regex s_port_junk = true /\ matchb IRI s_port_junk = false) /\
  (matchb PreFix.iri_regex s_upper_v = false /\ matchb IRI s_upper_v = true) /\
  (matchb PreFix.iri_regex s_ka_word = true /\ matchb IRI s_ka_word = false).
Proof. vm_compute. repeat split; reflexivity. Qed.

Example prefix_irel_refuted :
  exists w, matchb PreFix.irelative_ref_regex w = true /\ matchb irelative_ref w = false.
Proof. exists [47;47;97;64;97;64]. vm_compute. split; reflexivity. Qed.   (* "//a@a@" *)

(* ---------- parts (2)/(3): resolution ---------- *)
Definition str_s_slash_a : str := [115;58;47;97].              (* "s:/a" *)
Definition str_ref_amb : str := [47;46;47;47;120].             (* "/.//x" *)
Definition str_ref_port : str := [47;46;47;47;104;58;120;47].  (* "/.//h:x/" *)
Definition str_base_http : str := [104;116;116;112;58;47;47;97;47;98;47;99].   (* "http://a/b/c" *)
Definition str_ref_abs_dots : str := [104;116;116;112;58;47;47;97;47;98;47;46;46;47;99].  (* "http://a/b/../c" *)
Definition str_z_root : str := [122;58;47].                    (* "z:/" *)
Definition str_dotdot_slash : str := [46;46;47].               (* "../" *)

(* (3) with the checked entry point an accepted reference against an accepted base can make the
   resolver fail, and sophia unwraps the error *)
Example resolve_panics_refuted :
  matchb IRI str_s_slash_a = true /\ matchb IRI_reference str_ref_amb = true /\
  resolve_gen true str_s_slash_a str_ref_amb = None.
Proof. vm_compute. repeat split; reflexivity. Qed.

(* (3) with the unchecked entry point resolution cannot fail, whatever the base and the reference *)
Lemma ox_path_unchecked_total has_auth : forall inp p, ox_path false has_auth p inp <> None.
Proof.
  induction inp as [|c rest IH]; intro p; cbn [ox_path].
  - destruct (ox_close has_auth p false). cbn [andb]. discriminate.
  - destruct (N.eqb c k_slash).
    + destruct (ox_close has_auth p true). cbn [andb]. apply IH.
    + destruct (N.eqb c k_qmark || N.eqb c k_hash).
      * destruct (ox_close has_auth p false). cbn [andb]. discriminate.
      * apply IH.
Qed.
Theorem resolve_unchecked_total : forall base ref, resolve_gen false base ref <> None.
Proof.
  intros base ref. unfold resolve_gen.
  destruct (p_scheme (parse5 ref)); [discriminate|].
  destruct ref as [|c rest]; [discriminate|].
  set (ha := match p_authority (parse5 base) with Some _ => true | None => false end).
  destruct (N.eqb c k_slash).
  - destruct rest as [|d rest'].
    + pose proof (ox_path_unchecked_total ha [] [k_slash]) as H.
      destruct (ox_path false ha [k_slash] []) as [[p t]|]; [discriminate | congruence].
    + destruct (N.eqb d k_slash); [discriminate|].
      pose proof (ox_path_unchecked_total ha (d :: rest') [k_slash]) as H.
      destruct (ox_path false ha [k_slash] (d :: rest')) as [[p t]|]; [discriminate | congruence].
  - destruct (N.eqb c k_qmark); [discriminate|]. destruct (N.eqb c k_hash); [discriminate|].
    pose proof (ox_path_unchecked_total ha (c :: rest) (ox_remove_last ha (p_path (parse5 base)))) as H.
    destruct (ox_path false ha (ox_remove_last ha (p_path (parse5 base))) (c :: rest)) as [[p t]|]; [discriminate | congruence].
Qed.
Corollary resolve_impl_total : typed_resolve_is_checked = false -> forall base ref, resolve_impl base ref <> None.
Proof. intros H base ref. unfold resolve_impl. rewrite H. apply resolve_unchecked_total. Qed.

(* (2) the resolver is not the algorithm of RFC 3986 5.2 ... *)
Example resolve_keeps_dots_refuted :      (* reference with a scheme: dot segments are kept *)
  matchb IRI str_base_http = true /\ matchb IRI_reference str_ref_abs_dots = true /\
  (forall chk, resolve_gen chk str_base_http str_ref_abs_dots = Some str_ref_abs_dots) /\
  resolve str_base_http str_ref_abs_dots = [104;116;116;112;58;47;47;97;47;99].   (* "http://a/c" *)
Proof. repeat split; try (intros []); vm_compute; reflexivity. Qed.
Example resolve_above_root_refuted :      (* ".." above the root of a base without authority *)
  matchb IRI str_z_root = true /\ matchb IRI_reference str_dotdot_slash = true /\
  (forall chk, resolve_gen chk str_z_root str_dotdot_slash = Some [122;58]) /\       (* "z:" *)
  resolve str_z_root str_dotdot_slash = [122;58;47].                 (* "z:/" *)
Proof. repeat split; try (intros []); vm_compute; reflexivity. Qed.
(* ... and the letter of 5.2 itself does not preserve validity (a path becomes an authority) *)
Example rfc_resolution_not_closed :
  matchb IRI str_s_slash_a = true /\ matchb IRI_reference str_ref_port = true /\
  matchb IRI (resolve str_s_slash_a str_ref_port) = false /\
  ambiguous_result str_s_slash_a str_ref_port = true.
Proof. vm_compute. repeat split; reflexivity. Qed.

(* ---------- the specification loses nothing: splitting and recomposing is the identity ---------- *)
Lemma split_first_app p s : forall a b, split_first p s = (a, b) ->
  s = a ++ match b with Some (c, r) => c :: r | None => [] end.
Proof.
  induction s as [|x s IH]; simpl; intros a b H.
  - injection H as <- <-. reflexivity.
  - destruct (p x).
    + injection H as <- <-. reflexivity.
    + destruct (split_first p s) as [a' b'] eqn:E. injection H as <- <-.
      simpl. f_equal. apply IH. reflexivity.
Qed.
Lemma split_first_char p s a c r : split_first p s = (a, Some (c, r)) -> p c = true.
Proof.
  revert a. induction s as [|x s IH]; simpl; intros a H; [discriminate|].
  destruct (p x) eqn:E.
  - injection H as <- <- <-. exact E.
  - destruct (split_first p s) as [a' b'] eqn:E'. injection H as <- ->. eapply IH. reflexivity.
Qed.

Theorem recompose_parse5 : forall s, recompose (parse5 s) = s.
Proof.
  intro s. unfold parse5.
  destruct (split_first (N.eqb k_hash) s) as [s1 f] eqn:Ef.
  destruct (split_first (N.eqb k_qmark) s1) as [s2 q] eqn:Eq.
  destruct (split_first (fun c => N.eqb c k_colon || N.eqb c k_slash) s2) as [pre d] eqn:Ed.
  pose proof (split_first_app _ _ _ _ Ef) as Hs. pose proof (split_first_app _ _ _ _ Eq) as Hs1.
  pose proof (split_first_app _ _ _ _ Ed) as Hs2.
  (* the scheme/rest pair always recomposes to s2 *)
  set (sr := match d with
             | Some (c, after) => if N.eqb c k_colon && negb (match pre with [] => true | _ => false end)
                                  then (Some pre, after) else (None, s2)
             | None => (None, s2) end).
  assert (Hsr : (match fst sr with Some x => x ++ [k_colon] | None => [] end) ++ snd sr = s2).
  { unfold sr. destruct d as [[c after]|]; [|reflexivity].
    destruct (N.eqb c k_colon && negb (match pre with [] => true | _ => false end)) eqn:E; [|reflexivity].
    apply andb_true_iff in E. destruct E as [E _]. apply N.eqb_eq in E. subst c.
    simpl. rewrite Hs2. rewrite <- app_assoc. reflexivity. }
  destruct sr as [sch s3] eqn:Esr. simpl in Hsr.
  set (ap := match s3 with
             | a :: b :: r => if N.eqb a k_slash && N.eqb b k_slash
                 then let (au, rest) := split_first (N.eqb k_slash) r in
                      (Some au, match rest with Some (c, after) => c :: after | None => [] end)
                 else (None, s3)
             | _ => (None, s3) end).
  assert (Hap : (match fst ap with Some a => k_slash :: k_slash :: a | None => [] end) ++ snd ap = s3).
  { unfold ap. destruct s3 as [|a [|b r]]; try reflexivity.
    destruct (N.eqb a k_slash && N.eqb b k_slash) eqn:E; [|reflexivity].
    apply andb_true_iff in E. destruct E as [E1 E2]. apply N.eqb_eq in E1, E2. subst a b.
    destruct (split_first (N.eqb k_slash) r) as [au rest] eqn:Er.
    pose proof (split_first_app _ _ _ _ Er) as Hr. simpl. rewrite Hr. reflexivity. }
  destruct ap as [auth pth] eqn:Eap. simpl in Hap.
  unfold recompose. simpl.
  assert (Hq : match option_map snd q with Some q0 => k_qmark :: q0 | None => [] end =
               match q with Some (c, r) => c :: r | None => [] end).
  { destruct q as [[c r]|]; [|reflexivity]. simpl.
    pose proof (split_first_char _ _ _ _ _ Eq) as H. apply N.eqb_eq in H. subst c. reflexivity. }
  assert (Hf : match option_map snd f with Some f0 => k_hash :: f0 | None => [] end =
               match f with Some (c, r) => c :: r | None => [] end).
  { destruct f as [[c r]|]; [|reflexivity]. simpl.
    pose proof (split_first_char _ _ _ _ _ Ef) as H. apply N.eqb_eq in H. subst c. reflexivity. }
  rewrite Hq, Hf. clear Hq Hf Ef Eq Ed Esr Eap.
  rewrite Hs. rewrite Hs1. rewrite <- Hsr. rewrite <- Hap.
  rewrite <- !app_assoc. reflexivity.
Qed.

(* a reference that is only a fragment, only a query, or empty: the resolver returns exactly the
   result of RFC 3986 5.2 (no dot-segment removal is involved), for every base *)
Lemma parse5_query_ref rest :
  let (a, f) := split_first (N.eqb k_hash) rest in
  parse5 (k_qmark :: rest) = mk_parts None None [] (Some a) (option_map snd f).
Proof.
  destruct (split_first (N.eqb k_hash) rest) as [a f] eqn:E.
  unfold parse5. cbn [split_first]. change (N.eqb k_hash k_qmark) with false. cbv iota. rewrite E.
  cbn [split_first]. change (N.eqb k_qmark k_qmark) with true. cbv iota. cbn. reflexivity.
Qed.

Lemma parse5_frag_ref rest :
  parse5 (k_hash :: rest) = mk_parts None None [] None (Some rest).
Proof. unfold parse5. cbn [split_first]. change (N.eqb k_hash k_hash) with true. cbn. reflexivity. Qed.

Lemma parse5_empty : parse5 [] = mk_parts None None [] None None.
Proof. reflexivity. Qed.

Theorem resolve_impl_no_path_spec : forall base ref,
  match ref with [] => true | c :: _ => N.eqb c k_qmark || N.eqb c k_hash end = true ->
  resolve_impl base ref = Some (resolve base ref).
Proof.
  intros base ref H. destruct ref as [|c rest].
  - unfold resolve_impl. generalize typed_resolve_is_checked as chk. intro chk. unfold resolve_gen, resolve, transform. rewrite parse5_empty. cbn [p_scheme p_authority p_path p_query p_fragment].
    unfold recompose. cbn [p_scheme p_authority p_path p_query p_fragment].
    destruct (p_query (parse5 base)); rewrite ?app_nil_r, <- ?app_assoc; reflexivity.
  - apply orb_true_iff in H. destruct H as [H|H]; apply N.eqb_eq in H; subst c.
    + pose proof (parse5_query_ref rest) as P.
      destruct (split_first (N.eqb k_hash) rest) as [a f] eqn:E.
      unfold resolve_impl. generalize typed_resolve_is_checked as chk. intro chk. unfold resolve_gen, resolve, transform. rewrite P.
      cbn [p_scheme p_authority p_path p_query p_fragment].
      change (N.eqb k_qmark k_slash) with false. change (N.eqb k_qmark k_qmark) with true. cbv iota.
      unfold recompose. cbn [p_scheme p_authority p_path p_query p_fragment].
      f_equal. rewrite <- !app_assoc. f_equal. f_equal. f_equal.
      rewrite (split_first_app _ _ _ _ E). simpl. f_equal. f_equal.
      destruct f as [[d r]|]; [|reflexivity]. simpl.
      pose proof (split_first_char _ _ _ _ _ E) as Hd. apply N.eqb_eq in Hd. subst d. reflexivity.
    + unfold resolve_impl. generalize typed_resolve_is_checked as chk. intro chk. unfold resolve_gen, resolve, transform. rewrite parse5_frag_ref.
      cbn [p_scheme p_authority p_path p_query p_fragment].
      change (N.eqb k_hash k_slash) with false. change (N.eqb k_hash k_qmark) with false.
      change (N.eqb k_hash k_hash) with true. cbv iota.
      unfold recompose. cbn [p_scheme p_authority p_path p_query p_fragment].
      f_equal. rewrite <- !app_assoc. reflexivity.
Qed.

Corollary resolve_impl_no_path : forall base ref,
  match ref with [] => true | c :: _ => N.eqb c k_qmark || N.eqb c k_hash end = true ->
  resolve_impl base ref <> None.
Proof. intros base ref H. rewrite (resolve_impl_no_path_spec base ref H). discriminate. Qed.
