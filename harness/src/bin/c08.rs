//! C08: every parser on valid documents, single-edit mutants, dictionary splices, invalid UTF-8,
//! unusual IRIs and deep nesting: it must terminate with an error or with statements whose terms
//! all satisfy the toolkit's own validators; never panic / overflow the stack / abort.
//! (Exploration: the decisive content is run-time behaviour of third-party parsers.)
use sophia_api::parser::{QuadParser, TripleParser};
use sophia_api::prelude::*;
use sophia_api::term::{BnodeId, LanguageTag, SimpleTerm, VarName};
use sophia_iri::{Iri, IriRef};
use std::panic::{catch_unwind, AssertUnwindSafe};
use verif_harness::*;

#[derive(Clone, Copy, Debug, PartialEq)]
enum Fmt { Nt, Nq, Turtle, Trig, Gnq, Gtrig, Xml, JsonLd }
const FMTS: [Fmt; 8] = [Fmt::Nt, Fmt::Nq, Fmt::Turtle, Fmt::Trig, Fmt::Gnq, Fmt::Gtrig, Fmt::Xml, Fmt::JsonLd];
impl Fmt { fn generalized(self) -> bool { matches!(self, Fmt::Gnq | Fmt::Gtrig) } }

fn seeds(f: Fmt) -> Vec<&'static str> {
    match f {
        Fmt::Nt => vec!["<http://e/s> <http://e/p> \"lit\\u00e9\\n\"@en-US .\n_:b1.x <http://e/p> <http://[2001:db8::1]:80/o%20x?q#f> .\n<< <http://e/s> <http://e/p> \"x\" >> <http://e/q> \"1\"^^<http://www.w3.org/2001/XMLSchema#integer> .\n# c\n"],
        Fmt::Nq => vec!["<http://e/s> <http://e/p> \"l\"@fr <http://e/g> .\n_:a <http://e/p> _:b _:g .\n<http://e/s> <http://e/p> << _:a <http://e/p> \"x\"^^<http://e/dt> >> .\n"],
        Fmt::Turtle => vec!["@prefix : <http://e/ns#> .\n@base <http://e/base/> .\nPREFIX x: <http://x/>\n<s> a :C ; :p 1, 2.5, 1e3, true, \"s\"@en, 'q', \"\"\"long\n\"\"\", ( 1 ( 2 ) [ :q _:b ] ) ;\n  x:a\\.b [ :r <../o> ] .\n<< <s> :p :o >> :since 2002 .\n:s :p :o {| :src <x> |} .\n"],
        Fmt::Trig => vec!["@prefix : <http://e/ns#> .\n:g { :s :p :o , \"l\"@en ; :q ( :a :b ) . }\nGRAPH _:g { [] :p [ :q 1 ] }\n{ :s :p << :a :b :c >> }\n<http://e/s> <http://e/p> <http://e/o> .\n"],
        Fmt::Gnq => vec!["<http://e/s> <http://e/p> ?v <http://e/g> .\n\"lit\" _:p ?o ?g .\n<< ?s <http://e/p> \"x\"@en >> <rel> <<_:a _:b _:c>> .\n"],
        Fmt::Gtrig => vec!["@prefix : <http://e/ns#> .\n<#me> :knows _:alice {| :since 2002 |} .\n?g { ?s a :P ; :name ?n . \"lit\" :p [ ?q ( ?x 1 ) ] }\nPREFIX e: <rel/>\ne:a e:b << e:c ?p \"o\" >> .\n"],
        Fmt::Xml => vec!["<?xml version=\"1.0\"?>\n<rdf:RDF xmlns:rdf=\"http://www.w3.org/1999/02/22-rdf-syntax-ns#\" xmlns:e=\"http://e/ns#\" xml:base=\"http://e/base/\">\n <rdf:Description rdf:about=\"s\" e:attr=\"v\">\n  <e:p rdf:resource=\"o\"/>\n  <e:q xml:lang=\"en\">text &amp; more</e:q>\n  <e:r rdf:datatype=\"http://www.w3.org/2001/XMLSchema#integer\">1</e:r>\n  <e:s rdf:nodeID=\"b1\"/>\n  <e:t rdf:parseType=\"Resource\"><e:u>x</e:u></e:t>\n  <e:c rdf:parseType=\"Collection\"><rdf:Description rdf:about=\"a\"/><rdf:Description rdf:nodeID=\"b2\"/></e:c>\n  <e:l rdf:parseType=\"Literal\"><b>x</b></e:l>\n  <rdf:li>one</rdf:li>\n  <e:i rdf:ID=\"st1\">reified</e:i>\n </rdf:Description>\n <e:C rdf:ID=\"frag\"/>\n</rdf:RDF>\n"],
        Fmt::JsonLd => vec!["{\"@context\": {\"e\": \"http://e/ns#\", \"name\": {\"@id\": \"e:name\", \"@language\": \"en\"}, \"knows\": {\"@id\": \"e:knows\", \"@type\": \"@id\"}, \"l\": {\"@id\": \"e:l\", \"@container\": \"@list\"}},\n \"@id\": \"http://e/s\", \"@type\": \"e:C\", \"name\": \"n\", \"knows\": [\"http://e/o\", {\"@id\": \"_:b1\", \"e:p\": {\"@value\": \"1\", \"@type\": \"http://www.w3.org/2001/XMLSchema#integer\"}}],\n \"l\": [1, 2.5, true, [\"x\"]], \"@graph\": [{\"@id\": \"_:g\", \"e:q\": {\"@value\": \"v\", \"@language\": \"fr-BE\"}}], \"e:j\": {\"@value\": {\"a\": [1]}, \"@type\": \"@json\"}}"],
    }
}
fn dictionary(f: Fmt) -> Vec<&'static str> {
    let mut d = vec!["<", ">", "\"", "\\", "\\u", "\\U0010FFFF", "\\u0000", "%", "%zz", "#", "?", "_:", "_:.", "_:a..b", "@", "@en-", "@e1-", "^^", "\n", "\r", " ", "\u{0}", "\u{FFFE}", "\u{10FFFF}", "é", "\u{200D}", "@en-x-a", "@fr-u-co-phonebk", "@x-a-b", "@a-1", "@de-t-m0-und", "_:a.-b", "_:a.\u{b7}b", "_:a.\u{300}b", "_:a.\u{203f}b", "_:a-.b", "_:\u{37f}.\u{2040}", "http://[::1]/", "http://[1:2::3]/", "http://[v1.x]/", "http://a:b/", "s://a:b/", "//", "/..", "1e", ".", ":", "a:b"];
    match f {
        Fmt::Turtle | Fmt::Trig | Fmt::Gtrig => d.extend(["<<", ">>", "{|", "|}", "[", "]", "(", ")", "@prefix", "@base", "PREFIX", "BASE", "GRAPH", "{", "}", ";", ",", "a", "true", "'''", "\"\"\"", "+1.", "-.5", "1E+", "?v", "$v", ":\\~", ":%41", "p:", ":a\\%b", "\\%"]),
        Fmt::Gnq | Fmt::Nq | Fmt::Nt => d.extend(["<<", ">>", "?v", "$"]),
        Fmt::Xml => d.extend(["<!--", "-->", "<![CDATA[", "]]>", "&amp;", "&#0;", "&#xD;", "&unk;", "xmlns:rdf=\"x]y\"", "rdf:about=\"", "rdf:nodeID=\"1 x\"", "rdf:nodeID=\"b1.\"", "rdf:nodeID=\"a.\"", "xml:lang=\"!!\"", "rdf:parseType=\"Literal\"", "<rdf:li/>", "</", "/>", "<?pi?>", "<!DOCTYPE a [<!ENTITY e \"v\">]>", "rdf:ID=\"a b\"", "xml:base=\"::\""]),
        Fmt::JsonLd => d.extend(["{", "}", "[", "]", ":", ",", "null", "\"@id\"", "\"@type\"", "\"@list\"", "\"@set\"", "\"@graph\"", "\"@value\"", "\"@language\"", "\"@context\"", "\"@reverse\"", "\"@nest\"", "\"@vocab\"", "\"@base\"", "\"http://remote.example/ctx\"", "\"_:b\"", "\"!!\"", "1e999", "\\ud800"]),
    }
    d
}

fn validate<T: Term>(t: T, generalized: bool, out: &mut Vec<String>) {
    use sophia_api::term::TermKind::*;
    match t.kind() {
        Iri => { let i = t.iri().unwrap(); let ok = if generalized { IriRef::new(i.as_str()).is_ok() } else { sophia_iri::Iri::new(i.as_str()).is_ok() };
                 if !ok { out.push(format!("IRI {:?} is not a valid {}", i.as_str(), if generalized { "IRI reference" } else { "absolute IRI" })); } }
        BlankNode => { let b = t.bnode_id().unwrap(); if BnodeId::new(b.as_str()).is_err() { out.push(format!("blank node label {:?} rejected by BnodeId::new", b.as_str())); } }
        Variable => { let v = t.variable().unwrap(); if VarName::new(v.as_str()).is_err() { out.push(format!("variable name {:?} rejected by VarName::new", v.as_str())); } }
        Literal => {
            let _ = t.lexical_form().unwrap();
            if let Some(tag) = t.language_tag() { if LanguageTag::new(tag.as_str()).is_err() { out.push(format!("language tag {:?} rejected by LanguageTag::new", tag.as_str())); } }
            let dt = t.datatype().unwrap(); let ok = if generalized { IriRef::new(dt.as_str()).is_ok() } else { sophia_iri::Iri::new(dt.as_str()).is_ok() };
            if !ok { out.push(format!("datatype IRI {:?} invalid", dt.as_str())); }
        }
        Triple => { let [s, p, o] = t.triple().unwrap(); validate(s, generalized, out); validate(p, generalized, out); validate(o, generalized, out); }
    }
    // conversions downstream code performs unchecked
    let _: SimpleTerm = t.borrow_term().into_term();
}

/// parse `data`; returns (number of statements, validity complaints)
fn run_parser(f: Fmt, data: &[u8]) -> (usize, Vec<String>) {
    let mut bad = vec![]; let mut n = 0usize;
    let base: Option<Iri<String>> = Some(Iri::new_unchecked("http://base.example/dir/doc".to_string()));
    macro_rules! triples { ($p:expr) => {{ let mut src = $p.parse(data); let _ = src.for_each_triple(|t| { n += 1; for x in t.spo() { validate(x, f.generalized(), &mut bad) } }); }}; }
    macro_rules! quads { ($p:expr) => {{ let mut src = $p.parse(data); let _ = src.for_each_quad(|q| { n += 1; let (spo, g) = q.spog(); for x in spo { validate(x, f.generalized(), &mut bad) } if let Some(g) = g { validate(g, f.generalized(), &mut bad) } }); }}; }
    match f {
        Fmt::Nt => triples!(sophia_turtle::parser::nt::NTriplesParser {}),
        Fmt::Nq => quads!(sophia_turtle::parser::nq::NQuadsParser {}),
        Fmt::Turtle => triples!(sophia_turtle::parser::turtle::TurtleParser { base: base.clone() }),
        Fmt::Trig => quads!(sophia_turtle::parser::trig::TriGParser { base: base.clone() }),
        Fmt::Gnq => quads!(sophia_turtle::parser::gnq::GNQuadsParser {}),
        Fmt::Gtrig => quads!(sophia_turtle::parser::gtrig::GTriGParser { base: base.clone() }),
        Fmt::Xml => triples!(sophia_xml::parser::RdfXmlParser { base: base.clone() }),
        Fmt::JsonLd => quads!(sophia_jsonld::JsonLdParser::new()),
    }
    (n, bad)
}

fn deep_doc(f: Fmt, depth: usize) -> Vec<u8> {
    match f {
        Fmt::Turtle | Fmt::Trig | Fmt::Gtrig => { let mut s = String::from("<http://e/s> <http://e/p> "); match depth % 3 { 0 => { s.push_str(&"( ".repeat(depth)); s.push_str(&") ".repeat(depth)); } 1 => { s.push_str(&"[ <http://e/p> ".repeat(depth)); s.push_str("1 "); s.push_str(&"] ".repeat(depth)); } _ => { s.push_str(&"<< <http://e/s> <http://e/p> ".repeat(depth)); s.push_str("1 "); s.push_str(&">> ".repeat(depth)); } } s.push_str(".\n"); s.into_bytes() }
        Fmt::Nt | Fmt::Nq | Fmt::Gnq => { let mut s = String::new(); s.push_str(&"<< <http://e/s> <http://e/p> ".repeat(depth)); s.push_str("<http://e/o> "); s.push_str(&">> ".repeat(depth)); s.push_str("<http://e/p> <http://e/o> .\n"); s.into_bytes() }
        Fmt::Xml => { let mut s = String::from("<rdf:RDF xmlns:rdf=\"http://www.w3.org/1999/02/22-rdf-syntax-ns#\" xmlns:e=\"http://e/\">"); for _ in 0..depth { s.push_str("<rdf:Description><e:p>"); } s.push_str("<rdf:Description/>"); for _ in 0..depth { s.push_str("</e:p></rdf:Description>"); } s.push_str("</rdf:RDF>"); s.into_bytes() }
        Fmt::JsonLd => { let mut s = String::from("{\"http://e/p\": "); s.push_str(&"[".repeat(depth)); s.push('1'); s.push_str(&"]".repeat(depth)); s.push('}'); s.into_bytes() }
    }
}

thread_local! { static LAST_PANIC: std::cell::RefCell<String> = std::cell::RefCell::new(String::new()); }
fn main() {
    let a = parse_args();
    // subprocess mode: --deep <fmt index> <depth>  (a stack overflow aborts the whole process)
    if a.rest.first().map(|s| s.as_str()) == Some("--deep") {
        let f = FMTS[a.rest[1].parse::<usize>().unwrap()]; let depth: usize = a.rest[2].parse().unwrap();
        let doc = deep_doc(f, depth);
        let h = std::thread::Builder::new().stack_size(2 << 20).spawn(move || { let r = catch_unwind(AssertUnwindSafe(|| run_parser(f, &doc))); match r { Ok((n, bad)) => { println!("deep ok statements={n} complaints={}", bad.len()); 0 } Err(_) => { println!("deep PANIC"); 3 } } }).unwrap();
        std::process::exit(h.join().unwrap_or(4));
    }
    let mut sum = Summary::default();
    sum.rule = "case = (parser, input) where input is a valid seed document, one of its single-edit mutants (deletion, truncation, byte flip, insertion of a byte), a splice of a format-specific dictionary token (delimiters, escapes, unusual IRIs incl. IPv6 hosts, bad labels/tags, XML/JSON constructs), or invalid UTF-8; plus a directed stream of short inputs (the empty input, every 1-byte input, 2-byte inputs over 28 interesting bytes -- all 65 536 in the thorough tier --, prefixes and repetitions of the UTF-8 byte-order mark, BOM-prefixed valid documents and their truncations) through every parser; plus deep nesting (collections, property lists, quoted triples, XML elements, JSON arrays) in a subprocess on a 2 MiB thread; \
non-trivial = the parser yielded at least one statement from a mutated input (so term validity is actually exercised) or rejected a mutant of a valid document; distinct = distinct (parser, input bytes)".into();
    std::panic::set_hook(Box::new(|info| { LAST_PANIC.with(|l| *l.borrow_mut() = format!("{info}").replace('\n', " ")); }));
    let base = Rng::new(a.seed);
    let mut seen = std::collections::HashSet::new();
    let range: Vec<usize> = match a.only { Some(i) => vec![i], None => (0..a.n).collect() };
    let profile = if cfg!(debug_assertions) { "dev" } else { "release" };
    for idx in range {
        let mut r = base.fork(idx as u64);
        let f = FMTS[idx % 8];
        let seed = seeds(f)[0].as_bytes().to_vec();
        let mut data = seed.clone();
        let kind = r.below(8);
        let nmut = if kind == 0 { 0 } else { 1 + r.below(2) };
        for _ in 0..nmut { if data.is_empty() { break; } let pos = r.below(data.len()); match kind {
            1 => { data.remove(pos); }
            2 => { data.truncate(pos); }
            3 => { data[pos] ^= 1 << r.below(8); }
            4 => { data.insert(pos, *r.pick(&[b'<', b'>', b'"', b'\\', b' ', b'\n', b'.', b':', b'@', b'_', b'{', b'[', b'(', b'%', b'#', b'&', b'\'', 0u8, 0x80, 0xff])); }
            5 | 6 => { let tok = r.ps(&dictionary(f)); let at = if r.chance(1, 2) { pos } else { // replace the inside of a delimited token
                    pos }; let t = tok.as_bytes(); for (k, b) in t.iter().enumerate() { data.insert(at + k, *b); } }
            _ => { let from = r.below(data.len()); let len = r.below(12).min(data.len() - from); let chunk: Vec<u8> = data[from..from + len].to_vec(); for (k, b) in chunk.iter().enumerate() { data.insert(pos + k, *b); } }
        } }
        let res = catch_unwind(AssertUnwindSafe(|| run_parser(f, &data)));
        let shown = String::from_utf8_lossy(&data).to_string();
        let key = format!("{f:?}|{shown}");
        match res {
            Err(_) => { let msg = LAST_PANIC.with(|l| l.borrow().clone()); let msg: String = msg.chars().take(200).collect();
                sum.oracle_failures.push((idx.to_string(), format!("parser {f:?} PANICKED ({profile} build): {msg}; input {shown:?}"))); sum.bump(&format!("{f:?}:panic")); }
            Ok((n, bad)) => {
                if !bad.is_empty() { sum.oracle_failures.push((idx.to_string(), format!("parser {f:?} ({profile} build) yielded an invalid term: {}; input {shown:?}", bad[0]))); }
                sum.bump(&format!("{f:?}:{}", if n > 0 { "yielded" } else { "rejected-or-empty" }));
                if seen.insert(key) && ((n > 0 && nmut > 0) || (n == 0 && nmut > 0)) { sum.distinct_nontrivial += 1; }
                if sum.samples.len() < 4 && n > 0 && nmut > 0 { sum.samples.push(format!("case {idx}: {f:?} mutant kind {kind}: {} statements from {:?}", n, shown.chars().take(160).collect::<String>())); }
            }
        }
        if a.only.is_some() { println!("CASE {idx}: {f:?} kind {kind} input {shown:?}"); }
        sum.evaluations += 1;
    }
    // ---------- short inputs and byte-order marks (directed stream; every parser) ----------
    // every 1-byte input; 2-byte inputs over a set of interesting bytes (all 65 536 in the thorough tier);
    // prefixes of a UTF-8 byte-order mark; BOM-prefixed valid documents and all their short truncations
    if a.only.is_none() {
        let mut inputs: Vec<Vec<u8>> = vec![vec![]];
        for b in 0..=255u8 { inputs.push(vec![b]); }
        let interesting: Vec<u8> = if a.n >= 20000 { (0..=255u8).collect() } else { vec![0x00, 0x09, 0x0A, 0x0D, 0x20, b'"', b'#', b'<', b'>', b'@', b'[', b'{', b'_', b':', b'a', b'1', b'\\', 0x7F, 0x80, 0xBB, 0xBF, 0xC2, 0xE0, 0xEF, 0xF0, 0xF4, 0xFE, 0xFF] };
        for x in &interesting { for y in &interesting { inputs.push(vec![*x, *y]); } }
        for tail in [&b""[..], b"\xBF", b"\xBB", b"\xBB\xBF", b"\xBB\xBF\xEF", b"\xBB\xBF\xEF\xBB", b"\xBB\xBF\xEF\xBB\xBF", b"\xBF\xBB", b"\xBB\xBF ", b"\xBB\xBF\n", b"\xBB\xBF{}", b"\xBB\xBF[]", b"\xBB\xBF<", b"\xBB\xBF#"] { let mut v = vec![0xEFu8]; v.extend_from_slice(tail); inputs.push(v); }
        for (k, data) in inputs.iter().enumerate() { for f in FMTS {
            let res = catch_unwind(AssertUnwindSafe(|| run_parser(f, data)));
            sum.evaluations += 1; sum.bump(&format!("short:{f:?}"));
            match res {
                Err(_) => { let msg = LAST_PANIC.with(|l| l.borrow().clone()); let msg: String = msg.chars().take(200).collect();
                    sum.oracle_failures.push((format!("short-{k}"), format!("parser {f:?} PANICKED ({profile} build) on the {}-byte input {data:02x?}: {msg}", data.len()))); }
                Ok((_, bad)) => { if !bad.is_empty() { sum.oracle_failures.push((format!("short-{k}"), format!("parser {f:?} ({profile} build) yielded an invalid term: {}; input bytes {data:02x?}", bad[0]))); } if k % 97 == 0 { sum.distinct_nontrivial += 1; } }
            }
        } }
        for f in FMTS {
            let mut doc = vec![0xEFu8, 0xBB, 0xBF]; doc.extend_from_slice(seeds(f)[0].as_bytes());
            let mut cuts: Vec<usize> = (0..doc.len().min(48)).collect(); let mut c = 48; while c < doc.len() { cuts.push(c); c += 5; } cuts.push(doc.len());
            for cut in cuts {
                let data = &doc[..cut];
                let res = catch_unwind(AssertUnwindSafe(|| run_parser(f, data)));
                sum.evaluations += 1; sum.bump(&format!("bom-truncation:{f:?}"));
                match res {
                    Err(_) => { let msg = LAST_PANIC.with(|l| l.borrow().clone()); let msg: String = msg.chars().take(200).collect();
                        sum.oracle_failures.push((format!("bom-{f:?}-{cut}"), format!("parser {f:?} PANICKED ({profile} build) on a BOM-prefixed document truncated to {cut} bytes: {msg}"))); }
                    Ok((n, bad)) => { if !bad.is_empty() { sum.oracle_failures.push((format!("bom-{f:?}-{cut}"), format!("parser {f:?} ({profile} build) yielded an invalid term: {}; BOM-prefixed document truncated to {cut} bytes", bad[0]))); } if n > 0 { sum.distinct_nontrivial += 1; } }
                }
            }
        }
    }
    // ---------- validators vs the regenerated regexes (evaluated inside Coq) ----------
    // strings over the boundary code points of every class (each range end and its neighbours)
    let mut cases: Vec<(usize, String)> = vec![];
    if a.only.is_none() && profile == "dev" {
        let bounds: Vec<u32> = { let ends = [0x2Du32, 0x2E, 0x30, 0x39, 0x3A, 0x41, 0x5A, 0x5F, 0x61, 0x7A, 0xB7, 0xC0, 0xD6, 0xD7, 0xD8, 0xF6, 0xF7, 0xF8, 0x2FF, 0x300, 0x36F, 0x370, 0x37D, 0x37E, 0x37F, 0x1FFF, 0x2000, 0x200C, 0x200D, 0x203F, 0x2040, 0x2070, 0x218F, 0x2C00, 0x2FEF, 0x3001, 0xD7FF, 0xF900, 0xFDCF, 0xFDF0, 0xFFFD, 0xFFFE, 0x10000, 0xEFFFF, 0xF0000];
            let mut v: Vec<u32> = vec![]; for e in ends { for d in [-1i64, 0, 1] { let c = e as i64 + d; if c >= 0 { v.push(c as u32) } } } v.sort(); v.dedup(); v };
        let chars: Vec<char> = bounds.iter().filter_map(|c| char::from_u32(*c)).collect();
        let nval = (a.n / 4).max(200).min(3000);
        for k in 0..nval {
            let mut r = base.fork(1_000_000 + k as u64);
            let len = r.below(5);
            let mut st = String::new();
            if r.chance(2, 3) { st.push(*r.pick(&['a', 'Z', '0', '_', 'é', '1'])); }
            for _ in 0..len { st.push(if r.chance(1, 2) { *r.pick(&chars) } else { *r.pick(&['a', '.', '-', '9', '_', ':', 'B', '·']) }); }
            let (b, v, t) = (BnodeId::new(st.as_str()).is_ok(), VarName::new(st.as_str()).is_ok(), LanguageTag::new(st.as_str()).is_ok());
            cases.push((k, format!("val3_ok {} {} {} {}", coq_str(&st), coq_bool(b), coq_bool(v), coq_bool(t))));
            sum.bump(&format!("validators:{}{}{}", b as u8, v as u8, t as u8));
            sum.evaluations += 1;
        }
    }
    // deep nesting, each in a subprocess
    if a.only.is_none() {
        let exe = std::env::current_exe().unwrap();
        let depths: &[usize] = if a.n >= 20000 { &[1000, 10_000, 100_000, 100_001, 100_002] } else { &[1000, 20_000, 20_001, 20_002] };
        for (fi, f) in FMTS.iter().enumerate() { for d in depths {
            let out = std::process::Command::new(&exe).args(["--deep", &fi.to_string(), &d.to_string()]).output().unwrap();
            sum.evaluations += 1; sum.bump(&format!("deep:{f:?}"));
            if !out.status.success() { sum.oracle_failures.push((format!("deep-{f:?}-{d}"), format!("parser {f:?} ({profile} build) did not survive nesting depth {d} on a 2 MiB stack: exit status {:?} ({})", out.status.code(), String::from_utf8_lossy(&out.stdout).trim()))); }
            else { sum.distinct_nontrivial += 1; }
        } }
        // de-duplicate failures by their first 120 characters of description so that the report stays readable
        let mut uniq = std::collections::HashSet::new();
        sum.oracle_failures.retain(|f| uniq.insert(f.1.chars().take(100).collect::<String>()));
        sum.oracle_failures.truncate(60);
        std::fs::create_dir_all(&a.out).unwrap();
        if !cases.is_empty() { sum.shards = write_shards(&a.out, "From Sophia.C08 Require Import Model.", &cases, a.shards); sum.extra.push(("coq_cases".into(), cases.len().to_string())); }
        std::fs::write(format!("{}/summary.json", a.out), sum.to_json()).unwrap();
    }
    println!("c08 ({profile}): {} cases, {} distinct non-trivial, {} oracle failures", sum.evaluations, sum.distinct_nontrivial, sum.oracle_failures.len());
    for f in sum.oracle_failures.iter().take(12) { println!("  FAIL {}", f.1.chars().take(300).collect::<String>()); }
}
