(* C13/FuncProperties.v -- pinned statements of property C13, built-in function calls
   (sparql/src/function.rs call_function, SparqlNumber::{abs, ceil, floor, round}): FILTER and BIND
   depend on them, so "SPARQL evaluation returns exactly the algebra's solutions" depends on each
   call returning what SPARQL 1.1 section 17.4 prescribes. *)
From Coq Require Import String Ascii.
From Sophia.C13 Require Import ExprImpl ExprConcrete ExprProofs FuncProofs.

(* ---- MAIN: implementation = specification for every expression over the operators of
   ExprProperties.v and the 34 implemented functions, every solution mapping, every argument
   value; [erel] = same error, same RDF term or same computed value, never a panic.
   Hypotheses on the abstract float library: the two of ExprProperties.v, and that the Rust helper
   xpath_round (f64::round corrected on negative halves) computes fn:round on doubles and,
   through f64, on floats (checked on samples for the instance the model is run with:
   xpath_round_samples). ---- *)
Check (feval_correct : forall (X : xlib) (Y : flib X),
  (forall s, (if float_syntax s then f_rust X s else None) = f_lex X s) ->
  (forall s, (if float_syntax s then d_rust X s else None) = d_lex X s) ->
  (forall d, xpath_round X Y d = d_rnd Y RHalfUp d) ->
  (forall f, f_of_dbl X (xpath_round X Y (d_of_flt X f)) = f_rnd Y RHalfUp f) ->
  forall (ent : str * option (dbl X)) (e : fexpr), all_supported e = true -> arities_ok e = true ->
  forall (mu : amap) (path : list N),
    erel X (fi_eval X Y cfg_fixed ent e mu path)
             (fs_eval X Y (P_sophia X cfg_fixed) sophia_dialect fd_sophia ent e mu path)).
(* FILTER keeps and BIND binds exactly what the specification says, and the query does not panic *)
Check (fquery_correct : forall (X : xlib) (Y : flib X),
  (forall s, (if float_syntax s then f_rust X s else None) = f_lex X s) ->
  (forall s, (if float_syntax s then d_rust X s else None) = d_lex X s) ->
  (forall d, xpath_round X Y d = d_rnd Y RHalfUp d) ->
  (forall f, f_of_dbl X (xpath_round X Y (d_of_flt X f)) = f_rnd Y RHalfUp f) ->
  forall ent e mu, all_supported e = true -> arities_ok e = true ->
    fi_query X Y cfg_fixed ent e mu
    = QRows (fs_bind X Y (P_sophia X cfg_fixed) sophia_dialect fd_sophia ent e mu)
            (fs_filter X Y (P_sophia X cfg_fixed) sophia_dialect fd_sophia ent e mu)).
(* one call, all argument values *)
Check (call_correct : forall (X : xlib) (Y : flib X),
  (forall s, (if float_syntax s then f_rust X s else None) = f_lex X s) ->
  (forall s, (if float_syntax s then d_rust X s else None) = d_lex X s) ->
  (forall d, xpath_round X Y d = d_rnd Y RHalfUp d) ->
  (forall f, f_of_dbl X (xpath_round X Y (d_of_flt X f)) = f_rnd Y RHalfUp f) ->
  forall lbl rnd f args sargs,
    Forall2 (frel X) args sargs -> arity_ok f (length args) = true -> implemented f = true ->
    erel X (call_function X Y cfg_fixed lbl rnd f args)
             (s_call X Y (P_sophia X cfg_fixed) fd_sophia lbl rnd f sargs)).

(* ---- totality: a value, an expression error, never a panic; a function without implementation
   is an expression error for ALL arguments (the NotImplemented of the property never surfaces:
   known finding FUNC-NOT-IMPLEMENTED-SILENT) ---- *)
Check (call_no_panic : forall X Y cf lbl rnd f args,
  arity_ok f (length args) = true -> call_function X Y cf lbl rnd f args <> FPanic).
Check (unimplemented_is_error : forall X Y cf lbl rnd f args,
  implemented f = false -> call_function X Y cf lbl rnd f args = FErr).

(* ---- the dialect: langMatches only loses answers, IRI only adds relative references, every
   other function is the Recommendation's ---- *)
Check (langmatches_dialect_sound : forall X Y Pr lbl rnd args r,
  s_call X Y Pr fd_sophia lbl rnd FnLangMatches args = Some r -> s_call X Y Pr fd_strict lbl rnd FnLangMatches args = Some r).
Check (iri_dialect_complete : forall X (Y : flib X) Pr lbl rnd args r,
  (forall s, iri_abs_ok Y s = true -> iri_ref_ok Y s = true) ->
  s_call X Y Pr fd_strict lbl rnd FnIri args = Some r -> s_call X Y Pr fd_sophia lbl rnd FnIri args = Some r).
Check (dialect_irrelevant : forall X Y Pr fd1 fd2 lbl rnd f args, f <> FnIri -> f <> FnLangMatches ->
  s_call X Y Pr fd1 lbl rnd f args = s_call X Y Pr fd2 lbl rnd f args).

(* ---- ingredients: strings ---- *)
(* the byte offset str::find returns is the length of what precedes the first occurrence;
   slicing a string at the lengths of its parts gives the parts *)
Check (rust_find_spec : forall x s,
  rust_find x s = match split_at_first x s with Some (a, _) => Some (blen a) | None => None end).
Check (bslice_mid : forall a b d, bslice (a ++ b ++ d) (blen a) (blen a + blen b) = FVal b).
Check (blen_utf8 : forall s, blen s = N.of_nat (length (utf8 s))).
Check (split_at_first_sound : forall x s a b, split_at_first x s = Some (a, b) -> s = a ++ x ++ b).
Check (split_at_first_leftmost : forall x s a b, split_at_first x s = Some (a, b) ->
  forall a' b', s = a' ++ x ++ b' -> (length a <= length a')%nat).
Check (sp_contains_iff : forall s x, sp_contains s x = true <-> exists a b, s = a ++ x ++ b).
Check (sp_ends_iff : forall s x, sp_ends s x = true <-> exists p, s = p ++ x).
Check (strbefore_spec : forall X h ht n,
  strbefore X h ht n = FVal (match split_at_first n h with Some (a, _) => vstrl X a ht | None => vstrl X [] None end)).
Check (strafter_spec : forall X h ht n,
  strafter X h ht n = FVal (match split_at_first n h with Some (_, b) => vstrl X b ht | None => vstrl X [] None end)).
Check (encode_spec : forall s, flat_map encode_byte (utf8 s) = sp_encode s).
(* lang_matches' byte slices on well-formed tags = RFC 4647 basic filtering *)
Check (lang_matches_ok : forall X tag range,
  lang_tag_ok tag = true -> (range = star \/ lang_tag_ok range = true) ->
  lang_matches X tag range = FVal (vbool X (sp_lang_matches tag range))).
Check (lang_tag_ascii : forall s, lang_tag_ok s = true -> ascii s = true).
(* ---- ingredients: numbers: what CEIL, FLOOR, ROUND are, and that the code after 5a72fb8 computes them ---- *)
Check (sp_floor_char : forall d, (sp_floor d * pow10 (snd d) <= fst d < (sp_floor d + 1) * pow10 (snd d))%Z).
Check (sp_ceiling_char : forall d, ((sp_ceiling d - 1) * pow10 (snd d) < fst d <= sp_ceiling d * pow10 (snd d))%Z).
Check (sp_round_char : forall d,
  (2 * fst d - pow10 (snd d) < 2 * sp_round d * pow10 (snd d) <= 2 * fst d + pow10 (snd d))%Z).
Check (sp_round_unique : forall d z,
  (2 * fst d - pow10 (snd d) < 2 * z * pow10 (snd d) <= 2 * fst d + pow10 (snd d))%Z -> z = sp_round d).
Check (dceil_spec : forall d, dceil d = sp_ceiling d).
Check (dround_spec : forall d, dfloor (dadd d dec_half) = sp_round d).
Check (den_abs : forall X n, nwf X n -> den X (abs (FL X) n) = x_abs X (den X n)).
(* every NativeInt the evaluator produces holds an isize *)
Check (i_eval_cwf : forall X e mu r, i_eval X cfg_fixed e mu = Some r -> cwf X r).

(* ---- the laws a user relies on ---- *)
Check (law_strlen_concat : forall X Y Pr FD lbl rnd a b la ta lb tb,
  s_strlit X a = Some (la, ta) -> s_strlit X b = Some (lb, tb) ->
  exists r, s_call X Y Pr FD lbl rnd FnConcat [a; b] = Some r /\
            s_call X Y Pr FD lbl rnd FnStrLen [r] = Some (SN (XI (Z.of_nat (length la) + Z.of_nat (length lb))))).
Check (law_before_after : forall X Y Pr FD lbl rnd h ht n nt, sp_compatible ht nt = true ->
  let s := r_str X h ht in let x := r_str X n nt in
  if sp_contains h n then
    exists before after, s_call X Y Pr FD lbl rnd FnStrBefore [s; x] = Some (r_str X before ht) /\
                         s_call X Y Pr FD lbl rnd FnStrAfter [s; x] = Some (r_str X after ht) /\ before ++ n ++ after = h
  else s_call X Y Pr FD lbl rnd FnStrBefore [s; x] = Some (r_str X [] None)
       /\ s_call X Y Pr FD lbl rnd FnStrAfter [s; x] = Some (r_str X [] None)).
Check (law_case_idempotent : forall X (Y : flib X) s, ascii_case_ok X Y -> ascii s = true ->
  flat_map (to_upper Y) (flat_map (to_upper Y) s) = flat_map (to_upper Y) s /\
  flat_map (to_lower Y) (flat_map (to_lower Y) s) = flat_map (to_lower Y) s /\
  length (flat_map (to_upper Y) s) = length s /\ length (flat_map (to_lower Y) s) = length s).
Check (law_term_kinds : forall X Y Pr FD lbl rnd t, match t with Var _ => False | _ => True end ->
  exists bi bb bl bt, s_call X Y Pr FD lbl rnd FnIsIri [ST t] = Some (SB bi) /\ s_call X Y Pr FD lbl rnd FnIsBlank [ST t] = Some (SB bb) /\
                      s_call X Y Pr FD lbl rnd FnIsLiteral [ST t] = Some (SB bl) /\ s_call X Y Pr FD lbl rnd FnIsTriple [ST t] = Some (SB bt) /\
                      (Nat.b2n bi + Nat.b2n bb + Nat.b2n bl + Nat.b2n bt = 1)%nat).
Check (law_str_iri : forall X (Y : flib X) Pr FD lbl rnd s, iri_abs_ok Y s = true -> iri_ref_ok Y s = true ->
  exists r, s_call X Y Pr FD lbl rnd FnIri [ST (LitDt s xsd_string_iri)] = Some r /\
            s_call X Y Pr FD lbl rnd FnStr [r] = Some (ST (LitDt s xsd_string_iri))).
Check (law_substr_from_1 : forall X (Y : flib X) Pr FD lbl rnd s tag,
  (forall p, (1 <= p)%Z -> fo_le X (d_rnd Y RHalfUp (d_of_Z X 1%Z)) (d_of_Z X p) = true) ->
  s_call X Y Pr FD lbl rnd FnSubStr [r_str X s tag; SN (XI 1%Z)] = Some (r_str X s tag)).
(* the instance the model is run with satisfies the side conditions of the laws *)
Check (YC_ascii_case : ascii_case_ok XC YC).
Check (YC_iri_abs_ref : forall s, iri_abs_ok YC s = true -> iri_ref_ok YC s = true).

(* ---- non-vacuity ---- *)
Example ex_nested :
  fi_query XC YC cfg_fixed ([], None)
    (XEq (XCall FnStrLen [XCall FnConcat [XCall FnUCase [slit "abc"]; XCall FnSubStr [slit "12345"; nlit "2.5" "decimal"; nlit "2" "integer"]]])
         (nlit "5" "integer")) []
  = QRows (Some (LitDt l_true xsd_boolean_iri)) true.
Proof. vm_compute. reflexivity. Qed.
Example ex_wf : all_supported (XCall FnStrBefore [slit "abc"; XCall FnLCase [slit "B"]]) = true
             /\ arities_ok (XCall FnStrBefore [slit "abc"; XCall FnLCase [slit "B"]]) = true
             /\ fi_query XC YC cfg_fixed ([], None) (XCall FnStrBefore [slit "abc"; XCall FnLCase [slit "B"]]) [] = QRows (Some (tstr "a")) true.
Proof. vm_compute. auto. Qed.
Example ex_langmatches : lang_tag_ok (L "en-US") = true /\ lang_tag_ok (L "EN") = true /\ sp_lang_matches (L "en-US") (L "EN") = true.
Proof. vm_compute. auto. Qed.

Print Assumptions feval_correct.
Print Assumptions fquery_correct.
Print Assumptions call_correct.
Print Assumptions call_no_panic.
Print Assumptions unimplemented_is_error.
Print Assumptions langmatches_dialect_sound.
Print Assumptions iri_dialect_complete.
Print Assumptions dialect_irrelevant.
Print Assumptions rust_find_spec.
Print Assumptions bslice_mid.
Print Assumptions blen_utf8.
Print Assumptions split_at_first_sound.
Print Assumptions split_at_first_leftmost.
Print Assumptions sp_contains_iff.
Print Assumptions sp_ends_iff.
Print Assumptions strbefore_spec.
Print Assumptions strafter_spec.
Print Assumptions encode_spec.
Print Assumptions lang_matches_ok.
Print Assumptions lang_tag_ascii.
Print Assumptions sp_floor_char.
Print Assumptions sp_ceiling_char.
Print Assumptions sp_round_char.
Print Assumptions sp_round_unique.
Print Assumptions dceil_spec.
Print Assumptions dround_spec.
Print Assumptions den_abs.
Print Assumptions i_eval_cwf.
Print Assumptions law_strlen_concat.
Print Assumptions law_before_after.
Print Assumptions law_case_idempotent.
Print Assumptions law_term_kinds.
Print Assumptions law_str_iri.
Print Assumptions law_substr_from_1.
Print Assumptions YC_ascii_case.
Print Assumptions YC_iri_abs_ref.
(* the code before the repairs a02a275 / 5a72fb8, and the four known findings *)
Print Assumptions xpath_round_samples.
Print Assumptions substr0_byte_index_refuted.
Print Assumptions substr0_rounding_refuted.
Print Assumptions substr0_overflow_refuted.
Print Assumptions substr0_inf_nan_refuted.
Print Assumptions substr_fixed.
Print Assumptions ceil_floor0_refuted.
Print Assumptions round0_decimal_refuted.
Print Assumptions round0_float_refuted.
Print Assumptions langmatches_empty_refuted.
Print Assumptions not_implemented_silent_refuted.
Print Assumptions iri_relative_refuted.
Print Assumptions bnode_same_argument_refuted.
Print Assumptions bnode_ignores_argument.
Print Assumptions ex_nested.
Print Assumptions ex_wf.
Print Assumptions ex_langmatches.
