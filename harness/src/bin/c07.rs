//! C07: isomorphic_datasets on renamed/shuffled copies and on mutants, every pair of container
//! types, against the Coq model (C07/Model.v, run with an FNV stand-in for SipHash) and the
//! property oracle (no false negative, symmetry, false on blanked-statement differences).
//! Entry points: isomorphic_datasets on FALLIBLE datasets (errors injected at generated positions of either or both
//! arguments; the result, the error side/code and the number of items pulled from each argument are compared with
//! C07/EntryModel.v), isomorphic_graphs on fallible graphs and on graph views of datasets, and the model run with
//! exactly the number of rounds proved sufficient in C07/LoopProofs.v (iso_tight_ok).
use sophia_api::prelude::*;
use sophia_api::source::StreamError::{SinkError, SourceError};
use std::cell::Cell;
use sophia_api::quad::Spog;
use sophia_api::term::SimpleTerm;
use sophia_inmem::dataset::{FastDataset, LightDataset};
use sophia_isomorphism::isomorphic_datasets;
use std::collections::{BTreeSet, HashSet};
use verif_harness::*;

type Q = Spog<ST>;

fn gen_ground(r: &mut Rng) -> ST {
    match r.below(6) {
        0 | 1 => iri(&format!("http://e/{}", r.ps(&["a", "b", "p", "q"]))),
        2 => lit_dt(r.ps(&["x", "y", ""]), &format!("{XSD}string")),
        3 => lit_lang(r.ps(&["x", "y"]), r.ps(&["en", "EN", "fr"])),
        4 => lit_dt(r.ps(&["1", "2"]), &format!("{XSD}integer")),
        _ => var(r.ps(&["v", "w"])),
    }
}
fn gen_term(r: &mut Rng, nb: usize, depth: usize) -> ST {
    match r.below(if depth > 0 { 8 } else { 7 }) {
        0..=3 => bnode(&format!("b{}", r.below(nb.max(1)))),
        4..=6 => gen_ground(r),
        // generalized RDF-star: the predicate of a quoted triple may be any term, in particular a blank node
        _ => { let p = if r.chance(1, 3) { gen_term(r, nb, 0) } else { iri(&format!("http://e/{}", r.ps(&["p", "q"]))) }; triple(gen_term(r, nb, depth - 1), p, gen_term(r, nb, depth - 1)) }
    }
}
/// number of ground atoms in a term (blank nodes are not ground)
fn n_ground(t: &ST) -> usize { match t { SimpleTerm::BlankNode(_) => 0, SimpleTerm::Triple(tr) => tr.iter().map(n_ground).sum(), _ => 1 } }
/// a minimally different ground atom: another language tag / datatype / lexical form / IRI / variable name
fn near_ground(t: &ST, r: &mut Rng) -> ST {
    match t {
        SimpleTerm::LiteralLanguage(l, tag) => match r.below(3) { 0 => lit_lang(l, if tag.as_str().eq_ignore_ascii_case("en") { "fr" } else { "en" }), 1 => lit_lang(l, &format!("{}-x", tag.as_str())), _ => lit_dt(l, &format!("{XSD}string")) },
        SimpleTerm::LiteralDatatype(l, d) => match r.below(3) { 0 => lit_dt(l, &format!("{}x", d.as_str())), 1 => lit_dt(&format!("{l}x"), d.as_str()), _ => lit_lang(l, "en") },
        SimpleTerm::Iri(i) => iri(&format!("{}x", i.as_str())),
        SimpleTerm::Variable(v) => var(&format!("{}x", v.as_str())),
        _ => t.clone(),
    }
}
/// replace the k-th ground atom (in left-to-right order, at any depth) by a near variant
fn mutate_ground(t: &ST, k: &mut usize, r: &mut Rng) -> ST {
    match t {
        SimpleTerm::BlankNode(_) => t.clone(),
        SimpleTerm::Triple(tr) => triple(mutate_ground(&tr[0], k, r), mutate_ground(&tr[1], k, r), mutate_ground(&tr[2], k, r)),
        _ => { if *k == 0 { *k = usize::MAX; near_ground(t, r) } else { if *k != usize::MAX { *k -= 1; } t.clone() } }
    }
}
fn gen_dataset(r: &mut Rng) -> Vec<Q> {
    let nb = r.range(1, 5);
    match r.below(11) {
        9 | 10 => { // blank nodes ONLY as graph names (no blank node in any subject / predicate / object), including the very same
            // triple in two graphs named by distinct blank nodes, one of which is also described elsewhere
            let ng = r.range(2, 3); let mut v: Vec<Q> = vec![];
            for i in 0..r.range(1, 4) { v.push(([iri("http://e/a"), iri(&format!("http://e/{}", r.ps(&["p", "q", "p1", "p2"]))), if r.chance(1, 2) { iri("http://e/b") } else { lit_lang("x", "en") }], Some(bnode(&format!("g{}", (i + r.below(2)) % ng))))); }
            if r.chance(1, 2) { let t = [iri("http://e/s"), iri("http://e/p"), iri("http://e/o")]; v.push((t.clone(), Some(bnode("g0")))); v.push((t, Some(bnode("g1")))); }
            if r.chance(1, 2) { v.push(([iri("http://e/about"), iri("http://e/q"), iri("http://e/c")], Some(bnode("g0")))); }
            if r.chance(1, 3) { v.push(([iri("http://e/a"), iri("http://e/p"), iri("http://e/b")], None)); }
            v }
        7 | 8 => { // statements sharing one quoted-triple skeleton, with DISTINCT blank nodes at one position of it (subject,
            // predicate or object, possibly one level deeper), and differing in a LATER position of the statement: a
            // blank-blind sort must order them by that later position whatever the labels are
            let n = r.range(2, 3); let j = r.below(3); let deep = r.chance(1, 3); let in_object = r.chance(1, 3);
            let sk = |b: ST, r: &mut Rng| -> ST { let mut parts = [iri("http://e/a"), iri("http://e/p"), lit_lang("x", "en")]; parts[j] = b; let t = triple(parts[0].clone(), parts[1].clone(), parts[2].clone()); if deep { let _ = r; triple(t, iri("http://e/q"), iri("http://e/b")) } else { t } };
            let mut v: Vec<Q> = vec![];
            for i in 0..n {
                let qt = sk(bnode(&format!("b{i}")), r); let later = iri(&format!("http://e/{}", ["a", "b", "c"][i]));
                if in_object { v.push(([iri("http://e/s"), iri("http://e/p"), qt], Some(later))); } else { v.push(([qt, iri("http://e/p"), later], None)); }
            }
            if r.chance(1, 2) { v.push(([bnode("b0"), iri("http://e/q"), bnode("b1")], None)); }
            v }
        0 => { // cycle
            let p = iri("http://e/p"); (0..nb).map(|i| ([bnode(&format!("b{i}")), p.clone(), bnode(&format!("b{}", (i + 1) % nb))], None)).collect() }
        1 => { // clique with blank graph name
            let p = iri("http://e/p"); let mut v = vec![]; for i in 0..nb { for j in 0..nb { if i != j { v.push(([bnode(&format!("b{i}")), p.clone(), bnode(&format!("b{j}"))], Some(bnode("g")))); } } } v }
        2 => { // two disjoint isomorphic components + star
            let p = iri("http://e/p"); let mut v = vec![];
            for c in 0..2 { for i in 0..nb { v.push(([bnode(&format!("c{c}n{i}")), p.clone(), bnode(&format!("c{c}n{}", (i + 1) % nb))], None)); } }
            for i in 0..nb { v.push(([bnode("hub"), iri("http://e/q"), bnode(&format!("c0n{i}"))], None)); } v }
        3 => { // quoted triples with blank nodes
            (0..r.range(1, 4)).map(|_| ([triple(bnode(&format!("b{}", r.below(nb))), iri("http://e/p"), gen_term(r, nb, 1)), iri("http://e/q"), gen_term(r, nb, 0)], if r.chance(1, 3) { Some(bnode(&format!("b{}", r.below(nb)))) } else { None })).collect() }
        5 => { let mut v: Vec<Q> = (0..r.range(1, 4)).map(|_| ([gen_ground(r), iri(&format!("http://e/{}", r.ps(&["p", "q"]))), gen_ground(r)], if r.chance(1, 2) { Some(iri("http://e/g")) } else { None })).collect(); v.push(([bnode("b0"), iri("http://e/p"), bnode("b1")], None)); v }
        _ => (0..r.range(1, 7)).map(|_| ([gen_term(r, nb, 1), if r.chance(1, 5) { gen_term(r, nb, 1) } else { iri(&format!("http://e/{}", r.ps(&["p", "q"]))) }, gen_term(r, nb, 2)], match r.below(4) { 0 => Some(gen_term(r, nb, 0)), _ => None })).collect(),
    }
}
fn rename_t(t: &ST, f: &dyn Fn(&str) -> String) -> ST {
    match t {
        SimpleTerm::BlankNode(b) => bnode(&f(b.as_str())),
        SimpleTerm::Triple(tr) => triple(rename_t(&tr[0], f), rename_t(&tr[1], f), rename_t(&tr[2], f)),
        _ => t.clone(),
    }
}
fn rename_q(q: &Q, f: &dyn Fn(&str) -> String) -> Q { ([rename_t(&q.0[0], f), rename_t(&q.0[1], f), rename_t(&q.0[2], f)], q.1.as_ref().map(|g| rename_t(g, f))) }
fn shuffle<T>(v: &mut Vec<T>, r: &mut Rng) { for i in (1..v.len()).rev() { let j = r.below(i + 1); v.swap(i, j); } }
fn blank_key(t: &ST) -> String { match t { SimpleTerm::BlankNode(_) => "_:".into(), SimpleTerm::Triple(tr) => format!("<<{} {} {}>>", blank_key(&tr[0]), blank_key(&tr[1]), blank_key(&tr[2])), SimpleTerm::LiteralLanguage(l, tag) => format!("{l:?}@{}", tag.as_str().to_ascii_lowercase()), _ => format!("{t:?}") } }
fn blank_qkey(q: &Q) -> String { format!("{} {} {} {}", blank_key(&q.0[0]), blank_key(&q.0[1]), blank_key(&q.0[2]), q.1.as_ref().map(blank_key).unwrap_or_default()) }
fn bnodes(t: &ST, out: &mut BTreeSet<String>) { match t { SimpleTerm::BlankNode(b) => { out.insert(b.as_str().to_string()); } SimpleTerm::Triple(tr) => { for x in tr.iter() { bnodes(x, out) } } _ => {} } }

fn iso_in(kind: usize, a: &[Q], b: &[Q]) -> bool {
    macro_rules! mk { ($ty:ty, $v:expr) => {{ let mut d = <$ty>::default(); for q in $v { d.insert_quad(q.clone()).unwrap(); } d }}; }
    match kind {
        0 => isomorphic_datasets(&a.to_vec(), &b.to_vec()).unwrap(),
        1 => isomorphic_datasets(&mk!(HashSet<Q>, a), &b.to_vec()).unwrap(),
        2 => isomorphic_datasets(&mk!(FastDataset, a), &mk!(LightDataset, b)).unwrap(),
        3 => isomorphic_datasets(&mk!(LightDataset, a), &mk!(HashSet<Q>, b)).unwrap(),
        _ => isomorphic_datasets(&mk!(BTreeSet<Q>, a), &mk!(FastDataset, b)).unwrap(),
    }
}
/// the GRAPH entry point: one graph of d1 seen through a filtered view of the whole dataset (its size hint is not exact)
/// against the stand-alone list of the triples of the same graph of d2; None when the graph name is a blank node
fn iso_graph_view(a: &[Q], b: &[Q], g: Option<&ST>) -> bool {
    use sophia_isomorphism::isomorphic_graphs;
    let av: Vec<Q> = a.to_vec();
    let bt: Vec<[ST; 3]> = b.iter().filter(|q| match (&q.1, g) { (None, None) => true, (Some(x), Some(y)) => Term::eq(x, y.borrow_term()), _ => false }).map(|q| q.0.clone()).collect();
    let view = av.graph(g.cloned());
    let r1 = isomorphic_graphs(&view, &bt).unwrap();
    let r2 = isomorphic_graphs(&bt, &view).unwrap();
    r1 && r2
}
/// a dataset / graph whose enumeration yields the recorded results (possibly errors) and counts the items it is asked for
struct FallibleDs { items: Vec<Result<Q, MyErr>>, pulled: Cell<usize> }
impl Dataset for FallibleDs {
    type Quad<'x> = Q;
    type Error = MyErr;
    fn quads(&self) -> impl Iterator<Item = Result<Self::Quad<'_>, Self::Error>> + '_ { self.items.iter().map(|x| { self.pulled.set(self.pulled.get() + 1); x.clone() }) }
}
struct FallibleGr { items: Vec<Result<[ST; 3], MyErr>>, pulled: Cell<usize> }
impl Graph for FallibleGr {
    type Triple<'x> = [ST; 3];
    type Error = MyErr;
    fn triples(&self) -> impl Iterator<Item = Result<Self::Triple<'_>, Self::Error>> + '_ { self.items.iter().map(|x| { self.pulled.set(self.pulled.get() + 1); x.clone() }) }
}
/// the items of `v` with 0 (`none_of_4` times out of 4), 1 or 2 errors inserted at generated positions (anywhere from before the
/// first item to after the last one); also returns (number of items before the first error, its code)
fn inject<T: Clone>(v: &[T], r: &mut Rng, none_of_4: usize) -> (Vec<Result<T, MyErr>>, Option<(usize, u64)>) {
    let mut items: Vec<Result<T, MyErr>> = v.iter().cloned().map(Ok).collect();
    let n_err = match r.below(4) { k if k < none_of_4 => 0, 3 => 2, _ => 1 };
    for _ in 0..n_err { let pos = r.below(items.len() + 1); let code = 1 + r.below(9) as u64; items.insert(pos, Err(MyErr(code))); }
    let first = items.iter().position(|x| x.is_err()).map(|p| (p, match &items[p] { Err(MyErr(c)) => *c, _ => 0 }));
    (items, first)
}
#[derive(Debug, Clone, Copy, PartialEq, Eq)]
enum Obs { Answer(bool), Source(u64), Sink(u64) }
impl Obs {
    fn of<T>(r: Result<bool, sophia_api::source::StreamError<MyErr, MyErr>>, _: T) -> Obs { match r { Ok(b) => Obs::Answer(b), Err(SourceError(MyErr(k))) => Obs::Source(k), Err(SinkError(MyErr(k))) => Obs::Sink(k) } }
    fn coq(&self) -> String { match self { Obs::Answer(b) => format!("(ROk {})", coq_bool(*b)), Obs::Source(k) => format!("(RErr (SourceError {k}))"), Obs::Sink(k) => format!("(RErr (SinkError {k}))") } }
}
/// what the documentation of the entry points promises: an error of the first argument wins and is a SourceError (the
/// second argument is then not read at all), otherwise the first error of the second one is a SinkError, otherwise the answer
fn expected_obs(f1: Option<(usize, u64)>, f2: Option<(usize, u64)>, len1: usize, len2: usize, answer: bool) -> (Obs, usize, usize) {
    match (f1, f2) { (Some((p, c)), _) => (Obs::Source(c), p + 1, 0), (None, Some((p, c))) => (Obs::Sink(c), len1, p + 1), (None, None) => (Obs::Answer(answer), len1, len2) }
}
fn c_items<T>(items: &[Result<T, MyErr>], f: &dyn Fn(&T) -> String) -> String { coq_list(items.iter().map(|x| match x { Ok(q) => format!("ROk {}", f(q)), Err(MyErr(c)) => format!("RErr {c}") })) }
fn c_trip(t: &[ST; 3]) -> String { format!("({}, {}, {})", coq_term(&t[0]), coq_term(&t[1]), coq_term(&t[2])) }
fn c_quad(q: &Q) -> String { format!("(mkQ {} {} {} {})", coq_term(&q.0[0]), coq_term(&q.0[1]), coq_term(&q.0[2]), coq_opt(q.1.as_ref().map(|g| coq_term(g)))) }
fn dedup(v: &[Q]) -> Vec<Q> { let mut out: Vec<Q> = vec![]; for q in v { if !out.iter().any(|x| Quad::eq(x, (q.0.each_ref(), q.1.as_ref()))) { out.push(q.clone()) } } out }

fn main() {
    let a = parse_args();
    let mut sum = Summary::default();
    sum.rule = "case = (dataset shape: cycle / clique with blank graph name / disjoint isomorphic components + star / quoted triples containing blank nodes / random generalized quads; second dataset = renamed+shuffled copy, or a mutant: one ground term changed, one statement added or removed, two blank nodes merged, one split; pair of container types); \
non-trivial = at least 2 blank nodes and the pair passes the size and blanked-statement pre-checks (so the colour refinement decides); distinct = distinct printed pair; \
every case additionally runs the two entry points on fallible versions of the pair (0, 1 or 2 errors inserted at generated positions of each argument: result, error side and code, items pulled from each argument), isomorphic_graphs on the default graphs or the unions of all graphs, and on a graph view of the first dataset".into();
    let base = Rng::new(a.seed);
    let mut cases = vec![]; let mut seen = HashSet::new();
    let range: Vec<usize> = match a.only { Some(i) => vec![i], None => (0..a.n).collect() };
    for idx in range {
        let mut r = base.fork(idx as u64);
        let d1 = dedup(&gen_dataset(&mut r));
        let mut d1 = d1;
        let variant = r.below(8);
        let suffix = format!("x{}", r.below(3));
        let mut d2: Vec<Q> = d1.iter().map(|q| rename_q(q, &|b| format!("{b}{suffix}"))).collect();
        // a genuine permutation of labels within the same label set, half of the time
        if r.chance(1, 2) { let mut s = BTreeSet::new(); for q in &d1 { for t in q.0.iter() { bnodes(t, &mut s) } if let Some(g) = &q.1 { bnodes(g, &mut s) } } let labels: Vec<String> = s.into_iter().collect(); let mut perm = labels.clone(); shuffle(&mut perm, &mut r); d2 = d1.iter().map(|q| rename_q(q, &|b| perm[labels.iter().position(|l| l == b).unwrap()].clone())).collect(); }
        let mut expect_true = true;
        match variant {
            0 | 1 => {}
            2 => { // one ground difference: a term in a random position, or the graph name (default <-> named)
                if !d2.is_empty() { let k = r.below(d2.len()); let q = &mut d2[k];
                    let total: usize = q.0.iter().map(n_ground).sum::<usize>() + q.1.as_ref().map_or(0, n_ground);
                    match r.below(8) {
                        // a minimal change of one ground atom anywhere in the statement (any position, any depth)
                        5..=7 if total > 0 => { let mut k = r.below(total); for i in 0..3 { q.0[i] = mutate_ground(&q.0[i].clone(), &mut k, &mut r); } if let Some(g) = q.1.clone() { q.1 = Some(mutate_ground(&g, &mut k, &mut r)); } }
                        0 => q.0[1] = iri("http://e/CHANGED"),
                        1 => q.0[0] = iri("http://e/CHANGED"),
                        2 => q.0[2] = lit_dt("CHANGED", &format!("{XSD}string")),
                        _ => q.1 = match &q.1 { None => Some(iri("http://e/g")), Some(_) => None },
                    }
                    expect_true = false; } }
            3 => { d2.push(([iri("http://e/extra"), iri("http://e/p"), bnode("fresh")], None)); expect_true = false; }
            6 | 7 => { // a minimal change of one ground atom in a statement that mentions NO blank node (nothing but the
                // pairwise comparison of the sorted statements can see it); such a statement is added if there is none
                let blank_free = |q: &Q| { let mut s = BTreeSet::new(); for t in q.0.iter() { bnodes(t, &mut s) } if let Some(g) = &q.1 { bnodes(g, &mut s) } s.is_empty() };
                if !d2.iter().any(|q| blank_free(q)) { let q: Q = ([gen_ground(&mut r), iri("http://e/p"), if r.chance(1, 2) { lit_lang("x", "en") } else { triple(gen_ground(&mut r), iri("http://e/p"), lit_lang("y", "fr")) }], if r.chance(1, 3) { Some(iri("http://e/g")) } else { None }); d1.push(q.clone()); d2.push(q); }
                let ks: Vec<usize> = (0..d2.len()).filter(|k| blank_free(&d2[*k])).collect(); let k = *r.pick(&ks); let q = &mut d2[k];
                let total: usize = q.0.iter().map(n_ground).sum::<usize>() + q.1.as_ref().map_or(0, n_ground);
                let mut at = r.below(total); for i in 0..3 { q.0[i] = mutate_ground(&q.0[i].clone(), &mut at, &mut r); } if let Some(g) = q.1.clone() { q.1 = Some(mutate_ground(&g, &mut at, &mut r)); }
                expect_true = false; }
            4 => { // merge two blank nodes
                let mut s = BTreeSet::new(); for q in &d2 { for t in q.0.iter() { bnodes(t, &mut s) } if let Some(g) = &q.1 { bnodes(g, &mut s) } }
                let l: Vec<String> = s.into_iter().collect();
                if l.len() >= 2 { let (x, y) = (l[0].clone(), l[1].clone()); d2 = dedup(&d2.iter().map(|q| rename_q(q, &|b| if b == y { x.clone() } else { b.to_string() })).collect::<Vec<_>>()); expect_true = false; } }
            5 => { // split: one occurrence of a blank node becomes a fresh node
                if let Some(q) = d2.iter_mut().find(|q| q.0[0].is_blank_node()) { q.0[0] = bnode("splitoff"); expect_true = false; } }
            _ => {}
        }
        d2 = dedup(&d2);
        shuffle(&mut d2, &mut r);
        let kind = r.below(5);
        let ans = iso_in(kind, &d1, &d2);
        let rev = iso_in(kind, &d2, &d1);
        let text = format!("containers#{kind} d1={:?} d2={:?}", d1, d2);
        if a.only.is_some() { println!("CASE {idx}: variant {variant} {text}\nIMPL {ans} (reverse {rev})"); }
        if ans != rev { sum.oracle_failures.push((idx.to_string(), format!("not symmetric: iso(d1,d2)={ans} iso(d2,d1)={rev}; {text}"))); }
        if expect_true && !ans { sum.oracle_failures.push((idx.to_string(), format!("false negative on a renamed and reordered copy; {text}"))); }
        if expect_true {
            // every ground-named graph of the copy, through the graph entry point and a dataset view
            let mut names: Vec<Option<ST>> = vec![None]; for q in &d1 { if let Some(g) = &q.1 { if !g.is_blank_node() && !g.is_triple() && !names.iter().any(|n| n.as_ref() == Some(g)) { names.push(Some(g.clone())); } } }
            for g in names { if !iso_graph_view(&d1, &d2, g.as_ref()) { sum.oracle_failures.push((idx.to_string(), format!("false negative of isomorphic_graphs on the graph {g:?} of a renamed and reordered copy (one side is a view of the dataset, the other a stand-alone list); {text}"))); } sum.bump("graph-entry-point"); }
        }
        // must be false when sizes, blank node counts or blanked statements differ
        let mut k1: Vec<String> = d1.iter().map(blank_qkey).collect(); k1.sort(); let mut k2: Vec<String> = d2.iter().map(blank_qkey).collect(); k2.sort();
        let (mut b1, mut b2) = (BTreeSet::new(), BTreeSet::new());
        for q in &d1 { for t in q.0.iter() { bnodes(t, &mut b1) } if let Some(g) = &q.1 { bnodes(g, &mut b1) } }
        for q in &d2 { for t in q.0.iter() { bnodes(t, &mut b2) } if let Some(g) = &q.1 { bnodes(g, &mut b2) } }
        let must_be_false = k1 != k2 || b1.len() != b2.len();
        if must_be_false && ans { sum.oracle_failures.push((idx.to_string(), format!("answered true although the datasets differ in size, blank node count or a blanked statement; {text}"))); }
        let nontrivial = b1.len() >= 2 && !must_be_false;
        if seen.insert(text.clone()) && nontrivial { sum.distinct_nontrivial += 1; }
        sum.bump(&format!("variant:{}", ["copy", "copy", "ground-term-changed", "statement-added", "blank-merged", "blank-split", "ground-atom-changed-in-blank-free-statement", "ground-atom-changed-in-blank-free-statement"][variant])); sum.bump(&format!("answer:{ans}")); sum.bump(&format!("containers:{kind}"));
        if sum.samples.len() < 4 && nontrivial { sum.samples.push(format!("case {idx}: {text} => {ans}")); }
        sum.evaluations += 1;
        let mut body = format!("let d1 := {} in let d2 := {} in iso_ok d1 d2 {}", coq_list(d1.iter().map(c_quad)), coq_list(d2.iter().map(c_quad)), coq_bool(ans));
        // the model with exactly the number of rounds proved sufficient (every 16th case: checking the condition costs 4 * #blank nodes rounds per side)
        if idx % 16 == 0 { body.push_str(&format!(" && iso_tight_ok d1 d2 {}", coq_bool(ans))); sum.bump("tight-fuel-run"); }

        // ---- the dataset entry point on fallible datasets: errors at generated positions of either or both arguments
        {
            let (it1, f1) = inject(&d1, &mut r, 1); let (it2, f2) = inject(&d2, &mut r, 1);
            let fd1 = FallibleDs { items: it1, pulled: Cell::new(0) }; let fd2 = FallibleDs { items: it2, pulled: Cell::new(0) };
            let obs = Obs::of(isomorphic_datasets(&fd1, &fd2), ()); let (p1, p2) = (fd1.pulled.get(), fd2.pulled.get());
            let exp = expected_obs(f1, f2, d1.len(), d2.len(), ans);
            if a.only.is_some() { println!("FALLIBLE DATASETS items1={:?} items2={:?}\nIMPL {obs:?} pulled {p1} / {p2} (expected {exp:?})", fd1.items, fd2.items); }
            if (obs, p1, p2) != exp { sum.oracle_failures.push((idx.to_string(), format!("isomorphic_datasets on fallible datasets: observed {obs:?} after pulling {p1} items of the first and {p2} of the second argument, expected {exp:?} (an error of the first argument wins as SourceError and the second one is not read; otherwise the first error of the second one as SinkError; otherwise the answer on the same statements); items1={:?} items2={:?}", fd1.items, fd2.items))); }
            sum.bump(&format!("fallible-datasets:{}", match (f1.is_some(), f2.is_some()) { (true, true) => "both-fail", (true, false) => "first-fails", (false, true) => "second-fails", _ => "no-error" }));
            body.push_str(&format!(" && ds_ok {} {} {} {p1} {p2}", c_items(&fd1.items, &|q| c_quad(q)), c_items(&fd2.items, &|q| c_quad(q)), obs.coq()));
        }
        // ---- the graph entry point: the default graphs, or the unions of all graphs (duplicates kept: these are lists), as
        // fallible graphs; and the graph entry point must agree with the dataset one on the statements (s, p, o, default)
        {
            let union = r.chance(1, 2);
            let tr = |d: &[Q]| -> Vec<[ST; 3]> { d.iter().filter(|q| union || q.1.is_none()).map(|q| q.0.clone()).collect() };
            let (t1, t2) = (tr(&d1), tr(&d2));
            let as_ds = |t: &[[ST; 3]]| -> Vec<Q> { t.iter().map(|x| (x.clone(), None)).collect() };
            let ga = sophia_isomorphism::isomorphic_graphs(&t1, &t2).unwrap();
            let da = isomorphic_datasets(&as_ds(&t1), &as_ds(&t2)).unwrap();
            if ga != da { sum.oracle_failures.push((idx.to_string(), format!("isomorphic_graphs answers {ga} but isomorphic_datasets answers {da} on the same triples placed in the default graph; t1={t1:?} t2={t2:?}"))); }
            if expect_true && !ga { sum.oracle_failures.push((idx.to_string(), format!("false negative of isomorphic_graphs on the {} of a renamed and reordered copy; t1={t1:?} t2={t2:?}", if union { "union of all graphs" } else { "default graph" }))); }
            let (it1, f1) = inject(&t1, &mut r, 2); let (it2, f2) = inject(&t2, &mut r, 2);
            let fg1 = FallibleGr { items: it1, pulled: Cell::new(0) }; let fg2 = FallibleGr { items: it2, pulled: Cell::new(0) };
            let obs = Obs::of(sophia_isomorphism::isomorphic_graphs(&fg1, &fg2), ()); let (p1, p2) = (fg1.pulled.get(), fg2.pulled.get());
            let exp = expected_obs(f1, f2, t1.len(), t2.len(), ga);
            if a.only.is_some() { println!("FALLIBLE GRAPHS ({}) items1={:?} items2={:?}\nIMPL {obs:?} pulled {p1} / {p2} (expected {exp:?})", if union { "union" } else { "default graph" }, fg1.items, fg2.items); }
            if (obs, p1, p2) != exp { sum.oracle_failures.push((idx.to_string(), format!("isomorphic_graphs on fallible graphs: observed {obs:?} after pulling {p1} / {p2} items, expected {exp:?}; items1={:?} items2={:?}", fg1.items, fg2.items))); }
            sum.bump(&format!("fallible-graphs:{}", match (f1.is_some(), f2.is_some()) { (true, true) => "both-fail", (true, false) => "first-fails", (false, true) => "second-fails", _ => "no-error" }));
            body.push_str(&format!(" && gr_ok {} {} {} {p1} {p2}", c_items(&fg1.items, &|t| c_trip(t)), c_items(&fg2.items, &|t| c_trip(t)), obs.coq()));
        }
        // ---- one graph of d1 (any name that occurs, blank ones included, or the default graph) through Dataset::graph, against
        // the stand-alone list of the triples of the graph of the same name of d2 (every 2nd case)
        if idx % 2 == 1 {
            let mut names: Vec<Option<ST>> = vec![None]; for q in &d1 { if let Some(g) = &q.1 { if !names.iter().any(|n| n.as_ref() == Some(g)) { names.push(Some(g.clone())); } } }
            let g = r.pick(&names).clone();
            let bt: Vec<[ST; 3]> = d2.iter().filter(|q| match (&q.1, &g) { (None, None) => true, (Some(x), Some(y)) => Term::eq(x, y.borrow_term()), _ => false }).map(|q| q.0.clone()).collect();
            let view = d1.graph(g.clone());
            let r1 = sophia_isomorphism::isomorphic_graphs(&view, &bt).unwrap(); let r2 = sophia_isomorphism::isomorphic_graphs(&bt, &view).unwrap();
            if a.only.is_some() { println!("GRAPH VIEW {g:?} of d1 against {bt:?}\nIMPL {r1} (reverse {r2})"); }
            if r1 != r2 { sum.oracle_failures.push((idx.to_string(), format!("isomorphic_graphs not symmetric on the view of graph {g:?}: {r1} vs {r2}; {text}"))); }
            sum.bump("graph-view-case");
            body.push_str(&format!(" && view_ok {} d1 {} {}", coq_opt(g.as_ref().map(|x| coq_term(x))), coq_list(bt.iter().map(c_trip)), coq_bool(r1)));
        }
        cases.push((idx, body));
    }
    if a.only.is_none() {
        sum.shards = write_shards(&a.out, "From Sophia.C07 Require Import Model LoopModel EntryModel.", &cases, a.shards);
        std::fs::write(format!("{}/summary.json", a.out), sum.to_json()).unwrap();
    }
    println!("c07: {} cases, {} distinct non-trivial, {} oracle failures", sum.evaluations, sum.distinct_nontrivial, sum.oracle_failures.len());
}
