(* Common/Term.v -- the generalized RDF term of sophia_api, with the default
   Term::eq / Term::cmp / Term::hash of api/src/term.rs transcribed. Definitions only
   (proofs are in C02/Proofs.v) so that the model still evaluates when a proof breaks. *)
From Sophia.Common Require Export Prelude.

Inductive term :=
| Iri (s : str)
| Bnode (s : str)
| LitDt (lex dt : str)          (* literal without language tag; dt is the datatype IRI *)
| LitLang (lex tag : str)       (* language-tagged string; datatype is rdf:langString *)
| Triple (s p o : term)
| Var (s : str).

(* "http://www.w3.org/1999/02/22-rdf-syntax-ns#langString" *)
Definition rdf_langString : str :=
  [104;116;116;112;58;47;47;119;119;119;46;119;51;46;111;114;103;47;49;57;57;57;47;48;50;47;
   50;50;45;114;100;102;45;115;121;110;116;97;120;45;110;115;35;108;97;110;103;83;116;114;105;110;103].

(* TermKind discriminants; the numbers are re-generated from `enum TermKind` into
   gen/Consts.v and checked equal to these by C02/Properties.v *)
Inductive kind := KBnode | KIri | KLiteral | KTriple | KVariable.
Definition kind_of (t : term) : kind :=
  match t with
  | Iri _ => KIri | Bnode _ => KBnode | LitDt _ _ | LitLang _ _ => KLiteral
  | Triple _ _ _ => KTriple | Var _ => KVariable
  end.
Definition kind_rank (k : kind) : N :=
  match k with KBnode => 0 | KIri => 1 | KLiteral => 2 | KTriple => 3 | KVariable => 4 end.

(* accessors used by Term::cmp *)
Definition datatype (t : term) : str :=
  match t with LitDt _ dt => dt | LitLang _ _ => rdf_langString | _ => [] end.
Definition lexical (t : term) : str :=
  match t with LitDt l _ | LitLang l _ => l | _ => [] end.

(* Term::eq.  LanguageTag's PartialEq is eq_ignore_ascii_case. *)
Fixpoint term_eqb (a b : term) : bool :=
  match a, b with
  | Iri x, Iri y => str_eqb x y
  | Bnode x, Bnode y => str_eqb x y
  | Var x, Var y => str_eqb x y
  | LitDt l1 d1, LitDt l2 d2 => str_eqb l1 l2 && str_eqb d1 d2
  | LitLang l1 t1, LitLang l2 t2 => str_eqb l1 l2 && str_eqb_ci t1 t2
  | Triple s1 p1 o1, Triple s2 p2 o2 => term_eqb s1 s2 && term_eqb p1 p2 && term_eqb o1 o2
  | _, _ => false
  end.

(* Term::cmp.  LanguageTag's Ord compares the lower-cased tags. *)
Fixpoint term_cmp (a b : term) : comparison :=
  match N.compare (kind_rank (kind_of a)) (kind_rank (kind_of b)) with
  | Eq =>
      match a, b with
      | Iri x, Iri y => str_cmp x y
      | Bnode x, Bnode y => str_cmp x y
      | Var x, Var y => str_cmp x y
      | LitLang l1 t1, LitLang l2 t2 => then_cmp (str_cmp (lower t1) (lower t2)) (str_cmp l1 l2)
      | Triple s1 p1 o1, Triple s2 p2 o2 =>
          then_cmp (term_cmp s1 s2) (then_cmp (term_cmp p1 p2) (term_cmp o1 o2))
      | _, _ => (* two literals, at least one untagged *)
          then_cmp (str_cmp (datatype a) (datatype b)) (str_cmp (lexical a) (lexical b))
      end
  | c => c
  end.

(* Term::hash: the exact byte sequence written to the Hasher (64-bit little-endian target).
   `TermKind: Hash` (derived) writes the discriminant with write_isize (8 bytes);
   `Hash for str` writes the UTF-8 bytes followed by 0xff; `char: Hash` writes a u32 (4 bytes);
   LanguageTag::hash writes each ASCII-lower-cased char as a u32, no terminator. *)
Definition utf8_1 (c : N) : list N :=
  if c <? 128 then [c]
  else if c <? 2048 then [192 + c / 64; 128 + c mod 64]
  else if c <? 65536 then [224 + c / 4096; 128 + (c / 64) mod 64; 128 + c mod 64]
  else [240 + c / 262144; 128 + (c / 4096) mod 64; 128 + (c / 64) mod 64; 128 + c mod 64].
Definition utf8 (s : str) : list N := flat_map utf8_1 s.
Fixpoint le_bytes (k : nat) (n : N) : list N :=
  match k with O => [] | S k' => (n mod 256) :: le_bytes k' (n / 256) end.
Definition hash_str (s : str) : list N := utf8 s ++ [255].
Fixpoint hash_stream (t : term) : list N :=
  le_bytes 8 (kind_rank (kind_of t)) ++
  match t with
  | Iri s | Bnode s | Var s => hash_str s
  | LitDt l d => hash_str l ++ hash_str d
  | LitLang l tg => hash_str l ++ le_bytes 4 64 ++ flat_map (le_bytes 4) (lower tg)
  | Triple s p o => hash_stream s ++ hash_stream p ++ hash_stream o
  end.

(* Well-formedness: an untagged literal never has datatype rdf:langString
   (the Term contract: language_tag() is Some iff datatype is rdf:langString). *)
Fixpoint wf (t : term) : Prop :=
  match t with
  | LitDt _ dt => dt <> rdf_langString
  | Triple s p o => wf s /\ wf p /\ wf o
  | _ => True
  end.

Fixpoint wfb (t : term) : bool :=
  match t with
  | LitDt _ dt => negb (str_eqb dt rdf_langString)
  | Triple s p o => wfb s && wfb p && wfb o
  | _ => true
  end.

(* canonical representative of the term_eqb class: language tags lower-cased *)
Fixpoint canon (t : term) : term :=
  match t with
  | LitLang l tg => LitLang l (lower tg)
  | Triple s p o => Triple (canon s) (canon p) (canon o)
  | _ => t
  end.
