(* C15/ReuseProofs.v -- every call on a reused serializer is the call of a fresh serializer on a
   fresh writer: what the writer receives in a round is determined by the source and the writer's
   policy of THAT round alone, whatever happened in the rounds before (no stale bytes, nothing
   skipped). *)
From Sophia.Common Require Import Prelude Term.
From Sophia.C03 Require Import Model.
From Sophia.C15 Require Import Generic SerializerSink SerializerProofs EndToEnd Reuse.

(* w is wf with the bytes A of the earlier rounds in front *)
Definition sim (A : list N) (w wf : wstate) : Prop :=
  w_acc w = A ++ w_acc wf /\ w_calls w = w_calls wf /\ w_failed w = w_failed wf /\ w_after w = w_after wf.

Lemma dev_write_sim A pol w wf buf : sim A w wf ->
  sim A (fst (dev_write (shifted (length A) pol) w buf)) (fst (dev_write pol wf buf))
  /\ snd (dev_write (shifted (length A) pol) w buf) = snd (dev_write pol wf buf).
Proof.
  intros [Ha [Hc [Hf Ht]]]. unfold dev_write, shifted.
  rewrite Ha, app_length, Hc, Hf, Ht.
  replace (length A + length (w_acc wf) - length A)%nat with (length (w_acc wf)) by lia.
  destruct (pol (length (w_acc wf)) (w_calls wf) buf) as [n|e]; simpl; unfold sim; simpl.
  - rewrite app_assoc. auto.
  - auto.
Qed.

Lemma write_all_f_sim A pol : forall fuel w wf buf, sim A w wf ->
  sim A (fst (write_all_f fuel (shifted (length A) pol) w buf)) (fst (write_all_f fuel pol wf buf))
  /\ snd (write_all_f fuel (shifted (length A) pol) w buf) = snd (write_all_f fuel pol wf buf).
Proof.
  induction fuel as [|f IH]; intros w wf buf H; destruct buf as [|b buf]; simpl; auto.
  pose proof (dev_write_sim A pol w wf (b :: buf) H) as [Hs Hr].
  destruct (dev_write (shifted (length A) pol) w (b :: buf)) as [w1 r1].
  destruct (dev_write pol wf (b :: buf)) as [wf1 r2]. simpl in Hs, Hr. subst r2.
  destruct r1 as [[|n]|e]; simpl; auto.
Qed.

Lemma write_chunks_sim A pol : forall chunks w wf, sim A w wf ->
  sim A (fst (write_chunks (shifted (length A) pol) w chunks)) (fst (write_chunks pol wf chunks))
  /\ snd (write_chunks (shifted (length A) pol) w chunks) = snd (write_chunks pol wf chunks).
Proof.
  induction chunks as [|c r IH]; intros w wf H; simpl; auto.
  unfold write_all.
  pose proof (write_all_f_sim A pol (length c) w wf c H) as [Hs Hr].
  destruct (write_all_f (length c) (shifted (length A) pol) w c) as [w1 o1].
  destruct (write_all_f (length c) pol wf c) as [wf1 o2]. simpl in Hs, Hr. subst o2.
  destruct o1 as [e|]; simpl; auto.
Qed.

Lemma gfeed_ser_sim A pol : forall qs w wf, sim A w wf ->
  sim A (fst (gfeed (ser_sink (shifted (length A) pol)) qs w)) (fst (gfeed (ser_sink pol) qs wf))
  /\ snd (gfeed (ser_sink (shifted (length A) pol)) qs w) = snd (gfeed (ser_sink pol) qs wf).
Proof.
  induction qs as [|q qs IH]; intros w wf H; simpl; auto.
  assert (forall p w', ser_sink p q w' = write_chunks p w' (stmt_chunks q)) as E by reflexivity.
  rewrite !E.
  pose proof (write_chunks_sim A pol (stmt_chunks q) w wf H) as [Hs Hr].
  destruct (write_chunks (shifted (length A) pol) w (stmt_chunks q)) as [w1 o1].
  destruct (write_chunks pol wf (stmt_chunks q)) as [wf1 o2]. simpl in Hs, Hr. subst o2.
  destruct o1 as [e|]; simpl; auto.
Qed.

Lemma skipn_app_length {X} (a b : list X) : skipn (length a) (a ++ b) = b.
Proof. induction a; simpl; auto. Qed.

(* a reused serializer behaves in every call like a fresh one on a fresh writer *)
Theorem ser_rounds_fresh rounds : forall w,
  ser_rounds w rounds = map (fun r => run_ser (fst r) (snd r)) rounds.
Proof.
  induction rounds as [|[qs wd] r IH]; intros w; simpl; [reflexivity|].
  assert (sim (w_acc w) (recover w) w0) as H0.
  { unfold sim, recover, w0. simpl. rewrite app_nil_r. auto. }
  pose proof (gfeed_ser_sim (w_acc w) (policy_of wd) qs (recover w) w0 H0) as [[Ha [Hc [Hf Ht]]] Hr].
  unfold run_ser.
  destruct (gfeed (ser_sink (shifted (length (w_acc w)) (policy_of wd))) qs (recover w)) as [w1 o1].
  destruct (gfeed (ser_sink (policy_of wd)) qs w0) as [wf1 o2]. simpl in *. subst o2.
  rewrite Ha, skipn_app_length, Hc, Ht, IH. reflexivity.
Qed.

(* in particular: in every round the writer receives the statements of THAT round's source, cut
   inside the statement during which the round's writer failed (nothing of an earlier round), all
   of them when the writer does not fail, and it is never called again after a failed call *)
Corollary ser_rounds_no_stale_bytes rounds w :
  Forall2 (fun r (o : round_obs) =>
             let '(bytes, _, after, oe) := o in
             match oe with
             | None => bytes = nq_write (fst r)
             | Some _ =>
                 exists done q rest k,
                   fst r = done ++ q :: rest /\ (k < length (nq_write_quad q))%nat
                   /\ bytes = nq_write done ++ firstn k (nq_write_quad q)
             end /\ after = O)
          rounds (ser_rounds w rounds).
Proof.
  rewrite ser_rounds_fresh.
  induction rounds as [|[qs wd] r IH]; simpl; constructor; [|exact IH].
  unfold run_ser. pose proof (ser_prefix (policy_of wd) qs w0) as H.
  destruct (gfeed (ser_sink (policy_of wd)) qs w0) as [w1 oe]. simpl in *.
  destruct H as [H1 H2]. destruct (H2 eq_refl) as [H3 _]. split; [exact H1|exact H3].
Qed.
