(* C08/Regex.v -- regular expressions over code points: a Brzozowski-derivative matcher, the
   abstraction of character classes to the fixed atom vocabulary of gen/RegexAtoms.v (what the `ka`
   decision procedure works on) with its alignment check, and combinators to transcribe ABNF.
   Independent of the regex sources.  Definitions only. *)
From Sophia.Common Require Import Prelude.
From Sophia.gen Require Export LabelAtoms.

(* ---------- character classes ---------- *)
Definition in_range (c : N) (r : N * N) : bool := (fst r <=? c) && (c <=? snd r).
Definition inr (c : N) (rs : cclass) : bool := existsb (in_range c) rs.

(* ---------- derivative matcher, generic in the leaf type ---------- *)
Fixpoint nullable {A} (r : rex A) : bool :=
  match r with
  | Emp => false
  | Eps => true
  | Lf _ => false
  | Alt a b => if nullable a then true else nullable b
  | Cat a b => if nullable a then nullable b else false
  | Star _ => true
  end.

Definition mk_alt {A} (a b : rex A) : rex A :=
  match a, b with
  | Emp, _ => b
  | _, Emp => a
  | _, _ => Alt a b
  end.
Definition mk_cat {A} (a b : rex A) : rex A :=
  match a, b with
  | Emp, _ => Emp
  | _, Emp => Emp
  | Eps, _ => b
  | _, _ => Cat a b
  end.

Section Deriv.
  Context {A : Type} (test : A -> bool).   (* does the current character belong to the leaf? *)
  Fixpoint deriv (r : rex A) : rex A :=
    match r with
    | Emp => Emp
    | Eps => Emp
    | Lf a => if test a then Eps else Emp
    | Alt a b => mk_alt (deriv a) (deriv b)
    | Cat a b => if nullable a then mk_alt (mk_cat (deriv a) b) (deriv b) else mk_cat (deriv a) b
    | Star a => mk_cat (deriv a) (Star a)
    end.
End Deriv.

Section Match.
  Context {A : Type} (test : N -> A -> bool).
  Fixpoint matchg (r : rex A) (w : str) : bool :=
    match w with
    | [] => nullable r
    | c :: w' => matchg (deriv (test c) r) w'
    end.
End Match.

(* whole-string match of a regex whose leaves are classes (Regex::is_match with ^...$) *)
Definition matchb : rex cclass -> str -> bool := matchg inr.

(* ---------- atoms ---------- *)
Definition e_lo (e : N * N * N) : N := fst (fst e).
Definition e_hi (e : N * N * N) : N := snd (fst e).
Definition e_atom (e : N * N * N) : N := snd e.

(* atom of a code point; [dflt] outside the table *)
Fixpoint lookup (dflt : N) (t : list (N * N * N)) (c : N) : N :=
  match t with
  | [] => dflt
  | e :: t' => if (e_lo e <=? c) && (c <=? e_hi e) then e_atom e else lookup dflt t' c
  end.
Definition atom_of (c : N) : N := lookup n_atoms atom_table c.

(* the table is a contiguous, gap-free chain of non-empty ranges starting at [lo] and ending at [last] *)
Fixpoint contiguous (lo last : N) (t : list (N * N * N)) : bool :=
  match t with
  | [] => false
  | [e] => (e_lo e =? lo) && (lo <=? e_hi e) && (e_hi e =? last)
  | e :: t' => (e_lo e =? lo) && (lo <=? e_hi e) && contiguous (e_hi e + 1) last t'
  end.
Definition max_cp : N := 1114111.   (* 0x10FFFF *)
Definition table_ok (t : list (N * N * N)) : bool :=
  contiguous 0 max_cp t && forallb (fun e => e_atom e <? n_atoms) t.

(* a table entry lies inside one range of the class / is disjoint from all ranges of the class *)
Definition entry_in (rs : cclass) (e : N * N * N) : bool :=
  existsb (fun r => (fst r <=? e_lo e) && (e_hi e <=? snd r)) rs.
Definition entry_out (rs : cclass) (e : N * N * N) : bool :=
  forallb (fun r => (snd r <? e_lo e) || (e_hi e <? fst r)) rs.
Definition memN (a : N) (l : list N) : bool := existsb (N.eqb a) l.
Fixpoint dedup (l : list N) : list N :=
  match l with [] => [] | a :: l' => if memN a l' then dedup l' else a :: dedup l' end.
Definition atoms_in_t (t : list (N * N * N)) (rs : cclass) : list N :=
  dedup (map e_atom (filter (entry_in rs) t)).
Definition aligned_t (t : list (N * N * N)) (rs : cclass) : bool :=
  let covered := atoms_in_t t rs in       (* computed once *)
  forallb (fun e => if entry_in rs e then true
                    else entry_out rs e && negb (memN (e_atom e) covered)) t
  && forallb (fun r => snd r <=? max_cp) rs.
Definition atoms_in := atoms_in_t atom_table.
Definition aligned := aligned_t atom_table.

Fixpoint sum_atoms (l : list N) : rex N :=
  match l with
  | [] => Emp
  | [a] => Lf a
  | a :: l' => Alt (Lf a) (sum_atoms l')
  end.

(* replace every class by the sum of the atoms it covers *)
Fixpoint abstract (r : rex cclass) : rex N :=
  match r with
  | Emp => Emp
  | Eps => Eps
  | Lf rs => sum_atoms (atoms_in rs)
  | Alt a b => Alt (abstract a) (abstract b)
  | Cat a b => Cat (abstract a) (abstract b)
  | Star a => Star (abstract a)
  end.
Fixpoint all_aligned (r : rex cclass) : bool :=
  match r with
  | Emp | Eps => true
  | Lf rs => aligned rs
  | Alt a b | Cat a b => all_aligned a && all_aligned b
  | Star a => all_aligned a
  end.

(* the matcher on the atom level: classify the character once, compare atom numbers *)
Definition matcha : rex N -> str -> bool := matchg (fun c a => N.eqb (atom_of c) a).

(* structural equality of atom regexes (to compare the translator's abstraction with ours) *)
Fixpoint rexN_eqb (a b : rex N) : bool :=
  match a, b with
  | Emp, Emp | Eps, Eps => true
  | Lf x, Lf y => N.eqb x y
  | Alt a1 a2, Alt b1 b2 | Cat a1 a2, Cat b1 b2 => rexN_eqb a1 b1 && rexN_eqb a2 b2
  | Star a1, Star b1 => rexN_eqb a1 b1
  | _, _ => false
  end.

(* ---------- combinators used to transcribe ABNF ---------- *)
Definition chr (c : N) : rex cclass := Lf [(c, c)].
Definition rng (lo hi : N) : rex cclass := Lf [(lo, hi)].
Definition opt {A} (r : rex A) : rex A := Alt r Eps.
Definition plus {A} (r : rex A) : rex A := Cat r (Star r).
Fixpoint alts {A} (l : list (rex A)) : rex A :=
  match l with [] => Emp | [r] => r | r :: l' => Alt r (alts l') end.
Fixpoint cats {A} (l : list (rex A)) : rex A :=
  match l with [] => Eps | [r] => r | r :: l' => Cat r (cats l') end.
(* exactly n / at most n repetitions *)
Fixpoint rep {A} (n : nat) (r : rex A) : rex A :=
  match n with O => Eps | S O => r | S n' => Cat r (rep n' r) end.
Fixpoint rep_le {A} (n : nat) (r : rex A) : rex A :=
  match n with O => Eps | S n' => Alt Eps (Cat r (rep_le n' r)) end.

(* diagnostic: the classes of a regex that do not align with the atom table *)
Fixpoint unaligned_leaves (r : rex cclass) : list cclass :=
  match r with
  | Emp | Eps => []
  | Lf rs => if aligned rs then [] else [rs]
  | Alt a b | Cat a b => unaligned_leaves a ++ unaligned_leaves b
  | Star a => unaligned_leaves a
  end.
