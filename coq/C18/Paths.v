(* C18/Paths.v -- the public ways of driving RdfXmlSerializer, on top of C18/Model.v.
     api/src/serializer.rs   TripleSerializer::serialize_graph (PROVIDED method: an implementation may
                             override it) = self.serialize_triples(&mut graph.triples())
     api/src/graph/_foreign_impl.rs, inmem/src/graph.rs, api/src/graph/adapter.rs
                             what `graph.triples()` lists for a sequence container (Vec, slice), for a
                             set container (HashSet, BTreeSet, FastGraph, LightGraph, views of set datasets)
     xml/src/serializer.rs   several calls on ONE serializer (every call starts a new document on the same
                             writer, `Ok(self)` allows chaining), Stringifier (the bytes written so far),
                             a writer that stops accepting bytes (io::Error -> SinkError)
   Definitions only. *)
From Sophia.C18 Require Export Model.

(* ------------------------------------------------------------------------------------------- *)
(* 1. serialize_triples / serialize_graph                                                        *)
(* ------------------------------------------------------------------------------------------- *)
Definition graph3 := list (term * term * term).

Inductive entry := ETriples | EGraph.
(* the provided method hands `graph.triples()` to the required one; [listing] = what triples() yields *)
Definition serialize_graph (guard : bool) (indentation : N) (listing : graph3) : ser_result :=
  serialize guard indentation listing.
Definition serialize_via (e : entry) (guard : bool) (indentation : N) (listing : graph3) : ser_result :=
  match e with
  | ETriples => serialize guard indentation listing
  | EGraph => serialize_graph guard indentation listing
  end.

(* ------------------------------------------------------------------------------------------- *)
(* 2. what a container lists                                                                     *)
(* ------------------------------------------------------------------------------------------- *)
Definition mem3 (t : term * term * term) (l : graph3) : bool := existsb (triple3_eqb t) l.
Fixpoint nodup3 (l : graph3) : bool :=
  match l with
  | [] => true
  | t :: r => negb (mem3 t r) && nodup3 r
  end.
Definition incl3 (a b : graph3) : bool := forallb (fun t => mem3 t b) a.

Inductive container :=
| CSeq      (* Vec<[T;3]>, [T], &G, &mut G: triples() is the sequence itself *)
| CSet.     (* HashSet, BTreeSet, FastGraph, LightGraph, DatasetGraph / UnionGraph over them: every triple
               once (Term::eq), in the container's own order *)
(* [g] = the triples inserted, [fed] = what triples() listed *)
Definition listing_ok (c : container) (g fed : graph3) : bool :=
  match c with
  | CSeq => list_eqb triple3_same g fed
  | CSet => nodup3 fed && incl3 fed g && incl3 g fed
  end.

(* harness-facing: the document observed when a container holding g was serialised, its listing being fed *)
Definition path_ok (c : container) (guard : bool) (indentation : N) (g fed : graph3) (o : obs_ser) : bool :=
  listing_ok c g fed && ser_ok guard indentation fed o.

(* ------------------------------------------------------------------------------------------- *)
(* 3. several calls on one serializer                                                            *)
(* ------------------------------------------------------------------------------------------- *)
(* [buf] = what the writer holds; a failing call leaves a partial document behind (not modelled: the
   result is then only the error) *)
Fixpoint ser_calls (guard : bool) (indentation : N) (buf : str) (gs : list graph3) : str * option ser_result :=
  match gs with
  | [] => (buf, None)
  | g :: r =>
      match serialize guard indentation g with
      | SerOk d => ser_calls guard indentation (buf ++ d) r
      | e => (buf, Some e)
      end
  end.
(* every call on its own *)
Definition docs_of (guard : bool) (indentation : N) (gs : list graph3) : list (option str) :=
  map (fun g => match serialize guard indentation g with SerOk d => Some d | _ => None end) gs.
Fixpoint concat_docs (ds : list (option str)) : option str :=
  match ds with
  | [] => Some []
  | Some d :: r => option_map (app d) (concat_docs r)
  | None :: _ => None
  end.
(* observed: Some total = every call returned Ok and the stringifier then held [total];
   None = some call returned an error *)
Definition calls_ok (guard : bool) (indentation : N) (gs : list graph3) (o : option str) : bool :=
  match ser_calls guard indentation [] gs, o with
  | (total, None), Some t => str_eqb total t
  | (_, Some _), None => true
  | _, _ => false
  end.

(* ------------------------------------------------------------------------------------------- *)
(* 4. a writer that accepts [limit] bytes                                                        *)
(* ------------------------------------------------------------------------------------------- *)
Definition utf8_len1 (c : N) : N := if c <? 128 then 1 else if c <? 2048 then 2 else if c <? 65536 then 3 else 4.
Fixpoint utf8_len (s : str) : N := match s with [] => 0 | c :: r => utf8_len1 c + utf8_len r end.
(* serialize_triples returns Ok exactly when the graph is expressible and all bytes of the document fit *)
Definition ser_limited (guard : bool) (indentation : N) (g : graph3) (limit : N) : bool :=
  match serialize guard indentation g with
  | SerOk d => utf8_len d <=? limit
  | _ => false
  end.
Definition limited_ok (guard : bool) (indentation : N) (g : graph3) (limit : N) (observed_ok : bool) : bool :=
  Bool.eqb (ser_limited guard indentation g limit) observed_ok.
