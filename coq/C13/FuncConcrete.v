(* C13/FuncConcrete.v -- the concrete instance [YC] of FuncModel.flib over ExprConcrete.XC, used to RUN
   the function models against the engine (the theorems hold for every instance).
   Definitions only.
   * doubles / floats: Coq.Floats.SpecFloat values; their exact value is read off the
     representation, the four roundings are computed on that exact value in Z.
   * case mappings: ASCII, Latin-1, Greek, Cyrillic and the special cases the harness draws from
     (written from the Unicode character database; every other character maps to itself, which is
     right for the caseless characters of the harness alphabet: CJK, emoji, combining marks,
     digits, punctuation).
   * IriRef::new: characters that may not occur in an IRI reference and well-formed percent
     escapes (exact on the pool of the harness; the full grammar is property C09's).
   * dateTime fields: civil date from the day number (inverse of ExprConcrete.days_from_civil). *)
From Coq Require Import String Ascii.
From Coq Require Import SpecFloat.
From Sophia.C13 Require Export ExprConcrete FuncModel.
Local Open Scope Z_scope.

(* ---- floats ---- *)
Definition sf_view (x : spec_float) : xrat :=
  match x with
  | S754_zero _ => RFin 0 0
  | S754_infinity s => RInf s
  | S754_nan => RNaN
  | S754_finite s m e => RFin (if s then Zneg m else Zpos m) e
  end.
Definition sf_rnd (prec emax : Z) (md : rmode) (x : spec_float) : spec_float :=
  match x with
  | S754_finite s m e =>
      let z := rat_round md (if s then Zneg m else Zpos m) e in
      if z =? 0 then S754_zero s else sf_of_Z prec emax z
  | _ => x
  end.

(* ---- Unicode case mappings ---- *)
Local Open Scope N_scope.
Definition in_rng (lo hi ch : N) : bool := (lo <=? ch) && (ch <=? hi).
Definition uc_upper (ch : N) : list N :=
  if in_rng 97 122 ch then [ch - 32]                                   (* a-z *)
  else if ch =? 181 then [924]                                          (* micro sign -> GREEK CAPITAL MU *)
  else if ch =? 223 then [83; 83]                                       (* sharp s -> SS *)
  else if in_rng 224 254 ch && negb (ch =? 247) then [ch - 32]          (* Latin-1 *)
  else if ch =? 255 then [376]                                          (* y diaeresis *)
  else if ch =? 305 then [73]                                           (* dotless i *)
  else if ch =? 329 then [700; 78]                                      (* n preceded by apostrophe *)
  else if ch =? 962 then [931]                                          (* final sigma *)
  else if in_rng 945 969 ch then [ch - 32]                              (* Greek *)
  else if in_rng 1072 1103 ch then [ch - 32]                            (* Cyrillic *)
  else if ch =? 64257 then [70; 73]                                     (* ligature fi *)
  else if in_rng 66600 66639 ch then [ch - 40]                          (* Deseret *)
  else [ch].
Definition uc_lower (ch : N) : list N :=
  if in_rng 65 90 ch then [ch + 32]
  else if in_rng 192 222 ch && negb (ch =? 215) then [ch + 32]
  else if ch =? 304 then [105; 775]                                     (* I with dot above *)
  else if ch =? 376 then [255]
  else if in_rng 913 937 ch && negb (ch =? 930) then [ch + 32]
  else if in_rng 1040 1071 ch then [ch + 32]
  else if ch =? 8490 then [107]                                         (* Kelvin sign *)
  else if in_rng 66560 66599 ch then [ch + 40]
  else [ch].

(* ---- IriRef::new / Iri::new, on the harness pool ---- *)
Definition is_hex (ch : N) : bool := is_digit ch || in_rng 65 70 ch || in_rng 97 102 ch.
Fixpoint iri_chars_ok (s : str) : bool :=
  match s with
  | [] => true
  | ch :: r =>
      if ch =? 37 then match r with
                       | a :: b :: r' => is_hex a && is_hex b && iri_chars_ok r'
                       | _ => false
                       end
      else negb (ch <=? 32) && negb (ch =? 34) && negb (ch =? 60) && negb (ch =? 62) && negb (ch =? 92)
           && negb (ch =? 94) && negb (ch =? 96) && negb (in_rng 123 125 ch) && negb (in_rng 127 159 ch)
           && iri_chars_ok r
  end.
Fixpoint scheme_rest (s : str) : bool :=
  match s with
  | [] => false
  | ch :: r => if ch =? 58 then true
               else (is_alpha ch || is_digit ch || (ch =? 43) || (ch =? 45) || (ch =? 46)) && scheme_rest r
  end.
Definition has_scheme (s : str) : bool :=
  match s with ch :: r => is_alpha ch && scheme_rest r | [] => false end.
(* a relative reference may not have a colon in its first path segment (RFC 3987 ipath-noscheme) *)
Fixpoint first_segment (s : str) : str :=
  match s with
  | [] => []
  | ch :: r => if (ch =? 47) || (ch =? 63) || (ch =? 35) then [] else ch :: first_segment r
  end.
Definition iri_ref_simple (s : str) : bool :=
  iri_chars_ok s && (negb (existsb (fun ch => ch =? 58) (first_segment s)) || has_scheme s).
Definition iri_abs_simple (s : str) : bool := iri_chars_ok s && has_scheme s.

(* ---- xsd:dateTime fields ---- *)
Local Open Scope Z_scope.
Definition day_ns : Z := 86400 * 1000000000.
(* Howard Hinnant's civil_from_days, day 0 = 0000-03-01 *)
Definition civil_from_days (z : Z) : Z * Z * Z :=
  let era := z / 146097 in
  let doe := z - era * 146097 in
  let yoe := (doe - doe / 1460 + doe / 36524 - doe / 146096) / 365 in
  let y := yoe + era * 400 in
  let doy := doe - (365 * yoe + yoe / 4 - yoe / 100) in
  let mp := (5 * doy + 2) / 153 in
  let d := doy - (153 * mp + 2) / 5 + 1 in
  let m := if mp <? 10 then mp + 3 else mp - 9 in
  (if m <=? 2 then y + 1 else y, m, d).
Definition local_ns (d : dtval) : Z :=
  match d with (pos, None) => pos | (pos, Some off) => pos + off * 1000000000 end.
Definition dtval_fields (d : dtval) : Z * Z * Z * Z * Z :=
  let l := local_ns d in
  let '(y, m, dd) := civil_from_days (l / day_ns) in
  let tod := (l mod day_ns) / 1000000000 in
  (y, m, dd, tod / 3600, (tod mod 3600) / 60).
Definition dtval_nanos (d : dtval) : Z := ((local_ns d) mod day_ns) mod (60 * 1000000000).

Definition YC : flib XC :=
  mkFL XC sf_view (sf_rnd 53 1024) (sf_rnd 24 128) uc_upper uc_lower
       iri_ref_simple iri_abs_simple dtval_fields dtval_nanos.
