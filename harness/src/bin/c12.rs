//! C12: JSON-LD serialisation round trip.  Generated datasets (list pathologies, shared blank
//! nodes, compound literals, i18n datatypes, rdf:JSON, non-expressible quads) are serialised by
//! sophia_jsonld, parsed back by sophia's JSON-LD parser and compared up to isomorphism with the
//! expressible part of the input (ORACLE); the emitted JSON is also read back by a small JSON
//! reader, translated to term identifiers and compared inside Coq with the tree computed by the
//! model (C12/Model.v).
use sophia_api::prelude::*;
use sophia_api::quad::Spog;
use sophia_api::term::{SimpleTerm, TermKind};
use sophia_isomorphism::isomorphic_datasets;
use sophia_api::source::StreamError;
use sophia_jsonld::loader::{NoLoader, StaticLoader};
use sophia_jsonld::loader_factory::{ClosureLoaderFactory, DefaultLoaderFactory, LoaderFactory};
use sophia_jsonld::{ContextRef, JsonLdOptions, JsonLdParser, JsonLdSerializer, JsonLdStringifier, Jsonifier, Policy, ProcessingMode, RdfDirection};
use std::collections::{BTreeMap, BTreeSet};
use std::io::Write as _;
use verif_harness::*;

type Q = Spog<ST>;

const I18N: &str = "https://www.w3.org/ns/i18n#";
fn rdf(s: &str) -> ST { iri(&format!("{RDF}{s}")) }
fn ex(s: &str) -> ST { iri(&format!("http://e/{s}")) }
fn plain(s: &str) -> ST { lit_dt(s, &format!("{XSD}string")) }

// ------------------------------------------------------------------ options
#[derive(Clone, Copy, Debug, PartialEq, Eq)]
struct Opts { mode10: bool, use_rdf_type: bool, dir: u8, spaces: u16, native: bool, base: Option<&'static str>, ctr: bool }
impl Opts {
    /// the canonical way of building the options (fixed order of the setters); the recipes below build the same
    /// settings through every builder method in random orders
    fn build(&self) -> JsonLdOptions<sophia_jsonld::loader_factory::DefaultLoaderFactory<sophia_jsonld::loader::NoLoader>> {
        let mut o = JsonLdOptions::new()
            .with_processing_mode(if self.mode10 { ProcessingMode::JsonLd1_0 } else { ProcessingMode::JsonLd1_1 })
            .with_use_rdf_type(self.use_rdf_type)
            .with_use_native_types(self.native)
            .with_spaces(self.spaces);
        o = match self.dir { 1 => o.with_rdf_direction(RdfDirection::I18nDatatype), 2 => o.with_rdf_direction(RdfDirection::CompoundLiteral), _ => o };
        // the options that say how IRIs may be written: the same on the serializer and on the parser of the round trip
        if let Some(b) = self.base { o = o.with_base(arc_iri(b)); }
        if !self.ctr { o = o.with_compact_to_relative(false); }
        o
    }
    fn show(&self) -> String {
        format!("mode={} use_rdf_type={} rdf_direction={} spaces={}{}", if self.mode10 { "1.0" } else { "1.1" }, self.use_rdf_type, ["none", "i18n-datatype", "compound-literal"][self.dir as usize], self.spaces, if self.native { " use_native_types=true" } else { "" }) + &self.base.map(|b| format!(" base=<{b}>")).unwrap_or_default() + if self.ctr { "" } else { " compact_to_relative=false" }
    }
}

// ------------------------------------------------------------------ running the implementation
static QUIET: std::sync::atomic::AtomicBool = std::sync::atomic::AtomicBool::new(false);
fn quiet(b: bool) { QUIET.store(b, std::sync::atomic::Ordering::SeqCst); }
fn quiet_panics() { let old = std::panic::take_hook(); std::panic::set_hook(Box::new(move |i| { if !QUIET.load(std::sync::atomic::Ordering::SeqCst) { old(i) } })); }
fn panic_msg(e: Box<dyn std::any::Any + Send>) -> String {
    if let Some(s) = e.downcast_ref::<&str>() { s.to_string() } else if let Some(s) = e.downcast_ref::<String>() { s.clone() } else { "?".into() }
}
fn serialise(quads: &[Q], o: &Opts) -> Result<String, String> {
    let quads = quads.to_vec();
    let o = *o;
    quiet(true);
    let res = std::panic::catch_unwind(move || {
        let mut ser = JsonLdStringifier::new_stringifier_with_options(o.build());
        match ser.serialize_dataset(&quads) {
            Ok(_) => Ok(ser.as_utf8().to_vec()),
            Err(e) => Err(format!("serializer error: {e}")),
        }
    });
    quiet(false);
    match res {
        Ok(Ok(b)) => String::from_utf8(b).map_err(|_| "output is not UTF-8".to_string()),
        Ok(Err(e)) => Err(e),
        Err(e) => Err(format!("PANIC in serializer: {}", panic_msg(e))),
    }
}
fn to_st<T: Term>(t: T) -> ST {
    match t.kind() {
        TermKind::Iri => iri(t.iri().unwrap().as_str()),
        TermKind::BlankNode => bnode(t.bnode_id().unwrap().as_str()),
        TermKind::Literal => match t.language_tag() {
            Some(tag) => lit_lang(&t.lexical_form().unwrap(), tag.as_str()),
            None => lit_dt(&t.lexical_form().unwrap(), t.datatype().unwrap().as_str()),
        },
        TermKind::Variable => var(t.variable().unwrap().as_str()),
        TermKind::Triple => { let [s, p, o] = t.triple().unwrap(); triple(to_st(s), to_st(p), to_st(o)) }
    }
}
/// the accessors of a parsed term agree with its kind (sophia_api::term::Term's contract), then the term is copied
fn term_contract<T: Term>(t: T, bad: &mut Vec<String>) {
    let k = t.kind();
    let checks = [("iri", t.iri().is_some(), k == TermKind::Iri), ("bnode_id", t.bnode_id().is_some(), k == TermKind::BlankNode),
        ("lexical_form", t.lexical_form().is_some(), k == TermKind::Literal), ("datatype", t.datatype().is_some(), k == TermKind::Literal),
        ("variable", t.variable().is_some(), false), ("triple", t.triple().is_some(), false)];
    for (name, got, want) in checks { if got != want { let m = format!("PARSER TERM: {name}().is_some() is {got} on a term of kind {k:?}"); if !bad.contains(&m) { bad.push(m); } } }
    if let Some(tag) = t.language_tag() {
        if k != TermKind::Literal || t.datatype().map(|d| d.as_str().to_string()) != Some(format!("{RDF}langString")) { let m = format!("PARSER TERM: a term with language tag {:?} has kind {k:?} and datatype {:?}", tag.as_str(), t.datatype().map(|d| d.as_str().to_string())); if !bad.contains(&m) { bad.push(m); } }
    }
}
fn push_quad<T: sophia_api::quad::Quad>(q: T, out: &mut Vec<Q>, bad: &mut Vec<String>) {
    term_contract(q.s(), bad); term_contract(q.p(), bad); term_contract(q.o(), bad); if let Some(g) = q.g() { term_contract(g, bad); }
    out.push(([to_st(q.s()), to_st(q.p()), to_st(q.o())], q.g().map(to_st)));
}
// ---- the entry points of the parser: `parse_str`, and `parse` on every kind of BufRead (the bytes are the same: so must the quads be)
/// a BufRead (not a BufReader) that hands out at most `k` bytes per `fill_buf`
struct Dribble<'a> { data: &'a [u8], pos: usize, k: usize }
impl<'a> std::io::Read for Dribble<'a> {
    fn read(&mut self, buf: &mut [u8]) -> std::io::Result<usize> { let n = self.k.min(buf.len()).min(self.data.len() - self.pos); buf[..n].copy_from_slice(&self.data[self.pos..self.pos + n]); self.pos += n; Ok(n) }
}
impl<'a> std::io::BufRead for Dribble<'a> {
    fn fill_buf(&mut self) -> std::io::Result<&[u8]> { let n = self.k.min(self.data.len() - self.pos); Ok(&self.data[self.pos..self.pos + n]) }
    fn consume(&mut self, amt: usize) { self.pos = (self.pos + amt).min(self.data.len()); }
}
/// a Read that gives at most `k` bytes per call and is interrupted now and then (ErrorKind::Interrupted: the caller must retry)
struct Trickle<'a> { data: &'a [u8], pos: usize, k: usize, calls: usize, interrupts: bool }
impl<'a> std::io::Read for Trickle<'a> {
    fn read(&mut self, buf: &mut [u8]) -> std::io::Result<usize> {
        self.calls += 1;
        if self.interrupts && self.calls % 3 == 2 { return Err(std::io::Error::new(std::io::ErrorKind::Interrupted, "interrupted (verif)")); }
        let n = self.k.min(buf.len()).min(self.data.len() - self.pos); buf[..n].copy_from_slice(&self.data[self.pos..self.pos + n]); self.pos += n; Ok(n)
    }
}
#[derive(Clone, Debug, PartialEq)]
enum Entry {
    /// parse_str
    Str,
    /// parse(&[u8]) / parse(Cursor<Vec<u8>>): the whole document in one buffer
    Slice, Cursor,
    /// parse(BufReader::new(..)) (8 KiB buffer, as when reading a file) / BufReader::with_capacity(k, ..)
    BufDefault, BufCap(usize),
    /// parse(custom BufRead handing out k bytes per fill_buf)
    Dribble(usize),
    /// parse(BufReader::with_capacity(cap, Read giving `read` bytes per call, possibly interrupted))
    Trickle { read: usize, cap: usize, interrupts: bool },
    /// parse(first.chain(second)): two buffers, cut at a byte offset (possibly inside a multi-byte character)
    Chain(usize),
    /// parse(VecDeque<u8>) whose ring buffer wraps after that many bytes
    Deque(usize),
}
impl Entry {
    fn show(&self) -> String {
        match self {
            Entry::Str => "parse_str(&str)".into(), Entry::Slice => "parse(&[u8])".into(), Entry::Cursor => "parse(Cursor<Vec<u8>>)".into(),
            Entry::BufDefault => "parse(BufReader::new(&[u8])) [8 KiB buffer]".into(), Entry::BufCap(k) => format!("parse(BufReader::with_capacity({k}, &[u8]))"),
            Entry::Dribble(k) => format!("parse(BufRead handing out {k} byte(s) per fill_buf)"),
            Entry::Trickle { read, cap, interrupts } => format!("parse(BufReader::with_capacity({cap}, Read giving {read} byte(s) per call{}))", if *interrupts { ", interrupted every third call" } else { "" }),
            Entry::Chain(at) => format!("parse(bytes[..{at}].chain(bytes[{at}..]))"), Entry::Deque(at) => format!("parse(VecDeque<u8> wrapping after {at} bytes)"),
        }
    }
    fn kind(&self) -> &'static str {
        match self { Entry::Str => "parse_str", Entry::Slice => "parse(&[u8])", Entry::Cursor => "parse(Cursor)", Entry::BufDefault => "parse(BufReader, 8 KiB)", Entry::BufCap(_) => "parse(BufReader, small capacity)",
            Entry::Dribble(_) => "parse(BufRead, k bytes per fill_buf)", Entry::Trickle { .. } => "parse(BufReader over a slow Read)", Entry::Chain(_) => "parse(Chain of two slices)", Entry::Deque(_) => "parse(VecDeque)" }
    }
    /// the sizes of the pieces in which the reader hands the bytes over, for the model (Wide.v: policy)
    fn policy(&self, len: usize) -> Option<String> {
        match self {
            Entry::Str => None, Entry::Slice | Entry::Cursor => Some(format!("At []")), Entry::BufDefault => Some("Every 8192".into()), Entry::BufCap(k) | Entry::Dribble(k) => Some(format!("Every {k}")),
            Entry::Trickle { read, cap, .. } => Some(format!("Every {}", (*read).min(*cap).max(1))), Entry::Chain(at) | Entry::Deque(at) => Some(format!("At [{}]", (*at).min(len))),
        }
    }
}
/// a VecDeque holding `bytes` whose two slices are cut after `at` bytes (when the allocation allows it)
fn wrapped_deque(bytes: &[u8], at: usize) -> std::collections::VecDeque<u8> {
    let mut d: std::collections::VecDeque<u8> = std::collections::VecDeque::with_capacity(bytes.len());
    let cap = d.capacity(); let at = at.min(bytes.len());
    // the head is moved so that `at` bytes fit before the end of the allocation
    if at > 0 && at < bytes.len() && cap >= bytes.len() { let shift = cap - at; for _ in 0..shift { d.push_back(0); } for _ in 0..shift { d.pop_front(); } }
    d.extend(bytes.iter().copied());
    d
}
/// runs one entry point of `p` on the document
fn run_entry<LF: LoaderFactory>(p: &JsonLdParser<LF>, txt: &[u8], entry: &Entry) -> sophia_jsonld::parser::JsonLdQuadSource {
    use std::io::{BufReader, Read as _};
    match entry {
        Entry::Str => match std::str::from_utf8(txt) { Ok(t) => p.parse_str(t), Err(_) => p.parse(txt) },
        Entry::Slice => p.parse(txt),
        Entry::Cursor => p.parse(std::io::Cursor::new(txt.to_vec())),
        Entry::BufDefault => p.parse(BufReader::new(txt)),
        Entry::BufCap(k) => p.parse(BufReader::with_capacity((*k).max(1), txt)),
        Entry::Dribble(k) => p.parse(Dribble { data: txt, pos: 0, k: (*k).max(1) }),
        Entry::Trickle { read, cap, interrupts } => p.parse(BufReader::with_capacity((*cap).max(1), Trickle { data: txt, pos: 0, k: (*read).max(1), calls: 0, interrupts: *interrupts })),
        Entry::Chain(at) => { let at = (*at).min(txt.len()); p.parse(txt[..at].chain(&txt[at..])) }
        Entry::Deque(at) => p.parse(wrapped_deque(txt, *at)),
    }
}
/// a random entry point for a document (cuts prefer the inside of a multi-byte character when there is one)
fn gen_entry(r: &mut Rng, txt: &[u8]) -> Entry {
    let inner: Vec<usize> = txt.iter().enumerate().filter(|(_, b)| **b & 0xC0 == 0x80).map(|(i, _)| i).collect();
    let cut = |r: &mut Rng| if !inner.is_empty() && r.chance(2, 3) { *r.pick(&inner) } else { r.below(txt.len() + 1) };
    match r.below(20) {
        0..=5 => Entry::Str, 6 | 7 => Entry::Slice, 8 => Entry::Cursor, 9 | 10 => Entry::BufDefault, 11 | 12 => Entry::BufCap(*r.pick(&[1, 2, 3, 5, 7, 16, 64, 4096])),
        13..=15 => Entry::Dribble(r.range(1, 7)), 16 => Entry::Trickle { read: r.range(1, 9), cap: *r.pick(&[1, 3, 8, 8192]), interrupts: r.chance(1, 2) }, 17 | 18 => Entry::Chain(cut(r)), _ => Entry::Deque(cut(r)),
    }
}

/// how the parser of the round trip is built: None = from the canonical options; Some = through the recipe
#[derive(Clone)]
struct ParseHow { recipe: Vec<Op>, via_default: bool, as_bytes: bool }
fn parse_back(txt: &str, o: &Opts, how: Option<&ParseHow>, entry: &Entry, problems: &mut Vec<String>) -> Result<Vec<Q>, String> {
    let txt = txt.to_string();
    let o = *o;
    let how = how.cloned();
    let entry = entry.clone();
    quiet(true);
    let res = std::panic::catch_unwind(move || {
        match how {
            None => {
                let p = JsonLdParser::new_with_options(o.build());
                let mut out: Vec<Q> = vec![]; let mut bad: Vec<String> = vec![];
                let mut src = run_entry(&p, txt.as_bytes(), &entry);
                match src.for_each_quad(|q| push_quad(q, &mut out, &mut bad)) {
                    Ok(()) => (bad, Ok(out)),
                    Err(e) => (bad, Err(format!("parse error: {e}"))),
                }
            }
            Some(h) => {
                // an expand context given by an IRI cannot be loaded by the loaders used here: it is removed before parsing
                let mut ops = h.recipe.clone();
                if Expect::of(&ops).expand == 1 { ops.push(Op::NoExpand); }
                let e = Expect::of(&ops);
                if ops.is_empty() && h.as_bytes {
                    let p = if h.via_default { JsonLdParser::default() } else { JsonLdParser::new() };
                    let mut bad: Vec<String> = check_getters(p.options(), &e).into_iter().map(|p| format!("OPTIONS (JsonLdParser::new): {p}")).collect();
                    let mut out: Vec<Q> = vec![];
                    // the module-level functions (default parser) and the parser's own methods, by turns
                    let mut src = if h.via_default { if txt.len() % 2 == 0 { sophia_jsonld::parser::parse_str(&txt) } else { sophia_jsonld::parser::parse_bufread(txt.as_bytes()) } } else { run_entry(&p, txt.as_bytes(), &entry) };
                    let r = match src.for_each_quad(|q| push_quad(q, &mut out, &mut bad)) { Ok(()) => Ok(out), Err(e) => Err(format!("parse error: {e}")) };
                    (bad, r)
                } else {
                    run_recipe(&ops, h.via_default, ParseRun { txt: &txt, expect: &e, as_bytes: h.as_bytes, entry: &entry })
                }
            }
        }
    });
    quiet(false);
    match res {
        Ok((bad, r)) => { problems.extend(bad); r }
        Err(e) => Err(format!("PANIC in parser: {}", panic_msg(e))),
    }
}

// ------------------------------------------------------------------ option recipes: every builder method, in random orders
const CTX_TXT: &str = "{\"@context\": {\"ex\": \"http://e/\"}}";
const CTX_IRI: &str = "http://e/ctx";
const CCTX_IRI: &str = "http://e/cctx";
#[derive(Clone, Debug, PartialEq)]
enum Op {
    Base(Option<&'static str>), CompactArrays(bool), CompactToRelative(bool),
    LoaderFactoryD, LoaderFactoryF, LoaderClosure, LoaderDefault, LoaderStatic,
    ExpandIri, ExpandLoaded, ExpandTry, NoExpand, Ordered(bool), Mode(bool), GenRdf(bool), Dir(u8), Native(bool), RdfType(bool),
    Policy(u8), Spaces(u16), CompactIri, CompactLoaded, CompactTry, NoCompact,
}
impl Op {
    fn is_loader(&self) -> bool { matches!(self, Op::LoaderFactoryD | Op::LoaderFactoryF | Op::LoaderClosure | Op::LoaderDefault | Op::LoaderStatic) }
    fn show(&self) -> String {
        match self {
            Op::Base(Some(b)) => format!("with_base(<{b}>)"), Op::Base(None) => "with_no_base()".into(),
            Op::CompactArrays(b) => format!("with_compact_arrays({b})"), Op::CompactToRelative(b) => format!("with_compact_to_relative({b})"),
            Op::LoaderFactoryD => "with_document_loader_factory(DefaultLoaderFactory)".into(), Op::LoaderFactoryF => "with_document_loader_factory(ClosureLoaderFactory)".into(),
            Op::LoaderClosure => "with_document_loader_closure(fn)".into(), Op::LoaderDefault => "with_default_document_loader::<NoLoader>()".into(), Op::LoaderStatic => "with_document_loader(StaticLoader)".into(),
            Op::ExpandIri => "with_expand_context(<iri>)".into(), Op::ExpandLoaded => "with_expand_context(loaded)".into(), Op::ExpandTry => "try_with_expand_context(text)".into(), Op::NoExpand => "with_no_expand_context()".into(),
            Op::Ordered(b) => format!("with_ordered({b})"), Op::Mode(m) => format!("with_processing_mode({})", if *m { "1.0" } else { "1.1" }), Op::GenRdf(b) => format!("with_produce_generalized_rdf({b})"),
            Op::Dir(0) => "with_no_rdf_direction()".into(), Op::Dir(d) => format!("with_rdf_direction({})", if *d == 1 { "i18n-datatype" } else { "compound-literal" }),
            Op::Native(b) => format!("with_use_native_types({b})"), Op::RdfType(b) => format!("with_use_rdf_type({b})"), Op::Policy(k) => format!("with_expansion_policy({:?})", policy(*k)), Op::Spaces(n) => format!("with_spaces({n})"),
            Op::CompactIri => "with_compact_context(<iri>)".into(), Op::CompactLoaded => "with_compact_context(loaded)".into(), Op::CompactTry => "try_with_compact_context(text)".into(), Op::NoCompact => "with_no_compact_context()".into(),
        }
    }
}
fn policy(k: u8) -> Policy { [Policy::Standard, Policy::Relaxed, Policy::Strict, Policy::Strictest][k as usize % 4] }
fn show_recipe(ops: &[Op]) -> String { if ops.is_empty() { "JsonLdOptions::new()".into() } else { format!("JsonLdOptions::new().{}", ops.iter().map(|o| o.show()).collect::<Vec<_>>().join(".")) } }
/// what the options must answer after a recipe: the specification of the setters (each one changes its own
/// setting and nothing else), starting from the defaults of the JSON-LD API (section 9.3 JsonLdOptions)
#[derive(Clone, Debug, PartialEq)]
struct Expect { base: Option<&'static str>, compact_arrays: bool, compact_to_relative: bool, expand: u8, ordered: bool, mode10: bool, gen_rdf: bool, dir: u8, native: bool, rdf_type: bool, policy: u8, spaces: u16, compact: u8 }
impl Default for Expect {
    fn default() -> Self { Expect { base: None, compact_arrays: true, compact_to_relative: true, expand: 0, ordered: false, mode10: false, gen_rdf: false, dir: 0, native: false, rdf_type: false, policy: 0, spaces: 0, compact: 0 } }
}
impl Expect {
    fn step(&mut self, op: &Op) {
        match op {
            Op::Base(b) => self.base = *b, Op::CompactArrays(b) => self.compact_arrays = *b, Op::CompactToRelative(b) => self.compact_to_relative = *b,
            Op::LoaderFactoryD | Op::LoaderFactoryF | Op::LoaderClosure | Op::LoaderDefault | Op::LoaderStatic => {}
            Op::ExpandIri => self.expand = 1, Op::ExpandLoaded | Op::ExpandTry => self.expand = 2, Op::NoExpand => self.expand = 0,
            Op::Ordered(b) => self.ordered = *b, Op::Mode(m) => self.mode10 = *m, Op::GenRdf(b) => self.gen_rdf = *b, Op::Dir(d) => self.dir = *d, Op::Native(b) => self.native = *b, Op::RdfType(b) => self.rdf_type = *b,
            Op::Policy(k) => self.policy = *k % 4, Op::Spaces(n) => self.spaces = *n,
            Op::CompactIri => self.compact = 1, Op::CompactLoaded | Op::CompactTry => self.compact = 2, Op::NoCompact => self.compact = 0,
        }
    }
    fn of(ops: &[Op]) -> Expect { let mut e = Expect::default(); for op in ops { e.step(op); } e }
    fn opts(&self) -> Opts { Opts { mode10: self.mode10, use_rdf_type: self.rdf_type, dir: self.dir, spaces: self.spaces, native: self.native, base: self.base, ctr: self.compact_to_relative } }
}
fn arc_iri(s: &str) -> sophia_jsonld::vocabulary::ArcIri { sophia_iri::Iri::new_unchecked(std::sync::Arc::from(s)) }
fn loaded_ctx() -> ContextRef { use sophia_jsonld::context::TryIntoContextRef; CTX_TXT.try_into_context_ref().expect("valid context") }
/// the setters that keep the type of the options
fn apply<LF>(o: JsonLdOptions<LF>, op: &Op) -> JsonLdOptions<LF> {
    match op {
        Op::Base(Some(b)) => o.with_base(arc_iri(b)), Op::Base(None) => o.with_no_base(),
        Op::CompactArrays(b) => o.with_compact_arrays(*b), Op::CompactToRelative(b) => o.with_compact_to_relative(*b),
        Op::ExpandIri => o.with_expand_context(sophia_iri::Iri::new_unchecked(CTX_IRI)), Op::ExpandLoaded => o.with_expand_context(loaded_ctx()),
        Op::ExpandTry => o.try_with_expand_context(CTX_TXT).unwrap_or_else(|e| panic!("try_with_expand_context rejects a valid context: {e}")), Op::NoExpand => o.with_no_expand_context(),
        Op::Ordered(b) => o.with_ordered(*b), Op::Mode(m) => o.with_processing_mode(if *m { ProcessingMode::JsonLd1_0 } else { ProcessingMode::JsonLd1_1 }),
        Op::GenRdf(b) => o.with_produce_generalized_rdf(*b),
        Op::Dir(0) => o.with_no_rdf_direction(), Op::Dir(1) => o.with_rdf_direction(RdfDirection::I18nDatatype), Op::Dir(_) => o.with_rdf_direction(RdfDirection::CompoundLiteral),
        Op::Native(b) => o.with_use_native_types(*b), Op::RdfType(b) => o.with_use_rdf_type(*b), Op::Policy(k) => o.with_expansion_policy(policy(*k)), Op::Spaces(n) => o.with_spaces(*n),
        Op::CompactIri => o.with_compact_context(sophia_iri::Iri::new_unchecked(CCTX_IRI)), Op::CompactLoaded => o.with_compact_context(loaded_ctx()),
        Op::CompactTry => o.try_with_compact_context(CTX_TXT).unwrap_or_else(|e| panic!("try_with_compact_context rejects a valid context: {e}")), Op::NoCompact => o.with_no_compact_context(),
        Op::LoaderFactoryD | Op::LoaderFactoryF | Op::LoaderClosure | Op::LoaderDefault | Op::LoaderStatic => unreachable!("loader setters change the type"),
    }
}
/// what is done with the options once built (generic in the loader factory, which the loader setters change)
trait Use { type Out; fn run<LF: LoaderFactory>(self, o: JsonLdOptions<LF>) -> Self::Out; }
fn fn_loader() -> NoLoader { NoLoader::default() }
type DF = DefaultLoaderFactory<NoLoader>;
type FF = ClosureLoaderFactory<NoLoader, fn() -> NoLoader>;
enum AnyOpts { D(JsonLdOptions<DF>), F(JsonLdOptions<FF>) }
fn finish<LF: LoaderFactory, U: Use>(mut o: JsonLdOptions<LF>, ops: &[Op], u: U) -> U::Out { for op in ops { if !op.is_loader() { o = apply(o, op); } } u.run(o) }
/// runs the recipe; `with_document_loader` returns an unnameable type, so at most one of it is applied (later loader setters are skipped)
fn run_recipe<U: Use>(ops: &[Op], via_default: bool, u: U) -> U::Out {
    let mut st = AnyOpts::D(if via_default { JsonLdOptions::default() } else { JsonLdOptions::new() });
    for (i, op) in ops.iter().enumerate() {
        st = match (st, op) {
            (AnyOpts::D(o), Op::LoaderStatic) => return finish(o.with_document_loader(StaticLoader::new()), &ops[i + 1..], u),
            (AnyOpts::F(o), Op::LoaderStatic) => return finish(o.with_document_loader(StaticLoader::new()), &ops[i + 1..], u),
            (AnyOpts::D(o), Op::LoaderDefault) => AnyOpts::D(o.with_default_document_loader::<NoLoader>()),
            (AnyOpts::F(o), Op::LoaderDefault) => AnyOpts::D(o.with_default_document_loader::<NoLoader>()),
            (AnyOpts::D(o), Op::LoaderFactoryD) => AnyOpts::D(o.with_document_loader_factory(DF::new())),
            (AnyOpts::F(o), Op::LoaderFactoryD) => AnyOpts::D(o.with_document_loader_factory(DF::new())),
            (AnyOpts::D(o), Op::LoaderFactoryF) => AnyOpts::F(o.with_document_loader_factory(ClosureLoaderFactory::new(fn_loader as fn() -> NoLoader))),
            (AnyOpts::F(o), Op::LoaderFactoryF) => AnyOpts::F(o.with_document_loader_factory(ClosureLoaderFactory::new(fn_loader as fn() -> NoLoader))),
            (AnyOpts::D(o), Op::LoaderClosure) => AnyOpts::F(o.with_document_loader_closure(fn_loader as fn() -> NoLoader)),
            (AnyOpts::F(o), Op::LoaderClosure) => AnyOpts::F(o.with_document_loader_closure(fn_loader as fn() -> NoLoader)),
            (AnyOpts::D(o), op) => AnyOpts::D(apply(o, op)),
            (AnyOpts::F(o), op) => AnyOpts::F(apply(o, op)),
        };
    }
    match st { AnyOpts::D(o) => u.run(o), AnyOpts::F(o) => u.run(o) }
}
/// every getter (and the Deref to the json-ld crate's options) against the specification
fn check_getters<LF>(o: &JsonLdOptions<LF>, e: &Expect) -> Vec<String> {
    let mut bad = vec![];
    macro_rules! ck { ($name:expr, $got:expr, $want:expr) => { let (g, w) = ($got, $want); if g != w { bad.push(format!("{} is {:?}, expected {:?}", $name, g, w)); } } }
    let ctx = |c: Option<&ContextRef>, iri: &str| -> u8 { match c { None => 0, Some(ContextRef::Iri(i)) => if i.as_str() == iri { 1 } else { 9 }, Some(ContextRef::Loaded(_)) => 2 } };
    let dir = |d: Option<RdfDirection>| -> u8 { match d { None => 0, Some(RdfDirection::I18nDatatype) => 1, Some(RdfDirection::CompoundLiteral) => 2 } };
    ck!("base()", o.base().map(|i| i.as_str().to_string()), e.base.map(|b| b.to_string()));
    ck!("compact_arrays()", o.compact_arrays(), e.compact_arrays);
    ck!("compact_to_relative()", o.compact_to_relative(), e.compact_to_relative);
    ck!("expand_context()", ctx(o.expand_context(), CTX_IRI), e.expand);
    ck!("ordered()", o.ordered(), e.ordered);
    ck!("processing_mode()", o.processing_mode() == ProcessingMode::JsonLd1_0, e.mode10);
    ck!("produce_generalized_rdf()", o.produce_generalized_rdf(), e.gen_rdf);
    ck!("rdf_direction()", dir(o.rdf_direction()), e.dir);
    ck!("use_native_types()", o.use_native_types(), e.native);
    ck!("use_rdf_type()", o.use_rdf_type(), e.rdf_type);
    ck!("expansion_policy()", o.expansion_policy(), policy(e.policy));
    ck!("spaces()", o.spaces(), e.spaces);
    ck!("compact_context()", ctx(o.compact_context(), CCTX_IRI), e.compact);
    // through Deref<Target = json_ld::Options>
    ck!("deref().base", o.base.as_ref().map(|i| i.as_str().to_string()), e.base.map(|b| b.to_string()));
    ck!("deref().compact_arrays", o.compact_arrays, e.compact_arrays);
    ck!("deref().compact_to_relative", o.compact_to_relative, e.compact_to_relative);
    ck!("deref().expand_context", ctx(o.expand_context.as_ref(), CTX_IRI), e.expand);
    ck!("deref().ordered", o.ordered, e.ordered);
    ck!("deref().processing_mode", o.processing_mode == ProcessingMode::JsonLd1_0, e.mode10);
    ck!("deref().produce_generalized_rdf", o.produce_generalized_rdf, e.gen_rdf);
    ck!("deref().rdf_direction", dir(o.rdf_direction), e.dir);
    ck!("deref().expansion_policy", o.expansion_policy, policy(e.policy));
    bad
}
/// the loader factory is usable
fn check_loader<LF: LoaderFactory>(o: &JsonLdOptions<LF>) { let _ = o.document_loader_factory().yield_loader(); let _ = o.document_loader(); }

// ------------------------------------------------------------------ sinks
/// an io::Write that takes 1..5 bytes per call, is sometimes interrupted (write_all must retry), and fails for
/// good once `budget` bytes have been taken
struct Chunky { out: Vec<u8>, r: Rng, budget: Option<usize>, calls: usize, interrupted: usize }
impl std::io::Write for Chunky {
    fn write(&mut self, buf: &[u8]) -> std::io::Result<usize> {
        self.calls += 1;
        if buf.is_empty() { return Ok(0); }
        if self.r.chance(1, 9) { self.interrupted += 1; return Err(std::io::Error::new(std::io::ErrorKind::Interrupted, "interrupted (verif)")); }
        if let Some(b) = self.budget { if self.out.len() >= b { return Err(std::io::Error::new(std::io::ErrorKind::Other, "budget exhausted (verif)")); } }
        let mut k = self.r.range(1, 5).min(buf.len());
        if let Some(b) = self.budget { k = k.min(b - self.out.len()); }
        self.out.extend_from_slice(&buf[..k]);
        Ok(k)
    }
    fn flush(&mut self) -> std::io::Result<()> { Ok(()) }
}
#[derive(Clone, Copy, Debug, PartialEq)]
enum Sink { Stringifier, VecWriter, MutVec, Chunked, Budget(usize), Jsonifier, FailingSource(usize) }
impl Sink { fn name(&self) -> &'static str { match self { Sink::Stringifier => "stringifier", Sink::VecWriter => "Vec<u8>", Sink::MutVec => "&mut Vec<u8>", Sink::Chunked => "writer taking 1..5 bytes per call", Sink::Budget(_) => "writer failing after a byte budget", Sink::Jsonifier => "jsonifier", Sink::FailingSource(_) => "failing quad source" } } }
/// outcome of the calls on one serializer: the bytes the sink holds at the end, the result of each call, and
/// what the sink-level checks found
struct SerOut { bytes: Vec<u8>, results: Vec<Result<(), String>>, problems: Vec<String> }
struct SerRun<'a> { docs: &'a [Vec<Q>], sink: Sink, expect: &'a Expect, seed: u64 }
fn feed<S: sophia_api::serializer::QuadSerializer>(ser: &mut S, quads: &[Q], by_source: bool) -> Result<(), String>
where S::Error: std::fmt::Display {
    let r = if by_source { ser.serialize_quads(quads.iter().cloned().map(Ok::<Q, MyErr>)).map(|_| ()).map_err(|e| e.to_string()) } else { ser.serialize_dataset(&quads.to_vec()).map(|_| ()).map_err(|e| e.to_string()) };
    r.map_err(|e| format!("serializer error: {e}"))
}
impl<'a> Use for SerRun<'a> {
    type Out = SerOut;
    fn run<LF: LoaderFactory>(self, o: JsonLdOptions<LF>) -> SerOut {
        let mut out = SerOut { bytes: vec![], results: vec![], problems: check_getters(&o, self.expect).into_iter().map(|p| format!("OPTIONS: {p}")).collect() };
        check_loader(&o);
        let mut rng = Rng::new(self.seed);
        match self.sink {
            Sink::Stringifier => {
                let mut ser = JsonLdStringifier::new_stringifier_with_options(o);
                out.problems.extend(check_getters(ser.options(), self.expect).into_iter().map(|p| format!("OPTIONS (JsonLdSerializer::options): {p}")));
                for d in self.docs { out.results.push(feed(&mut ser, d, rng.chance(1, 2))); }
                if ser.as_str().as_bytes() != ser.as_utf8() || ser.to_string().as_bytes() != ser.as_utf8() { out.problems.push("SINK: Stringifier::as_str / to_string differ from as_utf8".into()); }
                out.bytes = ser.as_utf8().to_vec();
            }
            Sink::VecWriter => {
                let mut ser = JsonLdSerializer::new_with_options(Vec::<u8>::new(), o);
                for d in self.docs { out.results.push(feed(&mut ser, d, rng.chance(1, 2))); }
                out.bytes = ser.as_utf8().to_vec();
            }
            Sink::MutVec => {
                let mut v: Vec<u8> = vec![];
                { let mut ser = JsonLdSerializer::new_with_options(&mut v, o); for d in self.docs { out.results.push(feed(&mut ser, d, rng.chance(1, 2))); } }
                out.bytes = v;
            }
            Sink::Chunked | Sink::Budget(_) => {
                let mut w = Chunky { out: vec![], r: rng.fork(1), budget: if let Sink::Budget(b) = self.sink { Some(b) } else { None }, calls: 0, interrupted: 0 };
                { let mut ser = JsonLdSerializer::new_with_options(&mut w, o); for d in self.docs { out.results.push(feed(&mut ser, d, rng.chance(1, 2))); } }
                out.bytes = w.out;
            }
            Sink::Jsonifier => {
                let mut ser = Jsonifier::new_jsonifier_with_options(o);
                for d in self.docs { out.results.push(feed(&mut ser, d, rng.chance(1, 2))); }
                // the jsonifier keeps the document of the last call only
                let a = ser.as_json().to_string();
                let b = ser.to_json().to_string();
                if a != b { out.problems.push(format!("SINK: Jsonifier::to_json {b} differs from as_json {a}")); }
                if !ser.as_json().is_null() { out.problems.push("SINK: Jsonifier::to_json leaves a value behind".into()); }
                out.bytes = a.into_bytes();
            }
            Sink::FailingSource(k) => {
                let mut v: Vec<u8> = vec![];
                { let mut ser = JsonLdSerializer::new_with_options(&mut v, o);
                  for d in self.docs {
                      let k = k.min(d.len());
                      let src = d.iter().take(k).cloned().map(Ok::<Q, MyErr>).chain(std::iter::once(Err(MyErr(12))));
                      match ser.serialize_quads(src) {
                          Err(StreamError::SourceError(MyErr(12))) => out.results.push(Err("source error (expected)".into())),
                          Err(e) => { out.problems.push(format!("SINK: a quad source failing after {k} quads gives {e} instead of its own error")); out.results.push(Err(e.to_string())) }
                          Ok(_) => { out.problems.push(format!("SINK: a quad source failing after {k} quads is reported as a success")); out.results.push(Ok(())) }
                      }
                  } }
                if !v.is_empty() { out.problems.push(format!("SINK: {} bytes were written although the quad source failed", v.len())); }
                out.bytes = v;
            }
        }
        out
    }
}

/// the constructors that take no options (only usable when the recipe is empty)
fn run_default_ctor(docs: &[Vec<Q>], sink: Sink, seed: u64) -> SerOut {
    let e = Expect::default();
    let mut out = SerOut { bytes: vec![], results: vec![], problems: vec![] };
    let mut rng = Rng::new(seed);
    match sink {
        Sink::Jsonifier => { let mut ser = Jsonifier::new_jsonifier(); out.problems.extend(check_getters(ser.options(), &e).into_iter().map(|p| format!("OPTIONS (new_jsonifier): {p}"))); for d in docs { out.results.push(feed(&mut ser, d, rng.chance(1, 2))); } out.bytes = ser.as_json().to_string().into_bytes(); }
        Sink::Stringifier => { let mut ser = JsonLdStringifier::new_stringifier(); out.problems.extend(check_getters(ser.options(), &e).into_iter().map(|p| format!("OPTIONS (new_stringifier): {p}"))); for d in docs { out.results.push(feed(&mut ser, d, rng.chance(1, 2))); } out.bytes = ser.as_utf8().to_vec(); }
        _ => { let mut ser = JsonLdSerializer::new(Vec::<u8>::new()); out.problems.extend(check_getters(ser.options(), &e).into_iter().map(|p| format!("OPTIONS (JsonLdSerializer::new): {p}"))); for d in docs { out.results.push(feed(&mut ser, d, rng.chance(1, 2))); } out.bytes = ser.as_utf8().to_vec(); }
    }
    out
}
struct ParseRun<'a> { txt: &'a str, expect: &'a Expect, as_bytes: bool, entry: &'a Entry }
impl<'a> Use for ParseRun<'a> {
    type Out = (Vec<String>, Result<Vec<Q>, String>);
    fn run<LF: LoaderFactory>(self, o: JsonLdOptions<LF>) -> Self::Out {
        let p = JsonLdParser::new_with_options(o);
        let mut bad: Vec<String> = check_getters(p.options(), self.expect).into_iter().map(|p| format!("OPTIONS (JsonLdParser::options): {p}")).collect();
        check_loader(p.options());
        let mut out: Vec<Q> = vec![];
        // (as_bytes without a particular entry point: the byte slice, as before)
        let mut src = if *self.entry != Entry::Str { run_entry(&p, self.txt.as_bytes(), self.entry) } else if self.as_bytes { p.parse(self.txt.as_bytes()) } else { p.parse_str(self.txt) };
        let r = match src.for_each_quad(|q| push_quad(q, &mut out, &mut bad)) { Ok(()) => Ok(out), Err(e) => Err(format!("parse error: {e}")) };
        (bad, r)
    }
}
fn gen_recipe(r: &mut Rng) -> Vec<Op> {
    if r.chance(1, 10) { return vec![]; }
    let n = r.range(2, 12);
    let mut static_seen = false;
    let mut ops = vec![];
    for _ in 0..n {
        let op = match r.below(34) {
            0 => Op::Base(if r.chance(1, 3) { None } else { Some(r.ps(&["http://e/base/", "http://other/b"])) }), 1 => Op::CompactArrays(r.chance(1, 2)), 2 => Op::CompactToRelative(r.chance(1, 2)),
            3 => Op::LoaderFactoryD, 4 => Op::LoaderFactoryF, 5 => Op::LoaderClosure, 6 => Op::LoaderDefault, 7 => Op::LoaderStatic,
            8 => Op::ExpandIri, 9 => Op::ExpandLoaded, 10 => Op::ExpandTry, 11 => Op::NoExpand, 12 => Op::Ordered(r.chance(1, 2)), 13 => Op::GenRdf(r.chance(1, 2)),
            14 => Op::Policy(r.below(4) as u8), 15 => Op::CompactIri, 16 => Op::CompactLoaded, 17 => Op::CompactTry, 18 => Op::NoCompact,
            19..=21 => Op::Mode(r.chance(1, 3)), 22..=24 => Op::Dir([0, 0, 1, 2, 2][r.below(5)]), 25..=27 => Op::RdfType(r.chance(1, 2)),
            28 | 29 => Op::Native(r.chance(1, 4)), _ => Op::Spaces([0, 0, 0, 1, 2, 2, 4, 7, 256, 300][r.below(10)]),
        };
        if op.is_loader() && static_seen { continue; }
        if op == Op::LoaderStatic { static_seen = true; }
        ops.push(op);
    }
    ops
}

// ------------------------------------------------------------------ a small JSON reader
#[derive(Clone, Debug, PartialEq)]
enum J { Null, Bool(bool), Num(String), Str(String), Arr(Vec<J>), Obj(Vec<(String, J)>) }
struct JP<'a> { s: &'a [u8], i: usize }
impl<'a> JP<'a> {
    fn ws(&mut self) { while self.i < self.s.len() && matches!(self.s[self.i], b' ' | b'\n' | b'\r' | b'\t') { self.i += 1; } }
    fn eat(&mut self, c: u8) -> Result<(), String> { self.ws(); if self.s.get(self.i) == Some(&c) { self.i += 1; Ok(()) } else { Err(format!("expected {:?} at {}", c as char, self.i)) } }
    fn hex4(&mut self) -> Result<u32, String> { let h = std::str::from_utf8(self.s.get(self.i..self.i + 4).ok_or("short \\u")?).map_err(|e| e.to_string())?; self.i += 4; u32::from_str_radix(h, 16).map_err(|e| e.to_string()) }
    fn string(&mut self) -> Result<String, String> {
        self.eat(b'"')?; let mut out: Vec<u8> = vec![];
        loop {
            let c = *self.s.get(self.i).ok_or("unterminated string")?; self.i += 1;
            match c {
                b'"' => break,
                b'\\' => { let e = *self.s.get(self.i).ok_or("bad escape")?; self.i += 1;
                    let ch = match e { b'n' => '\n', b'r' => '\r', b't' => '\t', b'b' => '\u{8}', b'f' => '\u{c}', b'/' => '/', b'\\' => '\\', b'"' => '"',
                        b'u' => { let mut cp = self.hex4()?; if (0xD800..0xDC00).contains(&cp) && self.s.get(self.i..self.i + 2) == Some(b"\\u") { self.i += 2; let lo = self.hex4()?; cp = 0x10000 + ((cp - 0xD800) << 10) + (lo - 0xDC00); } char::from_u32(cp).ok_or("bad code point")? }
                        _ => return Err("bad escape".into()) };
                    let mut b = [0u8; 4]; out.extend_from_slice(ch.encode_utf8(&mut b).as_bytes()); }
                c => out.push(c),
            }
        }
        String::from_utf8(out).map_err(|e| e.to_string())
    }
    fn value(&mut self) -> Result<J, String> {
        self.ws();
        match *self.s.get(self.i).ok_or("unexpected end")? {
            b'{' => { self.i += 1; let mut v = vec![]; self.ws(); if self.s.get(self.i) == Some(&b'}') { self.i += 1; return Ok(J::Obj(v)); }
                loop { self.ws(); let k = self.string()?; self.eat(b':')?; let x = self.value()?; v.push((k, x)); self.ws(); match self.s.get(self.i) { Some(b',') => self.i += 1, Some(b'}') => { self.i += 1; return Ok(J::Obj(v)); } _ => return Err(format!("bad object at {}", self.i)) } } }
            b'[' => { self.i += 1; let mut v = vec![]; self.ws(); if self.s.get(self.i) == Some(&b']') { self.i += 1; return Ok(J::Arr(v)); }
                loop { v.push(self.value()?); self.ws(); match self.s.get(self.i) { Some(b',') => self.i += 1, Some(b']') => { self.i += 1; return Ok(J::Arr(v)); } _ => return Err(format!("bad array at {}", self.i)) } } }
            b'"' => Ok(J::Str(self.string()?)),
            b't' if self.s[self.i..].starts_with(b"true") => { self.i += 4; Ok(J::Bool(true)) }
            b'f' if self.s[self.i..].starts_with(b"false") => { self.i += 5; Ok(J::Bool(false)) }
            b'n' if self.s[self.i..].starts_with(b"null") => { self.i += 4; Ok(J::Null) }
            _ => { let st = self.i; while self.i < self.s.len() && matches!(self.s[self.i], b'0'..=b'9' | b'-' | b'+' | b'.' | b'e' | b'E') { self.i += 1; } if st == self.i { Err(format!("unexpected byte at {st}")) } else { Ok(J::Num(String::from_utf8_lossy(&self.s[st..self.i]).to_string())) } }
        }
    }
}
fn read_json(txt: &str) -> Result<J, String> { let mut p = JP { s: txt.as_bytes(), i: 0 }; let v = p.value()?; p.ws(); if p.i == txt.len() { Ok(v) } else { Err("trailing bytes".into()) } }
/// compact text with sorted keys (the canonical form of the small rdf:JSON literals generated here)
fn canon_json(j: &J) -> String {
    match j {
        J::Null => "null".into(), J::Bool(b) => b.to_string(), J::Num(n) => n.clone(), J::Str(s) => json_str(s),
        J::Arr(v) => format!("[{}]", v.iter().map(canon_json).collect::<Vec<_>>().join(",")),
        J::Obj(v) => { let mut v: Vec<&(String, J)> = v.iter().collect(); v.sort_by(|a, b| a.0.encode_utf16().cmp(b.0.encode_utf16())); format!("{{{}}}", v.iter().map(|(k, x)| format!("{}:{}", json_str(k), canon_json(x))).collect::<Vec<_>>().join(",")) }
    }
}
impl J {
    fn get(&self, k: &str) -> Option<&J> { if let J::Obj(v) = self { v.iter().find(|e| e.0 == k).map(|e| &e.1) } else { None } }
    fn arr(&self) -> Result<&Vec<J>, String> { if let J::Arr(v) = self { Ok(v) } else { Err(format!("array expected, found {self:?}")) } }
    fn str(&self) -> Result<&str, String> { if let J::Str(s) = self { Ok(s) } else { Err(format!("string expected, found {self:?}")) } }
}

// ------------------------------------------------------------------ reference reader: JSON-LD 1.1 API, "Deserialize JSON-LD to RDF",
// restricted to the expanded/flattened shape the serializer emits (no context, no nested node objects); written from the specification
// ---- RFC 3986 (appendix B: components; 5.2: reference resolution), written from the RFC text: used by the reference reader to
// resolve the '@id' / '@type' values of a document against the base IRI, and by the generator to name the IRIs "under" a base
struct Ref3986<'a> { scheme: Option<&'a str>, auth: Option<&'a str>, path: &'a str, query: Option<&'a str>, frag: Option<&'a str> }
/// scheme = ALPHA *( ALPHA / DIGIT / "+" / "-" / "." ) followed by ':'
fn has_scheme(s: &str) -> bool {
    match s.find(':') { Some(i) if i > 0 => s.as_bytes()[0].is_ascii_alphabetic() && s[..i].bytes().all(|b| b.is_ascii_alphanumeric() || matches!(b, b'+' | b'-' | b'.')), _ => false }
}
/// JSON-LD 1.1 (IRI expansion, step 2): "the form of a keyword": '@' followed by one or more ALPHA
fn keyword_form(s: &str) -> bool { s.len() > 1 && s.starts_with('@') && s[1..].bytes().all(|b| b.is_ascii_alphabetic()) }
fn split3986(r: &str) -> Ref3986<'_> {
    let (r, frag) = match r.find('#') { Some(i) => (&r[..i], Some(&r[i + 1..])), None => (r, None) };
    let (r, query) = match r.find('?') { Some(i) => (&r[..i], Some(&r[i + 1..])), None => (r, None) };
    let (scheme, r) = if has_scheme(r) { let i = r.find(':').unwrap(); (Some(&r[..i]), &r[i + 1..]) } else { (None, r) };
    let (auth, path) = match r.strip_prefix("//") { Some(rest) => match rest.find('/') { Some(i) => (Some(&rest[..i]), &rest[i..]), None => (Some(rest), "") }, None => (None, r) };
    Ref3986 { scheme, auth, path, query, frag }
}
/// 5.2.4 remove_dot_segments
fn remove_dots(path: &str) -> String {
    fn pop(out: &mut String) { match out.rfind('/') { Some(i) => out.truncate(i), None => out.clear() } }
    let mut input: String = path.to_string(); let mut out = String::new();
    while !input.is_empty() {
        if input.starts_with("../") { input.drain(..3); } else if input.starts_with("./") { input.drain(..2); }
        else if input.starts_with("/./") { input.drain(..2); } else if input == "/." { input = "/".into(); }
        else if input.starts_with("/../") { input.drain(..3); pop(&mut out); } else if input == "/.." { input = "/".into(); pop(&mut out); }
        else if input == "." || input == ".." { input.clear(); }
        else { let start = usize::from(input.starts_with('/')); let end = input[start..].find('/').map(|i| i + start).unwrap_or(input.len()); out.push_str(&input[..end]); input.drain(..end); }
    }
    out
}
/// 5.2.2 (strict) + 5.2.3 merge + 5.3 recomposition
fn resolve3986(base: &str, reference: &str) -> String {
    let (b, r) = (split3986(base), split3986(reference));
    let (scheme, auth, path, query);
    if r.scheme.is_some() { scheme = r.scheme; auth = r.auth; path = remove_dots(r.path); query = r.query; }
    else {
        scheme = b.scheme;
        if r.auth.is_some() { auth = r.auth; path = remove_dots(r.path); query = r.query; }
        else {
            auth = b.auth;
            if r.path.is_empty() { path = b.path.to_string(); query = r.query.or(b.query); }
            else if r.path.starts_with('/') { path = remove_dots(r.path); query = r.query; }
            else {
                let merged = if b.auth.is_some() && b.path.is_empty() { format!("/{}", r.path) } else { match b.path.rfind('/') { Some(i) => format!("{}{}", &b.path[..=i], r.path), None => r.path.to_string() } };
                path = remove_dots(&merged); query = r.query;
            }
        }
    }
    let mut out = String::new();
    if let Some(s) = scheme { out.push_str(s); out.push(':'); }
    if let Some(a) = auth { out.push_str("//"); out.push_str(a); }
    out.push_str(&path);
    if let Some(q) = query { out.push('?'); out.push_str(q); }
    if let Some(f) = r.frag { out.push('#'); out.push_str(f); }
    out
}

struct RefRdf { out: Vec<Q>, fresh: usize, dir: u8, quirks: bool, native: bool, base: Option<String> }
impl RefRdf {
    fn id_term(s: &str) -> ST { if let Some(l) = s.strip_prefix("_:") { bnode(l) } else { iri(s) } }
    fn fresh(&mut self) -> ST { self.fresh += 1; bnode(&format!("L{}", self.fresh)) }
    /// JSON-LD 1.1 API 5.2.2 (IRI expansion with documentRelative, no term definitions: the serializer emits no context): what an
    /// '@id' (or '@type') string denotes.  A value that has the form of a keyword is ignored by expansion (the node would
    /// silently lose its identity); a value with a scheme is an IRI as it stands; anything else is resolved against the base IRI
    fn node_id(&self, s: &str) -> Result<ST, String> {
        if let Some(l) = s.strip_prefix("_:") { return Ok(bnode(l)); }
        if keyword_form(s) { return Err(format!("the identifier {s:?} has the form of a keyword: JSON-LD expansion ignores it instead of reading an IRI")); }
        if has_scheme(s) { return Ok(iri(s)); }
        match &self.base { Some(b) => Ok(iri(&resolve3986(b, s))), None => Err(format!("the identifier {s:?} is a relative IRI reference and the options have no base IRI")) }
    }
    fn node(&mut self, n: &J, g: &Option<ST>, top: bool) -> Result<(), String> {
        let J::Obj(entries) = n else { return Err(format!("node object expected, found {n:?}")) };
        let id = self.node_id(n.get("@id").ok_or("node object without @id")?.str()?)?;
        for (k, v) in entries {
            match k.as_str() {
                "@id" => {}
                "@type" => for t in v.arr()? { let ty = self.node_id(t.str()?)?; self.out.push(([id.clone(), rdf("type"), ty], g.clone())); },
                "@graph" => { if !top { return Err("@graph below the top level".into()); } for m in v.arr()? { self.node(m, &Some(id.clone()), false)?; } }
                k if k.starts_with('@') => return Err(format!("unexpected keyword {k}")),
                // JSON-LD 1.1 "Deserialize JSON-LD to RDF" 8.1.2: a property that is a blank node identifier is
                // dropped (produceGeneralizedRdf is off); its values are still converted, so that lists below it
                // would emit their cells -- but nothing reaches the subject
                k if k.starts_with("_:") => { for item in v.arr()? { let before = self.out.len(); let _ = self.object(item, g)?; self.out.truncate(before); } }
                k if sophia_iri::IriRef::new(k).is_err() => return Err(format!("property key {k:?} is not an IRI")),
                // (property keys are expanded relative to the vocabulary mapping, never to the base: without '@vocab' a key that is not an absolute IRI is dropped)
                k if !has_scheme(k) => return Err(format!("property key {k:?} is not an absolute IRI: JSON-LD expansion drops it")),
                k => for item in v.arr()? { let o = self.object(item, g)?; self.out.push(([id.clone(), iri(k), o], g.clone())); },
            }
        }
        Ok(())
    }
    fn object(&mut self, item: &J, g: &Option<ST>) -> Result<ST, String> {
        let J::Obj(entries) = item else { return Err(format!("object expected, found {item:?}")) };
        if let Some(l) = item.get("@list") {
            if entries.len() != 1 { return Err("list object with other entries".into()); }
            let items: Vec<ST> = l.arr()?.iter().map(|x| self.object(x, g)).collect::<Result<_, _>>()?;
            let cells: Vec<ST> = items.iter().map(|_| self.fresh()).collect();
            for i in 0..items.len() {
                self.out.push(([cells[i].clone(), rdf("first"), items[i].clone()], g.clone()));
                self.out.push(([cells[i].clone(), rdf("rest"), cells.get(i + 1).cloned().unwrap_or_else(|| rdf("nil"))], g.clone()));
            }
            return Ok(cells.first().cloned().unwrap_or_else(|| rdf("nil")));
        }
        if let Some(v) = item.get("@value") {
            for (k, _) in entries { if !matches!(k.as_str(), "@value" | "@type" | "@language" | "@direction") { return Err(format!("value object with entry {k}")); } }
            let ty = item.get("@type").map(|t| t.str()).transpose()?;
            if ty == Some("@json") { return Ok(lit_dt(&canon_json(v), &format!("{RDF}JSON"))); }
            // JSON-LD 1.1 API 13.4.2 (Object to RDF): true/false are xsd:boolean; a number without fractional part below 1e21 is
            // an xsd:integer, any other number an xsd:double (both in canonical form), unless @type says otherwise
            let (lex_owned, native_dt): (String, Option<String>) = match v {
                J::Str(s) => (s.clone(), None),
                J::Bool(b) => (b.to_string(), Some(format!("{XSD}boolean"))),
                J::Num(n) => { let x: f64 = n.parse().map_err(|_| format!("number {n:?} is not readable"))?;
                    if x.fract() == 0.0 && x.abs() < 1e21 && ty != Some(format!("{XSD}double").as_str()) { (format!("{}", x as i128), Some(format!("{XSD}integer"))) } else { (xsd_double(x), Some(format!("{XSD}double"))) } }
                _ => return Err(format!("@value {v:?} is neither a string, a number nor a boolean")),
            };
            if native_dt.is_some() && !self.native { return Err(format!("native @value {v:?} although use_native_types is off")); }
            let lex = lex_owned.as_str();
            let ty = match (ty, &native_dt) { (None, Some(d)) => Some(d.as_str()), (t, _) => t };
            let lang = item.get("@language").map(|t| t.str()).transpose()?;
            let dirn = item.get("@direction").map(|t| t.str()).transpose()?;
            if let Some(l) = lang { if sophia_api::term::LanguageTag::new(l).is_err() { return Err(format!("@language {l:?} is not a well-formed tag")); } }
            if let Some(d) = dirn { if d != "ltr" && d != "rtl" { return Err(format!("invalid base direction {d:?}")); } }
            if ty.is_some() && (lang.is_some() || dirn.is_some()) { return Err("value object with both @type and @language/@direction".into()); }
            return Ok(match (dirn, self.dir) {
                (Some(d), 1) if self.quirks && lang.is_none() => lit_dt(lex, &format!("{I18N}{d}")),
                (Some(_), 2) if self.quirks => self.fresh(),
                (Some(d), 1) => lit_dt(lex, &format!("{I18N}{}_{d}", lang.unwrap_or("").to_ascii_lowercase())),
                (Some(d), 2) => { let b = self.fresh(); self.out.push(([b.clone(), rdf("value"), plain(lex)], g.clone())); if let Some(l) = lang { self.out.push(([b.clone(), rdf("language"), plain(&l.to_ascii_lowercase())], g.clone())); } self.out.push(([b.clone(), rdf("direction"), plain(d)], g.clone())); b }
                _ => match (lang, ty) { (Some(l), _) => lit_lang(lex, l), (None, Some(t)) => lit_dt(lex, t), (None, None) => plain(lex) },
            });
        }
        if let Some(i) = item.get("@id") { if entries.len() != 1 { return Err("node reference with other entries".into()); } return self.node_id(i.str()?); }
        Err(format!("unrecognised object {item:?}"))
    }
}
/// XSD canonical form of a double, from Rust's shortest round-trip digits
fn xsd_double(v: f64) -> String { let s = format!("{v:E}"); match s.split_once('E') { Some((m, e)) if !m.contains('.') => format!("{m}.0E{e}"), _ => s } }
/// useNativeTypes is lossy by design (JSON-LD 1.1 API 8.5, RDF to Object Conversion 2.4): a valid xsd:integer / xsd:double /
/// xsd:boolean lexical form is replaced by its value.  The image of a literal under "to a native JSON value and back":
fn native_image(t: &ST) -> ST {
    if let SimpleTerm::LiteralDatatype(l, d) = t {
        let (l, d) = (&**l, d.as_str());
        let digits = |s: &str| !s.is_empty() && s.bytes().all(|b| b.is_ascii_digit());
        let unsigned = |s: &str| -> bool { let (m, e) = match s.find(['e', 'E']) { Some(i) => (&s[..i], Some(&s[i + 1..])), None => (s, None) };
            let m_ok = match m.split_once('.') { Some((a, b)) => (digits(a) && (b.is_empty() || digits(b))) || (a.is_empty() && digits(b)), None => digits(m) };
            m_ok && e.is_none_or(|e| digits(e.strip_prefix(['+', '-']).unwrap_or(e))) };
        let body = l.strip_prefix(['+', '-']).unwrap_or(l);
        let valid = if d == format!("{XSD}integer") { digits(body) } else if d == format!("{XSD}double") { unsigned(body) } else { false };
        if valid { if let Ok(x) = l.parse::<f64>() { if x.is_finite() {
            return if x.fract() == 0.0 && x.abs() < 1e21 { lit_dt(&format!("{}", x as i128), &format!("{XSD}integer")) } else { lit_dt(&xsd_double(x), &format!("{XSD}double")) };
        } } }
    }
    t.clone()
}
fn native_q(q: &Q) -> Q { ([q.0[0].clone(), q.0[1].clone(), native_image(&q.0[2])], q.1.clone()) }
/// `quirks`: do what json-ld-core 0.15.1 is known to do differently from the specification when
/// rdfDirection is set (third-party code, outside /repo): no rdf:value/rdf:language/rdf:direction
/// triples for compound literals, and no '_' in the i18n datatype when there is no language.
fn reference_to_rdf(doc: &J, dir: u8, quirks: bool, native: bool, base: Option<&str>) -> Result<Vec<Q>, String> {
    let mut r = RefRdf { out: vec![], fresh: 0, dir, quirks, native, base: base.map(|b| b.to_string()) };
    for n in doc.arr()? { r.node(n, &None, true)?; }
    Ok(r.out)
}

// ------------------------------------------------------------------ printing
fn show_t(t: &ST) -> String {
    match t {
        SimpleTerm::Iri(i) => { let s = i.as_str(); if let Some(r) = s.strip_prefix(RDF) { format!("rdf:{r}") } else if let Some(r) = s.strip_prefix("http://e/") { format!(":{r}") } else { format!("<{s}>") } }
        SimpleTerm::BlankNode(b) => format!("_:{}", b.as_str()),
        SimpleTerm::LiteralDatatype(l, d) => { let d = d.as_str(); if d == format!("{XSD}string") { format!("{l:?}") } else if let Some(r) = d.strip_prefix(RDF) { format!("{l:?}^^rdf:{r}") } else if let Some(r) = d.strip_prefix(XSD) { format!("{l:?}^^xsd:{r}") } else if let Some(r) = d.strip_prefix(I18N) { format!("{l:?}^^i18n:{r}") } else { format!("{l:?}^^<{d}>") } }
        SimpleTerm::LiteralLanguage(l, t) => format!("{l:?}@{}", t.as_str()),
        SimpleTerm::Variable(v) => format!("?{}", v.as_str()),
        SimpleTerm::Triple(tr) => format!("<< {} {} {} >>", show_t(&tr[0]), show_t(&tr[1]), show_t(&tr[2])),
    }
}
fn show_q(q: &Q) -> String { format!("{} {} {}{} .", show_t(&q.0[0]), show_t(&q.0[1]), show_t(&q.0[2]), q.1.as_ref().map(|g| format!(" {}", show_t(g))).unwrap_or_default()) }
fn show_ds(d: &[Q]) -> String { d.iter().map(show_q).collect::<Vec<_>>().join(" ") }
fn key_t(t: &ST) -> String { match t { SimpleTerm::LiteralLanguage(l, tag) => format!("{l:?}@{}", tag.as_str().to_ascii_lowercase()), _ => show_t(t) } }
fn key_q(q: &Q) -> String { format!("{}|{}|{}|{}", key_t(&q.0[0]), key_t(&q.0[1]), key_t(&q.0[2]), q.1.as_ref().map(key_t).unwrap_or_default()) }
fn dedup(d: &[Q]) -> Vec<Q> { let mut seen = BTreeSet::new(); d.iter().filter(|q| seen.insert(key_q(q))).cloned().collect() }

// ------------------------------------------------------------------ the expressible part (oracle side, from the property text)
fn expressible(q: &Q) -> bool {
    let node = |t: &ST| matches!(t, SimpleTerm::Iri(_) | SimpleTerm::BlankNode(_));
    node(&q.0[0]) && matches!(q.0[1], SimpleTerm::Iri(_)) && (node(&q.0[2]) || matches!(q.0[2], SimpleTerm::LiteralDatatype(..) | SimpleTerm::LiteralLanguage(..))) && q.1.as_ref().is_none_or(node)
}

// ------------------------------------------------------------------ generator
struct G<'a> { r: &'a mut Rng, q: Vec<Q>, tags: Vec<String>, nb: usize }
impl<'a> G<'a> {
    fn fresh(&mut self) -> ST { self.nb += 1; bnode(&format!("b{}", self.nb)) }
    fn tag(&mut self, s: &str) { if !self.tags.iter().any(|t| t == s) { self.tags.push(s.to_string()); } }
    fn add(&mut self, s: &ST, p: &ST, o: &ST, g: &Option<ST>) { self.q.push(([s.clone(), p.clone(), o.clone()], g.clone())); }
    fn graph(&mut self) -> Option<ST> {
        match self.r.below(8) { 0..=3 => None, 4 => Some(ex("g1")), 5 => Some(ex("g2")), 6 => Some(bnode("g")), _ => Some(bnode(&format!("b{}", self.r.range(1, 4)))) }
    }
    fn other_graph(&mut self, g: &Option<ST>) -> Option<ST> {
        for _ in 0..10 { let h = self.graph(); if &h != g { return h; } }
        if g.is_none() { Some(ex("g1")) } else { None }
    }
    fn old_blank(&mut self) -> ST { if self.nb == 0 { self.fresh() } else { bnode(&format!("b{}", self.r.range(1, self.nb))) } }
    fn subject(&mut self) -> ST { match self.r.below(5) { 0 | 1 => ex(self.r.ps(&["a", "b"])), 2 => self.fresh(), _ => self.old_blank() } }
    fn pred(&mut self) -> ST { match self.r.below(12) { 0 => rdf("first"), 1 => rdf("rest"), 2 => rdf("type"), 3 => rdf("value"), _ => ex(self.r.ps(&["p", "q"])) } }
    fn literal(&mut self) -> ST {
        match self.r.below(9) {
            0 | 1 => plain(self.r.ps(&["x", "y", "", "a\"b\\c\n"])),
            2 => lit_lang(self.r.ps(&["x", "chat"]), self.r.ps(&["en", "fr-BE", "EN"])),
            // (the values of the well-formed numbers are pairwise different, so that use_native_types does not merge two literals)
            3 => lit_dt(self.r.ps(&["1", "02", "x", "-7"]), &format!("{XSD}integer")),
            4 => match self.r.below(4) { 0 => lit_dt(self.r.ps(&["true", "false", "z", "1"]), &format!("{XSD}boolean")), 1 => lit_dt(self.r.ps(&["1.5E0", "2.5e1", "z", "1.0E-7"]), &format!("{XSD}double")),
                                          _ => lit_dt(self.r.ps(&["true", "1.5E0", "z"]), &format!("{XSD}{}", self.r.ps(&["boolean", "double"]))) },
            5 => { self.tag("rdf:JSON literal"); lit_dt(self.r.ps(&["{\"a\":1,\"b\":[true,null,\"x\"]}", "[]", "\"s\"", "12", "null", "{\"@id\":\"http://e/a\",\"z\":{}}"]), &format!("{RDF}JSON")) }
            6 => { self.tag("i18n datatype literal"); lit_dt(self.r.ps(&["x", "שלום"]), &format!("{I18N}{}", self.r.ps(&["en_ltr", "_rtl", "fr-be_rtl", "en_ltr", "ar_rtl"]))) }
            7 => lit_dt("v", "http://e/dt"),
            _ => plain(self.r.ps(&["ltr", "rtl", "en"])),
        }
    }
    fn object(&mut self) -> ST {
        match self.r.below(10) { 0 | 1 => ex(self.r.ps(&["a", "b", "C"])), 2 => rdf(self.r.ps(&["nil", "List", "nil"])), 3 | 4 => self.old_blank(), 5 => self.fresh(), _ => self.literal() }
    }
    fn noise(&mut self, k: usize) {
        for _ in 0..k { let (s, p, o, g) = (self.subject(), self.pred(), self.object(), self.graph()); self.add(&s, &p, &o, &g); }
    }
    /// items of a list: literal, IRI, blank, rdf:nil, nested list
    fn item(&mut self, g: &Option<ST>, depth: usize) -> ST {
        match self.r.below(8) {
            0 if depth > 0 => { self.tag("nested list"); let n = self.r.below(3); self.chain(g, n, depth - 1, false) }
            1 => { self.tag("rdf:nil as list item"); rdf("nil") }
            2 => ex("a"),
            3 => self.old_blank(),
            _ => self.literal(),
        }
    }
    /// builds a well-formed chain of `len` cells in graph g, returns its head (rdf:nil when empty)
    fn chain(&mut self, g: &Option<ST>, len: usize, depth: usize, typed: bool) -> ST {
        let cells: Vec<ST> = (0..len).map(|_| self.fresh()).collect();
        for i in 0..len {
            let it = self.item(g, depth);
            self.add(&cells[i], &rdf("first"), &it, g);
            let next = if i + 1 < len { cells[i + 1].clone() } else { rdf("nil") };
            self.add(&cells[i], &rdf("rest"), &next, g);
            if typed { self.add(&cells[i], &rdf("type"), &rdf("List"), g); }
        }
        cells.first().cloned().unwrap_or_else(|| rdf("nil"))
    }
    fn cells_of(&self, head: &ST) -> Vec<ST> {
        // follow rdf:rest from head among generated quads
        let mut out = vec![]; let mut cur = head.clone();
        while matches!(cur, SimpleTerm::BlankNode(_)) && out.len() < 10 {
            out.push(cur.clone());
            let nx = self.q.iter().find(|q| q.0[0] == cur && q.0[1] == rdf("rest")).map(|q| q.0[2].clone());
            match nx { Some(n) if !out.contains(&n) => cur = n, _ => break }
        }
        out
    }
    fn list_shape(&mut self) {
        let g = self.graph();
        let len = if self.r.chance(1, 15) { self.tag("long list"); self.r.range(6, 12) } else { self.r.range(1, 3) };
        let variant = self.r.below(24);
        let typed = variant == 5;
        let head = self.chain(&g, len, 1, typed);
        let cells = self.cells_of(&head);
        let s = self.subject(); let p = ex("p");
        if variant != 0 { self.add(&s, &p, &head, &g); }
        match variant {
            0 => self.tag("list head never used as an object"),
            1 => { self.tag("shared list: second parent"); let c = self.r.pick(&cells).clone(); let s2 = self.subject(); let p2 = ex(self.r.ps(&["p", "q"])); self.add(&s2, &p2, &c, &g); }
            2 => { self.tag("branching list: two rdf:rest"); let c = self.r.pick(&cells).clone(); let o = if self.r.chance(1, 2) { rdf("nil") } else { self.chain(&g, 1, 0, false) }; self.add(&c, &rdf("rest"), &o, &g); }
            3 => { self.tag("branching list: two rdf:first"); let c = self.r.pick(&cells).clone(); let o = self.literal(); self.add(&c, &rdf("first"), &o, &g); }
            4 => { self.tag("cyclic list: rdf:rest loops back"); let last = cells.last().unwrap().clone(); let tgt = self.r.pick(&cells).clone();
                   self.q.retain(|q| !(q.0[0] == last && q.0[1] == rdf("rest"))); self.add(&last, &rdf("rest"), &tgt, &g); if self.r.chance(1, 2) { self.add(&last, &rdf("rest"), &rdf("nil"), &g); } }
            5 => self.tag("typed rdf:List cells"),
            6 => { self.tag("one cell typed rdf:List"); let c = self.r.pick(&cells).clone(); self.add(&c, &rdf("type"), &rdf("List"), &g); }
            7 => { self.tag("list cell with an extra property"); let c = self.r.pick(&cells).clone(); let o = self.object(); let p = self.pred(); self.add(&c, &p, &o, &g); }
            8 => { self.tag("list split across graphs: a cell's quad moved"); let c = self.r.pick(&cells).clone(); let h = self.other_graph(&g); let which = if self.r.chance(1, 2) { rdf("first") } else { rdf("rest") };
                   for q in self.q.iter_mut() { if q.0[0] == c && q.0[1] == which { q.1 = h.clone(); } } }
            9 => { self.tag("list cell also a subject in another graph"); let c = self.r.pick(&cells).clone(); let h = self.other_graph(&g); let o = self.object(); self.add(&c, &ex("q"), &o, &h); }
            10 => { self.tag("list cell also a graph name"); let c = self.r.pick(&cells).clone(); let o = self.object(); self.add(&ex("a"), &ex("q"), &o, &Some(c)); }
            11 => { self.tag("list head referenced from another graph"); let h = self.other_graph(&g); let last = self.q.len() - 1; self.q[last].1 = h; }
            12 => { self.tag("list referenced again from another graph"); let h = self.other_graph(&g); let c = self.r.pick(&cells).clone(); let s2 = self.subject(); self.add(&s2, &ex("q"), &c, &h); }
            13 => { self.tag("list cell referenced by its own item (cycle through rdf:first)"); let c = self.r.pick(&cells).clone(); let tgt = self.r.pick(&cells).clone();
                    self.q.retain(|q| !(q.0[0] == c && q.0[1] == rdf("first"))); self.add(&c, &rdf("first"), &tgt, &g);
                    if self.r.chance(1, 2) { let last = self.q.iter().position(|q| q.0[2] == head && q.0[1] == p); if let Some(i) = last { self.q.remove(i); } } }
            14 => { self.tag("list cell without rdf:first"); let c = self.r.pick(&cells).clone(); self.q.retain(|q| !(q.0[0] == c && q.0[1] == rdf("first"))); }
            15 => { self.tag("same list copied in two graphs"); let h = self.other_graph(&g); let copy: Vec<Q> = self.q.iter().filter(|q| q.1 == g && (cells.contains(&q.0[0]) || q.0[2] == head)).cloned().collect(); for mut q in copy { q.1 = h.clone(); self.q.push(q); } }
            16 => { self.tag("list head under rdf:first of a plain node"); let last = self.q.len() - 1; self.q[last].0[1] = rdf("first"); }
            17 => { self.tag("list head under rdf:rest of an IRI or plain node"); let last = self.q.len() - 1; self.q[last].0[1] = rdf("rest"); }
            18 => { self.tag("label of a non-last cell is also a non-last cell of a list in another graph");
                    let c = cells[self.r.below(cells.len().max(2) - 1)].clone(); let h = self.other_graph(&g);
                    let tail = self.chain(&h, 1, 0, false); let it = self.literal();
                    self.add(&c, &rdf("first"), &it, &h); self.add(&c, &rdf("rest"), &tail, &h);
                    if self.r.chance(2, 3) { let s2 = self.subject(); self.add(&s2, &ex("q"), &c, &h); } }
            19 => { self.tag("label of a non-last cell is an item of a list in another graph");
                    let c = cells[self.r.below(cells.len().max(2) - 1)].clone(); let h = self.other_graph(&g);
                    let a = self.fresh(); let b = self.fresh(); let it = self.literal();
                    self.add(&a, &rdf("first"), &c, &h); self.add(&a, &rdf("rest"), &b, &h); self.add(&b, &rdf("first"), &it, &h); self.add(&b, &rdf("rest"), &rdf("nil"), &h);
                    let s2 = self.subject(); self.add(&s2, &ex("q"), &a, &h); }
            20 => { self.tag("graph name that is also a list cell of that very graph or of another one");
                    let c = self.r.pick(&cells).clone(); let gn = Some(c.clone());
                    if self.r.chance(1, 2) { let o = self.object(); self.add(&ex("a"), &ex("q"), &o, &gn); }
                    else { let inner = self.chain(&gn, 2, 0, false); let s2 = self.subject(); self.add(&s2, &ex("p"), &inner, &gn); } }
            _ => self.tag("well-formed list"),
        }
    }
    fn bad_json_shape(&mut self) {
        self.tag("ill-formed rdf:JSON literal (the serializer must fail and write nothing)");
        let (s, g) = (self.subject(), self.graph());
        let o = lit_dt(self.r.ps(&["{", "[1,", "tru", "", "{\"a\":}"]), &format!("{RDF}JSON"));
        // in a plain property, or as a list item
        if self.r.chance(1, 2) { self.add(&s, &ex("p"), &o, &g); } else { let c = self.fresh(); self.add(&s, &ex("p"), &c, &g); self.add(&c, &rdf("first"), &o, &g); self.add(&c, &rdf("rest"), &rdf("nil"), &g); }
    }
    fn type_shape(&mut self) {
        let (s, g) = (self.subject(), self.graph());
        let o = match self.r.below(6) { 0 => { self.tag("rdf:type with blank object"); self.old_blank() } 1 => { self.tag("rdf:type with literal object"); self.literal() } 2 => { self.tag("rdf:type rdf:nil"); rdf("nil") } 3 => rdf("List"), _ => ex("C") };
        self.tag("rdf:type"); self.add(&s, &rdf("type"), &o, &g);
    }
    fn compound_shape(&mut self) {
        let g = self.graph(); let b = self.fresh();
        let variant = self.r.below(12);
        let dirv = if variant == 7 { plain("up") } else { plain(self.r.ps(&["ltr", "rtl"])) };
        let val = if variant == 8 { lit_dt("1", &format!("{XSD}integer")) } else if variant == 9 { lit_lang("x", "en") } else { plain(self.r.ps(&["x", "שלום"])) };
        self.add(&b, &rdf("value"), &val, &g); self.add(&b, &rdf("direction"), &dirv, &g);
        if self.r.chance(1, 2) { let l = if variant == 10 { plain("not a tag") } else { plain(self.r.ps(&["en", "ar"])) }; self.add(&b, &rdf("language"), &l, &g); }
        let s = self.subject();
        if variant != 0 { self.add(&s, &ex("p"), &b, &g); }
        match variant {
            0 => self.tag("compound literal never referenced"),
            1 => { self.tag("compound literal referenced twice"); let s2 = self.subject(); self.add(&s2, &ex("q"), &b, &g); }
            2 => { self.tag("compound literal referenced from another graph"); let h = self.other_graph(&g); let last = self.q.len() - 1; self.q[last].1 = h; }
            3 => { self.tag("compound literal also described in another graph"); let h = self.other_graph(&g); let o = self.object(); self.add(&b, &ex("q"), &o, &h); }
            4 => { self.tag("compound literal with an extra property"); let o = self.object(); self.add(&b, &ex("q"), &o, &g); }
            5 => { self.tag("compound literal as a list item"); let cell = self.fresh(); let last = self.q.len() - 1; self.q[last].0[2] = cell.clone(); self.add(&cell, &rdf("first"), &b, &g); self.add(&cell, &rdf("rest"), &rdf("nil"), &g); }
            6 => { self.tag("compound literal with two values"); self.add(&b, &rdf("value"), &plain("second"), &g); }
            7 => self.tag("compound literal with direction other than ltr/rtl"),
            8 => self.tag("compound literal whose value is not a plain string"),
            9 => self.tag("compound literal whose value is language-tagged"),
            10 => self.tag("compound literal with ill-formed language"),
            _ => self.tag("compound literal, well-formed"),
        }
    }
    fn i18n_shape(&mut self) {
        let (s, g) = (self.subject(), self.graph());
        let suffix = self.r.ps(&["en_ltr", "_rtl", "en", "", "en_", "_", "EN_ltr", "en_up", "en_ltr_x", "fr-be_rtl", "a%20b_ltr"]);
        match suffix { "en_ltr" | "_rtl" | "fr-be_rtl" => self.tag("i18n datatype literal"), _ => self.tag(&format!("i18n datatype literal with unusual suffix {suffix:?}")) }
        let o = lit_dt("x", &format!("{I18N}{suffix}")); self.add(&s, &ex("p"), &o, &g);
    }
    fn inexpressible(&mut self) {
        self.tag("quads JSON-LD cannot express");
        let g = self.graph();
        let (s, p, o) = (self.subject(), ex("p"), self.object());
        match self.r.below(7) {
            0 => self.add(&var("v"), &p, &o, &g),
            1 => self.add(&plain("lit"), &p, &o, &g),
            2 => self.add(&triple(ex("a"), ex("p"), ex("b")), &p, &o, &g),
            3 => { let b = self.old_blank(); self.add(&s, &b, &o, &g) }
            4 => { let b = self.old_blank(); self.add(&s, &p, &triple(ex("a"), ex("p"), b), &g) }
            5 => self.add(&s, &p, &var("w"), &g),
            _ => { let gg = match self.r.below(3) { 0 => var("g"), 1 => plain("g"), _ => triple(ex("a"), ex("p"), ex("b")) }; self.add(&s, &p, &o, &Some(gg)) }
        }
    }
}
fn shuffle<T>(v: &mut Vec<T>, r: &mut Rng) { for i in (1..v.len()).rev() { let j = r.below(i + 1); v.swap(i, j); } }

/// the replayed defect witnesses (DESIGN section 4 rows 11, 12 and the ones found while building), always cases 0..
fn witness_data(idx: usize) -> Option<(Vec<Q>, Vec<String>, Opts)> {
    let o = Opts { mode10: false, use_rdf_type: false, dir: 0, spaces: 0, native: false, base: None, ctr: true };
    let (b, c, n) = (bnode("b"), bnode("c"), None::<ST>);
    let q = |s: &ST, p: &ST, o: &ST, g: &Option<ST>| -> Q { ([s.clone(), p.clone(), o.clone()], g.clone()) };
    let cell = |g: &Option<ST>| vec![q(&b, &rdf("first"), &plain("a"), g), q(&b, &rdf("rest"), &rdf("nil"), g)];
    let g2 = Some(ex("g2"));
    Some(match idx {
        0 => (cell(&n), vec!["WITNESS row 11: list cell that is never an object".into()], o),
        1 => ([cell(&n), vec![q(&ex("s"), &ex("p"), &b, &n), q(&b, &ex("q"), &ex("a"), &g2)]].concat(), vec!["WITNESS row 12: list cell that is also a subject in another graph".into()], o),
        2 => ([cell(&g2), vec![q(&ex("s"), &ex("p"), &b, &g2), q(&ex("a"), &ex("q"), &ex("a"), &Some(b.clone()))]].concat(), vec!["WITNESS: list cell that is also a graph name".into()], o),
        3 => (vec![q(&b, &rdf("first"), &c, &n), q(&b, &rdf("rest"), &rdf("nil"), &n), q(&c, &rdf("first"), &plain("a"), &n), q(&c, &rdf("rest"), &b, &n)], vec!["WITNESS: list that is its own item (1.1)".into()], o),
        4 => ([cell(&n), vec![q(&b, &rdf("type"), &rdf("List"), &n), q(&ex("s"), &ex("p"), &b, &n)]].concat(), vec!["WITNESS: cell typed rdf:List".into()], o),
        5 => (vec![q(&b, &rdf("value"), &plain("x"), &n), q(&b, &rdf("direction"), &plain("ltr"), &n)], vec!["WITNESS: compound literal that nothing references".into()], Opts { dir: 2, ..o }),
        6 => (vec![q(&ex("s"), &ex("p"), &lit_dt("x", &format!("{I18N}en")), &n)], vec!["WITNESS: i18n datatype without direction".into()], Opts { dir: 1, ..o }),
        _ => return None,
    })
}

fn witness_case(idx: usize) -> Option<Case> {
    witness_data(idx).map(|(q, tags, o)| Case { docs: vec![q], tags, recipe: recipe_of(&o), via_default: false, sink: Sink::Stringifier, seed: idx as u64, kind: Kind::Random })
}
fn gen_dataset(r: &mut Rng, single: bool) -> (Vec<Q>, Vec<String>) {
    let mut g = G { r, q: vec![], tags: vec![], nb: 0 };
    let k = if single { 0 } else { g.r.below(3) }; g.noise(k);
    for _ in 0..(if single { 1 } else { g.r.range(1, 3) }) {
        match g.r.below(12) { 0..=5 => g.list_shape(), 6 => g.type_shape(), 7 | 8 => g.compound_shape(), 9 => g.i18n_shape(), 10 => g.inexpressible(), _ => { let k = g.r.range(1, 4); g.noise(k) } }
    }
    if g.r.chance(1, 40) { g.bad_json_shape(); }
    let (mut q, tags) = (g.q, g.tags);
    if r.chance(1, 2) { shuffle(&mut q, r); }
    (dedup(&q), tags)
}
/// one case: the datasets given to one serializer (usually one), how the options are built, where the output goes
struct Case { docs: Vec<Vec<Q>>, tags: Vec<String>, recipe: Vec<Op>, via_default: bool, sink: Sink, seed: u64, kind: Kind }
/// the random stream, and the directed streams next to it
#[derive(Clone, Copy, Debug, PartialEq)]
enum Kind { Random, Big, Ids, Entries, Labels }

// ------------------------------------------------------------------ directed stream 1: sizes
// datasets with MANY values for one (subject, predicate), many subjects, many predicates, many graphs, long lists -- the sizes
// sit on both sides of the powers of two a small-size fast path would use -- and, among the values, "lookalikes": terms that
// have the same text and differ by language tag, datatype or kind
const N_BIG: usize = 72;
const SIZES: [usize; 12] = [31, 32, 33, 34, 40, 63, 64, 65, 100, 129, 200, 257];
fn lookalike_groups() -> Vec<Vec<ST>> {
    let xsd = |l: &str, d: &str| lit_dt(l, &format!("{XSD}{d}"));
    vec![
        vec![lit_lang("chat", "en"), lit_lang("chat", "fr"), plain("chat"), lit_dt("chat", "http://e/dt"), lit_lang("chat", "en-GB")],
        vec![plain("7"), xsd("7", "integer"), xsd("7", "decimal"), xsd("7", "byte"), lit_lang("7", "en")],
        vec![iri("tag:o"), plain("tag:o"), xsd("tag:o", "anyURI"), lit_lang("tag:o", "en")],
        vec![bnode("o1"), plain("_:o1"), plain("o1"), iri("tag:o1"), xsd("o1", "NCName")],
        vec![plain("true"), xsd("true", "boolean"), lit_lang("true", "en")],
        vec![plain(""), lit_lang("", "en"), lit_dt("", "http://e/dt")],
        vec![iri("http://e/a"), plain("http://e/a"), xsd("http://e/a", "anyURI")],
        vec![plain("v3"), lit_lang("v3", "fr"), iri("tag:v3"), bnode("v3"), lit_dt("3", &format!("{XSD}integer"))],
    ]
}
fn size_class(n: usize) -> &'static str { match n { 0..=32 => "up to 32", 33..=64 => "33..64", 65..=128 => "65..128", _ => "more than 128" } }
fn gen_big(r: &mut Rng, k: usize) -> (Vec<Q>, Vec<String>) {
    let n = SIZES[(k / 6) % SIZES.len()];
    let groups = lookalike_groups();
    // 2..4 groups of lookalikes
    let mut las: Vec<Vec<ST>> = vec![]; for _ in 0..r.range(2, 4) { let g = r.pick(&groups).clone(); if !las.contains(&g) { las.push(g); } }
    let filler_kind = r.below(6);
    let filler = |i: usize| -> ST { match if filler_kind == 3 { i % 3 } else { filler_kind } { 0 => plain(&format!("v{i}")), 1 => iri(&format!("tag:v{i}")), 2 => bnode(&format!("v{i}")), 4 => lit_dt(&format!("{}", 1000 + i), &format!("{XSD}integer")), _ => lit_lang(&format!("v{i}"), "en") } };
    // the values in their order of arrival: where the lookalikes stand with respect to the n other values
    let placement = r.below(4);
    let arrange = |r: &mut Rng, n: usize| -> Vec<ST> {
        let fill: Vec<ST> = (0..n).map(&filler).collect();
        let flat: Vec<ST> = las.iter().flatten().cloned().collect();
        match placement {
            0 => [fill, flat].concat(),
            1 => [flat, fill].concat(),
            2 => { let firsts: Vec<ST> = las.iter().map(|g| g[0].clone()).collect(); let others: Vec<ST> = las.iter().flat_map(|g| g[1..].to_vec()).collect(); [firsts, fill, others].concat() }
            _ => { let mut v = [fill, flat].concat(); shuffle(&mut v, r); v }
        }
    };
    let mut tags = vec![format!("sizes: lookalike values {}", ["after the others", "before the others", "one of each group first, the others last", "interleaved"][placement])];
    let s = if r.chance(1, 2) { iri("tag:s") } else { bnode("s") };
    let g: Option<ST> = match r.below(4) { 0 | 1 => None, 2 => Some(iri("tag:g")), _ => Some(bnode("g")) };
    let mut q: Vec<Q> = vec![];
    let pattern = k % 6;
    match pattern {
        0 => {
            tags.push(format!("sizes: one (subject, predicate) with many values ({})", size_class(n)));
            let p = match r.below(8) { 0 => rdf("type"), 1 => rdf("value"), _ => iri("tag:p") };
            if p == rdf("type") { tags.push("sizes: many values of rdf:type".into()); }
            for o in arrange(r, n) { q.push(([s.clone(), p.clone(), o], g.clone())); }
        }
        1 => {
            tags.push(format!("sizes: many subjects ({})", size_class(n)));
            let vals = arrange(r, n);
            for (i, o) in vals.iter().enumerate() { let si = if i % 2 == 0 { iri(&format!("tag:n{}", i / 2)) } else { bnode(&format!("n{}", i / 2)) }; q.push(([si.clone(), iri("tag:p"), o.clone()], g.clone())); if i % 5 == 0 { q.push(([si, iri("tag:next"), iri(&format!("tag:n{}", (i / 2 + 1) % n))], g.clone())); } }
        }
        2 => {
            tags.push(format!("sizes: many graphs ({})", size_class(n)));
            let vals = arrange(r, n);
            for (i, o) in vals.iter().enumerate() {
                let gi = Some(if i % 3 == 2 { bnode(&format!("g{i}")) } else { iri(&format!("tag:g{i}")) });
                q.push(([s.clone(), iri("tag:p"), o.clone()], gi.clone()));
                // the same triple in every graph, and the graph name described in the default graph now and then
                q.push(([s.clone(), iri("tag:p"), lit_lang("chat", "en")], gi.clone()));
                if i % 7 == 0 { q.push(([gi.clone().unwrap(), iri("tag:p"), o.clone()], None)); }
            }
        }
        3 => {
            tags.push(format!("sizes: long list ({})", size_class(n)));
            // the items of a list may repeat: every lookalike twice
            let mut items = arrange(r, n.min(130)); let again: Vec<ST> = las.iter().flatten().cloned().collect(); items.extend(again);
            let cells: Vec<ST> = (0..items.len()).map(|i| bnode(&format!("c{i}"))).collect();
            q.push(([s.clone(), iri("tag:p"), cells[0].clone()], g.clone()));
            for i in 0..items.len() { q.push(([cells[i].clone(), rdf("first"), items[i].clone()], g.clone())); q.push(([cells[i].clone(), rdf("rest"), cells.get(i + 1).cloned().unwrap_or_else(|| rdf("nil"))], g.clone())); }
        }
        4 => {
            tags.push(format!("sizes: one subject with many predicates ({})", size_class(n)));
            let vals = arrange(r, n);
            for (i, o) in vals.iter().enumerate() { q.push(([s.clone(), iri(&format!("tag:p{}", i * 2 / 3)), o.clone()], g.clone())); }
        }
        _ => {
            tags.push(format!("sizes: many values for the same subject in two graphs, and a long list ({})", size_class(n)));
            let h = Some(iri("tag:h"));
            for o in arrange(r, n) { q.push(([s.clone(), iri("tag:p"), o], g.clone())); }
            for o in arrange(r, n / 2 + 17) { q.push(([s.clone(), iri("tag:p"), o], h.clone())); }
            let items = arrange(r, (n / 2).min(100)); let cells: Vec<ST> = (0..items.len()).map(|i| bnode(&format!("c{i}"))).collect();
            q.push(([s.clone(), iri("tag:q"), cells[0].clone()], h.clone()));
            for i in 0..items.len() { q.push(([cells[i].clone(), rdf("first"), items[i].clone()], h.clone())); q.push(([cells[i].clone(), rdf("rest"), cells.get(i + 1).cloned().unwrap_or_else(|| rdf("nil"))], h.clone())); }
        }
    }
    // (a list keeps the order of its cells whatever the order of the quads; the other datasets are sometimes given in another order)
    if placement == 3 && r.chance(1, 2) { shuffle(&mut q, r); tags.push("sizes: quads shuffled".into()); }
    (dedup(&q), tags)
}
fn big_case(r: &mut Rng, k: usize) -> Case {
    let aim = Opts { mode10: r.chance(1, 3), use_rdf_type: r.chance(1, 3), dir: [0, 0, 0, 1, 2][r.below(5)], spaces: if r.chance(1, 4) { 2 } else { 0 }, native: r.chance(1, 6), base: None, ctr: true };
    let mut recipe = if r.chance(1, 2) { recipe_of(&aim) } else { gen_recipe(r) };
    for op in recipe_of(&aim) { if r.chance(2, 3) { let at = r.below(recipe.len() + 1); recipe.insert(at, op); } }
    let (quads, tags) = gen_big(r, k);
    let sink = match r.below(8) { 0..=3 => Sink::Stringifier, 4 => Sink::VecWriter, 5 => Sink::MutVec, 6 => Sink::Jsonifier, _ => Sink::Chunked };
    Case { docs: vec![quads], tags, recipe, via_default: r.chance(1, 2), sink, seed: r.next(), kind: Kind::Big }
}

// ------------------------------------------------------------------ directed stream 2: the options that say how IRIs may be written
// a base IRI (on the serializer and on the parser), compactToRelative on and off, the other options at random -- and a dataset whose
// IRIs are special with respect to that base: the base itself, IRIs under its directory whose remainder looks like a JSON-LD
// keyword ('@type', '@bob'), is empty, is only a query or a fragment, has a first segment with a colon, goes through '..'
const N_IDS: usize = 132;
const BASES: [&str; 12] = [
    "http://example.org/dir/doc.jsonld", "http://example.org/dir/", "http://example.org/dir/doc?q=1", "http://example.org/", "http://example.org/dir/doc#frag", "http://example.org",
    "http://e/base/", "http://example.org/a/b/c/d;p?q", "tag:base", "urn:x:y", "file:///dir/doc", "http://example.org/dir/@context",
];
const KEYWORD_REFS: [&str; 12] = ["@type", "@id", "@bob", "@context", "@graph", "@value", "@list", "@vocab", "@base", "@none", "@json", "@Alice"];
const OTHER_REFS: [&str; 30] = ["@", "@x1", "@@a", "@type/x", "x/@type", "@type?q", "@type#f", "", "#", "#frag", "?q=2", "?", "a", "a/", "sub/b", "sub/x:y", "./x:y", "../up", "..", "../", "../../z", ".", "/root", "/", "//other.org/x", "doc.jsonld", "%40type", "a;b", "\u{e9}t\u{e9}", "@type/"];
const RAW_SUFFIXES: [&str; 8] = ["a/../b", "./c", "..", "@type/../@id", ".", "a//b", "../@type", "@bob/."];
fn valid_iri(s: &str) -> bool { sophia_iri::Iri::new(s).is_ok() }
/// the IRIs that are special with respect to `base` (with the relative reference that names them from the base)
fn special_iris(base: &str, r: &mut Rng) -> Vec<(String, String)> {
    let mut out: Vec<(String, String)> = vec![];
    let mut add = |rf: &str, i: String| { if valid_iri(&i) && has_scheme(&i) && !out.iter().any(|e| e.1 == i) { out.push((rf.to_string(), i)); } };
    for _ in 0..r.range(2, 3) { let rf = r.ps(&KEYWORD_REFS); add(rf, resolve3986(base, rf)); }
    for _ in 0..r.range(1, 4) { let rf = r.ps(&OTHER_REFS); add(rf, resolve3986(base, rf)); }
    // not normalised: the directory of the base followed by a suffix with dot segments
    if let Some(i) = base.rfind('/') { if r.chance(1, 2) { let sfx = r.ps(&RAW_SUFFIXES); add(&format!("(not normalised) {sfx}"), format!("{}{sfx}", &base[..=i])); } }
    if r.chance(1, 3) { add("(the base itself)", base.to_string()); }
    if r.chance(1, 3) { add("(the base without its fragment and query)", base.split(['?', '#']).next().unwrap().to_string()); }
    if r.chance(1, 3) { let other = match r.below(3) { 0 => base.replacen("http:", "https:", 1), 1 => format!("{}x/y", base.split(['?', '#']).next().unwrap().trim_end_matches(|c| c != '/')), _ => "http://example.org/other/c".to_string() }; add("(outside the base)", other); }
    out
}
fn gen_ids(r: &mut Rng, k: usize) -> (Vec<Q>, Vec<String>, &'static str) {
    let base = BASES[k % BASES.len()];
    let sp = special_iris(base, r);
    let mut tags: Vec<String> = vec![];
    for (rf, _) in &sp { tags.push(if KEYWORD_REFS.contains(&rf.as_str()) { "ids: IRI under the base whose remainder has the form of a keyword".into() } else if rf.starts_with('(') { format!("ids: IRI {rf}").replace(|c: char| c.is_ascii_digit(), "") } else { "ids: IRI under the base (other remainders)".into() }); }
    tags.sort(); tags.dedup();
    let pool: Vec<ST> = sp.iter().map(|e| iri(&e.1)).collect();
    let mut q: Vec<Q> = vec![];
    let any = |r: &mut Rng| -> ST { match r.below(6) { 0 => bnode("b"), 1 => iri("tag:x"), _ => r.pick(&pool).clone() } };
    // every special IRI in a position of its own, by turns: subject, object, graph name, rdf:type object, predicate, list item
    for (j, t) in pool.iter().enumerate() {
        let g: Option<ST> = match r.below(4) { 0 => Some(any(r)), _ => None };
        match (j + k / BASES.len()) % 6 {
            0 => { let o = if r.chance(1, 2) { any(r) } else { plain(&sp[j].0) }; q.push(([t.clone(), iri("tag:p"), o], g)); }
            1 => q.push(([any(r), iri("tag:p"), t.clone()], g)),
            2 => q.push(([any(r), iri("tag:p"), plain(&sp[j].0)], Some(t.clone()))),
            3 => q.push(([any(r), rdf("type"), t.clone()], g)),
            4 => q.push(([any(r), t.clone(), any(r)], g)),
            _ => { let c = bnode(&format!("c{j}")); q.push(([any(r), iri("tag:p"), c.clone()], g.clone())); q.push(([c.clone(), rdf("first"), t.clone()], g.clone())); q.push(([c, rdf("rest"), rdf("nil")], g)); }
        }
    }
    for _ in 0..r.below(4) { let g = if r.chance(1, 3) { Some(any(r)) } else { None }; q.push(([any(r), iri("tag:p"), any(r)], g)); }
    if r.chance(1, 2) { shuffle(&mut q, r); }
    (dedup(&q), tags, base)
}
fn ids_case(r: &mut Rng, k: usize) -> Case {
    let (quads, mut tags, base) = gen_ids(r, k);
    let aim = Opts { mode10: r.chance(1, 3), use_rdf_type: r.chance(1, 3), dir: [0, 0, 0, 1, 2][r.below(5)], spaces: if r.chance(1, 4) { 2 } else { 0 }, native: false, base: Some(base), ctr: true };
    // the other options at random; the base IRI and compactToRelative (default / true / false) at a random place, once
    let mut recipe: Vec<Op> = gen_recipe(r).into_iter().filter(|op| !matches!(op, Op::Base(_) | Op::CompactToRelative(_))).collect();
    for op in recipe_of(&Opts { base: None, ..aim }) { if r.chance(2, 3) { let at = r.below(recipe.len() + 1); recipe.insert(at, op); } }
    let at = r.below(recipe.len() + 1); recipe.insert(at, Op::Base(Some(base)));
    match k / BASES.len() % 3 { 0 => tags.push("ids: compact_to_relative left at its default".into()), 1 => { let at = r.below(recipe.len() + 1); recipe.insert(at, Op::CompactToRelative(true)); tags.push("ids: compact_to_relative(true)".into()); } _ => { let at = r.below(recipe.len() + 1); recipe.insert(at, Op::CompactToRelative(false)); tags.push("ids: compact_to_relative(false)".into()); } }
    let sink = match r.below(6) { 0..=3 => Sink::Stringifier, 4 => Sink::VecWriter, _ => Sink::Jsonifier };
    Case { docs: vec![quads], tags, recipe, via_default: r.chance(1, 2), sink, seed: r.next(), kind: Kind::Ids }
}

// ------------------------------------------------------------------ directed stream 3: the parser's entry points on large documents
// documents larger than the buffers a reader may use (8 KiB, 64 KiB), made of non-ASCII text, with a multi-byte character lying
// across a multiple of 4096 / 8192; read back through every entry point
const N_ENTRIES: usize = 36;
const UNITS: [&str; 8] = ["\u{e9}", "\u{20ac}", "\u{1f600}", "a\u{e9}", "\u{e9}\u{20ac}\u{1f600}x", "\u{5e9}\u{5dc}\u{5d5}\u{5dd} ", "\u{7ff}\u{800}\u{ffff}\u{10000}", "\u{10ffff}\u{80}"];
fn entries_dataset(unit: &str, pad: usize, total: usize, shape: usize) -> Vec<Q> {
    let body = |bytes: usize, pad: usize| -> String { format!("{}{}", "x".repeat(pad), unit.repeat(bytes / unit.len() + 1)) };
    let n = 3;
    let mut q: Vec<Q> = vec![];
    for i in 0..n {
        let text = body(total / n, if i == 0 { pad } else { 0 });
        let s = if shape % 2 == 1 && valid_iri(&format!("http://e/{}{i}", unit.trim())) { iri(&format!("http://e/{}{i}", unit.trim())) } else { iri(&format!("tag:s{i}")) };
        let o = match (shape / 2 + i) % 3 { 0 => plain(&text), 1 => lit_lang(&text, "en"), _ => lit_dt(&text, "http://e/dt") };
        let g = if shape % 3 == 2 && i == 1 { Some(iri("tag:g")) } else { None };
        if shape % 4 == 3 && i == 2 { let c = bnode("c"); q.push(([s, iri("tag:p"), c.clone()], g.clone())); q.push(([c.clone(), rdf("first"), o], g.clone())); q.push(([c, rdf("rest"), rdf("nil")], g)); }
        else { q.push(([s, iri("tag:p"), o], g)); }
    }
    q
}
/// the multiples of 4096 that fall inside a multi-byte character of the document
fn straddled(bytes: &[u8]) -> Vec<usize> { (1..=bytes.len() / 4096).map(|m| m * 4096).filter(|&b| b < bytes.len() && bytes[b] & 0xC0 == 0x80).collect() }
fn entries_case(r: &mut Rng, k: usize) -> Case {
    let total = [9_000, 13_000, 17_000, 9_500, 26_000, 34_000, 12_000, 67_000, 20_000][k % 9] + r.below(700) + if k % 18 == 17 { 66_000 } else { 0 };
    let unit = UNITS[k % UNITS.len()];
    let spaces = if k % 3 == 1 { 2 } else { 0 };
    let o = Opts { mode10: r.chance(1, 4), use_rdf_type: r.chance(1, 3), dir: 0, spaces, native: false, base: None, ctr: true };
    // the padding is chosen so that the targeted multiple of 4096 (8192 for the even cases) lies inside a character
    let target = if k % 2 == 0 { 8192 * (1 + (k / 2) % (total / 8192).max(1)) } else { 4096 * (1 + 2 * ((k / 2) % (total / 8192).max(1))) };
    let shape = r.below(12);
    let mut best = entries_dataset(unit, 0, total, shape);
    for pad in 0..16 {
        let d = entries_dataset(unit, pad, total, shape);
        if let Ok(t) = serialise(&d, &o) { if t.len() > target && t.as_bytes()[target] & 0xC0 == 0x80 { best = d; break; } }
    }
    let tags = vec![format!("entries: large document of {} KiB and more", match total { 0..=16_383 => "8", 16_384..=65_535 => "16", _ => "64" })];
    Case { docs: vec![best], tags, recipe: recipe_of(&o), via_default: false, sink: Sink::Stringifier, seed: r.next(), kind: Kind::Entries }
}
/// every entry point, for a document of that length
fn all_entries(r: &mut Rng, bytes: &[u8]) -> Vec<Entry> {
    let len = bytes.len();
    let inner: Vec<usize> = straddled(bytes);
    let mut v = vec![Entry::Str, Entry::Slice, Entry::Cursor, Entry::BufDefault, Entry::BufCap(4096), Entry::BufCap(65536), Entry::BufCap(*r.pick(&[1, 2, 3, 5, 7, 13, 64, 100, 1000])), Entry::BufCap(16384),
        Entry::Dribble(8192), Entry::Dribble(4096), Entry::Dribble(*r.pick(&[1, 2, 3, 5, 7])), Entry::Dribble(r.range(4090, 4100)), Entry::Dribble(r.range(8189, 8195)), Entry::Dribble(65536),
        Entry::Trickle { read: r.range(1, 5000), cap: 8192, interrupts: true }, Entry::Trickle { read: 100_000, cap: *r.pick(&[4096, 8192, 32768]), interrupts: false }];
    // two buffers, cut inside a character at a multiple of 4096 when there is one, and at a random place
    for _ in 0..2 { let at = if inner.is_empty() { r.below(len + 1) } else { *r.pick(&inner) }; v.push(Entry::Chain(at)); v.push(Entry::Deque(at)); }
    v.push(Entry::Chain(r.below(len + 1)));
    v
}
/// invalid variants of the bytes of a document (no entry point may accept them, whatever the chunks)
fn utf8_mutants(r: &mut Rng, bytes: &[u8]) -> Vec<(String, Vec<u8>)> {
    let inner: Vec<usize> = bytes.iter().enumerate().filter(|(_, b)| **b & 0xC0 == 0x80).map(|(i, _)| i).collect();
    if inner.is_empty() { return vec![]; }
    let mut out = vec![];
    let at = *r.pick(&inner);
    out.push((format!("cut inside the character at byte {at}"), bytes[..at].to_vec()));
    let at = *r.pick(&inner);
    let mut v = bytes.to_vec(); v[at] = b'x'; out.push((format!("continuation byte {at} replaced by 'x'"), v));
    let at = r.below(bytes.len());
    let bad: &[u8] = *r.pick(&[&[0x80u8][..], &[0xC0, 0x80], &[0xED, 0xA0, 0x80], &[0xF5, 0x80, 0x80, 0x80], &[0xF4, 0x90, 0x80, 0x80], &[0xE0, 0x80, 0x80], &[0xFF]]);
    let mut start = at; while start > 0 && bytes[start] & 0xC0 == 0x80 { start -= 1; }
    let mut v = bytes[..start].to_vec(); v.extend_from_slice(bad); v.extend_from_slice(&bytes[start..]); out.push((format!("ill-formed sequence {bad:02X?} inserted at byte {start}"), v));
    out
}
// ------------------------------------------------------------------ directed stream 4: blank node labels
// labels over the WHOLE alphabet sophia's BnodeId accepts (api/src/term/bnode_id.rs: non-ASCII letters, a digit first, '.' inside,
// '-', '_', U+00B7, combining marks, U+203F/U+2040, zero-width joiners, astral characters), in GROUPS whose members differ only
// in such characters (or in case, in a leading zero, in the normalisation form, in the length of a long common prefix), several
// per dataset, in every role a blank node can have: subject, object, graph name, list cell, list item, rdf:type object, compound
// literal node.  Distinct blank nodes must stay distinct after the round trip (the isomorphism demands it), and the identifiers
// the document has are exactly "_:" + label (the model: Labels.v).
const N_LABELS: usize = 180;
/// a family of labels: frame.0 + (a numeral written with `units`) + frame.1
struct Scheme { name: &'static str, units: &'static [&'static str], frames: &'static [(&'static str, &'static str)] }
const SCHEMES: [Scheme; 15] = [
    Scheme { name: "non-ASCII letters (Latin-1)", units: &["\u{e9}", "\u{e8}", "\u{ea}", "\u{eb}", "\u{e0}", "\u{f6}", "\u{f8}", "\u{ff}"], frames: &[("", ""), ("n", ""), ("", "1"), ("a", "b"), ("g", "")] },
    Scheme { name: "'_', '-', U+00B7, U+203F, U+2040 inside", units: &["_", "-", "\u{b7}", "\u{203f}", "\u{2040}"], frames: &[("a", "b"), ("a", ""), ("x1", "y"), ("_", "")] },
    Scheme { name: "'.' inside, next to '_', '-', U+00B7 and nothing", units: &[".", "_", "", "-", "\u{b7}"], frames: &[("a", "b"), ("n1", "2"), ("\u{e9}", "\u{e9}")] },
    Scheme { name: "combining marks", units: &["\u{300}", "\u{301}", "\u{302}", "\u{308}", "\u{36f}"], frames: &[("e", ""), ("a", "b"), ("1", ""), ("_", "x")] },
    Scheme { name: "composed and decomposed spellings (NFC / NFD)", units: &["\u{e9}", "e\u{301}", "\u{e8}", "e\u{300}", "e"], frames: &[("", ""), ("caf", ""), ("n", "e")] },
    Scheme { name: "astral characters", units: &["\u{10000}", "\u{10001}", "\u{1f600}", "\u{20000}", "\u{effff}", "\u{1d49c}"], frames: &[("", ""), ("a", ""), ("a", "b"), ("", "0")] },
    Scheme { name: "first and last characters of the ranges of PN_CHARS_BASE", units: &["\u{c0}", "\u{d6}", "\u{d8}", "\u{f6}", "\u{f8}", "\u{2ff}", "\u{370}", "\u{37d}", "\u{37f}", "\u{1fff}", "\u{2070}", "\u{218f}", "\u{2c00}", "\u{2fef}", "\u{3001}", "\u{d7ff}", "\u{f900}", "\u{fdcf}", "\u{fdf0}", "\u{fffd}"], frames: &[("", ""), ("a", "b")] },
    Scheme { name: "zero-width joiners (and nothing)", units: &["\u{200c}", "\u{200d}", ""], frames: &[("a", "b"), ("ab", ""), ("", "a")] },
    Scheme { name: "letter case", units: &["a", "A", "b", "B"], frames: &[("", ""), ("n", ""), ("x", "y"), ("", "1")] },
    Scheme { name: "digits first, leading zeros", units: &["0", "1", "7", "00"], frames: &[("", ""), ("", "a"), ("0", ""), ("", "e3")] },
    Scheme { name: "look-alike letters of other scripts", units: &["a", "\u{430}", "\u{251}", "\u{3b1}", "\u{ff41}"], frames: &[("", ""), ("b", "c"), ("", "1")] },
    Scheme { name: "characters next to what an escape of them could look like", units: &[".", "_2E", "_2e", "_", "__", "_5F", "-", "_2D", "\u{b7}", "_B7", "u00B7", "_C2_B7"], frames: &[("a", "b"), ("a", "")] },
    Scheme { name: "long labels that differ at their end", units: &["\u{e9}", "\u{e8}", "\u{b7}", "_", "z", "\u{10000}"], frames: &[("x31", ""), ("x32", "z"), ("x63", ""), ("x64", ""), ("x100", "b"), ("x255", ""), ("x256", ""), ("x1000", "")] },
    Scheme { name: "mixed classes", units: &["\u{e9}", "_", "\u{b7}", "\u{301}", "\u{10000}", "-", "E", "3", "\u{200d}"], frames: &[("a", "b"), ("a", ""), ("_", "_")] },
    Scheme { name: "labels that look like generated ones", units: &["0", "1", "2", "\u{661}", "_1", "01"], frames: &[("b", ""), ("_b", ""), ("c", ""), ("g", ""), ("genid", ""), ("b", "\u{e9}")] },
];
/// a frame part "x<N>" stands for N times 'x'
fn frame_part(s: &str) -> String { match s.strip_prefix('x').and_then(|n| n.parse::<usize>().ok()) { Some(n) if n >= 10 => "x".repeat(n), _ => s.to_string() } }
/// bijective numeration: 0 -> u0, 1 -> u1, ..., k -> u0 u0, ...
fn numeral(mut i: usize, units: &[&str]) -> String {
    let k = units.len(); let mut parts: Vec<&str> = vec![];
    loop { parts.push(units[i % k]); i /= k; if i == 0 { break; } i -= 1; }
    parts.reverse(); parts.concat()
}
fn valid_label(s: &str) -> bool { sophia_api::term::BnodeId::new(s).is_ok() }
/// the labels the oracle's own reference reader makes up for the list cells it creates
fn reserved_label(s: &str) -> bool { s.len() > 1 && s.starts_with('L') && s[1..].bytes().all(|b| b.is_ascii_digit()) }
/// `n` distinct labels of the scheme that BnodeId accepts (fewer when the scheme has no more)
fn scheme_labels(sch: &Scheme, r: &mut Rng, n: usize, taken: &mut BTreeSet<String>) -> Vec<String> {
    let (pre, suf) = *r.pick(sch.frames); let (pre, suf) = (frame_part(pre), frame_part(suf));
    // (now and then the numerals start further: several units per label)
    let start = if r.chance(1, 4) { r.below(200) } else { 0 };
    let mut out = vec![];
    for i in start..start + 4000 {
        if out.len() >= n { break; }
        let l = format!("{pre}{}{suf}", numeral(i, sch.units));
        if valid_label(&l) && !reserved_label(&l) && taken.insert(l.clone()) { out.push(l); }
    }
    out
}
fn map_labels(t: &ST, m: &BTreeMap<String, String>) -> ST {
    match t {
        SimpleTerm::BlankNode(b) => match m.get(b.as_str()) { Some(l) => bnode(l), None => t.clone() },
        SimpleTerm::Triple(tr) => triple(map_labels(&tr[0], m), map_labels(&tr[1], m), map_labels(&tr[2], m)),
        _ => t.clone(),
    }
}
fn labels_in(t: &ST, out: &mut Vec<String>) {
    match t { SimpleTerm::BlankNode(b) => { if !out.iter().any(|x| x == b.as_str()) { out.push(b.as_str().to_string()); } } SimpleTerm::Triple(tr) => for x in tr.iter() { labels_in(x, out); }, _ => {} }
}
/// gives the blank nodes of a case (of the random stream, of the sizes stream) labels of one scheme: the same datasets up to the
/// names of their blank nodes, which now differ only in special characters
fn rename_case(c: &mut Case, r: &mut Rng) {
    let mut olds: Vec<String> = vec![];
    for d in &c.docs { for q in d { for t in &q.0 { labels_in(t, &mut olds); } if let Some(g) = &q.1 { labels_in(g, &mut olds); } } }
    if olds.is_empty() { return; }
    let sch = r.pick(&SCHEMES);
    let mut taken = BTreeSet::new();
    let news = scheme_labels(sch, r, olds.len(), &mut taken);
    if news.len() < olds.len() { return; }
    let m: BTreeMap<String, String> = olds.into_iter().zip(news).collect();
    for d in c.docs.iter_mut() { for q in d.iter_mut() { for t in q.0.iter_mut() { *t = map_labels(t, &m); } if let Some(g) = q.1.as_mut() { *g = map_labels(g, &m); } } }
    c.tags.push(format!("labels (blank nodes renamed): {}", sch.name));
}
fn gen_labels(r: &mut Rng, k: usize, dir2: bool) -> (Vec<Q>, Vec<String>) {
    let mut tags: Vec<String> = vec![]; let mut q: Vec<Q> = vec![];
    let mut taken = BTreeSet::new();
    let ngroups = if r.chance(1, 3) { 2 } else { 1 };
    for gi in 0..ngroups {
        let sch = &SCHEMES[(k + gi * 4) % SCHEMES.len()];
        let n = match r.below(8) { 0 => r.range(6, 14), 1 => 2, _ => r.range(2, 5) };
        let labels = scheme_labels(sch, r, n, &mut taken);
        if labels.len() < 2 { continue; }
        let n = labels.len();
        let b: Vec<ST> = labels.iter().map(|l| bnode(l)).collect();
        let v = |i: usize| plain(&format!("v{gi}-{i}"));
        let s = iri(&format!("tag:s{gi}"));
        let (p, nm) = (iri("tag:p"), iri("tag:name"));
        let g: Option<ST> = match r.below(5) { 0 => Some(iri("tag:g")), 1 => Some(b[n - 1].clone()), _ => None };
        tags.push(format!("labels: {}", sch.name));
        let role = (k / SCHEMES.len() + gi * 3) % 9;
        let mut add = |s: &ST, p: &ST, o: &ST, g: &Option<ST>| q.push(([s.clone(), p.clone(), o.clone()], g.clone()));
        let list = |cells: &[ST], items: &[ST], g: &Option<ST>, add: &mut dyn FnMut(&ST, &ST, &ST, &Option<ST>)| {
            for i in 0..cells.len() { add(&cells[i], &rdf("first"), &items[i], g); add(&cells[i], &rdf("rest"), &cells.get(i + 1).cloned().unwrap_or_else(|| rdf("nil")), g); }
        };
        match role {
            0 => { tags.push("labels: as subjects".into()); for i in 0..n { add(&b[i], &nm, &v(i), &g); } add(&s, &iri("tag:knows"), &b[0], &g); }
            1 => { tags.push("labels: as objects only".into()); for i in 0..n { add(&s, &p, &b[i], &g); if i % 2 == 1 { add(&iri(&format!("tag:t{i}")), &p, &b[i], &g); } } }
            2 => { tags.push("labels: as graph names".into()); for i in 0..n { add(&s, &p, &v(i), &Some(b[i].clone())); if i % 2 == 0 { add(&b[i], &iri("tag:label"), &v(i), &None); } } }
            3 => { tags.push("labels: as the cells of one list".into()); let items: Vec<ST> = (0..n).map(&v).collect(); list(&b, &items, &g, &mut add); add(&s, &p, &b[0], &g); }
            4 => { tags.push("labels: as the items of a list".into()); let cells: Vec<ST> = (0..n).map(|i| bnode(&format!("c{gi}x{i}"))).collect(); list(&cells, &b, &g, &mut add); add(&s, &p, &cells[0], &g); for i in 0..n { add(&b[i], &nm, &v(i), &g); } }
            5 => { tags.push("labels: one list per label, in the graph named by the next label".into());
                   for i in 0..n { let h = Some(b[(i + 1) % n].clone()); list(&b[i..=i], &[v(i)], &h, &mut add); add(&s, &p, &b[i], &h); } }
            6 => { tags.push("labels: as rdf:type objects".into()); for i in 0..n { add(&s, &rdf("type"), &b[i], &g); if i % 2 == 0 { add(&b[i], &nm, &v(i), &g); } } }
            7 => { tags.push(format!("labels: as compound literal nodes{}", if dir2 { " (rdf_direction = compound-literal)" } else { "" }));
                   for i in 0..n { add(&b[i], &rdf("value"), &v(i), &g); add(&b[i], &rdf("direction"), &plain(if i % 2 == 0 { "ltr" } else { "rtl" }), &g); add(&s, &p, &b[i], &g); } }
            _ => { tags.push("labels: in every role by turns".into());
                   for i in 0..n { let nx = b[(i + 1) % n].clone();
                       match (i + k) % 6 {
                           0 => { add(&b[i], &nm, &v(i), &g); add(&b[i], &iri("tag:next"), &nx, &g); }
                           1 => add(&s, &p, &b[i], &g),
                           2 => { add(&s, &p, &v(i), &Some(b[i].clone())); add(&b[i], &nm, &v(i), &Some(b[i].clone())); }
                           3 => { add(&nx, &rdf("type"), &b[i], &g); }
                           4 => { add(&b[i], &nm, &v(i), &Some(nx.clone())); add(&b[i], &nm, &v(i), &None); }
                           _ => { list(&b[i..=i], &[nx.clone()], &g, &mut add); add(&s, &iri("tag:q"), &b[i], &g); }
                       } }
                   // a blank node is not a property: such a quad is one of those JSON-LD cannot express
                   if r.chance(1, 3) { add(&s, &b[0], &v(0), &g); } }
        }
    }
    if r.chance(1, 2) { shuffle(&mut q, r); }
    (dedup(&q), tags)
}
fn labels_case(r: &mut Rng, k: usize) -> Case {
    let aim = Opts { mode10: r.chance(1, 3), use_rdf_type: r.chance(1, 3), dir: [0, 0, 1, 2, 2][r.below(5)], spaces: if r.chance(1, 4) { 2 } else { 0 }, native: r.chance(1, 8), base: None, ctr: true };
    let mut recipe = if r.chance(1, 2) { recipe_of(&aim) } else { gen_recipe(r) };
    for op in recipe_of(&aim) { if r.chance(2, 3) { let at = r.below(recipe.len() + 1); recipe.insert(at, op); } }
    let (quads, tags) = gen_labels(r, k, Expect::of(&recipe).dir == 2);
    let sink = match r.below(9) { 0..=3 => Sink::Stringifier, 4 => Sink::VecWriter, 5 => Sink::MutVec, 6 | 7 => Sink::Jsonifier, _ => Sink::Chunked };
    Case { docs: vec![quads], tags, recipe, via_default: r.chance(1, 2), sink, seed: r.next(), kind: Kind::Labels }
}
/// the blank node labels of the expressible quads of the datasets, and the identifiers of blank form the documents have
/// ('@id' and '@type' values, property keys), for the model (Labels.v: labels_ok); `all`: no label may be missing from the
/// documents (true when no blank node can have been compacted away: no rdf:first / rdf:rest / rdf:direction in the datasets)
fn coq_labels(docs: &[Vec<Q>], texts: &[&String]) -> String {
    let mut ins: Vec<String> = vec![]; let mut all = true;
    for d in docs { for q in d { if expressible(q) { for t in &q.0 { labels_in(t, &mut ins); } if let Some(g) = &q.1 { labels_in(g, &mut ins); }
        if q.0[1] == rdf("first") || q.0[1] == rdf("rest") || q.0[1] == rdf("direction") { all = false; } } } }
    let mut obs = BTreeSet::new();
    for t in texts { if let Ok(j) = read_json(t) { id_strings(&j, &mut obs); } }
    if texts.len() != docs.len() { all = false; }
    let obs: Vec<String> = obs.into_iter().filter(|s| s.starts_with("_:")).collect();
    format!("labels_ok {} {} {}", coq_bool(all), coq_list(ins.iter().map(|s| coq_str(s))), coq_list(obs.iter().map(|s| coq_str(s))))
}
/// KNOWN (third-party, outside /repo): the json-ld crate's blank node identifiers (rdf-types 0.15.4, BlankId) have no '.', so
/// that a document with the identifier "_:a.b" is not read back as written.  True when a document has such an identifier
fn doc_has_dotted_blank_id(txt: &str) -> bool {
    let mut obs = BTreeSet::new();
    if let Ok(j) = read_json(txt) { id_strings(&j, &mut obs); }
    obs.iter().any(|s| s.starts_with("_:") && s.contains('.'))
}
/// one label alone, through the validator of the toolkit and through the parser: is it a label (BnodeId::new), and does the
/// parser read the identifier "_:" + label back as a blank node (the document has one quad, with that subject and an IRI object)?
/// For the model (Labels.v: label_ok).
fn label_probe(l: &str) -> (bool, Option<bool>) {
    let valid = valid_label(l);
    if !valid { return (false, None); }
    let txt = format!("[{{\"@id\":{},\"tag:p\":[{{\"@id\":\"tag:o\"}}]}}]", json_str(&format!("_:{l}")));
    let o = Opts { mode10: false, use_rdf_type: false, dir: 0, spaces: 0, native: false, base: None, ctr: true };
    let mut bad = vec![];
    let kept = match parse_back(&txt, &o, None, &Entry::Str, &mut bad) { Ok(b) => b.len() == 1 && matches!(b[0].0[0], SimpleTerm::BlankNode(_)), Err(_) => false };
    (true, Some(kept))
}

/// the recipe of the canonical setter order for given settings
fn recipe_of(o: &Opts) -> Vec<Op> {
    let mut v = vec![Op::Mode(o.mode10), Op::RdfType(o.use_rdf_type), Op::Native(o.native), Op::Spaces(o.spaces), Op::Dir(o.dir)];
    if o.base.is_some() { v.push(Op::Base(o.base)); }
    if !o.ctr { v.push(Op::CompactToRelative(false)); }
    v
}
fn gen_case(r: &mut Rng, single: bool) -> Case {
    // the settings aimed at (the distribution of the first version of this harness) ...
    let aim = Opts { mode10: r.chance(1, 3), use_rdf_type: r.chance(1, 3), dir: [0, 0, 1, 2, 2][r.below(5)], spaces: if r.chance(1, 3) { 2 } else { 0 }, native: r.chance(1, 8), base: None, ctr: true };
    // ... are written at random places of a random recipe (a later setter of the same option wins: Expect follows the recipe)
    let mut recipe = gen_recipe(r);
    if !recipe.is_empty() { for op in recipe_of(&aim) { if r.chance(2, 3) { let at = r.below(recipe.len() + 1); recipe.insert(at, op); } } }
    let (quads, mut tags) = gen_dataset(r, single);
    let mut docs = vec![quads];
    if r.chance(1, 8) { let (q2, t2) = gen_dataset(r, true); docs.push(q2); tags.extend(t2); tags.push("several serialisations with one serializer".into()); if r.chance(1, 4) { docs.push(vec![]); } }
    let sink = match r.below(14) { 0..=3 => Sink::Stringifier, 4 => Sink::VecWriter, 5 => Sink::MutVec, 6..=8 => Sink::Chunked, 9 | 10 => Sink::Budget(if r.chance(1, 4) { r.below(4000) } else { r.below(400) }), 11 | 12 => Sink::Jsonifier, _ => Sink::FailingSource(r.below(6)) };
    Case { docs, tags, recipe, via_default: r.chance(1, 2), sink, seed: r.next(), kind: Kind::Random }
}
/// the directed cases come right after the witnesses, whatever --n is
const N_WITNESS: usize = 7;
fn directed_case(idx: usize, r: &mut Rng) -> Option<Case> {
    let k = idx.checked_sub(N_WITNESS)?;
    if k < N_BIG { return Some(big_case(r, k)); }
    let k = k - N_BIG;
    if k < N_IDS { return Some(ids_case(r, k)); }
    let k = k - N_IDS;
    if k < N_ENTRIES { return Some(entries_case(r, k)); }
    let k = k - N_ENTRIES;
    if k < N_LABELS { return Some(labels_case(r, k)); }
    None
}
/// compact description of the bytes of a document for the model: segments (pattern, number of repetitions)
fn coq_segs(bytes: &[u8]) -> String {
    let mut segs: Vec<(Vec<u8>, usize)> = vec![]; let mut i = 0;
    while i < bytes.len() {
        let mut best = (1usize, 1usize);
        for p in 1..=24.min(bytes.len() - i) { let mut rep = 1; while i + (rep + 1) * p <= bytes.len() && bytes[i + rep * p..i + (rep + 1) * p] == bytes[i..i + p] { rep += 1; } if rep >= 3 && rep * p > best.0 * best.1 { best = (p, rep); } }
        if best.1 >= 3 { segs.push((bytes[i..i + best.0].to_vec(), best.1)); i += best.0 * best.1; }
        else { match segs.last_mut() { Some((v, 1)) if v.len() < 64 => v.push(bytes[i]), _ => segs.push((vec![bytes[i]], 1)) } i += 1; }
    }
    coq_list(segs.iter().map(|(v, n)| format!("({}, {n})", coq_bytes(v))))
}
fn is_utf8_error(msg: &str) -> bool { let m = msg.to_ascii_lowercase(); m.contains("utf-8") || m.contains("utf8") }
/// the document of an Entries case read back through every entry point: each one must give the expected dataset (the property,
/// "parsing the result back", does not depend on how the bytes reach the parser); invalid variants must be refused by all.
/// Returns the failures and, for the model, the terms `entry_ok <bytes> [(policy, accepted as UTF-8)]`
fn entries_sweep(r: &mut Rng, txt: &str, o: &Opts, quads: &[Q], dist: &mut Vec<String>) -> (Vec<String>, Vec<String>) {
    let expected: Vec<Q> = quads.iter().filter(|q| expressible(q)).cloned().collect();
    let bytes = txt.as_bytes();
    let across = straddled(bytes);
    let what = format!("a valid document of {} bytes (a multi-byte character lies across the byte offsets {:?}{})", bytes.len(), &across[..across.len().min(6)], if across.len() > 6 { ", ..." } else { "" });
    for b in &across { if b % 8192 == 0 { dist.push(format!("entries:character across the multiple {} of 8192", b / 8192)); } }
    dist.push(format!("entries:{} multiples of 4096 inside a character", match across.len() { 0 => "0", 1 => "1", 2..=4 => "2-4", _ => "5+" }));
    let mut fails: Vec<String> = vec![]; let mut coq: Vec<String> = vec![];
    let run = |e: &Entry, data: &[u8], module_level: bool| -> Result<Result<Vec<Q>, String>, String> {
        let (e, data, o) = (e.clone(), data.to_vec(), *o);
        quiet(true);
        let res = std::panic::catch_unwind(move || {
            let p = JsonLdParser::new_with_options(o.build());
            let mut out: Vec<Q> = vec![]; let mut bad: Vec<String> = vec![];
            let mut src = if module_level { sophia_jsonld::parser::parse_bufread(std::io::BufReader::new(&data[..])) } else { run_entry(&p, &data, &e) };
            match src.for_each_quad(|q| push_quad(q, &mut out, &mut bad)) { Ok(()) => Ok(out), Err(e) => Err(format!("parse error: {e}")) }
        });
        quiet(false);
        res.map_err(panic_msg)
    };
    let mut obs: Vec<String> = vec![];
    let mut entries: Vec<(Entry, bool)> = all_entries(r, bytes).into_iter().map(|e| (e, false)).collect();
    if !o.mode10 { entries.push((Entry::BufDefault, true)); }
    for (e, module_level) in &entries {
        let name = if *module_level { "sophia_jsonld::parser::parse_bufread(BufReader::new(&[u8]))".to_string() } else { e.show() };
        dist.push(format!("entries:{}", e.kind()));
        let accepted = match run(e, bytes, *module_level) {
            Ok(Ok(back)) => { let back = dedup(&back); if !iso(&expected, &back) { fails.push(format!("PARSER ENTRY POINT {name} DIVERGES on {what}: {} quads instead of {}{}", back.len(), expected.len(), missing_note(&expected, &back))); } true }
            Ok(Err(msg)) => { fails.push(format!("PARSER ENTRY POINT {name} REJECTS {what} that parse_str reads: {}", clip(&msg))); !is_utf8_error(&msg) }
            Err(p) => { fails.push(format!("PARSER ENTRY POINT {name} PANICS on {what}: {}", clip(&p))); false }
        };
        if let Some(pol) = e.policy(bytes.len()) { let t = format!("({pol}, {})", coq_bool(accepted)); if !obs.contains(&t) { obs.push(t); } }
    }
    // (the model evaluates every reader on the documents up to 40 KiB, and eight of them on the larger ones: its cost is per byte and per reader)
    let large = bytes.len() > 40_000;
    if large { let n = obs.len(); obs = obs.into_iter().enumerate().filter(|(i, t)| !t.starts_with("(Every 1,") && (*i < 4 || *i + 4 >= n)).map(|(_, t)| t).collect(); }
    coq.push(format!("entry_ok (expand_segs {}) {}", coq_segs(bytes), coq_list(obs)));
    for (desc, mb) in utf8_mutants(r, bytes) {
        let mut obs: Vec<String> = vec![];
        for e in [Entry::Slice, Entry::BufDefault, Entry::BufCap(r.range(1, 9)), Entry::Dribble(r.range(1, 7)), Entry::Dribble(4096), Entry::Chain(r.below(mb.len() + 1))] {
            dist.push("entries:invalid UTF-8 variant".into());
            let accepted = match run(&e, &mb, false) {
                Ok(Ok(back)) => { fails.push(format!("PARSER ENTRY POINT {} ACCEPTS bytes that are not UTF-8 ({desc}; {} quads read)", e.show(), back.len())); true }
                Ok(Err(msg)) => !is_utf8_error(&msg),
                Err(p) => { fails.push(format!("PARSER ENTRY POINT {} PANICS on bytes that are not UTF-8 ({desc}): {}", e.show(), clip(&p))); false }
            };
            if let Some(pol) = e.policy(mb.len()) { obs.push(format!("({pol}, {})", coq_bool(accepted))); }
        }
        if large { obs.truncate(3); if coq.len() >= 2 { continue; } }
        coq.push(format!("entry_ok (expand_segs {}) {}", coq_segs(&mb), coq_list(obs)));
    }
    (fails, coq)
}
/// the IRIs of a dataset (every position, datatypes included) and the strings a document has where JSON-LD expects node
/// identifiers or properties ('@id', '@type' of node objects, property keys), for the model (Wide.v: ids_ok)
fn iris_of(t: &ST, out: &mut BTreeSet<String>) {
    match t { SimpleTerm::Iri(i) => { out.insert(i.as_str().to_string()); } SimpleTerm::LiteralDatatype(_, d) => { out.insert(d.as_str().to_string()); } SimpleTerm::Triple(tr) => for x in tr.iter() { iris_of(x, out); }, _ => {} }
}
fn id_strings(j: &J, out: &mut BTreeSet<String>) {
    match j {
        J::Arr(v) => for x in v { id_strings(x, out); },
        J::Obj(entries) => {
            if j.get("@value").is_some() { return; }
            for (k, v) in entries {
                match k.as_str() {
                    "@id" => if let J::Str(s) = v { out.insert(s.clone()); },
                    "@type" => { if let J::Arr(ts) = v { for t in ts { if let J::Str(s) = t { out.insert(s.clone()); } } } }
                    "@graph" | "@list" => id_strings(v, out),
                    k => { if !k.starts_with('@') { out.insert(k.to_string()); } id_strings(v, out); }
                }
            }
        }
        _ => {}
    }
}
/// the (graph, subject, predicate) of the dataset that has the most values: its objects in their order of arrival, as the
/// serializer's RdfObject values, and the number of values the document has there, for the model (Wide.v: values_ok)
fn coq_values(quads: &[Q], txt: &str) -> Option<String> {
    let mut groups: Vec<((Option<ST>, ST, ST), Vec<ST>)> = vec![];
    for q in quads.iter().filter(|q| expressible(q) && q.0[1] != rdf("type")) {
        let k = (q.1.clone(), q.0[0].clone(), q.0[1].clone());
        match groups.iter_mut().find(|e| e.0 == k) { Some(e) => e.1.push(q.0[2].clone()), None => groups.push((k, vec![q.0[2].clone()])) }
    }
    let best = groups.iter().max_by_key(|e| e.1.len())?;
    let id_of = |t: &ST| -> String { match t { SimpleTerm::BlankNode(b) => format!("_:{}", b.as_str()), SimpleTerm::Iri(i) => i.as_str().to_string(), _ => String::new() } };
    let doc = read_json(txt).ok()?;
    let find = |nodes: &Vec<J>, id: &str| -> Option<J> { nodes.iter().find(|n| n.get("@id").and_then(|x| x.str().ok()) == Some(id)).cloned() };
    let tops = doc.arr().ok()?;
    let node = match &best.0.0 { None => find(tops, &id_of(&best.0.1))?, Some(g) => { let gn = find(tops, &id_of(g))?; find(gn.get("@graph")?.arr().ok()?, &id_of(&best.0.1))? } };
    let observed = node.get(&id_of(&best.0.2))?.arr().ok()?.len();
    let objs = best.1.iter().map(|t| match t {
        SimpleTerm::LiteralLanguage(l, tag) => format!("LangString {} {}", coq_str(l), coq_str(tag.as_str())),
        SimpleTerm::LiteralDatatype(l, d) => format!("TypedLiteral {} {}", coq_str(l), coq_str(d.as_str())),
        t => format!("Node 0 {}", coq_str(&id_of(t))),
    });
    Some(format!("values_ok {} {observed}", coq_list(objs)))
}
fn coq_ids(docs: &[Vec<Q>], texts: &[&String], o: &Opts) -> String {
    let mut ins = BTreeSet::new(); let mut obs = BTreeSet::new();
    for d in docs { for q in d { if expressible(q) { for t in &q.0 { iris_of(t, &mut ins); } if let Some(g) = &q.1 { iris_of(g, &mut ins); } } } }
    // (the fixed vocabulary the serializer may add: rdf:type & co are in the dataset when they are in the document, except the list vocabulary)
    for t in texts { if let Ok(j) = read_json(t) { id_strings(&j, &mut obs); } }
    let obs: Vec<String> = obs.into_iter().filter(|s| !s.starts_with("_:")).collect();
    format!("ids_ok {} {} {} {}", coq_opt(o.base.map(coq_str)), coq_bool(o.ctr), coq_list(ins.iter().map(|s| coq_str(s))), coq_list(obs.iter().map(|s| coq_str(s))))
}

/// long texts (the documents of the large cases) are cut in the reports; the replay (--only) prints them whole
fn clip(s: &str) -> String { if s.len() <= 3000 { s.to_string() } else { let mut a = 1500; while !s.is_char_boundary(a) { a -= 1; } let mut b = s.len() - 1000; while !s.is_char_boundary(b) { b += 1; } format!("{} ...[{} bytes]... {}", &s[..a], s.len() - a - (s.len() - b), &s[b..]) } }
/// which quads without blank nodes are missing / in excess (what a reader of the report needs first on a large dataset)
fn missing_note(expected: &[Q], back: &[Q]) -> String {
    let ground = |q: &Q| !matches!(q.0[0], SimpleTerm::BlankNode(_)) && !matches!(q.0[2], SimpleTerm::BlankNode(_)) && !matches!(q.1, Some(SimpleTerm::BlankNode(_)));
    let (e, b): (BTreeSet<String>, BTreeSet<String>) = (expected.iter().filter(|q| ground(q)).map(key_q).collect(), back.iter().filter(|q| ground(q)).map(key_q).collect());
    let miss: Vec<&String> = e.difference(&b).take(4).collect(); let extra: Vec<&String> = b.difference(&e).take(4).collect();
    if miss.is_empty() && extra.is_empty() { String::new() } else { format!(" (missing e.g. {miss:?}; unexpected e.g. {extra:?})") }
}
/// the property oracle: Some(description) when the round trip fails.  Two readers are applied to the
/// emitted document: sophia's JsonLdParser (the property as stated) and the reference reader above.
fn iso(expected: &Vec<Q>, back: &Vec<Q>) -> bool { isomorphic_datasets(expected, back).unwrap_or(false) }
/// JSON-LD 1.1 API 8.5 (RDF to Object Conversion, 2.5): an rdf:JSON literal whose lexical form is not JSON is an
/// "invalid JSON literal" error and processing is aborted
fn has_bad_json(quads: &[Q]) -> bool {
    quads.iter().any(|q| expressible(q) && matches!(&q.0[2], SimpleTerm::LiteralDatatype(l, d) if d.as_str() == format!("{RDF}JSON") && read_json(l).is_err()))
}
fn oracle(quads: &[Q], o: &Opts, ser: &Result<String, String>, how: Option<&ParseHow>, entry: &Entry, problems: &mut Vec<String>, notes: &mut Vec<String>) -> Option<String> {
    let mut expected: Vec<Q> = quads.iter().filter(|q| expressible(q)).cloned().collect();
    if has_bad_json(quads) {
        return match ser { Err(e) if e.contains("invalid JSON literal") => None, Err(e) => Some(format!("SERIALIZER FAILS with an unexpected error on an ill-formed rdf:JSON literal: {e}")), Ok(t) => Some(format!("SERIALIZER ACCEPTS an ill-formed rdf:JSON literal: {}", t.split_whitespace().collect::<Vec<_>>().join(" "))) };
    }
    if o.native { expected = dedup(&expected.iter().map(native_q).collect::<Vec<_>>()); }
    let txt = match ser { Ok(t) => t, Err(e) => return Some(format!("SERIALIZER FAILS: {e}")) };
    let flat = clip(&txt.split_whitespace().collect::<Vec<_>>().join(" "));
    let reference = read_json(txt).and_then(|j| reference_to_rdf(&j, o.dir, false, o.native, o.base));
    let ref_back = match &reference {
        Err(e) => return Some(format!("SERIALIZER OUTPUT INVALID (reference reader): {e}; document: {flat}")),
        Ok(back) => dedup(back),
    };
    if !iso(&expected, &ref_back) { return Some(format!("SERIALIZER LOSES INFORMATION (reference reader): read back {} quads instead of {}{}: [{}]; document: {flat}", ref_back.len(), expected.len(), missing_note(&expected, &ref_back), clip(&show_ds(&ref_back)))); }
    // KNOWN (third-party parser, outside /repo): a blank node identifier with a '.' ("_:a.b", a legal BnodeId that the serializer
    // writes as it is and the reference reader reads back) is not a blank node identifier for the json-ld crate.  Only the
    // documents that have such an identifier are excluded from the comparison with sophia's parser, and counted; the parser is
    // still run (it must not panic) and what it does with them is counted too
    if doc_has_dotted_blank_id(txt) {
        let mut ignored = vec![];
        let got = parse_back(txt, o, how, entry, &mut ignored).map(|b| if o.native { dedup(&b.iter().map(native_q).collect::<Vec<_>>()) } else { dedup(&b) });
        notes.push("known:documents with a blank node identifier that has a '.' (\"_:a.b\"): excluded from the comparison with sophia's parser".into());
        return match got {
            Err(e) if e.starts_with("PANIC") => Some(format!("PARSER PANICS on a document with the blank node identifier of a label with '.': {e}; document: {flat}")),
            Err(e) => { notes.push("known:... the parser rejects such a document".into()); Some(format!("[bnode-label-with-dot-not-read-back] the serializer writes the blank node identifier of a label with '.' as it is, and sophia's JSON-LD parser (json-ld crate: blank identifiers have no '.') rejects the document: {}; document: {flat}", e)) }
            Ok(back) if iso(&expected, &back) => { notes.push("known:... the parser reads such a document back as expected".into()); None }
            Ok(back) => { notes.push(format!("known:... the parser reads such a document back differently ({})", if back.len() < expected.len() { "fewer quads" } else if back.len() > expected.len() { "more quads" } else { "as many quads" })); Some(format!("[bnode-label-with-dot-not-read-back] the serializer writes the blank node identifier of a label with '.' as it is (e.g. \"_:a.b\"), and sophia's JSON-LD parser (json-ld crate: blank identifiers have no '.') reads it back as a relative IRI, not as a blank node: parsed back {} quads, expected {}; document: {flat}", back.len(), expected.len())) }
        };
    }
    match parse_back(txt, o, how, entry, problems).map(|b| if o.native { dedup(&b.iter().map(native_q).collect::<Vec<_>>()) } else { dedup(&b) }) {
        Err(e) => Some(format!("PARSER REJECTS a document the reference reader round-trips (entry point {}): {e}; document: {flat}", entry.show())),
        Ok(back) if !iso(&expected, &back) => {
            let quirk = dedup(&read_json(txt).and_then(|j| reference_to_rdf(&j, o.dir, true, o.native, o.base)).unwrap_or_default());
            if o.dir != 0 && iso(&quirk, &back) { Some(format!("PARSER (json-ld-core 0.15.1, rdfDirection={}) DIVERGES from the specification in the known way: parsed back {} quads [{}] instead of {}; document: {flat}", if o.dir == 1 { "i18n-datatype: no '_' before the direction when there is no language" } else { "compound-literal: no rdf:value/rdf:direction/rdf:language triples" }, back.len(), show_ds(&back), expected.len())) }
            else { Some(format!("PARSER DIVERGES from the reference reader (entry point {}): parsed back {} quads instead of {}{}: [{}]; document: {flat}", entry.show(), back.len(), expected.len(), missing_note(&expected, &back), clip(&show_ds(&back)))) }
        }
        _ => None,
    }
}

// ------------------------------------------------------------------ Coq side
struct Intern { ids: Vec<(String, u64, ST)>, next: u64 }
impl Intern {
    fn new() -> Self {
        let mut i = Intern { ids: vec![], next: 10 };
        for (k, n) in ["first", "rest", "nil", "type", "List", "value", "direction", "language"].iter().enumerate() { i.ids.push((key_t(&rdf(n)), k as u64 + 1, rdf(n))); }
        i
    }
    fn id(&mut self, t: &ST) -> u64 {
        let k = key_t(t);
        if let Some(e) = self.ids.iter().find(|e| e.0 == k) { return e.1; }
        self.next += 1; self.ids.push((k, self.next, t.clone())); self.next
    }
    fn find(&self, t: &ST) -> Option<u64> { let k = key_t(t); self.ids.iter().find(|e| e.0 == k).map(|e| e.1) }
    fn table(&self) -> String {
        coq_list(self.ids.iter().map(|(_, n, t)| format!("({n}, {})", match t {
            SimpleTerm::Iri(_) => "I".to_string(), SimpleTerm::BlankNode(_) => "B".to_string(),
            SimpleTerm::LiteralLanguage(..) => "Lit false false false".to_string(),
            SimpleTerm::LiteralDatatype(l, d) => { let plain = d.as_str() == format!("{XSD}string"); format!("Lit {} {} {}", coq_bool(plain), coq_bool(plain && (&**l == "ltr" || &**l == "rtl")), coq_bool(plain && sophia_api::term::LanguageTag::new(&**l).is_ok() && !l.bytes().any(|b| b.is_ascii_uppercase()))) }
            _ => "other_info".to_string() })))
    }
}
fn coq_quad(i: &mut Intern, q: &Q) -> String { format!("mkQ {} {} {} {}", i.id(&q.0[0]), i.id(&q.0[1]), i.id(&q.0[2]), coq_opt(q.1.as_ref().map(|g| i.id(g).to_string()))) }
fn canon_obj(j: &J) -> String { canon_json(j) }
/// value object of each literal of the dataset, obtained from the implementation itself on a one-quad dataset
fn literal_objects(quads: &[Q], o: &Opts, i: &mut Intern, i18n: &mut Vec<String>) -> Vec<(String, u64)> {
    let mut out = vec![]; let mut seen = BTreeSet::new();
    for q in quads { if !expressible(q) { continue; } let l = &q.0[2]; if !matches!(l, SimpleTerm::LiteralDatatype(..) | SimpleTerm::LiteralLanguage(..)) || !seen.insert(show_t(l)) { continue; }
        let one: Vec<Q> = vec![([ex("s"), ex("p"), l.clone()], None)];
        if let Ok(txt) = serialise(&one, o) { if let Ok(j) = read_json(&txt) { if let Some(v) = j.arr().ok().and_then(|a| a.first()).and_then(|n| n.get("http://e/p")).and_then(|v| v.arr().ok()).and_then(|a| a.first()) {
            out.push((canon_obj(v), i.id(l)));
            // literal level: the i18n-datatype shortcut, against Model.i18n_value
            if let (1, SimpleTerm::LiteralDatatype(_, dt)) = (o.dir, l) { if let Some(suffix) = dt.as_str().strip_prefix(I18N) {
                let tag = suffix.split('_').next().unwrap_or("");
                let wf = sophia_api::term::LanguageTag::new(tag).is_ok();
                let gs = |k: &str| v.get(k).and_then(|x| x.str().ok()).map(|x| x.to_string());
                let observed = match (gs("@type"), gs("@language"), gs("@direction")) {
                    (Some(t), None, None) => format!("VTyped {}", coq_str(t.strip_prefix(I18N).unwrap_or(&t))),
                    (_, lang, dirn) => format!("VDir {} {}", coq_opt(lang.map(|x| coq_str(&x))), coq_str(&dirn.unwrap_or_default())),
                };
                i18n.push(format!("i18n_ok {} {} ({observed})", coq_bool(wf), coq_str(suffix)));
            } }
        } } } }
    out
}
fn coq_val(v: &J, lits: &[(String, u64)], i: &mut Intern) -> Result<String, String> {
    if let Some(l) = v.get("@list") { return Ok(format!("JList [] {}", coq_list(l.arr()?.iter().map(|x| coq_val(x, lits, i).map(|s| format!("({s})"))).collect::<Result<Vec<_>, _>>()?))); }
    if v.get("@value").is_some() {
        if let Some(e) = lits.iter().find(|e| e.0 == canon_obj(v)) { return Ok(format!("JLit {}", e.1)); }
        if let (Some(val), Some(d)) = (v.get("@value"), v.get("@direction")) {
            let f = |i: &mut Intern, x: &J| -> Result<u64, String> { i.find(&plain(x.str()?)).ok_or_else(|| format!("compound literal component {x:?} is not a plain literal of the input")) };
            let l = match v.get("@language") { Some(l) => Some(f(i, l)?.to_string()), None => None };
            return Ok(format!("JComp 0 {} {} {}", f(i, val)?, f(i, d)?, coq_opt(l)));
        }
        return Err(format!("value object {} corresponds to no literal of the input", canon_obj(v)));
    }
    if let Some(x) = v.get("@id") { return Ok(format!("JRef {}", i.id(&RefRdf::id_term(x.str()?)))); }
    Err(format!("unrecognised value {v:?}"))
}
fn coq_node(n: &J, lits: &[(String, u64)], i: &mut Intern) -> Result<String, String> {
    let J::Obj(entries) = n else { return Err("node object expected".into()) };
    let id = i.id(&RefRdf::id_term(n.get("@id").ok_or("no @id")?.str()?));
    let mut types = vec![]; let mut props = vec![];
    for (k, v) in entries {
        match k.as_str() {
            "@id" | "@graph" => {}
            "@type" => for t in v.arr()? { types.push(i.id(&RefRdf::id_term(t.str()?)).to_string()); },
            k => { let vs = v.arr()?.iter().map(|x| coq_val(x, lits, i)).collect::<Result<Vec<_>, _>>()?; props.push(format!("({}, {})", i.id(&RefRdf::id_term(k)), coq_list(vs))); }
        }
    }
    Ok(format!("mkJ {id} {} {}", coq_list(types), coq_list(props)))
}
fn coq_doc(doc: &J, lits: &[(String, u64)], i: &mut Intern) -> Result<String, String> {
    let tops = doc.arr()?.iter().map(|n| {
        let g = match n.get("@graph") { Some(g) => Some(coq_list(g.arr()?.iter().map(|m| coq_node(m, lits, i)).collect::<Result<Vec<_>, _>>()?)), None => None };
        Ok(format!("mkTop ({}) {}", coq_node(n, lits, i)?, coq_opt(g)))
    }).collect::<Result<Vec<_>, String>>()?;
    Ok(coq_list(tops))
}

/// splits a concatenation of JSON texts
fn split_json(txt: &str) -> Result<Vec<(String, J)>, String> {
    let mut p = JP { s: txt.as_bytes(), i: 0 }; let mut out = vec![];
    loop { p.ws(); if p.i >= txt.len() { return Ok(out); } let st = p.i; let v = p.value()?; out.push((txt[st..p.i].to_string(), v)); }
}
/// `spaces` only changes the white space: 0 = one line; n = n more spaces per nesting level
fn indent_check(txt: &str, spaces: u16) -> Option<String> {
    if spaces == 0 { return if txt.contains('\n') { Some("spaces = 0 but the document has line breaks".into()) } else { None }; }
    if spaces > 255 { return None; } // (the printer takes a u8: see the report)
    let mut depth_seen = 0usize;
    for line in txt.split('\n') {
        let lead = line.len() - line.trim_start_matches(' ').len();
        if lead % spaces as usize != 0 { return Some(format!("spaces = {spaces} but a line is indented by {lead}")); }
        depth_seen = depth_seen.max(lead / spaces as usize);
    }
    if txt.trim() != "[]" && depth_seen == 0 { return Some(format!("spaces = {spaces} but nothing is indented")); }
    None
}
/// runs the case on the implementation: the reference run (canonical options, one stringifier per dataset) and the run
/// under test (recipe-built options, the sink of the case, one serializer for all the datasets); returns the text of
/// each dataset's document from both runs (None where the run under test leaves no complete document)
fn run_case(c: &Case, opts: &Opts, expect: &Expect, problems: &mut Vec<String>) -> (Vec<Result<String, String>>, Vec<Option<String>>) {
    let refs: Vec<Result<String, String>> = c.docs.iter().map(|d| serialise(d, opts)).collect();
    let canon = |t: &str| read_json(t).map(|j| canon_json(&j));
    quiet(true);
    let out = std::panic::catch_unwind(|| {
        if c.recipe.is_empty() && c.via_default && !matches!(c.sink, Sink::Chunked | Sink::Budget(_) | Sink::FailingSource(_) | Sink::MutVec) { run_default_ctor(&c.docs, c.sink, c.seed) }
        else { run_recipe(&c.recipe, c.via_default, SerRun { docs: &c.docs, sink: c.sink, expect, seed: c.seed }) }
    });
    quiet(false);
    let out = match out { Ok(o) => o, Err(e) => { problems.push(format!("SINK: PANIC in the run under test ({}): {}", c.sink.name(), panic_msg(e))); return (refs, vec![None; c.docs.len()]); } };
    problems.extend(out.problems.iter().cloned());
    let mut under: Vec<Option<String>> = vec![None; c.docs.len()];
    if out.results.len() != c.docs.len() { problems.push(format!("SINK: {} results for {} calls", out.results.len(), c.docs.len())); return (refs, under); }
    // (a writer that fails after a byte budget may hold a truncated document, cut inside a multi-byte character: only the
    // documents of the successful calls, which come first, have to be UTF-8)
    let txt = match String::from_utf8(out.bytes.clone()) {
        Ok(t) => t,
        Err(e) if matches!(c.sink, Sink::Budget(_)) => String::from_utf8_lossy(&out.bytes[..e.utf8_error().valid_up_to()]).to_string(),
        Err(_) => { problems.push("SINK: output is not UTF-8".into()); return (refs, under); }
    };
    let held = out.bytes.len();
    match c.sink {
        Sink::FailingSource(_) => {}
        Sink::Jsonifier => {
            // the value of the last successful call (Null before)
            let mut want: Option<usize> = None;
            for (i, r) in refs.iter().enumerate() { match (r, &out.results[i]) { (Ok(_), Ok(())) => want = Some(i), (Err(_), Err(_)) => {}, (Ok(_), Err(e)) => problems.push(format!("SINK: call {i} fails on the jsonifier ({e}) but succeeds on a stringifier")), (Err(e), Ok(())) => problems.push(format!("SINK: call {i} succeeds on the jsonifier but fails on a stringifier ({e})")) } }
            match want {
                None => if txt != "null" { problems.push(format!("SINK: jsonifier holds {txt} although no call succeeded")); },
                Some(i) => { if canon(&txt) != canon(refs[i].as_ref().unwrap()) { problems.push(format!("SINK: jsonifier holds {txt} after call {i}, a stringifier wrote {}", refs[i].as_ref().unwrap())); } else { under[i] = Some(txt.clone()); } }
            }
        }
        _ => {
            // writers: the successful calls append their documents; with a byte budget the first call that does not fit fails
            // after filling the budget, and so does every later call that has something to write
            let budget = if let Sink::Budget(b) = c.sink { Some(b) } else { None };
            let mut written = 0usize; let mut complete: Vec<usize> = vec![];
            for (i, r) in refs.iter().enumerate() {
                let fits = match (r, budget) { (Ok(t), Some(b)) => written + t.len() <= b, _ => true };
                match (r, &out.results[i]) {
                    (Err(_), Err(_)) => {}
                    (Err(e), Ok(())) => problems.push(format!("SINK: call {i} succeeds on {} but fails on a stringifier ({e})", c.sink.name())),
                    (Ok(t), Ok(())) => { if fits { written += t.len(); complete.push(i); } else { problems.push(format!("SINK: call {i} reports success although the writer refused bytes (budget {budget:?}, document of {} bytes after {written})", t.len())); } }
                    (Ok(t), Err(e)) => { if fits { problems.push(format!("SINK: call {i} fails on {} ({e}) but succeeds on a stringifier", c.sink.name())); } else { if !e.contains("budget exhausted") { problems.push(format!("SINK: the writer's error is not reported: {e}")); } written = budget.unwrap(); let _ = t; } }
                }
            }
            if held != written { problems.push(format!("SINK: {} holds {} bytes, {} expected (budget {budget:?}; results {:?})", c.sink.name(), held, written, out.results)); }
            let total: usize = complete.iter().map(|&i| refs[i].as_ref().unwrap().len()).sum();
            match split_json(&txt[..total.min(txt.len())]) {
                Ok(parts) if parts.len() == complete.len() => for (k, &i) in complete.iter().enumerate() {
                    if Ok(canon_json(&parts[k].1)) != canon(refs[i].as_ref().unwrap()) { problems.push(format!("SINK: {} received {} for call {i}, a stringifier wrote {}", c.sink.name(), parts[k].0, refs[i].as_ref().unwrap())); } else { under[i] = Some(parts[k].0.clone()); }
                },
                Ok(parts) => problems.push(format!("SINK: {} holds {} documents after {} successful calls: {txt}", c.sink.name(), parts.len(), complete.len())),
                Err(e) => problems.push(format!("SINK: {} holds invalid JSON ({e}): {txt}", c.sink.name())),
            }
        }
    }
    // (the jsonifier holds a JSON value, not a text: `spaces` does not apply to it)
    for t in refs.iter().flatten().chain(under.iter().flatten().filter(|_| c.sink != Sink::Jsonifier)) { if let Some(p) = indent_check(t, opts.spaces) { problems.push(format!("SPACES: {p}: {t:?}")); } }
    (refs, under)
}

fn main() {
    let a = parse_args();
    quiet_panics();
    let single = a.rest.iter().any(|x| x == "--single");
    let verbose = a.rest.iter().any(|x| x == "--verbose");
    let mut sum = Summary::default();
    sum.rule = "case = (1..3 datasets given to ONE serializer, each of up to ~30 quads = noise quads + 1..3 shapes among: lists (well-formed, unreferenced head, shared, branching, cyclic through rdf:rest or rdf:first, typed rdf:List, extra property, split across graphs, cell reused as subject/graph name/cell/item elsewhere, copied in two graphs, nested, rdf:nil items), rdf:type with IRI/blank/literal objects, compound-literal shapes, i18n datatypes, rdf:JSON literals (well- and ill-formed), quads JSON-LD cannot express; options = a recipe of 0..17 builder calls among all the with_* methods of JsonLdOptions in random order, which fixes processing mode x use_rdf_type x rdf_direction x indentation x use_native_types; sink = stringifier / Vec / &mut Vec / writer taking 1..5 bytes per call with interruptions / writer failing after a byte budget / jsonifier / failing quad source); the document is read back through a random entry point of the parser (parse_str; parse on a slice, Cursor, BufReader of 8 KiB or small capacity, BufRead handing out 1..7 bytes per fill_buf, BufReader over a slow interrupted Read, Chain of two slices cut inside a character, VecDeque). Directed streams after the witnesses: (1) sizes: 31..257 values for one (subject, predicate) / subjects / predicates / graphs / list items, with lookalike values (same text, different language, datatype or kind) before, after or among the others; (2) a base IRI out of 12 on serializer and parser, compactToRelative default/true/false, the other options at random, IRIs special under the base (remainder of keyword form, empty, query/fragment only, first segment with a colon, dot segments, not normalised) in subject / object / graph name / rdf:type / predicate / list item position; (3) documents of 9..140 KiB of 2-, 3- and 4-byte characters with a character across a chosen multiple of 4096/8192, read back through EVERY entry point, and invalid UTF-8 variants that every entry point must refuse; (4) groups of 2..14 blank node labels of one family out of 15 (non-ASCII letters, '_' '-' U+00B7 U+203F U+2040, '.', combining marks, NFC/NFD spellings, astral characters, the ends of the ranges of PN_CHARS_BASE, zero-width joiners, letter case, leading digits and zeros, look-alike letters, escape look-alikes, long common prefixes of 31..1000 characters, mixed, labels like generated ones) that differ only in such characters, as subjects / objects only / graph names / cells of one list / list items / one list per label in the graph named by the next / rdf:type objects / compound literal nodes / every role by turns; the same families rename the blank nodes of a third of the cases of the random stream and of stream (1); non-trivial = a directed case, or the first dataset has an rdf:rest or rdf:direction quad, or at least two graphs; distinct = distinct (datasets, settings)".into();
    let base = Rng::new(a.seed);
    let range: Vec<usize> = match a.only { Some(i) => vec![i], None => (0..a.n).collect() };
    let mut by_tag: BTreeMap<String, (u64, u64)> = BTreeMap::new();
    let mut cases = vec![]; let mut seen = BTreeSet::new();
    // every option setter must leave the other options alone (the options are part of the property's quantifier)
    if a.only.is_none() {
        for flag in [false, true] {
            let o = JsonLdOptions::new().with_use_rdf_type(flag).with_use_native_types(!flag).with_default_document_loader::<sophia_jsonld::loader::NoLoader>();
            if o.use_rdf_type() != flag { sum.oracle_failures.push(("options".into(), format!("OPTIONS: JsonLdOptions::new().with_use_rdf_type({flag}).with_use_native_types({}).with_default_document_loader() has use_rdf_type() == {} (every with_*document_loader* builder copies use_native_types into use_rdf_type)", !flag, o.use_rdf_type()))); }
        }
        // the fallible builders refuse what is not a context (and accept one)
        if JsonLdOptions::new().try_with_expand_context("{\"@context\": ").is_ok() { sum.oracle_failures.push(("options".into(), "OPTIONS: try_with_expand_context accepts a truncated JSON text".into())); }
        if JsonLdOptions::new().try_with_compact_context("[1, 2").is_ok() { sum.oracle_failures.push(("options".into(), "OPTIONS: try_with_compact_context accepts a truncated JSON text".into())); }
        if JsonLdOptions::new().try_with_expand_context("{\"no-context\": 1}").is_ok() { sum.oracle_failures.push(("options".into(), "OPTIONS: try_with_expand_context accepts a document without @context".into())); }
        // the public conversion of the parser's term type
        { let t = sophia_jsonld::RdfTerm::from(arc_iri("http://e/a")); let mut bad = vec![]; term_contract(&t, &mut bad);
          if t.kind() != TermKind::Iri || t.iri().map(|i| i.as_str().to_string()) != Some("http://e/a".to_string()) { bad.push("PARSER TERM: RdfTerm::from(ArcIri) is not that IRI".into()); }
          for b in bad { sum.oracle_failures.push(("parser".into(), b)); } }
        // observations that are outside the property (reported, not counted as violations)
        let probe = |l: &str, dt: &str| serialise(&[([ex("s"), ex("p"), lit_dt(l, &format!("{XSD}{dt}"))], None)], &Opts { mode10: false, use_rdf_type: false, dir: 0, spaces: 0, native: true, base: None, ctr: true }).unwrap_or_default();
        if probe("1e2", "integer").contains("\"@value\":100") { sum.bump("note:use_native_types turns the ill-formed \"1e2\"^^xsd:integer into the number 100"); }
        if probe("1.5", "integer").contains("\"@value\":1.5") { sum.bump("note:use_native_types turns the ill-formed \"1.5\"^^xsd:integer into the number 1.5 (read back as xsd:double)"); }
        // an expand context on the parser that defines the prefix 'ex' captures the IRIs of the scheme 'ex:' (they are written in full, and
        // JSON-LD reads 'ex:a' as a compact IRI then): such an expand context is not a lossless option setting for such a dataset
        { let d = vec![([iri("ex:a"), ex("p"), iri("ex:b")], None)];
          if let Ok(t) = serialise(&d, &Opts { mode10: false, use_rdf_type: false, dir: 0, spaces: 0, native: false, base: None, ctr: true }) {
              let mut bad = vec![];
              if let Ok(back) = parse_back(&t, &Opts { mode10: false, use_rdf_type: false, dir: 0, spaces: 0, native: false, base: None, ctr: true }, Some(&ParseHow { recipe: vec![Op::ExpandLoaded], via_default: false, as_bytes: false }), &Entry::Str, &mut bad) {
                  if !iso(&d, &back) && back.iter().any(|q| q.0[0] == ex("a")) { sum.bump("note:a parser whose expand context defines the prefix 'ex' reads the IRI <ex:a> of the document as <http://e/a> (compact IRI expansion; the serializer writes IRIs in full and knows no context)"); }
              } } }
        let wide = serialise(&[([ex("s"), ex("p"), ex("o")], None)], &Opts { mode10: false, use_rdf_type: false, dir: 0, spaces: 256, native: false, base: None, ctr: true }).unwrap_or_default();
        if wide.contains('\n') && !wide.contains("\n ") { sum.bump("note:with_spaces(256) prints line breaks without indentation (u16 truncated to u8)"); }
    }
    for idx in range {
        let mut r = base.fork(idx as u64);
        let mut case = witness_case(idx).or_else(|| directed_case(idx, &mut r)).unwrap_or_else(|| gen_case(&mut r, single));
        // blank node labels: a third of the cases of the random stream and of the sizes stream get the labels of one scheme
        // (a generator of its own: the cases are otherwise the ones they were)
        if idx >= N_WITNESS && matches!(case.kind, Kind::Random | Kind::Big) { let mut lr = base.fork(idx as u64).fork(0x1abe15); if lr.chance(1, 3) { rename_case(&mut case, &mut lr); } }
        let case = case;
        let expect = Expect::of(&case.recipe);
        let opts = expect.opts();
        let tags = case.tags.clone();
        let mut problems: Vec<String> = vec![];
        let (refs, under) = run_case(&case, &opts, &expect, &mut problems);
        // the property, on every document (the one of the run under test when there is one)
        let how = if r.chance(1, 2) { Some(ParseHow { recipe: case.recipe.clone(), via_default: case.via_default, as_bytes: r.chance(1, 2) }) } else { None };
        // the entry point of the parser through which the documents are read back
        let text_of = |i: usize| -> Result<String, String> { match &under[i] { Some(t) => Ok(t.clone()), None => refs[i].clone() } };
        let entry = gen_entry(&mut r, text_of(0).as_deref().unwrap_or("").as_bytes());
        let mut res: Option<String> = None; let mut notes: Vec<String> = vec![];
        for (i, d) in case.docs.iter().enumerate() {
            let ser: Result<String, String> = text_of(i);
            if let Some(f) = oracle(d, &opts, &ser, how.as_ref(), &entry, &mut problems, &mut notes) { res.get_or_insert(if case.docs.len() > 1 { format!("{f}; dataset {i}: {}", clip(&show_ds(d))) } else { f }); }
        }
        let mut wide: Vec<String> = vec![];
        if case.kind == Kind::Entries { if let Ok(t) = text_of(0) { let mut dist = vec![]; let (fails, coq) = entries_sweep(&mut r, &t, &opts, &case.docs[0], &mut dist); problems.extend(fails); wide.extend(coq); for k in dist { sum.bump(&k); } } }
        if case.kind == Kind::Big { if let Ok(t) = text_of(0) { match coq_values(&case.docs[0], &t) { Some(v) => { wide.push(v); sum.bump("sizes:values of the largest (subject, predicate) counted by the model"); } None => sum.bump("sizes:the largest (subject, predicate) is not a node of the document (list cell)") } } }
        if case.kind != Kind::Random || opts.base.is_some() { let texts: Vec<String> = (0..case.docs.len()).filter_map(|i| text_of(i).ok()).collect(); wide.push(coq_ids(&case.docs, &texts.iter().collect::<Vec<_>>(), &opts)); }
        // the identifiers of the blank nodes, for the model (every case); the labels one by one (the cases of the labels stream)
        { let texts: Vec<String> = (0..case.docs.len()).filter_map(|i| text_of(i).ok()).collect(); wide.push(coq_labels(&case.docs, &texts.iter().collect::<Vec<_>>())); }
        if case.kind == Kind::Labels {
            let mut ls: Vec<String> = vec![]; for q in &case.docs[0] { for t in &q.0 { labels_in(t, &mut ls); } if let Some(g) = &q.1 { labels_in(g, &mut ls); } }
            ls.truncate(5);
            // and strings next to them that may or may not be labels
            for _ in 0..3 { if let Some(l) = ls.first().cloned() { let c = r.ps(&[".", "-", "\u{b7}", "\u{301}", "_", ":", " ", "\u{d7}", "\u{f7}", "\u{37e}", "\u{2000}", "\u{3000}", "\u{fffe}", "\u{f0000}", "%", "0", "\u{203f}"]);
                ls.push(match r.below(4) { 0 => format!("{c}{l}"), 1 => format!("{l}{c}"), 2 => format!("{l}{c}{c}{l}"), _ => format!("{l}{c}{l}") }); } }
            if r.chance(1, 20) { ls.push(String::new()); }
            for l in &ls {
                let (valid, kept) = label_probe(l);
                sum.bump(&format!("labels:one label alone: {}", match (valid, kept) { (false, _) => "not a label for BnodeId", (true, Some(true)) => "a label, read back as a blank node by the parser", _ => "a label, NOT read back as a blank node by the parser" }));
                wide.push(format!("label_ok {} {} {}", coq_str(l), coq_bool(valid), coq_bool(kept.unwrap_or(false))));
            }
        }
        for n in &notes { sum.bump(n); }
        problems.sort(); problems.dedup();
        sum.evaluations += 1;
        let quads = &case.docs[0];
        let all_ds = case.docs.iter().map(|d| show_ds(d)).collect::<Vec<_>>().join(" ||| ");
        let graphs: BTreeSet<String> = quads.iter().map(|q| q.1.as_ref().map(key_t).unwrap_or_default()).collect();
        let nontrivial = case.kind != Kind::Random || graphs.len() >= 2 || quads.iter().any(|q| q.0[1] == rdf("rest") || q.0[1] == rdf("direction"));
        sum.bump(&format!("stream:{}", match case.kind { Kind::Random => "random (and the replayed witnesses)", Kind::Big => "directed: sizes and lookalike values", Kind::Ids => "directed: base IRI / compactToRelative and the IRIs special under them", Kind::Entries => "directed: large non-ASCII documents through every parser entry point", Kind::Labels => "directed: groups of blank node labels that differ only in special characters" }));
        sum.bump(&format!("parser entry point of the round trip:{}", entry.kind()));
        if case.kind == Kind::Big { sum.bump(&format!("sizes:dataset of {} quads", match quads.len() { 0..=40 => "up to 40", 41..=80 => "41..80", 81..=160 => "81..160", 161..=320 => "161..320", _ => "more than 320" })); }
        if nontrivial && seen.insert(format!("{:?}{}", opts, all_ds)) { sum.distinct_nontrivial += 1; }
        for t in &tags { let e = by_tag.entry(t.clone()).or_default(); e.0 += 1; if res.is_some() { e.1 += 1; } }
        sum.bump(&format!("mode:{}", if opts.mode10 { "1.0" } else { "1.1" }));
        sum.bump(&format!("rdf_direction:{}", ["none", "i18n-datatype", "compound-literal"][opts.dir as usize]));
        if opts.use_rdf_type { sum.bump("use_rdf_type"); } if opts.spaces > 0 { sum.bump("indented"); } if opts.native { sum.bump("use_native_types"); }
        sum.bump(&format!("sink:{}", case.sink.name()));
        sum.bump(&format!("recipe:{} builder calls", match case.recipe.len() { 0 => "0", 1..=5 => "1-5", 6..=10 => "6-10", _ => "11+" }));
        for op in &case.recipe { let s = op.show(); sum.bump(&format!("builder:{}", s.split('(').next().unwrap_or(""))); }
        if how.is_some() { sum.bump("parser built through the recipe"); }
        let context = format!("shapes {tags:?}; options {} built by {}{}; sink {}; dataset: {}", opts.show(), if case.via_default { "(from Default::default()) " } else { "" }, show_recipe(&case.recipe), case.sink.name(), if a.only.is_some() { all_ds.clone() } else { clip(&all_ds) });
        if let Some(d) = &res {
            if verbose { println!("FAIL {idx} {tags:?} [{}] {all_ds} => {d}", opts.show()); }
            sum.bump(&format!("oracle:{}", d.split(':').next().unwrap_or("").split('(').next().unwrap_or("").trim()));
            sum.oracle_failures.push((idx.to_string(), format!("{d}; {context}")));
        }
        for p in &problems {
            if verbose { println!("FAIL {idx} {p}"); }
            sum.bump(&format!("oracle:{}", p.split(':').next().unwrap_or("").split('(').next().unwrap_or("").trim()));
            sum.oracle_failures.push((idx.to_string(), format!("{p}; {context}")));
        }
        if sum.samples.len() < 5 && nontrivial && idx % 7 == 0 { sum.samples.push(format!("case {idx} [{}; {}; {}] {all_ds} => {}", opts.show(), show_recipe(&case.recipe), case.sink.name(), refs[0].clone().unwrap_or_else(|e| e).split_whitespace().collect::<Vec<_>>().join(" "))); }
        // Coq case: the model's documents for the calls, against the reference run and the run under test
        let mut it = Intern::new();
        let cds: Vec<String> = case.docs.iter().map(|d| coq_list(d.iter().map(|q| coq_quad(&mut it, q)))).collect();
        let mut i18n = vec![]; let mut lits: Vec<(String, u64)> = vec![];
        for d in &case.docs { for e in literal_objects(d, &opts, &mut it, &mut i18n) { if !lits.iter().any(|x| x == &e) { lits.push(e); } } }
        let collisions: Vec<&(String, u64)> = lits.iter().filter(|e| lits.iter().any(|f| f.0 == e.0 && f.1 != e.1)).collect();
        let bad: Vec<String> = { let mut v: Vec<String> = vec![]; for d in &case.docs { for q in d { if let SimpleTerm::LiteralDatatype(l, dt) = &q.0[2] { if dt.as_str() == format!("{RDF}JSON") && read_json(l).is_err() { let id = it.id(&q.0[2]).to_string(); if !v.iter().any(|x| x == &id) { v.push(id); } } } } } v };
        let docs_of = |texts: Vec<&String>, it: &mut Intern| -> Result<String, String> { Ok(coq_list(texts.iter().map(|t| read_json(t).and_then(|j| coq_doc(&j, &lits, it))).collect::<Result<Vec<_>, _>>()?)) };
        let ref_docs = docs_of(refs.iter().flatten().collect(), &mut it);
        let under_docs: Option<Result<String, String>> = match case.sink {
            Sink::Jsonifier | Sink::FailingSource(_) | Sink::Budget(_) => None,
            _ => if under.iter().zip(&refs).all(|(u, r)| u.is_some() == r.is_ok()) { Some(docs_of(under.iter().flatten().collect(), &mut it)) } else { None },
        };
        let json_obs: Option<Result<String, String>> = if case.sink == Sink::Jsonifier { Some(match under.iter().flatten().next_back() { Some(t) => read_json(t).and_then(|j| coq_doc(&j, &lits, &mut it)).map(|d| format!("(Some {d})")), None => Ok("None".to_string()) }) } else { None };
        let copts = format!("(mkOpts {} {} {})", coq_bool(opts.mode10), coq_bool(opts.use_rdf_type), coq_bool(opts.dir == 2));
        let body = if !collisions.is_empty() { format!("false (* two literals of the dataset have the same value object: {collisions:?} *)") } else {
            match (&ref_docs, under_docs.as_ref().unwrap_or(&Ok(String::new())), json_obs.as_ref().unwrap_or(&Ok(String::new()))) {
                (Ok(rd), Ok(ud), Ok(jo)) => {
                    let obs = if under_docs.is_some() { format!("[{rd}; {ud}]") } else { format!("[{rd}]") };
                    let rt_base = if it.next < 900 { 1000 } else { it.next + 1000 };
                    let rt: String = (0..case.docs.len()).map(|k| format!(" && roundtrip_ok t {copts} (nth {k} ds []) {rt_base}")).collect();
                    format!("let t := {} in let ds := {} in calls_ok t {copts} {} ds {obs}{}{rt}{}", it.table(), coq_list(cds.iter().cloned()), coq_list(bad.iter().cloned()),
                        if json_obs.is_some() { format!(" && jsonifier_ok t {copts} {} ds {jo}", coq_list(bad.iter().cloned())) } else { String::new() }, i18n.iter().chain(wide.iter()).map(|x| format!(" && {x}")).collect::<String>())
                }
                (Err(e), _, _) | (_, Err(e), _) | (_, _, Err(e)) => format!("false (* no document to compare: {} *)", e.replace("*)", "* )").replace("(*", "( *")),
            }
        };
        if a.only.is_some() {
            println!("CASE {idx}: {context}\n => oracle {:?} {:?}\nreference run: {:?}\nrun under test: {:?}\nCoq: {body}", res, problems, refs, under);
            if let Ok(t) = text_of(0) { let mut ignored = vec![]; println!("sophia's parser ({}) reads the first document back as: {}", entry.show(), match parse_back(&t, &opts, how.as_ref(), &entry, &mut ignored) { Ok(b) => show_ds(&b), Err(e) => e }); }
        }
        cases.push((idx, body));
    }
    for (t, (n, f)) in &by_tag { sum.bump_by(&format!("shape:{t}"), *n); if verbose { println!("{f:5}/{n:5} {t}"); } }
    if a.only.is_none() {
        sum.shards = write_shards(&a.out, "From Sophia.C12 Require Import Model Calls Wide Labels.\n", &cases, a.shards);
        sum.extra.push(("coq_cases".into(), cases.len().to_string()));
        std::fs::write(format!("{}/summary.json", a.out), sum.to_json()).unwrap();
    }
    println!("c12: {} cases, {} distinct non-trivial, {} oracle failures", sum.evaluations, sum.distinct_nontrivial, sum.oracle_failures.len());
}
