(* C07/Properties.v -- pinned statements of property C07. *)
From Sophia.C02 Require Import Model.
From Sophia.C07 Require Import Model Keys Isort Proofs.
From Coq Require Import Permutation.

(* no false negative, for every hash function, renaming (injective on the blank nodes present,
   acting inside quoted triples and on graph names) and statement order; None = the refinement
   loop did not finish within the fuel (the real loop is unbounded) *)
Check (iso_no_false_negative : forall (Hv : vquad -> N) (pi : str -> str) (d1 d2 : list quad) fuel,
  Forall wfq d1 ->
  Permutation d2 (map (rename_q pi) d1) ->
  inj_on pi (flat_map bnodes_q d1) ->
  isomorphic Hv iso_eqb iso_cmp fuel d1 d2 <> Some false).
(* symmetric in its arguments *)
Check (iso_symmetric : forall Hv fuel d1 d2,
  isomorphic Hv iso_eqb iso_cmp fuel d1 d2 = isomorphic Hv iso_eqb iso_cmp fuel d2 d1).
(* true only if sizes, blank node counts and blanked statements agree *)
Check (iso_true_implies : forall Hv fuel d1 d2,
  Forall wfq d1 -> Forall wfq d2 ->
  isomorphic Hv iso_eqb iso_cmp fuel d1 d2 = Some true ->
  length d1 = length d2
  /\ length (bn_of d1) = length (bn_of d2)
  /\ Permutation (map key d1) (map key d2)).
(* what "blanked out" means: the key ignores exactly the blank node labels *)
Check (key_rename : forall pi q, key (rename_q pi q) = key q).
Check (quad_eqb_key : forall a b, wfq a -> wfq b -> (quad_eqb iso_eqb a b = true <-> key a = key b)).
Check (quad_cmp_key : forall a b, wfq a -> wfq b -> quad_cmp iso_cmp a b = str_cmp (key a) (key b)).
(* sorting is canonical: the model's use of insertion sort for sort_unstable loses nothing *)
Check (gsort_perm_eq : forall A leb,
  (forall x y, leb x y = false -> leb y x = true) ->
  (forall x y, leb x y = true -> leb y x = true -> x = y) ->
  (forall x y z, leb x y = true -> leb y z = true -> leb x z = true) ->
  forall l l' : list A, Permutation l l' -> gsort A leb l = gsort A leb l').

Print Assumptions iso_no_false_negative.
Print Assumptions iso_symmetric.
Print Assumptions iso_true_implies.
Print Assumptions key_rename.
Print Assumptions quad_eqb_key.
Print Assumptions quad_cmp_key.
Print Assumptions gsort_perm_eq.
Print Assumptions prefix_false_negative.
Print Assumptions nonvacuous.
