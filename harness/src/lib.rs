//! Shared helpers for the correspondence harnesses: PRNG, term pool, Coq printers, JSON output.
#![allow(dead_code)]
use sophia_api::term::{BnodeId, IriRef, LanguageTag, SimpleTerm, Term, VarName};
use std::fmt::Write as _;

/// splitmix64: every random choice of a run derives from VERIF_SEED through this.
#[derive(Clone)]
pub struct Rng(pub u64);
impl Rng {
    pub fn new(seed: u64) -> Self {
        Rng(seed ^ 0x9E37_79B9_7F4A_7C15)
    }
    pub fn fork(&self, k: u64) -> Rng {
        let mut r = Rng(self.0 ^ k.wrapping_mul(0xD605_0BB5_3C2F_9D4B).rotate_left(17));
        r.next();
        r
    }
    pub fn next(&mut self) -> u64 {
        self.0 = self.0.wrapping_add(0x9E37_79B9_7F4A_7C15);
        let mut z = self.0;
        z = (z ^ (z >> 30)).wrapping_mul(0xBF58_476D_1CE4_E5B9);
        z = (z ^ (z >> 27)).wrapping_mul(0x94D0_49BB_1331_11EB);
        z ^ (z >> 31)
    }
    pub fn below(&mut self, n: usize) -> usize {
        if n == 0 { 0 } else { (self.next() % n as u64) as usize }
    }
    pub fn range(&mut self, lo: usize, hi: usize) -> usize {
        lo + self.below(hi - lo + 1)
    }
    pub fn chance(&mut self, num: usize, den: usize) -> bool {
        self.below(den) < num
    }
    /// pick among string literals
    pub fn ps(&mut self, v: &[&'static str]) -> &'static str {
        v[self.below(v.len())]
    }
    pub fn pick<'a, T>(&mut self, v: &'a [T]) -> &'a T {
        &v[self.below(v.len())]
    }
}

pub type ST = SimpleTerm<'static>;

pub fn iri(s: &str) -> ST {
    SimpleTerm::Iri(IriRef::new_unchecked(s.to_string().into()))
}
pub fn bnode(s: &str) -> ST {
    SimpleTerm::BlankNode(BnodeId::new_unchecked(s.to_string().into()))
}
pub fn var(s: &str) -> ST {
    SimpleTerm::Variable(VarName::new_unchecked(s.to_string().into()))
}
pub fn lit_dt(lex: &str, dt: &str) -> ST {
    SimpleTerm::LiteralDatatype(lex.to_string().into(), IriRef::new_unchecked(dt.to_string().into()))
}
pub fn lit_lang(lex: &str, tag: &str) -> ST {
    SimpleTerm::LiteralLanguage(lex.to_string().into(), LanguageTag::new_unchecked(tag.to_string().into()))
}
pub fn triple(s: ST, p: ST, o: ST) -> ST {
    SimpleTerm::Triple(Box::new([s, p, o]))
}
pub const XSD: &str = "http://www.w3.org/2001/XMLSchema#";
pub const RDF: &str = "http://www.w3.org/1999/02/22-rdf-syntax-ns#";

/// Pool of terms grouped in Term::eq classes: pool[i] lists spellings of class i+1
/// (identifier 0 is never used so that it can stand for "absent").
pub fn small_pool() -> Vec<Vec<ST>> {
    vec![
        vec![iri("http://example.org/a")],
        vec![iri("http://example.org/b")],
        vec![iri("http://example.org/p")],
        vec![bnode("x")],
        vec![bnode("y")],
        vec![lit_dt("lit", &format!("{XSD}string"))],
        vec![lit_lang("lit", "en"), lit_lang("lit", "EN"), lit_lang("lit", "eN")],
        vec![lit_lang("lit", "fr-be"), lit_lang("lit", "FR-BE")],
        vec![lit_dt("1", &format!("{XSD}integer"))],
        vec![triple(iri("http://example.org/a"), iri("http://example.org/p"), bnode("x"))],
        vec![var("v")],
        vec![iri("http://example.org/g1")],
        vec![iri("http://example.org/g2")],
        vec![triple(
            triple(iri("http://example.org/a"), iri("http://example.org/p"), lit_lang("lit", "en")),
            iri("http://example.org/p"),
            lit_lang("lit", "EN-us"),
        ), triple(
            triple(iri("http://example.org/a"), iri("http://example.org/p"), lit_lang("lit", "En")),
            iri("http://example.org/p"),
            lit_lang("lit", "en-US"),
        )],
        vec![lit_lang("lit", "en-us"), lit_lang("lit", "EN-US")],
        vec![triple(iri("http://example.org/a"), iri("http://example.org/p"), lit_lang("lit", "en")),
             triple(iri("http://example.org/a"), iri("http://example.org/p"), lit_lang("lit", "EN"))],
    ]
}

/// identifier (1-based) of the Term::eq class of `t` in `pool`; 0 if absent
pub fn class_id<T: Term>(pool: &[Vec<ST>], t: T) -> u64 {
    for (i, c) in pool.iter().enumerate() {
        if Term::eq(&c[0], t.borrow_term()) {
            return (i + 1) as u64;
        }
    }
    0
}

// ---------- Coq printing ----------
pub fn coq_list<I: IntoIterator<Item = String>>(items: I) -> String {
    let v: Vec<String> = items.into_iter().collect();
    format!("[{}]", v.join("; "))
}
pub fn coq_str(s: &str) -> String {
    coq_list(s.chars().map(|c| (c as u32).to_string()))
}
pub fn coq_bytes(s: &[u8]) -> String {
    coq_list(s.iter().map(|c| c.to_string()))
}
pub fn coq_opt(o: Option<String>) -> String {
    match o {
        None => "None".into(),
        Some(x) => format!("(Some {x})"),
    }
}
pub fn coq_bool(b: bool) -> &'static str {
    if b { "true" } else { "false" }
}
/// faithful Coq image (Common/Term.v) of a term
pub fn coq_term<T: Term>(t: T) -> String {
    use sophia_api::term::TermKind::*;
    match t.kind() {
        Iri => format!("(Iri {})", coq_str(t.iri().unwrap().as_str())),
        BlankNode => format!("(Bnode {})", coq_str(t.bnode_id().unwrap().as_str())),
        Variable => format!("(Var {})", coq_str(t.variable().unwrap().as_str())),
        Literal => match t.language_tag() {
            Some(tag) => format!(
                "(LitLang {} {})",
                coq_str(&t.lexical_form().unwrap()),
                coq_str(tag.as_str())
            ),
            None => format!(
                "(LitDt {} {})",
                coq_str(&t.lexical_form().unwrap()),
                coq_str(t.datatype().unwrap().as_str())
            ),
        },
        Triple => {
            let [s, p, o] = t.triple().unwrap();
            format!("(Triple {} {} {})", coq_term(s), coq_term(p), coq_term(o))
        }
    }
}

// ---------- JSON ----------
pub fn json_str(s: &str) -> String {
    let mut o = String::from("\"");
    for c in s.chars() {
        match c {
            '"' => o.push_str("\\\""),
            '\\' => o.push_str("\\\\"),
            '\n' => o.push_str("\\n"),
            '\r' => o.push_str("\\r"),
            '\t' => o.push_str("\\t"),
            c if (c as u32) < 0x20 => {
                let _ = write!(o, "\\u{:04x}", c as u32);
            }
            c => o.push(c),
        }
    }
    o.push('"');
    o
}

/// Summary written by every harness binary next to its case files.
#[derive(Default)]
pub struct Summary {
    pub evaluations: u64,
    pub distinct_nontrivial: u64,
    pub rule: String,
    pub samples: Vec<String>,
    pub dist: Vec<(String, u64)>,
    /// property-oracle failures on the implementation: (case id, human description)
    pub oracle_failures: Vec<(String, String)>,
    pub shards: Vec<String>,
    pub extra: Vec<(String, String)>, // raw JSON values
}
impl Summary {
    pub fn bump(&mut self, key: &str) {
        self.bump_by(key, 1)
    }
    pub fn bump_by(&mut self, key: &str, n: u64) {
        for e in self.dist.iter_mut() {
            if e.0 == key {
                e.1 += n;
                return;
            }
        }
        self.dist.push((key.to_string(), n));
    }
    pub fn to_json(&self) -> String {
        let mut o = String::from("{");
        let _ = write!(o, "\"evaluations\": {}, \"distinct_nontrivial\": {}, ", self.evaluations, self.distinct_nontrivial);
        let _ = write!(o, "\"rule\": {}, ", json_str(&self.rule));
        let _ = write!(o, "\"samples\": [{}], ", self.samples.iter().map(|s| json_str(s)).collect::<Vec<_>>().join(", "));
        let _ = write!(o, "\"dist\": {{{}}}, ", self.dist.iter().map(|(k, v)| format!("{}: {}", json_str(k), v)).collect::<Vec<_>>().join(", "));
        let _ = write!(o, "\"oracle_failures\": [{}], ", self.oracle_failures.iter().map(|(c, d)| format!("{{\"case\": {}, \"detail\": {}}}", json_str(c), json_str(d))).collect::<Vec<_>>().join(", "));
        let _ = write!(o, "\"shards\": [{}]", self.shards.iter().map(|s| json_str(s)).collect::<Vec<_>>().join(", "));
        for (k, v) in &self.extra {
            let _ = write!(o, ", {}: {}", json_str(k), v);
        }
        o.push('}');
        o
    }
}

/// Command line shared by all harness binaries.
pub struct Args {
    pub seed: u64,
    pub n: usize,
    pub out: String,
    pub only: Option<usize>,
    pub shards: usize,
    pub rest: Vec<String>,
}
pub fn parse_args() -> Args {
    let mut a = Args { seed: 1, n: 100, out: ".".into(), only: None, shards: 8, rest: vec![] };
    let mut it = std::env::args().skip(1);
    while let Some(x) = it.next() {
        match x.as_str() {
            "--seed" => a.seed = it.next().unwrap().parse().unwrap(),
            "--n" => a.n = it.next().unwrap().parse().unwrap(),
            "--out" => a.out = it.next().unwrap(),
            "--only" => a.only = Some(it.next().unwrap().parse().unwrap()),
            "--shards" => a.shards = it.next().unwrap().parse().unwrap(),
            _ => a.rest.push(x),
        }
    }
    a
}

/// Write `defs` (one Coq boolean expression per case, named by index) into `shards` files
/// `cases_<k>.v`, each ending with an `Eval vm_compute` that prints the failing indices.
pub fn write_shards(out: &str, header: &str, cases: &[(usize, String)], shards: usize) -> Vec<String> {
    std::fs::create_dir_all(out).unwrap();
    let shards = shards.max(1).min(cases.len().max(1));
    let mut names = vec![];
    for k in 0..shards {
        let mut s = String::new();
        s.push_str(header);
        s.push('\n');
        let mine: Vec<&(usize, String)> = cases.iter().enumerate().filter(|(i, _)| i % shards == k).map(|(_, c)| c).collect();
        for (idx, body) in &mine {
            let _ = writeln!(s, "Definition c{idx} : bool := {body}.");
        }
        let _ = writeln!(
            s,
            "Definition all_cases : list (N * bool) := [{}].",
            mine.iter().map(|(idx, _)| format!("({idx}, c{idx})")).collect::<Vec<_>>().join("; ")
        );
        s.push_str("Eval vm_compute in (map fst (filter (fun p => negb (snd p)) all_cases)).\n");
        let name = format!("cases_{k}.v");
        std::fs::write(format!("{out}/{name}"), s).unwrap();
        names.push(name);
    }
    names
}

/// A term index type with a tiny capacity, built from the public `Index` trait:
/// `GenericFastGraph<SimpleTermIndex<SmallIdx<M>>>` can hold M-1 distinct terms
/// (the value MAX itself is reserved), so "term index full" is reachable with short inputs.
#[derive(Clone, Copy, Debug, Default, PartialEq, Eq, PartialOrd, Ord)]
pub struct SmallIdx<const M: u8>(pub u8);
impl<const M: u8> sophia_inmem::index::Index for SmallIdx<M> {
    const ZERO: Self = SmallIdx(0);
    const MAX: Self = SmallIdx(M);
    fn from_usize(other: usize) -> Self {
        SmallIdx(u8::try_from(other).expect("usize too big for SmallIdx"))
    }
    fn into_usize(self) -> usize {
        self.0 as usize
    }
}

/// error value carried through pipelines
#[derive(Debug, Clone, Copy, PartialEq, Eq)]
pub struct MyErr(pub u64);
impl std::fmt::Display for MyErr {
    fn fmt(&self, f: &mut std::fmt::Formatter<'_>) -> std::fmt::Result {
        write!(f, "MyErr({})", self.0)
    }
}
impl std::error::Error for MyErr {}
