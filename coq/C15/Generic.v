(* C15/Generic.v -- the pipeline model of C15/Model.v once more, this time for ANY item type,
   any source-error type and any sink-error type (api/src/source.rs is generic in exactly these
   three).  Model.v fixes items and errors to numbers; GenericProofs.v shows that Model.v is the
   instance A = ES = EK = N of the definitions below (gwrap / gfeed / gtry_for_some /
   gtry_for_each / gstepwise / gthrough agree with wrap / feed / ... on every input), so the
   concrete ends (ParserSource.v: items are RDF statements; SerializerSink.v: the sink state is
   an io::Write probe) reuse the same adapter chains.  Definitions only. *)
From Sophia.Common Require Export Prelude.
From Sophia.C15 Require Import Model.

(* a source = the steps it still has to make; one step hands over some items, then may fail *)
Definition gsource (A ES : Type) := list (list A * option ES).

(* StreamResult<bool, ES, EK> *)
Inductive goutcome (ES EK : Type) :=
| GMore | GDone | GSourceError (e : ES) | GSinkError (e : EK).
Arguments GMore {ES EK}.
Arguments GDone {ES EK}.
Arguments GSourceError {ES EK} e.
Arguments GSinkError {ES EK} e.

(* FnMut(Item) -> Result<(), EK> over a consumer state *)
Definition gsink (A EK St : Type) := A -> St -> St * option EK.

Inductive gadapter (A : Type) :=
| GFilter (p : A -> bool)
| GMap (f : A -> A)
| GFilterMap (f : A -> option A).
Arguments GFilter {A} p.
Arguments GMap {A} f.
Arguments GFilterMap {A} f.

(* FilterSource / MapSource / FilterMapSource::try_for_some_item: wrap the consumer *)
Fixpoint gwrap {A EK St} (chain : list (gadapter A)) (f : gsink A EK St) : gsink A EK St :=
  match chain with
  | [] => f
  | GFilter p :: c => fun i st => if p i then gwrap c f i st else (st, None)
  | GMap m :: c => fun i st => gwrap c f (m i) st
  | GFilterMap m :: c => fun i st => match m i with None => (st, None) | Some o => gwrap c f o st end
  end.

Fixpoint gfeed {A EK St} (g : gsink A EK St) (items : list A) (st : St) : St * option EK :=
  match items with
  | [] => (st, None)
  | x :: r => let '(st', oe) := g x st in
              match oe with Some e => (st', Some e) | None => gfeed g r st' end
  end.

Definition gtry_for_some {A ES EK St} (src : gsource A ES) (chain : list (gadapter A))
  (f : gsink A EK St) (st : St) : gsource A ES * St * goutcome ES EK :=
  match src with
  | [] => ([], st, GDone)
  | (items, oe) :: rest =>
      let '(st', se) := gfeed (gwrap chain f) items st in
      (rest, st', match se with
                  | Some e => GSinkError e
                  | None => match oe with Some e => GSourceError e | None => GMore end
                  end)
  end.

Fixpoint gtry_for_each {A ES EK St} (src : gsource A ES) (chain : list (gadapter A))
  (f : gsink A EK St) (st : St) : gsource A ES * St * goutcome ES EK :=
  match src with
  | [] => ([], st, GDone)
  | (items, oe) :: rest =>
      let '(st', se) := gfeed (gwrap chain f) items st in
      match se with
      | Some e => (rest, st', GSinkError e)
      | None => match oe with
                | Some e => (rest, st', GSourceError e)
                | None => gtry_for_each rest chain f st'
                end
      end
  end.

Fixpoint gstepwise {A ES EK St} (fuel : nat) (src : gsource A ES) (chain : list (gadapter A))
  (f : gsink A EK St) (st : St) : gsource A ES * St * goutcome ES EK :=
  match fuel with
  | O => (src, st, GMore)
  | S n =>
      let '(src', st', o) := gtry_for_some src chain f st in
      match o with GMore => gstepwise n src' chain f st' | _ => (src', st', o) end
  end.

(* specification side: what a chain does to one item, and to a list of items *)
Fixpoint gthrough {A} (chain : list (gadapter A)) (x : A) : option A :=
  match chain with
  | [] => Some x
  | GFilter p :: c => if p x then gthrough c x else None
  | GMap m :: c => gthrough c (m x)
  | GFilterMap m :: c => match m x with None => None | Some y => gthrough c y end
  end.
Definition gfm {A} (chain : list (gadapter A)) (l : list A) : list A :=
  flat_map (fun x => match gthrough chain x with Some y => [y] | None => [] end) l.

Definition gclean {A ES} (steps : list (list A)) : gsource A ES := map (fun b => (b, None)) steps.

(* ---------- consumers ---------- *)
(* the recording consumer with an ARBITRARY failure predicate: it receives the item (so the item
   counts as consumed), then answers Err(e) or Ok(()) as a function of what it has seen before
   and of the item *)
Definition pred_sink {A EK} (fail : list A -> A -> option EK) : gsink A EK (list A) :=
  fun y st => (st ++ [y], fail st y).
(* the consumer survives the items ys when started after the items st *)
Fixpoint quiet {A EK} (fail : list A -> A -> option EK) (st ys : list A) : Prop :=
  match ys with
  | [] => True
  | y :: r => fail st y = None /\ quiet fail (st ++ [y]) r
  end.

(* insert_all into a set-like store (api/src/{graph,dataset}.rs): `if self.insert(..)? { c += 1 }`;
   eqb is the store's notion of "same element" *)
Definition ginsert_sink {A EK} (eqb : A -> A -> bool) : gsink A EK (list A * nat) :=
  fun y st =>
    let '(s, c) := st in
    if existsb (eqb y) s then ((s, c), None) else ((s ++ [y], S c), None).

(* ---------- Model.v is the instance N ---------- *)
Definition gad (a : adapter) : gadapter item :=
  match a with AFilter p => GFilter p | AMap f => GMap f | AFilterMap f => GFilterMap f end.
Definition gout (o : outcome) : goutcome err err :=
  match o with More => GMore | Done => GDone | SourceError e => GSourceError e | SinkError e => GSinkError e end.
