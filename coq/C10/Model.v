(* C10/Model.v -- an ownership model of inmem::index::SimpleTermIndex and of the stores built on
   it.  Heap allocations (the Box<str> behind each owned MownStr) have identities; the keys of
   `t2i` OWN allocations, the entries of `i2t` only POINT to allocations (for a quoted triple:
   one pointer per atom string, held in a Box that i2t owns).  Moving a store, std::mem::swap
   and hash-table growth move the SimpleTerm values but never the string allocations.
   Definitions only. *)
From Sophia.Common Require Export Prelude.

Definition aid := N.                       (* allocation identity *)
Definition tid := N.                       (* the term (its content) *)

(* k_quoted: the term is a quoted triple; SimpleTerm::from_term_ref deep-copies those, so the
   i2t entry owns its own strings (s_self) instead of pointing into the key *)
Record key := mkKey { k_term : tid; k_owned : list aid; k_index : N; k_quoted : bool }.
Record slot := mkSlot { s_term : tid; s_ptrs : list aid; s_self : bool }.     (* one entry of i2t *)
Definition slot_of (k : key) : slot :=
  if k_quoted k then mkSlot (k_term k) [] true else mkSlot (k_term k) (k_owned k) false.
Record store := mkStore { keys : list key; i2t : list slot }.
Record world := mkWorld { next : aid; freed : list aid; live : list (N * store) }.

Definition empty_store : store := mkStore [] [].
Definition init : world := mkWorld 0 [] [].

Fixpoint find_store (l : list (N * store)) (sid : N) : option store :=
  match l with [] => None | (k, s) :: r => if N.eqb k sid then Some s else find_store r sid end.
Fixpoint set_store (l : list (N * store)) (sid : N) (s : store) : list (N * store) :=
  match l with
  | [] => [(sid, s)]
  | (k, x) :: r => if N.eqb k sid then (k, s) :: r else (k, x) :: set_store r sid s
  end.
Fixpoint del_store (l : list (N * store)) (sid : N) : list (N * store) :=
  match l with [] => [] | (k, x) :: r => if N.eqb k sid then r else (k, x) :: del_store r sid end.

Fixpoint fresh (n : nat) (from : aid) : list aid :=
  match n with O => [] | S m => from :: fresh m (from + 1) end.

Definition has_term (s : store) (t : tid) : bool := existsb (fun k => N.eqb (k_term k) t) (keys s).

(* ensure_index: a new term gets fresh allocations (SimpleTerm::from_term copies the strings),
   the key owns them, i2t points to them; `nstr` = number of strings of the term (>= 1) *)
Definition ensure (w : world) (s : store) (t : tid) (nstr : nat) (quoted : bool) : world * store :=
  if has_term s t then (w, s)
  else
    let a := fresh nstr (next w) in
    let k := mkKey t a (N.of_nat (length (i2t s))) quoted in
    (mkWorld (next w + N.of_nat nstr) (freed w) (live w),
     mkStore (keys s ++ [k]) (i2t s ++ [slot_of k])).

(* Clone of the keys: HashMap::clone clones every key; MownStr::clone of an OWNED string makes a
   fresh allocation *)
Fixpoint clone_keys (ks : list key) (from : aid) : list key * aid :=
  match ks with
  | [] => ([], from)
  | k :: r =>
      let n := length (k_owned k) in
      let '(r', nx) := clone_keys r (from + N.of_nat n) in
      (mkKey (k_term k) (fresh n from) (k_index k) (k_quoted k) :: r', nx)
  end.

Fixpoint key_at (ks : list key) (i : N) : option key :=
  match ks with [] => None | k :: r => if N.eqb (k_index k) i then Some k else key_at r i end.

Fixpoint rebuild (ks : list key) (n : nat) (i : N) : list slot :=
  match n with
  | O => []
  | S m => match key_at ks i with
           | Some k => slot_of k :: rebuild ks m (i + 1)
           | None => rebuild ks m (i + 1)
           end
  end.

Inductive clone_mode := Derived | Rebuilt.
(* #[derive(Clone)] clones i2t element-wise: MownStr::clone of a BORROWED string copies the
   pointer.  The repaired Clone rebuilds i2t from the clone's own keys, in index order. *)
Definition clone_store (m : clone_mode) (w : world) (s : store) : world * store :=
  let '(ks, nx) := clone_keys (keys s) (next w) in
  (mkWorld nx (freed w) (live w),
   mkStore ks (match m with Derived => i2t s | Rebuilt => rebuild ks (length ks) 0 end)).

Definition owned_by (s : store) : list aid := flat_map k_owned (keys s).

Inductive op :=
| New (sid : N)
| Insert (sid : N) (t : tid) (nstr : nat) (quoted : bool)
| Clone (src dst : N)
| Drop (sid : N)
| Swap (a b : N)            (* std::mem::swap / moves: stores change places, nothing else *)
| Grow (sid : N).           (* table growth / rehash: values move, allocations do not *)

Definition step (m : clone_mode) (w : world) (o : op) : world :=
  match o with
  | New sid =>
      match find_store (live w) sid with
      | None => mkWorld (next w) (freed w) (set_store (live w) sid empty_store)
      | Some _ => w
      end
  | Insert sid t n qd =>
      match find_store (live w) sid with
      | None => w
      | Some s => let '(w', s') := ensure w s t (S n) qd in
                  mkWorld (next w') (freed w') (set_store (live w') sid s')
      end
  | Clone src dst =>
      match find_store (live w) src, find_store (live w) dst with
      | Some s, None => let '(w', s') := clone_store m w s in
                  mkWorld (next w') (freed w') (set_store (live w') dst s')
      | _, _ => w
      end
  | Drop sid =>
      match find_store (live w) sid with
      | None => w
      | Some s => mkWorld (next w) (freed w ++ owned_by s) (del_store (live w) sid)
      end
  | Swap a b =>
      match find_store (live w) a, find_store (live w) b with
      | Some _, Some _ =>
          mkWorld (next w) (freed w)
                  (map (fun p => (if N.eqb (fst p) a then b else if N.eqb (fst p) b then a else fst p, snd p)) (live w))
      | _, _ => w
      end
  | Grow _ => w
  end.

Definition run (m : clone_mode) (ops : list op) : world := fold_left (step m) ops init.

(* reading entry i of a store (get_term, every query) *)
Inductive rd := ReadOk (t : tid) | ReadFreed | ReadForeign | ReadOutOfRange.
Definition aid_in (a : aid) (l : list aid) : bool := existsb (N.eqb a) l.
Definition read (w : world) (s : store) (i : nat) : rd :=
  match nth_error (i2t s) i with
  | None => ReadOutOfRange
  | Some sl =>
      if s_self sl then ReadOk (s_term sl)
      else if existsb (fun a => aid_in a (freed w)) (s_ptrs sl) then ReadFreed
      else match key_at (keys s) (N.of_nat i) with
           | Some k => if list_eqb N.eqb (s_ptrs sl) (k_owned k) then ReadOk (s_term sl) else ReadForeign
           | None => ReadForeign
           end
  end.

(* what the verif_audit hook computes: for each index, do the pointers of i2t[i] equal the
   allocations of the key mapped to i *)
Fixpoint audit_from (ks : list key) (i : N) (l : list slot) : list bool :=
  match l with
  | [] => []
  | sl :: r => (s_self sl ||
                match key_at ks i with
                | Some k => list_eqb N.eqb (s_ptrs sl) (k_owned k)
                | None => false
                end) :: audit_from ks (i + 1) r
  end.
Definition audit (s : store) : list bool := audit_from (keys s) 0 (i2t s).

(* harness-facing: after the whole history, per live store: audit vector and content by index *)
Definition observe (w : world) : list (N * list bool * list tid) :=
  map (fun p => (fst p, audit (snd p), map s_term (i2t (snd p)))) (live w).
Definition obs_eqb (a b : N * list bool * list tid) : bool :=
  let '(i1, a1, c1) := a in let '(i2, a2, c2) := b in
  N.eqb i1 i2 && list_eqb Bool.eqb a1 a2 && list_eqb N.eqb c1 c2.
Fixpoint ins_obs (x : N * list bool * list tid) (l : list (N * list bool * list tid)) :=
  match l with
  | [] => [x]
  | y :: r => if fst (fst x) <=? fst (fst y) then x :: l else y :: ins_obs x r
  end.
Definition sort_obs l := fold_right ins_obs [] l.
Definition history_ok (ops : list op) (observed : list (N * list bool * list tid)) : bool :=
  list_eqb obs_eqb (sort_obs (observe (run Rebuilt ops))) (sort_obs observed).
