(* C10/Properties.v -- pinned statements of property C10 (ownership model of the term index). *)
From Sophia.C10 Require Import Model Proofs.

(* every reachable world is well-formed: stores own pairwise disjoint, never-freed allocations
   and each i2t is the image of the store's own keys *)
Check (reachable_wf : forall ops, WF (run Rebuilt ops)).
Check (step_wf : forall w o, WF w -> WF (step Rebuilt w o)).
(* no read of a live store touches released memory or another store's memory, after ANY history
   interleaving insert / clone / drop (of originals or clones) / swap-move / growth *)
Check (reachable_read_safe : forall ops sid s i, In (sid, s) (live (run Rebuilt ops)) ->
  read (run Rebuilt ops) s i = ReadOutOfRange \/ exists t, read (run Rebuilt ops) s i = ReadOk t).
(* the audit hook reports all-true on every reachable store *)
Check (reachable_audit : forall ops sid s, In (sid, s) (live (run Rebuilt ops)) ->
  forallb (fun b => b) (audit s) = true).
(* independence: an operation on another store changes neither this store nor what it returns *)
Check (frame : forall m w o sid, touches o sid = false ->
  find_store (live (step m w o)) sid = find_store (live w) sid).
Check (independent_reads : forall w o sid s i, WF w -> touches o sid = false ->
  find_store (live w) sid = Some s ->
  find_store (live (step Rebuilt w o)) sid = Some s
  /\ read (step Rebuilt w o) s i = read w s i).
(* a clone has the content of its original at the time of cloning *)
Check (clone_keys_spec : forall ks from ks' nx, clone_keys ks from = (ks', nx) ->
  map k_index ks' = map k_index ks /\ map k_term ks' = map k_term ks /\ length ks' = length ks
  /\ from <= nx
  /\ (forall a, In a (flat_map k_owned ks') -> from <= a < nx)
  /\ NoDup (flat_map k_owned ks')).

Print Assumptions reachable_wf.
Print Assumptions step_wf.
Print Assumptions reachable_read_safe.
Print Assumptions reachable_audit.
Print Assumptions frame.
Print Assumptions independent_reads.
Print Assumptions clone_keys_spec.
Print Assumptions derived_clone_refuted.
Print Assumptions rebuilt_clone_ok.
