(* C16/Properties.v -- pinned statements of property C16 (stack use does not grow with the amount
   of data processed), about the frame-counting models of C16/Model.v.
   The theorems count frames of a MODEL: they cannot see the optimiser or frame sizes. *)
From Sophia.C16 Require Import Model Proofs VecStore VecStoreProofs PrettyChain PrettyChainProofs.

(* ---- the property on the model ---------------------------------------------------------- *)
(* with the proposed patches, every operation on every input: at most 4 frames plus the allowance
   (nesting of lists / quoted triples, depth of the sub-query, log2 of the size for the binary
   search); the allowance does not mention the number of rows / bytes / graphs / cells *)
Check (patched_depth_bounded : forall x : input, (depth_of true x <= 4 + allowance x)%nat).
(* on the original tree, in each of the four groups, for every bound an input without nesting
   exceeds it *)
Check (original_depth_unbounded : forall c : nat,
  (exists ms mlast rows, allowance (InIter ms mlast rows) = O /\ (depth_of false (InIter ms mlast rows) > c)%nat) /\
  (exists txt, allowance (InQuoted txt) = O /\ (depth_of false (InQuoted txt) > c)%nat) /\
  (exists names, forall sel, allowance (InGraph sel 0 names) = O /\
                             (depth_of false (InGraph sel 0 names) > c)%nat) /\
  (exists l, allowance (InList l) = O /\ (depth_of false (InList l) > c)%nat) /\
  (exists cells, allowance (InMark cells) = O /\ (depth_of false (InMark cells) > c)%nat)).
(* the patches do not change any result (rows and matcher calls, bytes, solutions, tokens, marks) *)
Check (patches_preserve_results :
  (forall ms mlast rows, res (iter_all_c true ms mlast rows) = res (iter_all_c false ms mlast rows)) /\
  (forall txt, res (quoted_string_loop_c txt) = res (quoted_string_rec_c txt)) /\
  (forall sel dsel names, res (graph_query_c true sel dsel names) = res (graph_query_c false sel dsel names)) /\
  (forall l, l <> JNil -> res (pop_loop_c l) = res (pop_rec_c l)) /\
  (forall i, res (conv_loop_c i) = res (conv_rec_c i)) /\
  (forall cells, res (mark_loop_c cells) = res (mark_rec_c cells))).

(* ---- (a) matching iterators --------------------------------------------------------------- *)
Check (iter_all_erasure : forall looped ms mlast rows,
  res (iter_all_c looped ms mlast rows) = iter_all_p ms mlast rows).
Check (iter_all_is_filter : forall looped ms mlast rows, Forall (row_wf ms) rows ->
  fst (res (iter_all_c looped ms mlast rows)) = filter (row_accepted ms mlast) rows).
Check (iter_all_loop_depth : forall ms mlast rows, (depth (iter_all_c true ms mlast rows) <= 3)%nat).
Check (next_rec_depth_lower : forall ms mlast rows cache,
  (S (skipped ms mlast cache rows) <= depth (next_rec_c ms mlast cache rows))%nat).
Check (next_rec_depth_upper : forall ms mlast rows cache,
  (depth (next_rec_c ms mlast cache rows) <= skipped ms mlast cache rows + 3)%nat).
Check (iter_rec_refuted : forall c : nat, exists ms mlast rows,
  (depth (iter_all_c false ms mlast rows) > c)%nat).

(* ---- (b) quoted_string -------------------------------------------------------------------- *)
Check (quoted_string_rec_erasure : forall txt, res (quoted_string_rec_c txt) = quoted_string_p txt).
Check (quoted_string_loop_erasure : forall txt, res (quoted_string_loop_c txt) = quoted_string_p txt).
Check (quoted_string_loop_depth : forall txt, depth (quoted_string_loop_c txt) = 2%nat).
Check (quoted_string_rec_depth : forall txt, depth (quoted_string_rec_c txt) = S (qs_frames txt)).
Check (quoted_string_rec_depth_lower : forall txt,
  (count_special txt < depth (quoted_string_rec_c txt))%nat).
Check (quoted_string_rec_refuted : forall c : nat, exists txt,
  (depth (quoted_string_rec_c txt) > c)%nat).

(* ---- (c) GRAPH ?g --------------------------------------------------------------------------- *)
Check (graph_query_erasure : forall looped sel dsel names,
  res (graph_query_c looped sel dsel names) = graph_query_p sel names).
Check (graph_query_loop_depth : forall sel dsel names,
  (depth (graph_query_c true sel dsel names) <= 3 + dsel)%nat).
Check (graph_rec_depth_lower : forall sel dsel names,
  (S (length names) <= depth (graph_rec_c sel dsel names))%nat).
Check (graph_rec_depth_upper : forall sel dsel names,
  (depth (graph_rec_c sel dsel names) <= S (length names) + dsel)%nat).
Check (graph_rec_refuted : forall c : nat, exists names,
  forall sel dsel, (depth (graph_query_c false sel dsel names) > c)%nat).
Check (chain_drop_depth : forall ls, depth (it_drop_c (chain_of ls)) = S (length ls)).
Check (chain_next_exhausted_depth : forall ls, Forall (fun gl => snd gl = []) ls ->
  (S (length ls) <= depth (it_next_c (chain_of ls)) <= S (S (length ls)))%nat /\
  fst (res (it_next_c (chain_of ls))) = None).

(* ---- (d) JSON-LD lists ---------------------------------------------------------------------- *)
Check (populate_list_erasure : forall l, l <> JNil ->
  res (pop_rec_c l) = pop_p l /\ res (pop_loop_c l) = pop_p l).
Check (populate_list_loop_depth : forall l, (depth (pop_loop_c l) <= 2 + 2 * jl_nest l)%nat).
Check (populate_list_rec_depth_lower : forall l, (jl_len l <= depth (pop_rec_c l))%nat).
Check (populate_list_rec_refuted : forall c : nat, exists l,
  jl_nest l = O /\ (depth (pop_rec_c l) > c)%nat).
Check (mark_erasure : forall cells,
  res (mark_rec_c cells) = mark_p cells /\ res (mark_loop_c cells) = mark_p cells).
Check (mark_loop_depth : forall cells, depth (mark_loop_c cells) = 1%nat).
Check (mark_rec_depth : forall cells, forallb (fun c => mc_ok c && mc_up c) cells = true ->
  depth (mark_rec_c cells) = S (length cells)).
Check (mark_rec_refuted : forall c : nat, exists cells, (depth (mark_rec_c cells) > c)%nat).

(* ---- recursions that stay: logarithmic / bounded by the nesting of quoted triples ----------- *)
Check (find_subject_depth : forall key swt,
  (depth (find_subject_c key swt) <= 2 + Nat.log2 (length swt))%nat).
Check (find_sound : forall fuel key swt i,
  res (find_c fuel key swt) = Some i -> nth i swt 0 = key /\ (i < length swt)%nat).
Check (constituents_spec : forall t,
  res (constituents_c t) = constituents_p t /\ depth (constituents_c t) = S (nesting t)).
Check (atoms_spec : forall t,
  res (atoms_c t) = atoms_p t /\ depth (atoms_c t) = S (nesting t)).

(* ---- nt::write_term / write_triple / NtSerializer::serialize_triples ------------------------- *)
(* the bytes written for a term of any kind / for a document *)
Check (nt_term_erasure : forall t, res (nt_term_c t) = nt_term_p t).
Check (nt_doc_erasure : forall ts, res (nt_doc_c ts) = nt_doc_p ts).
(* two frames per level of quotation, none per byte of any string *)
Check (nt_term_depth : forall t,
  (2 + 2 * nesting t <= depth (nt_term_c t) <= 3 + 2 * nesting t)%nat).
(* a whole document: none per statement either *)
Check (nt_doc_depth : forall ts, (depth (nt_doc_c ts) <= 7 + 2 * doc_nesting ts)%nat).
(* the dependence on the nesting is real *)
Check (nt_term_depth_needs_nesting : forall c : nat, exists t, (depth (nt_term_c t) > c)%nat).

(* ---- the Vec-backed stores (not sets: a statement may be held any number of times) ------------ *)
(* a history of insert / remove / remove_quad / remove_all / remove_matching / retain_matching /
   contains on Vec<Gspo<T>> (true) or Vec<Spog<T>>, Vec<[T; 3]> (false): the values returned and
   the Vec after each operation, and at most 10 frames whatever the number of statements held, the
   number of copies of any of them and the number of operations *)
Check (vec_history_erasure : forall g ops v, res (vrun_c g ops v) = vrun_p g ops v).
Check (vec_history_depth : forall g ops v, (depth (vrun_c g ops v) <= 10)%nat).
(* Vec<Gspo<T>>::remove takes ONE copy away and tells whether there was one *)
Check (gspo_remove_spec : forall q v,
  fst (gspo_remove_p q v) = negb (Nat.eqb (cnt q v) 0) /\
  forall x, cnt x (snd (gspo_remove_p q v)) = if N.eqb x q then pred (cnt q v) else cnt x v).
(* Vec<Spog<T>>::remove and Vec<[T; 3]>::remove take EVERY copy away and always answer true *)
Check (spog_remove_spec : forall q v,
  fst (spog_remove_p q v) = true /\
  forall x, cnt x (snd (spog_remove_p q v)) = if N.eqb x q then O else cnt x v).
(* both flavours: remove_matching leaves no copy of an accepted statement, retain_matching no copy
   of a rejected one, and neither touches the others *)
Check (remove_matching_spec : forall g m v x,
  cnt x (snd (remove_matching_p g m v)) = if m x then O else cnt x v).
Check (retain_matching_spec : forall g m v x,
  cnt x (snd (retain_matching_p g m v)) = if m x then cnt x v else O).
(* the frame count does see a removal written as one self-call per copy (a shape that is not in the code) *)
Check (every_copy_rec_refuted : forall c : nat, exists q v,
  (depth (every_copy_rec_c (S (length v)) q v 0) > c)%nat).

(* ---- the pretty Turtle / TriG writer on a chain of blank nodes, under any indentation --------- *)
(* the recursion write_properties -> write_object -> write_term -> write_bnode -> write_properties
   is cut by the counter `depth`: a bound without the length of the chain and without the
   indentation configured (which may be empty) *)
Check (chain_depth_bounded : forall unit typed n,
  (depth (chain_doc_c (counter_guard MAX_DEPTH) unit typed n) <= 5 * MAX_DEPTH + 11)%nat).
(* two indentations: the same brackets, labels and statements *)
Check (chain_shape_indent_independent : forall u1 u2 typed n,
  no_newlines (res (chain_doc_c (counter_guard MAX_DEPTH) u1 typed n)) =
  no_newlines (res (chain_doc_c (counter_guard MAX_DEPTH) u2 typed n))).
(* a guard deduced from the length of the indentation string never fires under the empty indentation *)
Check (indent_guard_refuted : forall c : nat, exists n,
  (depth (chain_doc_c (indent_guard MAX_DEPTH 0) 0 false n) > c)%nat).

(* ---- non-vacuity: concrete depths, original vs patched --------------------------------------- *)
(* 300 copies of one statement between two others: remove on either flavour, remove_matching, and
   the self-calling shape *)
Example ex_vec_copies :
  let v := 8 :: repeat 7 300 ++ [9] in
  depth (gspo_remove_c 7 v) = 5%nat /\ cnt 7 (snd (res (gspo_remove_c 7 v))) = 299%nat /\
  depth (spog_remove_c 7 v) = 3%nat /\ snd (res (spog_remove_c 7 v)) = [8; 9] /\
  depth (remove_matching_c true (acc_matcher [7]) v) = 10%nat /\
  res (remove_matching_c true (acc_matcher [7]) v) = (300, [8; 9]) /\
  depth (every_copy_rec_c 400 7 v 0) = 304%nat.
Proof. vm_compute. repeat split. Qed.
(* swap_remove moves the last element into the hole: the order the harness observes *)
Example ex_vec_order :
  res (vrun_c true [VInsert 1; VInsert 2; VInsert 1; VInsert 3; VRemove 1; VRemoveAll [1; 1; 2]] []) =
  [(1, [1]); (1, [1; 2]); (1, [1; 2; 1]); (1, [1; 2; 1; 3]); (1, [3; 2; 1]); (2, [3])].
Proof. vm_compute. reflexivity. Qed.
(* a chain of 300 blank nodes: the same depth under an empty and under a two-byte indentation, brackets 63 deep;
   with the guard deduced from the indentation: the same under two bytes, the whole chain under none *)
Example ex_chain_depths :
  depth (chain_doc_c (counter_guard MAX_DEPTH) 0 false 300) = 262%nat /\
  depth (chain_doc_c (counter_guard MAX_DEPTH) 2 false 300) = 262%nat /\
  depth (chain_doc_c (counter_guard MAX_DEPTH) 0 true 300) = 326%nat /\
  max_nesting 0 0 (res (chain_doc_c (counter_guard MAX_DEPTH) 0 false 300)) = 63%nat /\
  depth (chain_doc_c (indent_guard MAX_DEPTH 2) 2 false 300) = 262%nat /\
  depth (chain_doc_c (indent_guard MAX_DEPTH 0) 0 false 300) = 1206%nat.
Proof. vm_compute. repeat split. Qed.
(* x:s -> b1 -> b2 -> b3 under a two-byte indentation: line feeds with 0, 2, 6, 10 bytes *)
Example ex_chain_result :
  map ptok_code (res (chain_doc_c (counter_guard MAX_DEPTH) 2 false 3)) = [5; 9; 0; 17; 0; 25; 2; 1; 1; 3].
Proof. vm_compute. reflexivity. Qed.

Definition reject_all : matcher := fun _ => false.
Definition accept_all : matcher := fun _ => true.
(* 300 rows rejected by the cached column of a Bc/Cd iterator *)
Example ex_iter_rec : depth_of false (InIter [reject_all] accept_all (repeat [0; 0] 300)) = 301%nat.
Proof. vm_compute. reflexivity. Qed.
Example ex_iter_loop : depth_of true (InIter [reject_all] accept_all (repeat [0; 0] 300)) = 1%nat.
Proof. vm_compute. reflexivity. Qed.
(* rows that change the index at each row: the matcher is called each time *)
Example ex_iter_rec2 :
  depth_of false (InIter [reject_all; accept_all] accept_all (map (fun k => [N.of_nat k; 0; 0]) (seq 0 300))) = 302%nat.
Proof. vm_compute. reflexivity. Qed.
Example ex_iter_loop2 :
  depth_of true (InIter [reject_all; accept_all] accept_all (map (fun k => [N.of_nat k; 0; 0]) (seq 0 300))) = 3%nat.
Proof. vm_compute. reflexivity. Qed.
Example ex_iter_result :
  res (iter_all_c true [mem_matcher [1; 2]] (mem_matcher [5]) [[1; 5]; [1; 6]; [2; 5]; [3; 5]]) =
  ([[1; 5]; [2; 5]], [(0, 1); (1, 5); (1, 6); (0, 2); (1, 5); (0, 3)]).
Proof. vm_compute. reflexivity. Qed.
Example ex_quoted_rec : depth_of false (InQuoted (repeat 34 300)) = 301%nat.
Proof. vm_compute. reflexivity. Qed.
Example ex_quoted_loop : depth_of true (InQuoted (repeat 34 300)) = 2%nat.
Proof. vm_compute. reflexivity. Qed.
Example ex_quoted_result : res (quoted_string_loop_c [97; 34; 10; 98; 92]) = [97; 92; 34; 92; 110; 98; 92; 92].
Proof. vm_compute. reflexivity. Qed.
Example ex_graph_rec :
  depth_of false (InGraph (fun g => [(None, [7])]) 0 (map N.of_nat (seq 0 300))) = 302%nat.
Proof. vm_compute. reflexivity. Qed.
Example ex_graph_loop :
  depth_of true (InGraph (fun g => [(None, [7])]) 0 (map N.of_nat (seq 0 300))) = 3%nat.
Proof. vm_compute. reflexivity. Qed.
(* the inner pattern may bind the GRAPH variable itself: only the agreeing solutions survive *)
Example ex_graph_result :
  res (graph_query_c true (fun g => [(None, [7]); (Some 2, [8]); (Some g, [9])]) 0 [1; 2]) =
  [[1; 7]; [1; 9]; [2; 7]; [2; 8]; [2; 9]].
Proof. vm_compute. reflexivity. Qed.
Example ex_list_rec : depth_of false (InList (jl_repeat 300)) = 301%nat.
Proof. vm_compute. reflexivity. Qed.
Example ex_list_loop : depth_of true (InList (jl_repeat 300)) = 2%nat.
Proof. vm_compute. reflexivity. Qed.
(* a list inside a list inside a list: the patched depth follows the nesting (2 per level) *)
Example ex_list_nested :
  let l := JCons (JLit 1) (JCons (JSub (JCons (JSub (JCons (JLit 2) JNil)) (JCons (JLit 3) JNil))) JNil) in
  depth_of true (InList l) = 6%nat /\ allowance (InList l) = 4%nat /\
  res (pop_loop_c l) = [3; 0; 0; 4; 1; 5; 1].
Proof. vm_compute. repeat split. Qed.
Example ex_mark_rec : depth_of false (InMark (mark_cells 300 300)) = 300%nat.
Proof. vm_compute. reflexivity. Qed.
Example ex_mark_loop : depth_of true (InMark (mark_cells 300 300)) = 1%nat.
Proof. vm_compute. reflexivity. Qed.
Example ex_mark_bad : res (mark_loop_c (mark_cells 6 2)) = [5; 4; 3].
Proof. vm_compute. reflexivity. Qed.
Example ex_find : depth (find_subject_c 999 (map N.of_nat (seq 0 1000))) = 9%nat /\
                  res (find_subject_c 999 (map N.of_nat (seq 0 1000))) = Some 999%nat.
Proof. vm_compute. split; reflexivity. Qed.
Example ex_constituents :
  let t := Triple (Triple (Iri [97]) (Iri [112]) (Bnode [98])) (Iri [112]) (LitDt [120] [100]) in
  depth (constituents_c t) = 3%nat /\ length (res (constituents_c t)) = 7%nat /\
  length (res (atoms_c t)) = 5%nat.
Proof. vm_compute. repeat split. Qed.

(* N-Triples: 300 statements whose literals hold 50 escaped bytes each: 7 frames; quoted two deep: 11 *)
Example ex_nt_doc_flat :
  depth (nt_doc_c (repeat (Iri [97], Iri [112], LitLang (repeat 34 50) [101; 110]) 300)) = 7%nat.
Proof. vm_compute. reflexivity. Qed.
Example ex_nt_doc_nested :
  let q := Triple (Triple (Bnode [98]) (Iri [112]) (LitDt [10] [120])) (Iri [112]) (Var [118]) in
  depth (nt_doc_c (repeat (q, Iri [112], Iri [111]) 300)) = 11%nat /\ doc_nesting [(q, Iri [112], Iri [111])] = 2%nat.
Proof. vm_compute. split; reflexivity. Qed.
(* the line written for the statement <a> <p> LIT@en where LIT is a quote followed by a line feed *)
Example ex_nt_doc_result :
  res (nt_doc_c [(Iri [97], Iri [112], LitLang [34; 10] [101; 110])]) =
  [60; 97; 62; 32; 60; 112; 62; 32; 34; 92; 34; 92; 110; 34; 64; 101; 110; 46; 10].
Proof. vm_compute. reflexivity. Qed.
(* a quoted triple with a blank node and a typed literal holding U+00E9 *)
Example ex_nt_term_result :
  res (nt_term_c (Triple (Bnode [98]) (Iri [112]) (LitDt [233] [120]))) =
  [60; 60; 95; 58; 98; 32; 60; 112; 62; 32; 34; 195; 169; 34; 94; 94; 60; 120; 62; 62; 62].
Proof. vm_compute. reflexivity. Qed.

Print Assumptions patched_depth_bounded.
Print Assumptions original_depth_unbounded.
Print Assumptions patches_preserve_results.
Print Assumptions iter_all_erasure.
Print Assumptions iter_all_is_filter.
Print Assumptions iter_all_loop_depth.
Print Assumptions next_rec_depth_lower.
Print Assumptions next_rec_depth_upper.
Print Assumptions iter_rec_refuted.
Print Assumptions quoted_string_rec_erasure.
Print Assumptions quoted_string_loop_erasure.
Print Assumptions quoted_string_loop_depth.
Print Assumptions quoted_string_rec_depth.
Print Assumptions quoted_string_rec_depth_lower.
Print Assumptions quoted_string_rec_refuted.
Print Assumptions graph_query_erasure.
Print Assumptions graph_query_loop_depth.
Print Assumptions graph_rec_depth_lower.
Print Assumptions graph_rec_depth_upper.
Print Assumptions graph_rec_refuted.
Print Assumptions chain_drop_depth.
Print Assumptions chain_next_exhausted_depth.
Print Assumptions populate_list_erasure.
Print Assumptions populate_list_loop_depth.
Print Assumptions populate_list_rec_depth_lower.
Print Assumptions populate_list_rec_refuted.
Print Assumptions mark_erasure.
Print Assumptions mark_loop_depth.
Print Assumptions mark_rec_depth.
Print Assumptions mark_rec_refuted.
Print Assumptions find_subject_depth.
Print Assumptions find_sound.
Print Assumptions constituents_spec.
Print Assumptions atoms_spec.
Print Assumptions nt_term_erasure.
Print Assumptions nt_doc_erasure.
Print Assumptions nt_term_depth.
Print Assumptions nt_doc_depth.
Print Assumptions nt_term_depth_needs_nesting.
Print Assumptions vec_history_erasure.
Print Assumptions vec_history_depth.
Print Assumptions gspo_remove_spec.
Print Assumptions spog_remove_spec.
Print Assumptions remove_matching_spec.
Print Assumptions retain_matching_spec.
Print Assumptions every_copy_rec_refuted.
Print Assumptions chain_depth_bounded.
Print Assumptions chain_shape_indent_independent.
Print Assumptions indent_guard_refuted.
