(* C05/Invariance.v -- (1) erasing the tie flag of Ties.v gives back the model of Model.v;
   (2) invariance of the canonical bytes under blank node renaming and quad reordering when no two
   blank nodes share a first-degree hash.  Stdlib only, closed under the global context. *)
From Sophia.C05 Require Import Model Heap Reader NqProofs Ties FirstDegree Bijection.
From Coq Require Import Permutation.

(* ================= PART 1: erasure of the tie flag ================= *)

Definition erase3 {A B} (r : res (A * B * bool)) : res (A * B) :=
  match r with Ok (a, b, _) => Ok (a, b) | Err e => Err e end.
Definition erase_fst {A} (r : res (A * bool)) : res A :=
  match r with Ok (a, _) => Ok a | Err e => Err e end.
Definition erase_acc (r : res (str * option issuer * bool * bool)) : res (str * option issuer) :=
  match r with Ok (c, ci, _, _) => Ok (c, ci) | Err e => Err e end.

Section Erase.
Variable H : str -> str.
Variable rec_t : str -> issuer -> N -> res (str * issuer * bool).
Variable rec : str -> issuer -> N -> res (str * issuer).
Variable st : state.
Hypothesis Hrec : forall r ic d, erase3 (rec_t r ic d) = rec r ic d.

Lemma perm_rec_t_erase : forall rl chosen depth ic path tie,
  erase_fst (perm_rec_t rec_t st chosen depth ic path rl tie)
  = perm_rec rec st chosen depth ic path rl.
Proof.
  induction rl as [|r rl IH]; intros chosen depth ic path tie; cbn [perm_rec_t perm_rec].
  - reflexivity.
  - rewrite <- Hrec.
    destruct (rec_t r ic (depth + 1)) as [[[h ic2] t]|e]; cbn [erase3 erase_fst]; [|reflexivity].
    destruct (issue s_b ic r) as [[ic1 id] new].
    match goal with |- context [if ?c then _ else _] => destruct c end;
      [reflexivity|apply IH].
Qed.

Lemma one_perm_t_erase : forall base depth c ci tied sub p,
  erase_acc (one_perm_t rec_t st base depth (c, ci, tied, sub) p)
  = one_perm rec st base depth (c, ci) p.
Proof.
  intros base depth c ci tied sub p. unfold one_perm_t, one_perm.
  destruct (perm_ids (st_canon st) base [] [] p) as [[ic path] rl].
  match goal with |- context [if ?c then _ else _] => destruct c end; [reflexivity|].
  rewrite <- (perm_rec_t_erase rl c depth ic path false).
  destruct (perm_rec_t rec_t st c depth ic path rl false) as [[[[ic' path']|] t]|e];
    cbn [erase_fst erase_acc]; try reflexivity.
  destruct (is_nil c || str_ltb path' c); reflexivity.
Qed.

Lemma all_perms_t_erase : forall ps base depth c ci tied sub,
  erase_acc (all_perms_t rec_t st base depth (c, ci, tied, sub) ps)
  = all_perms rec st base depth (c, ci) ps.
Proof.
  induction ps as [|p ps IH]; intros base depth c ci tied sub; cbn [all_perms_t all_perms].
  - reflexivity.
  - rewrite <- (one_perm_t_erase base depth c ci tied sub p).
    destruct (one_perm_t rec_t st base depth (c, ci, tied, sub) p) as [[[[c' ci'] tied'] sub']|e];
      cbn [erase_acc]; [apply IH|reflexivity].
Qed.

Lemma hn_groups_t_erase : forall hn iss depth data ret tie,
  erase3 (hn_groups_t rec_t st iss depth data ret tie hn)
  = hn_groups rec st iss depth data ret hn.
Proof.
  induction hn as [|[rh bl] hn IH]; intros iss depth data ret tie; cbn [hn_groups_t hn_groups].
  - reflexivity.
  - match goal with |- context [if ?c then _ else _] => destruct c end; [reflexivity|].
    match goal with |- context [all_perms rec st ?b depth _ _] => set (base := b) end.
    pose proof (all_perms_t_erase (heap_perms bl) base depth [] None false false) as X.
    unfold str in X |- *. rewrite <- X. clear X.
    match goal with |- context [all_perms_t ?a ?b ?c ?d ?e ?f] =>
      destruct (all_perms_t a b c d e f) as [[[[c0 ci] tied] sub]|e0] end;
      cbn [erase_acc]; [apply IH|reflexivity].
Qed.

Lemma hnd_body_t_erase : forall ident iss depth,
  erase3 (hnd_body_t H rec_t st ident iss depth) = hnd_body H rec st ident iss depth.
Proof.
  intros ident iss depth. unfold hnd_body_t, hnd_body.
  match goal with |- context [if ?c then _ else _] => destruct c end; [reflexivity|].
  destruct (bt_get (st_b2q st) ident) as [qs|]; [|reflexivity].
  destruct (hn_quads H st ident iss qs []) as [hn|e]; [|reflexivity].
  rewrite <- (hn_groups_t_erase hn iss depth [] None false).
  destruct (hn_groups_t rec_t st iss depth [] None false hn) as [[[data ret] tie]|e];
    cbn [erase3]; reflexivity.
Qed.
End Erase.

Theorem hnd_t_erase : forall H fuel st ident iss depth,
  erase3 (hnd_t H fuel st ident iss depth) = hnd H fuel st ident iss depth.
Proof.
  intros H. induction fuel as [|f IH]; intros st ident iss depth; cbn [hnd_t hnd].
  - reflexivity.
  - apply hnd_body_t_erase. intros r ic d. apply IH.
Qed.

Lemma step5_paths_t_erase : forall H fuel st ids,
  erase_fst (step5_paths_t H fuel st ids) = step5_paths H fuel st ids.
Proof.
  intros H fuel st. induction ids as [|n ids IH]; cbn [step5_paths_t step5_paths].
  - reflexivity.
  - rewrite <- (hnd_t_erase H fuel st n (issue_ s_b [] n) 0).
    destruct (hnd_t H fuel st n (issue_ s_b [] n) 0) as [[[h i] t]|e]; cbn [erase3 erase_fst];
      [|reflexivity].
    rewrite <- IH.
    destruct (step5_paths_t H fuel st ids) as [[l t']|e]; cbn [erase_fst]; reflexivity.
Qed.

Theorem step5_t_erase : forall H fuel h2b st tie,
  (match step5_t H fuel st h2b tie with Ok (c, _) => Ok c | Err e => Err e end)
  = step5 H fuel st h2b.
Proof.
  intros H fuel. induction h2b as [|[h ids] r IH]; intros st tie; cbn [step5_t step5].
  - reflexivity.
  - rewrite <- (step5_paths_t_erase H fuel st ids).
    destruct (step5_paths_t H fuel st ids) as [[paths t]|e]; cbn [erase_fst]; [apply IH|reflexivity].
Qed.

(* a successful run of the model is a run on which the tie flag is defined, and conversely up to
   the last step (relabel_qs, which is not part of run_ties) *)
Theorem run_ties_defined_step5 : forall H v fuel df pl d,
  (exists t, run_ties H v fuel df pl d = Some t) <->
  (exists b2q issued, step2 (v_once v) d [] = Ok b2q
     /\ step5 H fuel (mkState b2q (step3_b2h H b2q)
                        (snd (step4 (step3_h2b (step3_b2h H b2q)) [])) df pl (v_prune v))
              (fst (step4 (step3_h2b (step3_b2h H b2q)) [])) = Ok issued).
Proof.
  intros H v fuel df pl d. unfold run_ties.
  destruct (step2 (v_once v) d []) as [b2q|e].
  - destruct (step4 (step3_h2b (step3_b2h H b2q)) []) as [h2b canon] eqn:E4.
    pose proof (step5_t_erase H fuel h2b
                  (mkState b2q (step3_b2h H b2q) canon df pl (v_prune v)) false) as X.
    destruct (step5_t H fuel (mkState b2q (step3_b2h H b2q) canon df pl (v_prune v)) h2b false)
      as [[c t]|e].
    + split; [intros _|intros _; exists t; reflexivity].
      exists b2q, c. split; [reflexivity|]. rewrite E4. cbn [fst snd]. symmetry; exact X.
    + split; [intros [t E]; discriminate|intros (m & i & E1 & E2)].
      injection E1 as <-. rewrite E4 in E2. cbn [fst snd] in E2. rewrite E2 in X. discriminate.
  - split; [intros [t E]; discriminate|intros (m & i & E1 & E2); discriminate].
Qed.

Theorem run_ties_defined : forall H v fuel df pl d r,
  relabel_with H v fuel df pl d = Ok r -> exists t, run_ties H v fuel df pl d = Some t.
Proof.
  intros H v fuel df pl d r E. apply run_ties_defined_step5. unfold relabel_with in E.
  destruct (step2 (v_once v) d []) as [b2q|e]; [|discriminate].
  destruct (step4 (step3_h2b (step3_b2h H b2q)) []) as [h2b canon] eqn:E4.
  destruct (step5 H fuel (mkState b2q (step3_b2h H b2q) canon df pl (v_prune v)) h2b)
    as [issued|e] eqn:E5; [|discriminate].
  exists b2q, issued. split; [reflexivity|]. rewrite E4. exact E5.
Qed.

(* ================= PART 2: invariance when first-degree hashes are pairwise distinct ========= *)

Definition distinct_first_degree (H : str -> str) (d : list quad) : Prop :=
  forall x y, In x (bnodes d) -> In y (bnodes d) ->
    first_degree H true d x = first_degree H true d y -> x = y.

(* ---------- A. key-sorted association lists ---------- *)
Lemma ks_tail {V} (k : str) (v : V) r : keys_sorted ((k, v) :: r) -> keys_sorted r.
Proof. intros Hs. apply ks_cons_iff in Hs. tauto. Qed.

Lemma ks_get {V} (m : list (str * V)) k v :
  keys_sorted m -> In (k, v) m -> bt_get m k = Some v.
Proof.
  induction m as [|[k1 v1] m IH]; intros Hs Hin; [destruct Hin|].
  cbn [bt_get]. destruct Hin as [E|Hin].
  - injection E as -> ->. rewrite str_eqb_refl. reflexivity.
  - pose proof (ks_head_lt _ _ _ Hs _ _ Hin) as L.
    destruct (str_eqb_spec k1 k) as [->|Hn].
    + rewrite str_cmp_refl in L; discriminate.
    + apply IH; [eapply ks_tail; exact Hs|exact Hin].
Qed.

Lemma ks_nodup {V} (m : list (str * V)) : keys_sorted m -> NoDup (map fst m).
Proof.
  induction m as [|[k v] m IH]; intros Hs; cbn [map fst]; constructor.
  - intros Hin. apply in_map_iff in Hin as [[k' v'] [E Hin]]. cbn [fst] in E. subst k'.
    pose proof (ks_head_lt _ _ _ Hs _ _ Hin) as L. rewrite str_cmp_refl in L; discriminate.
  - apply IH. eapply ks_tail; exact Hs.
Qed.

Lemma ks_map_snd {V W} (F : V -> W) (m : list (str * V)) :
  keys_sorted m -> keys_sorted (map (fun e => (fst e, F (snd e))) m).
Proof.
  induction m as [|[k v] m IH]; intros Hs; cbn [map fst snd]; [exact I|].
  destruct Hs as [H1 H2]. split; [|apply IH; exact H2].
  destruct m as [|[k' v'] m]; cbn [map fst snd]; auto.
Qed.

(* two strictly key-sorted lists with the same entries are equal *)
Lemma ks_perm_eq {V} (l1 : list (str * V)) : forall l2,
  keys_sorted l1 -> keys_sorted l2 -> Permutation l1 l2 -> l1 = l2.
Proof.
  induction l1 as [|[k v] r1 IH]; intros l2 S1 S2 P.
  - apply Permutation_nil in P. auto.
  - destruct l2 as [|[k' v'] r2]; [apply Permutation_sym, Permutation_nil in P; discriminate|].
    assert (E : (k, v) = (k', v')).
    { assert (I1 : In (k, v) ((k', v') :: r2))
        by (eapply Permutation_in; [exact P|left; reflexivity]).
      assert (I2 : In (k', v') ((k, v) :: r1))
        by (eapply Permutation_in; [apply Permutation_sym; exact P|left; reflexivity]).
      destruct I1 as [E|I1]; [auto|]. destruct I2 as [E|I2]; [auto|].
      pose proof (ks_head_lt _ _ _ S2 _ _ I1) as L1.
      pose proof (ks_head_lt _ _ _ S1 _ _ I2) as L2.
      rewrite str_cmp_antisym, L1 in L2. discriminate. }
    injection E as <- <-. f_equal. apply IH.
    + eapply ks_tail; exact S1.
    + eapply ks_tail; exact S2.
    + eapply Permutation_cons_inv; exact P.
Qed.

Lemma bt_push_fresh {V} k (v : V) m :
  ~ In k (map fst m) -> Permutation (bt_push k v m) ((k, [v]) :: m).
Proof.
  induction m as [|[k1 vs] m IH]; intros Hn; cbn [bt_push]; [apply Permutation_refl|].
  destruct (str_cmp k k1) eqn:E.
  - apply str_cmp_eq in E. subst. exfalso; apply Hn; left; reflexivity.
  - apply Permutation_refl.
  - eapply perm_trans; [apply perm_skip, IH|apply perm_swap].
    intros Hin; apply Hn; right; exact Hin.
Qed.

(* ---------- B. step 3: the hash-to-bnodes map when the hashes are pairwise distinct ---------- *)
Definition sing (e : str * str) : str * list str := (snd e, [fst e]).

Lemma h2b_fold : forall (l : list (str * str)) m,
  keys_sorted m -> NoDup (map snd l) -> (forall e, In e l -> ~ In (snd e) (map fst m)) ->
  keys_sorted (fold_left (fun m e => bt_push (snd e) (fst e) m) l m)
  /\ Permutation (fold_left (fun m e => bt_push (snd e) (fst e) m) l m) (map sing l ++ m).
Proof.
  induction l as [|e l IH]; intros m Hs Hnd Hfr; cbn [fold_left map app].
  - split; [exact Hs|apply Permutation_refl].
  - cbn [map] in Hnd. apply NoDup_cons_iff in Hnd as [Hx Hnd'].
    assert (Hfe : ~ In (snd e) (map fst m)) by (apply Hfr; left; reflexivity).
    pose proof (bt_push_fresh (snd e) (fst e) m Hfe) as P.
    destruct (IH (bt_push (snd e) (fst e) m)) as [K Q].
    + apply bt_push_sorted; exact Hs.
    + exact Hnd'.
    + intros e' He' Hin.
      eapply Permutation_in in Hin; [|apply Permutation_map; exact P].
      cbn [map fst] in Hin. destruct Hin as [E|Hin].
      * apply Hx. rewrite E. apply in_map; exact He'.
      * apply (Hfr e'); [right; exact He'|exact Hin].
    + split; [exact K|]. eapply perm_trans; [exact Q|].
      eapply perm_trans; [apply Permutation_app_head; exact P|].
      apply Permutation_sym. apply (Permutation_middle (map sing l) m (sing e)).
Qed.

Lemma h2b_spec (b2h : list (str * str)) : NoDup (map snd b2h) ->
  keys_sorted (step3_h2b b2h) /\ Permutation (step3_h2b b2h) (map sing b2h).
Proof.
  intros Hnd. unfold step3_h2b.
  destruct (h2b_fold b2h [] I Hnd) as [K P]; [intros e _ []|].
  split; [exact K|]. rewrite app_nil_r in P. exact P.
Qed.

Definition single (e : str * list str) : Prop := exists b, snd e = [b].

Lemma h2b_singles (b2h : list (str * str)) : NoDup (map snd b2h) -> Forall single (step3_h2b b2h).
Proof.
  intros Hnd. destruct (h2b_spec b2h Hnd) as [_ P]. apply Forall_forall. intros x Hx.
  eapply Permutation_in in Hx; [|exact P]. apply in_map_iff in Hx as [e [<- _]].
  exists (fst e). reflexivity.
Qed.

(* ---------- step 4 on singletons issues everything, in hash order ---------- *)
Lemma step4_singles : forall h2b canon, Forall single h2b ->
  step4 h2b canon = ([], issue_all s_c14n canon (concat (map snd h2b))).
Proof.
  induction h2b as [|[h bl] r IH]; intros canon Hf; cbn [step4 map concat snd].
  - reflexivity.
  - apply Forall_cons_iff in Hf as [[b Hb] Hf']. cbn [snd] in Hb. subst bl.
    rewrite IH by exact Hf'. reflexivity.
Qed.

(* the labels in first-degree hash order, and the identifiers issued to them *)
Definition fd_labels (H : str -> str) (m : b2q_t) : list str :=
  concat (map snd (step3_h2b (step3_b2h H m))).
Definition fd_issued (H : str -> str) (m : b2q_t) : issuer := issue_all s_c14n [] (fd_labels H m).

Lemma relabel_with_singles H p fuel df pl d m :
  step2 true d [] = Ok m -> Forall single (step3_h2b (step3_b2h H m)) ->
  relabel_with H (mkVar true p) fuel df pl d =
  match relabel_qs (fd_issued H m) d with
  | Err e => Err e
  | Ok qs => Ok (qs, fd_issued H m)
  end.
Proof.
  intros E Hs. unfold relabel_with. cbn [v_once v_prune]. rewrite E.
  rewrite (step4_singles _ _ Hs). cbn [step5 st_canon]. reflexivity.
Qed.

(* ---------- C. steps 2 and 3 in terms of first_degree ---------- *)
Lemma in_bnodes_existsb b d : In b (bnodes d) <-> existsb (mentions b) d = true.
Proof.
  unfold bnodes. rewrite in_flat_map, existsb_exists.
  split; intros [q [Hq Hb]]; exists q; (split; [exact Hq|]); unfold mentions in *; apply mem_In; exact Hb.
Qed.

Lemma b2h_spec H d m b h : step2 true d [] = Ok m ->
  (In (b, h) (step3_b2h H m) <-> In b (bnodes d) /\ first_degree H true d b = Some h).
Proof.
  intros E. destruct (b2q_spec d m b E) as [Hk _].
  unfold first_degree. rewrite E. unfold step3_b2h. rewrite in_map_iff. split.
  - intros [[k qs] [Ee Hin]]. cbn [fst snd] in Ee. injection Ee as -> <-. split.
    + apply (step2_closed _ _ _ E) in Hin. exact Hin.
    + rewrite (ks_get _ _ _ Hk Hin). reflexivity.
  - intros [_ Hf]. destruct (bt_get m b) as [qs|] eqn:Eg; [|discriminate].
    cbn [option_map] in Hf. injection Hf as <-.
    exists (b, qs). split; [reflexivity|apply bt_get_Some_In; exact Eg].
Qed.

Lemma b2h_keys H m : map fst (step3_b2h H m) = map fst m.
Proof. unfold step3_b2h. rewrite map_map. reflexivity. Qed.

Lemma b2h_keys_nodup H d m : step2 true d [] = Ok m -> NoDup (map fst (step3_b2h H m)).
Proof. intros E. rewrite b2h_keys. apply ks_nodup. apply (b2q_spec d m [] E). Qed.

Lemma NoDup_map_from {A B C} (f : A -> B) (g : A -> C) l :
  NoDup (map f l) -> (forall x y, In x l -> In y l -> g x = g y -> f x = f y) -> NoDup (map g l).
Proof.
  induction l as [|a l IH]; intros Hnd Hi; cbn [map]; constructor;
    cbn [map] in Hnd; apply NoDup_cons_iff in Hnd as [Hn Hnd].
  - intros Hin. apply in_map_iff in Hin as [y [Ey Hy]]. apply Hn.
    rewrite <- (Hi y a); [apply in_map; exact Hy|right; exact Hy|left; reflexivity|exact Ey].
  - apply IH; [exact Hnd|]. intros x y Hx Hy. apply Hi; right; assumption.
Qed.

Lemma b2h_hashes_nodup H d m :
  step2 true d [] = Ok m -> distinct_first_degree H d -> NoDup (map snd (step3_b2h H m)).
Proof.
  intros E Hd. apply (NoDup_map_from fst snd).
  - eapply b2h_keys_nodup; exact E.
  - intros [x hx] [y hy] I1 I2 Eh. cbn [fst snd] in *. subst hy.
    apply (b2h_spec H d m _ _ E) in I1 as [B1 F1]. apply (b2h_spec H d m _ _ E) in I2 as [B2 F2].
    apply Hd; [exact B1|exact B2|congruence].
Qed.

(* (a)+(b): with pairwise distinct first-degree hashes every blank node is issued in step 4, in
   first-degree hash order; step 5 has nothing to do, whatever the fuel and the limits *)
Theorem step5_trivial_when_distinct : forall H p fuel df pl d m,
  step2 true d [] = Ok m -> distinct_first_degree H d ->
  step4 (step3_h2b (step3_b2h H m)) [] = ([], fd_issued H m)
  /\ relabel_with H (mkVar true p) fuel df pl d =
     match relabel_qs (fd_issued H m) d with
     | Err e => Err e
     | Ok qs => Ok (qs, fd_issued H m)
     end.
Proof.
  intros H p fuel df pl d m E Hd.
  pose proof (h2b_singles _ (b2h_hashes_nodup H d m E Hd)) as Hs. split.
  - apply step4_singles; exact Hs.
  - apply relabel_with_singles; assumption.
Qed.

(* ---------- D. renaming the blank nodes and reordering the quads ---------- *)
Lemma bnodes_rename pi d : bnodes (map (rename_q pi) d) = map pi (bnodes d).
Proof.
  unfold bnodes. induction d as [|q d IH]; cbn [map flat_map]; [reflexivity|].
  rewrite map_app, bnodes_q_rename, IH. reflexivity.
Qed.

Lemma in_bnodes_renamed pi d1 d2 x : Permutation d2 (map (rename_q pi) d1) ->
  (In x (bnodes d2) <-> exists b, In b (bnodes d1) /\ x = pi b).
Proof.
  intros P.
  assert (Q : Permutation (bnodes d2) (map pi (bnodes d1))).
  { rewrite <- bnodes_rename. unfold bnodes. apply Permutation_flat_map. exact P. }
  split.
  - intros Hx. eapply Permutation_in in Hx; [|exact Q].
    apply in_map_iff in Hx as [b [<- Hb]]. exists b; auto.
  - intros [b [Hb ->]]. eapply Permutation_in; [apply Permutation_sym; exact Q|].
    apply in_map; exact Hb.
Qed.

Theorem distinct_first_degree_rename : forall H pi d1 d2,
  supported d1 = true -> inj_on pi (bnodes d1) -> Permutation d2 (map (rename_q pi) d1) ->
  distinct_first_degree H d1 -> distinct_first_degree H d2.
Proof.
  intros H pi d1 d2 Hsup Hinj P Hd x y Hx Hy E.
  apply (in_bnodes_renamed pi d1 d2 _ P) in Hx as [a [Ha ->]].
  apply (in_bnodes_renamed pi d1 d2 _ P) in Hy as [b [Hb ->]].
  destruct (first_degree_invariant H pi d1 d2 a Hinj P Hsup Ha) as [Ea _].
  destruct (first_degree_invariant H pi d1 d2 b Hinj P Hsup Hb) as [Eb _].
  f_equal. apply Hd; [exact Ha|exact Hb|congruence].
Qed.

Definition pf (pi : str -> str) (e : str * str) : str * str := (pi (fst e), snd e).
Definition pl_map (pi : str -> str) (e : str * list str) : str * list str :=
  (fst e, map pi (snd e)).

Lemma b2h_rename H pi d1 d2 m1 m2 :
  step2 true d1 [] = Ok m1 -> step2 true d2 [] = Ok m2 ->
  supported d1 = true -> inj_on pi (bnodes d1) -> Permutation d2 (map (rename_q pi) d1) ->
  distinct_first_degree H d1 ->
  Permutation (step3_b2h H m2) (map (pf pi) (step3_b2h H m1)).
Proof.
  intros E1 E2 Hsup Hinj P Hd. apply NoDup_Permutation.
  - apply (NoDup_map_inv fst). eapply b2h_keys_nodup; exact E2.
  - apply (NoDup_map_inv snd). rewrite map_map. unfold pf. cbn [snd].
    eapply b2h_hashes_nodup; eassumption.
  - intros [b' h']. rewrite (b2h_spec H d2 m2 b' h' E2), in_map_iff. split.
    + intros [Hb Hf]. apply (in_bnodes_renamed pi d1 d2 _ P) in Hb as [b [Hb ->]].
      destruct (first_degree_invariant H pi d1 d2 b Hinj P Hsup Hb) as [Ef _].
      exists (b, h'). split; [reflexivity|].
      apply (b2h_spec H d1 m1 b h' E1). split; [exact Hb|]. rewrite <- Ef. exact Hf.
    + intros [[b h] [Ee Hin]]. unfold pf in Ee. cbn [fst snd] in Ee. injection Ee as <- <-.
      apply (b2h_spec H d1 m1 b h E1) in Hin as [Hb Hf].
      destruct (first_degree_invariant H pi d1 d2 b Hinj P Hsup Hb) as [Ef _]. split.
      * apply (in_bnodes_renamed pi d1 d2 _ P). exists b; auto.
      * rewrite Ef. exact Hf.
Qed.

Lemma h2b_rename H pi d1 d2 m1 m2 :
  step2 true d1 [] = Ok m1 -> step2 true d2 [] = Ok m2 ->
  supported d1 = true -> inj_on pi (bnodes d1) -> Permutation d2 (map (rename_q pi) d1) ->
  distinct_first_degree H d1 ->
  step3_h2b (step3_b2h H m2) = map (pl_map pi) (step3_h2b (step3_b2h H m1)).
Proof.
  intros E1 E2 Hsup Hinj P Hd.
  pose proof (b2h_rename H pi d1 d2 m1 m2 E1 E2 Hsup Hinj P Hd) as Q.
  pose proof (b2h_hashes_nodup H d1 m1 E1 Hd) as N1.
  assert (N2 : NoDup (map snd (step3_b2h H m2))).
  { eapply Permutation_NoDup; [apply Permutation_sym, (Permutation_map snd), Q|].
    rewrite map_map. unfold pf. cbn [snd]. exact N1. }
  destruct (h2b_spec _ N1) as [K1 P1]. destruct (h2b_spec _ N2) as [K2 P2].
  apply ks_perm_eq; [exact K2|apply (ks_map_snd (map pi)); exact K1|].
  eapply perm_trans; [exact P2|].
  eapply perm_trans; [apply (Permutation_map sing), Q|].
  eapply perm_trans; [|apply (Permutation_map (pl_map pi)), Permutation_sym, P1].
  rewrite !map_map. apply Permutation_refl.
Qed.

Lemma fd_labels_rename H pi d1 d2 m1 m2 :
  step2 true d1 [] = Ok m1 -> step2 true d2 [] = Ok m2 ->
  supported d1 = true -> inj_on pi (bnodes d1) -> Permutation d2 (map (rename_q pi) d1) ->
  distinct_first_degree H d1 ->
  fd_labels H m2 = map pi (fd_labels H m1).
Proof.
  intros E1 E2 Hsup Hinj P Hd. unfold fd_labels.
  rewrite (h2b_rename H pi d1 d2 m1 m2 E1 E2 Hsup Hinj P Hd).
  rewrite concat_map, !map_map. reflexivity.
Qed.

Lemma fd_labels_incl H d m : step2 true d [] = Ok m -> incl (fd_labels H m) (bnodes d).
Proof.
  intros E x Hx. unfold fd_labels in Hx. apply in_concat in Hx as [bl [Hbl Hx]].
  apply in_map_iff in Hbl as [[h bl'] [Eb Hin]]. cbn [snd] in Eb. subst bl'.
  assert (Hok : hn_ok (bnodes d) (step3_h2b (step3_b2h H m))).
  { unfold step3_h2b. apply step3_h2b_ok; [|intros k bl0 []].
    intros [b hb] He. cbn [fst]. apply (b2h_spec H d m b hb E) in He. apply He. }
  exact (Hok h bl Hin x Hx).
Qed.

(* the issuer with its labels renamed *)
Lemma iss_get_rename pi (B : list str) : inj_on pi B -> forall (i : issuer) b,
  incl (map fst i) B -> In b B -> iss_get (map (pf pi) i) (pi b) = iss_get i b.
Proof.
  intros Hinj. unfold iss_get.
  induction i as [|[k id] i IH]; intros b Hi Hb; cbn [map bt_get]; [reflexivity|].
  unfold pf at 1. cbn [fst snd].
  assert (Hk : In k B) by (apply Hi; left; reflexivity).
  assert (Hi' : incl (map fst i) B) by (intros x Hx; apply Hi; right; exact Hx).
  destruct (str_eqb_spec k b) as [->|Hn].
  - rewrite str_eqb_refl. reflexivity.
  - destruct (str_eqb_spec (pi k) (pi b)) as [E|_]; [|apply IH; assumption].
    exfalso. apply Hn. apply Hinj; assumption.
Qed.

Lemma issue_rename pfx pi (B : list str) i b : inj_on pi B -> incl (map fst i) B -> In b B ->
  issue_ pfx (map (pf pi) i) (pi b) = map (pf pi) (issue_ pfx i b).
Proof.
  intros Hinj Hi Hb. unfold issue_, issue. rewrite (iss_get_rename pi B Hinj i b Hi Hb).
  destruct (iss_get i b); cbn [fst]; [reflexivity|].
  rewrite map_length, map_app. reflexivity.
Qed.

Lemma issue_all_rename pfx pi (B : list str) : inj_on pi B -> forall bs i,
  incl (map fst i) B -> incl bs B ->
  issue_all pfx (map (pf pi) i) (map pi bs) = map (pf pi) (issue_all pfx i bs).
Proof.
  intros Hinj. unfold issue_all.
  induction bs as [|b bs IH]; intros i Hi Hbs; cbn [map fold_left]; [reflexivity|].
  assert (Hb : In b B) by (apply Hbs; left; reflexivity).
  rewrite (issue_rename pfx pi B i b Hinj Hi Hb). apply IH.
  - apply issue_incl; assumption.
  - intros x Hx; apply Hbs; right; exact Hx.
Qed.

(* (c): the identifiers issued for the renamed, reordered dataset are the same, label by label *)
Theorem issued_rename : forall H pi d1 d2 m1 m2,
  step2 true d1 [] = Ok m1 -> step2 true d2 [] = Ok m2 ->
  supported d1 = true -> inj_on pi (bnodes d1) -> Permutation d2 (map (rename_q pi) d1) ->
  distinct_first_degree H d1 ->
  fd_issued H m2 = map (pf pi) (fd_issued H m1).
Proof.
  intros H pi d1 d2 m1 m2 E1 E2 Hsup Hinj P Hd. unfold fd_issued.
  rewrite (fd_labels_rename H pi d1 d2 m1 m2 E1 E2 Hsup Hinj P Hd).
  apply (issue_all_rename s_c14n pi (bnodes d1) Hinj (fd_labels H m1) []).
  - intros x [].
  - eapply fd_labels_incl; exact E1.
Qed.

Lemma in_fst_iss_get (i : issuer) b : In b (map fst i) -> exists id, iss_get i b = Some id.
Proof.
  intros Hb. destruct (iss_get i b) as [id|] eqn:E; [exists id; reflexivity|].
  apply bt_get_None_notin in E. contradiction.
Qed.

Lemma id_of_rename pi (B : list str) (i : issuer) b :
  inj_on pi B -> incl (map fst i) B -> In b (map fst i) ->
  id_of (map (pf pi) i) (pi b) = id_of i b.
Proof.
  intros Hinj Hi Hb. unfold id_of.
  rewrite (iss_get_rename pi B Hinj i b Hi (Hi b Hb)). 
  destruct (in_fst_iss_get i b Hb) as [id ->]. reflexivity.
Qed.

(* (d): relabelling commutes with the renaming *)
Lemma rename_t_compose f g pi t :
  (forall b, bnode_id t = Some b -> g (pi b) = f b) ->
  rename_t g (rename_t pi t) = rename_t f t.
Proof. destruct t; cbn [rename_t bnode_id]; intros Hx; try reflexivity. rewrite Hx; reflexivity. Qed.

Lemma comp_label_bnode n t b : bnode_id t = Some b -> In b (comp_label (n, t)).
Proof. intros E. unfold comp_label. cbn [snd]. rewrite E. left; reflexivity. Qed.

Lemma rename_q_compose f g pi q :
  (forall b, In b (bnodes_q q) -> g (pi b) = f b) ->
  rename_q g (rename_q pi q) = rename_q f q.
Proof.
  destruct q as [[[s p] o] gr]. rewrite bnodes_q_eq. intros Hx. cbn [rename_q].
  rewrite !(rename_t_compose f g pi).
  - destruct gr as [t|]; cbn [option_map]; [|reflexivity].
    rewrite (rename_t_compose f g pi); [reflexivity|].
    intros b Eb. apply Hx. rewrite !in_app_iff. right; right; right.
    apply comp_label_bnode; exact Eb.
  - intros b Eb. apply Hx. rewrite !in_app_iff. right; right; left. apply comp_label_bnode; exact Eb.
  - intros b Eb. apply Hx. rewrite !in_app_iff. right; left. apply comp_label_bnode; exact Eb.
  - intros b Eb. apply Hx. rewrite !in_app_iff. left. apply comp_label_bnode; exact Eb.
Qed.

(* ---------- E. the relabelled quads are well formed ---------- *)
Lemma rdigits_range f : forall n c, In c (rdigits f n) -> 48 <= c <= 57.
Proof.
  induction f as [|f IH]; intros n c; cbn [rdigits]; [intros []|].
  intros [<-|Hin].
  - pose proof (N.mod_upper_bound n 10 ltac:(lia)) as U.
    remember (n mod 10) as r eqn:Er. clear Er. lia.
  - destruct (n <? 10); [destruct Hin|eapply IH; exact Hin].
Qed.

Lemma dec_no_space k : ~ In 32 (dec k).
Proof.
  unfold dec. intros Hin. apply in_rev in Hin. apply rdigits_range in Hin. lia.
Qed.

Lemma c14n_no_space k : ~ In 32 (s_c14n ++ dec k).
Proof.
  intros Hin. apply in_app_or in Hin as [Hin|Hin]; [|exact (dec_no_space k Hin)].
  unfold s_c14n in Hin. cbn [In] in Hin.
  destruct Hin as [E|[E|[E|[E|[]]]]]; discriminate.
Qed.

Lemma id_of_no_space (i : issuer) b : wf_iss s_c14n i -> ~ In 32 b -> ~ In 32 (id_of i b).
Proof.
  intros [_ Hs] Hb. unfold id_of. destruct (iss_get i b) as [id|] eqn:E; [|exact Hb].
  apply iss_get_In in E. apply (in_map snd) in E. cbn [snd] in E. rewrite Hs in E.
  apply in_map_iff in E as [k [<- _]]. apply c14n_no_space.
Qed.

Lemma wf_term_rename f t : (forall b, ~ In 32 b -> ~ In 32 (f b)) ->
  wf_term t -> wf_term (rename_t f t).
Proof. intros Hf. destruct t; cbn [rename_t wf_term]; auto. Qed.

Lemma is_iri_or_bnode_rename f t : is_iri_or_bnode t -> is_iri_or_bnode (rename_t f t).
Proof. destruct t; cbn [rename_t is_iri_or_bnode]; auto. Qed.

Lemma is_iri_rename f t : is_iri t -> is_iri (rename_t f t).
Proof. destruct t; cbn [rename_t is_iri]; auto. Qed.

Lemma wf_quad_rename f q : (forall b, ~ In 32 b -> ~ In 32 (f b)) ->
  wf_quad q -> wf_quad (rename_q f q).
Proof.
  intros Hf. destruct q as [[[s p] o] g]. cbn [wf_quad rename_q].
  intros [[Ws Is] [[Wp Ip] [Wo Wg]]].
  split; [split; [apply wf_term_rename; assumption|apply is_iri_or_bnode_rename; exact Is]|].
  split; [split; [apply wf_term_rename; assumption|apply is_iri_rename; exact Ip]|].
  split; [apply wf_term_rename; assumption|].
  destruct g as [t|]; cbn [option_map wf_graph] in *; [|exact I].
  destruct Wg as [Wt It].
  split; [apply wf_term_rename; assumption|apply is_iri_or_bnode_rename; exact It].
Qed.

Lemma wf_relabelled (i : issuer) d : wf_iss s_c14n i -> Forall wf_quad d ->
  Forall wf_quad (map (rename_q (id_of i)) d).
Proof.
  intros Hw Hd. apply Forall_map. eapply Forall_impl; [|exact Hd].
  intros q Hq. apply wf_quad_rename; [|exact Hq]. intros b. apply id_of_no_space; exact Hw.
Qed.

(* well-formed quads are in the domain of RDFC-1.0 *)
Lemma wf_not_bad t : wf_term t -> is_bad t = false.
Proof. destruct t; cbn [wf_term is_bad]; intros W; try reflexivity; contradiction. Qed.

Lemma wf_supported_q q : wf_quad q -> supported_q q = true.
Proof.
  destruct q as [[[s p] o] g]. intros [[Ws _] [[Wp Ip] [Wo Wg]]].
  unfold supported_q. cbn [q_pred].
  destruct p; cbn [is_iri] in Ip; try contradiction. cbn [bnode_id andb].
  unfold comps. destruct g as [t|]; cbn [app forallb snd].
  - destruct Wg as [Wt _]. rewrite !wf_not_bad by assumption. reflexivity.
  - rewrite !wf_not_bad by assumption. reflexivity.
Qed.

Theorem wf_supported : forall d, Forall wf_quad d -> supported d = true.
Proof.
  unfold supported. induction 1 as [|q d Hq _ IH]; cbn [forallb]; [reflexivity|].
  rewrite (wf_supported_q q Hq), IH. reflexivity.
Qed.

(* ---------- F. the theorem ---------- *)
Lemma impl_model_inv H fuel df pl d b i : impl_model H fuel df pl d = Ok (b, i) ->
  exists qs, relabel_with H (mkVar true true) fuel df pl d = Ok (qs, i) /\ b = serialize qs.
Proof.
  unfold impl_model, normalize_with. intros E.
  destruct (relabel_with H (mkVar true true) fuel df pl d) as [[qs is]|e]; [|discriminate].
  injection E as <- <-. exists qs. split; reflexivity.
Qed.

Lemma relabel_with_issued H fuel df pl d m qs i :
  step2 true d [] = Ok m -> Forall single (step3_h2b (step3_b2h H m)) ->
  relabel_with H (mkVar true true) fuel df pl d = Ok (qs, i) -> i = fd_issued H m.
Proof.
  intros E Hs R. rewrite (relabel_with_singles H true fuel df pl d m E Hs) in R.
  destruct (relabel_qs (fd_issued H m) d) as [qs'|e]; [|discriminate].
  injection R as _ <-. reflexivity.
Qed.

Theorem invariance_distinct_first_degree : forall H fuel df pl pi d1 d2 b1 i1 b2 i2,
  Forall wf_quad d1 -> Forall wf_quad d2 ->
  inj_on pi (bnodes d1) ->
  Permutation d2 (map (rename_q pi) d1) ->
  distinct_first_degree H d1 ->
  impl_model H fuel df pl d1 = Ok (b1, i1) ->
  impl_model H fuel df pl d2 = Ok (b2, i2) ->
  b1 = b2.
Proof.
  intros H fuel df pl pi d1 d2 b1 i1 b2 i2 W1 W2 Hinj P Hd R1 R2.
  pose proof (wf_supported d1 W1) as S1. pose proof (wf_supported d2 W2) as S2.
  destruct (FirstDegree.step2_ok true d1 S1 []) as [m1 E1].
  destruct (FirstDegree.step2_ok true d2 S2 []) as [m2 E2].
  apply impl_model_inv in R1 as [qs1 [R1 ->]]. apply impl_model_inv in R2 as [qs2 [R2 ->]].
  pose proof (h2b_singles _ (b2h_hashes_nodup H d1 m1 E1 Hd)) as Hs1.
  assert (Hs2 : Forall single (step3_h2b (step3_b2h H m2))).
  { rewrite (h2b_rename H pi d1 d2 m1 m2 E1 E2 S1 Hinj P Hd). apply Forall_map.
    eapply Forall_impl; [|exact Hs1]. intros e [b Eb]. exists (pi b).
    unfold pl_map. cbn [snd]. rewrite Eb. reflexivity. }
  pose proof (relabel_with_issued H fuel df pl d1 m1 qs1 i1 E1 Hs1 R1) as I1.
  pose proof (relabel_with_issued H fuel df pl d2 m2 qs2 i2 E2 Hs2 R2) as I2.
  rewrite (issued_rename H pi d1 d2 m1 m2 E1 E2 S1 Hinj P Hd), <- I1 in I2.
  apply relabel_with_core in R1 as (Wi1 & In1 & Co1 & ->).
  apply relabel_with_core in R2 as (Wi2 & In2 & Co2 & ->).
  (* (d) the relabelled quads agree up to order *)
  assert (Q : Permutation (map (rename_q (id_of i2)) d2) (map (rename_q (id_of i1)) d1)).
  { eapply perm_trans; [apply Permutation_map; exact P|]. rewrite map_map.
    rewrite (map_ext_in _ (rename_q (id_of i1))); [apply Permutation_refl|].
    intros q Hq. apply rename_q_compose. intros b Hb. subst i2.
    apply (id_of_rename pi (bnodes d1)); [exact Hinj|exact In1|].
    apply Co1. eapply bnodes_q_incl; eassumption. }
  (* (e) the bytes *)
  rewrite (serialize_sorts_lines _ (wf_relabelled i1 d1 Wi1 W1)).
  rewrite (serialize_sorts_lines _ (wf_relabelled i2 d2 Wi2 W2)).
  f_equal. apply sort_by_str_perm. apply Permutation_map. apply Permutation_sym. exact Q.
Qed.

