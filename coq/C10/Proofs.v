(* C10/Proofs.v -- with the repaired Clone every reachable store only points into allocations it
   owns itself, which are never freed while it lives: no read touches released memory, and
   operations on one store leave every other store and everything it returns unchanged. *)
From Sophia.C10 Require Import Model.
From Coq Require Import Permutation.


(* per-store invariant: keys are numbered 0..n-1 in order, i2t is their image *)
Definition Inv_s (s : store) : Prop :=
  map k_index (keys s) = map N.of_nat (seq 0 (length (keys s)))
  /\ i2t s = map slot_of (keys s).

Definition all_owned (l : list (N * store)) : list aid := flat_map (fun p => owned_by (snd p)) l.

Record WF (w : world) : Prop := {
  wf_ids : NoDup (map fst (live w));
  wf_nodup : NoDup (all_owned (live w));
  wf_below : forall a, In a (all_owned (live w)) -> a < next w;
  wf_freed_below : forall a, In a (freed w) -> a < next w;
  wf_not_freed : forall a, In a (all_owned (live w)) -> ~ In a (freed w);
  wf_inv : forall sid s, In (sid, s) (live w) -> Inv_s s
}.

(* ---------- association-list plumbing ---------- *)
Lemma find_split l sid s : find_store l sid = Some s ->
  exists l1 l2, l = l1 ++ (sid, s) :: l2
    /\ (forall s', set_store l sid s' = l1 ++ (sid, s') :: l2)
    /\ del_store l sid = l1 ++ l2.
Proof.
  induction l as [|[k x] r IH]; simpl; [discriminate|].
  destruct (N.eqb_spec k sid) as [->|Hn].
  - intros H; inversion H; subst. exists [], r. simpl. auto.
  - intros H. destruct (IH H) as (l1 & l2 & -> & H2 & H3).
    exists ((k, x) :: l1), l2. simpl. repeat split; auto.
    + intros s'. rewrite H2. reflexivity.
    + rewrite H3. reflexivity.
Qed.

Lemma find_none l sid : find_store l sid = None ->
  (forall s', set_store l sid s' = l ++ [(sid, s')]) /\ ~ In sid (map fst l).
Proof.
  induction l as [|[k x] r IH]; simpl; auto.
  destruct (N.eqb_spec k sid) as [->|Hn]; [discriminate|].
  intros H. destruct (IH H) as [H1 H2]. split.
  - intros s'. rewrite H1. reflexivity.
  - simpl. intros [E|E]; auto.
Qed.

Lemma find_In l sid s : find_store l sid = Some s -> In (sid, s) l.
Proof.
  intros H. destruct (find_split _ _ _ H) as (l1 & l2 & -> & _). apply in_app_iff. right. left. reflexivity.
Qed.

Lemma In_find l sid s : NoDup (map fst l) -> In (sid, s) l -> find_store l sid = Some s.
Proof.
  induction l as [|[k x] r IH]; simpl; [tauto|].
  intros Hn [E|H].
  - inversion E; subst. rewrite N.eqb_refl. reflexivity.
  - inversion Hn; subst. destruct (N.eqb_spec k sid) as [->|Hne]; auto.
    exfalso. apply H2. apply in_map_iff. exists (sid, s). auto.
Qed.

Lemma all_owned_app a b : all_owned (a ++ b) = all_owned a ++ all_owned b.
Proof. unfold all_owned. apply flat_map_app. Qed.

Lemma all_owned_mid l1 sid s l2 :
  Permutation (all_owned (l1 ++ (sid, s) :: l2)) (owned_by s ++ all_owned (l1 ++ l2)).
Proof.
  rewrite !all_owned_app. simpl. rewrite app_assoc.
  eapply perm_trans; [apply Permutation_app_tail; apply Permutation_app_comm|].
  rewrite <- app_assoc. apply Permutation_refl.
Qed.

(* ---------- fresh allocations ---------- *)
Lemma fresh_In n from a : In a (fresh n from) <-> from <= a < from + N.of_nat n.
Proof.
  revert from; induction n as [|n IH]; intros from; simpl; [lia|].
  rewrite IH. lia.
Qed.
Lemma fresh_NoDup n from : NoDup (fresh n from).
Proof.
  revert from; induction n as [|n IH]; intros from; simpl; constructor; auto.
  rewrite fresh_In. lia.
Qed.
Lemma fresh_length n from : length (fresh n from) = n.
Proof. revert from; induction n; intros; simpl; auto. Qed.

Lemma NoDup_app_fresh (l : list aid) n from :
  NoDup l -> (forall a, In a l -> a < from) -> NoDup (l ++ fresh n from).
Proof.
  intros Hl Hb. induction l as [|x l IH]; simpl; [apply fresh_NoDup|].
  inversion Hl; subst. constructor.
  - rewrite in_app_iff, fresh_In. intros [H|H]; auto. specialize (Hb x (or_introl eq_refl)). lia.
  - apply IH; auto. intros a Ha. apply Hb. right. exact Ha.
Qed.

Lemma NoDup_app_disjoint {A} (l1 l2 : list A) :
  NoDup l1 -> NoDup l2 -> (forall a, In a l1 -> In a l2 -> False) -> NoDup (l1 ++ l2).
Proof.
  induction l1 as [|x l1 IH]; simpl; intros H1 H2 Hd; auto.
  inversion H1; subst. constructor.
  - rewrite in_app_iff. intros [H|H]; auto. eapply Hd; eauto.
  - apply IH; auto. intros a Ha Hb. eapply Hd; eauto.
Qed.

(* ---------- cloned keys ---------- *)
Lemma clone_keys_spec ks : forall from ks' nx, clone_keys ks from = (ks', nx) ->
  map k_index ks' = map k_index ks /\ map k_term ks' = map k_term ks /\ length ks' = length ks
  /\ from <= nx
  /\ (forall a, In a (flat_map k_owned ks') -> from <= a < nx)
  /\ NoDup (flat_map k_owned ks').
Proof.
  induction ks as [|k r IH]; intros from ks' nx; simpl.
  - intros H; inversion H; subst. simpl. repeat split; auto; try lia; try (constructor; fail); try (intros a []).
  - destruct (clone_keys r (from + N.of_nat (length (k_owned k)))) as [r' nx'] eqn:E.
    intros H; inversion H; subst. destruct (IH _ _ _ E) as (H1 & H2 & H3 & H4 & H5 & H6).
    simpl. repeat split; try congruence; try lia.
    + apply in_app_iff in H0 as [Ha|Ha]; [apply fresh_In in Ha | apply H5 in Ha]; lia.
    + apply in_app_iff in H0 as [Ha|Ha]; [apply fresh_In in Ha | apply H5 in Ha]; lia.
    + apply NoDup_app_disjoint; auto using fresh_NoDup.
      intros a Ha Hb. apply fresh_In in Ha. apply H5 in Hb. lia.
Qed.

(* ---------- the per-store invariant ---------- *)
Lemma key_at_nth ks : forall b,
  map k_index ks = map N.of_nat (seq b (length ks)) ->
  forall j, (j < length ks)%nat -> key_at ks (N.of_nat (b + j)) = nth_error ks j.
Proof.
  induction ks as [|k r IH]; intros b H j Hj; simpl in *; [lia|].
  inversion H as [[H1 H2]]. destruct j as [|j].
  - rewrite Nat.add_0_r, H1, N.eqb_refl. reflexivity.
  - rewrite H1. destruct (N.eqb_spec (N.of_nat b) (N.of_nat (b + S j))) as [E|_]; [lia|].
    replace (b + S j)%nat with (S b + j)%nat by lia. apply IH; auto. lia.
Qed.

Lemma rebuild_ordered ks : map k_index ks = map N.of_nat (seq 0 (length ks)) ->
  forall m j, (j + m = length ks)%nat -> rebuild ks m (N.of_nat j) = map slot_of (skipn j ks).
Proof.
  intros H m. induction m as [|m IH]; intros j Hj; simpl.
  - rewrite skipn_all2 by lia. reflexivity.
  - pose proof (key_at_nth ks 0 H j) as Hk. simpl in Hk. rewrite Hk by lia.
    destruct (nth_error ks j) as [k|] eqn:E.
    + replace (N.of_nat j + 1) with (N.of_nat (S j)) by lia. rewrite IH by lia.
      clear - E. revert j E. induction ks as [|x r IHr]; intros [|j] E; simpl in *; try discriminate.
      * inversion E; subst. reflexivity.
      * apply IHr. exact E.
    + apply nth_error_None in E. lia.
Qed.

Lemma ensure_inv w s t n qd w' s' : Inv_s s -> ensure w s t n qd = (w', s') -> Inv_s s'.
Proof.
  intros [H1 H2]. unfold ensure. destruct (has_term s t); intros E; inversion E; subst; [split; auto|].
  split; simpl.
  - rewrite map_app, app_length, seq_app, map_app, H1. simpl. rewrite H2, map_length. reflexivity.
  - rewrite map_app, H2. reflexivity.
Qed.

Lemma clone_inv w s w' s' : Inv_s s -> clone_store Rebuilt w s = (w', s') -> Inv_s s'.
Proof.
  intros [H1 H2]. unfold clone_store.
  destruct (clone_keys (keys s) (next w)) as [ks nx] eqn:E. intros H; inversion H; subst; clear H.
  destruct (clone_keys_spec _ _ _ _ E) as (K1 & K2 & K3 & _).
  assert (Ho : map k_index ks = map N.of_nat (seq 0 (length ks))) by (rewrite K1, K3; exact H1).
  split; simpl; auto.
  pose proof (rebuild_ordered ks Ho (length ks) 0) as R. simpl in R. apply R. reflexivity.
Qed.

Lemma aid_list_eqb_refl l : list_eqb N.eqb l l = true.
Proof. induction l as [|x l IH]; simpl; auto. rewrite N.eqb_refl. exact IH. Qed.

(* what the audit hook reports on a store satisfying the invariant: all true *)
Lemma audit_from_true ks : map k_index ks = map N.of_nat (seq 0 (length ks)) ->
  forall m j, (j + m = length ks)%nat ->
  forallb (fun b => b) (audit_from ks (N.of_nat j) (map slot_of (skipn j ks))) = true.
Proof.
  intros H m. induction m as [|m IH]; intros j Hj.
  - rewrite skipn_all2 by lia. reflexivity.
  - pose proof (key_at_nth ks 0 H j) as Hk. simpl in Hk.
    destruct (nth_error ks j) as [k|] eqn:E; [|apply nth_error_None in E; lia].
    assert (Hs : skipn j ks = k :: skipn (S j) ks).
    { clear - E. revert j E. induction ks as [|x r IHr]; intros [|j] E; simpl in *; try discriminate.
      - inversion E; subst. reflexivity.
      - apply IHr. exact E. }
    rewrite Hs. cbn [map audit_from forallb]. rewrite Hk by lia.
    assert (Hb : s_self (slot_of k) || list_eqb N.eqb (s_ptrs (slot_of k)) (k_owned k) = true).
    { unfold slot_of. destruct (k_quoted k); simpl; auto. apply aid_list_eqb_refl. }
    rewrite Hb. cbn [andb].
    replace (N.of_nat j + 1) with (N.of_nat (S j)) by lia. apply IH. lia.
Qed.
Theorem audit_all_true s : Inv_s s -> forallb (fun b => b) (audit s) = true.
Proof.
  intros [H1 H2]. unfold audit. rewrite H2.
  exact (audit_from_true (keys s) H1 (length (keys s)) 0 eq_refl).
Qed.

Lemma inv_nth s i sl : Inv_s s -> nth_error (i2t s) i = Some sl ->
  exists k, key_at (keys s) (N.of_nat i) = Some k /\ sl = slot_of k /\ In k (keys s).
Proof.
  intros [H1 H2] Hn. rewrite H2 in Hn.
  destruct (nth_error (keys s) i) as [k|] eqn:E.
  - rewrite (map_nth_error slot_of _ _ E) in Hn. inversion Hn; subst.
    exists k. split; [|split; auto].
    + pose proof (key_at_nth (keys s) 0 H1 i) as Hk. simpl in Hk. rewrite Hk; auto.
      apply nth_error_Some. congruence.
    + eapply nth_error_In; eauto.
  - apply nth_error_None in E. assert (Hl : (length (map slot_of (keys s)) <= i)%nat) by (rewrite map_length; exact E).
    apply nth_error_None in Hl. congruence.
Qed.

(* ---------- the global invariant is preserved by every operation ---------- *)
Lemma wf_init : WF init.
Proof. constructor; simpl; try constructor; intros; try contradiction. Qed.

Lemma In_mid {A} (x y : A) l1 l2 : In x (l1 ++ y :: l2) <-> x = y \/ In x (l1 ++ l2).
Proof. rewrite !in_app_iff. simpl. intuition. Qed.

Lemma wf_replace w l1 sid s l2 s' n :
  WF w -> live w = l1 ++ (sid, s) :: l2 ->
  Permutation (owned_by s') (owned_by s ++ fresh n (next w)) -> Inv_s s' ->
  WF (mkWorld (next w + N.of_nat n) (freed w) (l1 ++ (sid, s') :: l2)).
Proof.
  intros W Hl Hp Hi. destruct W as [W1 W2 W3 W4 W5 W6]. rewrite Hl in *.
  assert (Hperm : Permutation (all_owned (l1 ++ (sid, s') :: l2))
                              (all_owned (l1 ++ (sid, s) :: l2) ++ fresh n (next w))).
  { eapply perm_trans; [apply all_owned_mid|].
    eapply perm_trans; [apply Permutation_app_tail; exact Hp|].
    rewrite <- app_assoc.
    eapply perm_trans; [apply Permutation_app_head; apply Permutation_app_comm|].
    rewrite app_assoc. apply Permutation_app_tail. apply Permutation_sym. apply all_owned_mid. }
  constructor; simpl.
  - rewrite map_app in *. simpl in *. exact W1.
  - eapply Permutation_NoDup; [apply Permutation_sym; exact Hperm|]. apply NoDup_app_fresh; auto.
  - intros a Ha. apply (Permutation_in _ Hperm) in Ha. apply in_app_iff in Ha as [Ha|Ha].
    + apply W3 in Ha. lia.
    + apply fresh_In in Ha. lia.
  - intros a Ha. apply W4 in Ha. lia.
  - intros a Ha Hf. apply (Permutation_in _ Hperm) in Ha. apply in_app_iff in Ha as [Ha|Ha].
    + eapply W5; eauto.
    + apply fresh_In in Ha. apply W4 in Hf. lia.
  - intros sid0 s0 H0. apply In_mid in H0 as [E|H0].
    + inversion E; subst. exact Hi.
    + apply (W6 sid0). apply In_mid. right. exact H0.
Qed.

Lemma wf_add w sid s' nx :
  WF w -> ~ In sid (map fst (live w)) -> next w <= nx ->
  (forall a, In a (owned_by s') -> next w <= a < nx) -> NoDup (owned_by s') -> Inv_s s' ->
  WF (mkWorld nx (freed w) (live w ++ [(sid, s')])).
Proof.
  intros [W1 W2 W3 W4 W5 W6] Hn Hle Hb Hd Hi. constructor; simpl.
  - rewrite map_app. simpl. apply NoDup_app_disjoint; auto.
    + constructor; [intros []|constructor].
    + intros a Ha [<-|[]]. auto.
  - rewrite all_owned_app. simpl. rewrite app_nil_r. apply NoDup_app_disjoint; auto.
    intros a Ha Hb'. apply W3 in Ha. apply Hb in Hb'. lia.
  - intros a Ha. rewrite all_owned_app in Ha. simpl in Ha. rewrite app_nil_r in Ha.
    apply in_app_iff in Ha as [Ha|Ha]; [apply W3 in Ha; lia | apply Hb in Ha; lia].
  - intros a Ha. apply W4 in Ha. lia.
  - intros a Ha Hf. rewrite all_owned_app in Ha. simpl in Ha. rewrite app_nil_r in Ha.
    apply in_app_iff in Ha as [Ha|Ha]; [eapply W5; eauto | apply Hb in Ha; apply W4 in Hf; lia].
  - intros sid0 s0 H0. apply in_app_iff in H0 as [H0|[E|[]]]; [eapply W6; eauto | inversion E; subst; exact Hi].
Qed.

Lemma NoDup_app_r {A} (l1 l2 : list A) : NoDup (l1 ++ l2) -> NoDup l2.
Proof. induction l1 as [|x l1 IH]; simpl; auto. intros H. inversion H; auto. Qed.
Lemma NoDup_remove_mid {A} (l1 l2 : list A) x : NoDup (l1 ++ x :: l2) -> NoDup (l1 ++ l2).
Proof. apply NoDup_remove_1. Qed.

Lemma wf_drop w l1 sid s l2 :
  WF w -> live w = l1 ++ (sid, s) :: l2 ->
  WF (mkWorld (next w) (freed w ++ owned_by s) (l1 ++ l2)).
Proof.
  intros [W1 W2 W3 W4 W5 W6] Hl. rewrite Hl in *.
  assert (Hperm := all_owned_mid l1 sid s l2).
  assert (Hnd := Permutation_NoDup Hperm W2).
  constructor; simpl.
  - rewrite map_app in *. simpl in W1. eapply NoDup_remove_mid; eauto.
  - apply NoDup_app_r in Hnd. exact Hnd.
  - intros a Ha. apply W3. apply (Permutation_in _ (Permutation_sym Hperm)). apply in_app_iff. auto.
  - intros a Ha. apply in_app_iff in Ha as [Ha|Ha]; auto.
    apply W3. apply (Permutation_in _ (Permutation_sym Hperm)). apply in_app_iff. auto.
  - intros a Ha Hf. apply in_app_iff in Hf as [Hf|Hf].
    + eapply W5; eauto. apply (Permutation_in _ (Permutation_sym Hperm)). apply in_app_iff. auto.
    + clear - Hnd Ha Hf. induction (owned_by s) as [|x l IH]; simpl in *; [contradiction|].
      inversion Hnd; subst. destruct Hf as [->|Hf]; auto. apply H1. apply in_app_iff. auto.
  - intros sid0 s0 H0. apply (W6 sid0). apply In_mid. right. exact H0.
Qed.

Definition swap_id (a b k : N) : N := if N.eqb k a then b else if N.eqb k b then a else k.
Lemma swap_id_inj a b x y : swap_id a b x = swap_id a b y -> x = y.
Proof.
  unfold swap_id. destruct (N.eqb_spec x a), (N.eqb_spec x b), (N.eqb_spec y a), (N.eqb_spec y b); subst; congruence.
Qed.

Lemma all_owned_swap a b l :
  all_owned (map (fun p => (swap_id a b (fst p), snd p)) l) = all_owned l.
Proof. unfold all_owned. induction l as [|[k x] r IH]; simpl; auto. rewrite IH. reflexivity. Qed.
Lemma ids_swap a b (l : list (N * store)) :
  NoDup (map fst l) -> NoDup (map fst (map (fun p => (swap_id a b (fst p), snd p)) l)).
Proof.
  rewrite map_map. simpl. induction l as [|[k x] r IH]; simpl; intros H; [constructor|].
  inversion H; subst. constructor; auto.
  rewrite in_map_iff. intros [[k' x'] [E Hin]]. simpl in E. apply swap_id_inj in E. subst.
  apply H2. apply in_map_iff. exists (k, x'). auto.
Qed.

Lemma wf_swap w a b :
  WF w -> WF (mkWorld (next w) (freed w) (map (fun p => (swap_id a b (fst p), snd p)) (live w))).
Proof.
  intros [W1 W2 W3 W4 W5 W6].
  constructor; simpl; try rewrite all_owned_swap; auto.
  - apply ids_swap. exact W1.
  - intros sid s H. apply in_map_iff in H as [[k x] [E H]]. inversion E; subst. eapply W6; eauto.
Qed.

Lemma owned_by_app ks k : flat_map k_owned (ks ++ [k]) = flat_map k_owned ks ++ k_owned k.
Proof. rewrite flat_map_app. simpl. rewrite app_nil_r. reflexivity. Qed.

Theorem step_wf w o : WF w -> WF (step Rebuilt w o).
Proof.
  intros W. destruct o as [sid|sid t n qd|src dst|sid|a b|sid]; simpl.
  - (* New *)
    destruct (find_store (live w) sid) eqn:E; auto.
    destruct (find_none _ _ E) as [Hs Hn]. rewrite Hs.
    apply (wf_add w sid empty_store (next w)); auto; try lia; simpl; try (constructor; fail);
      try (intros ? []); try (split; reflexivity).
  - (* Insert *)
    destruct (find_store (live w) sid) as [s|] eqn:E; auto.
    destruct (find_split _ _ _ E) as (l1 & l2 & Hl & Hset & _).
    destruct (ensure w s t (S n) qd) as [w' s'] eqn:Ee.
    pose proof (wf_inv w W sid s (find_In _ _ _ E)) as Hi.
    pose proof (ensure_inv _ _ _ _ _ _ _ Hi Ee) as Hi'.
    unfold ensure in Ee. destruct (has_term s t).
    + injection Ee as E1 E2. subst w' s'. rewrite Hset, <- Hl. destruct w; exact W.
    + injection Ee as E1 E2. subst w' s'. simpl. rewrite Hset.
      apply (wf_replace w l1 sid s l2 _ (S n)); auto.
      unfold owned_by. simpl. rewrite owned_by_app. simpl. apply Permutation_refl.
  - (* Clone *)
    destruct (find_store (live w) src) as [s|] eqn:Es; auto.
    destruct (find_store (live w) dst) eqn:Ed; auto.
    destruct (clone_store Rebuilt w s) as [w' s'] eqn:Ec.
    pose proof (wf_inv w W src s (find_In _ _ _ Es)) as Hi.
    pose proof (clone_inv _ _ _ _ Hi Ec) as Hi'.
    unfold clone_store in Ec. destruct (clone_keys (keys s) (next w)) as [ks nx] eqn:Ek.
    inversion Ec; subst. simpl.
    destruct (clone_keys_spec _ _ _ _ Ek) as (_ & _ & _ & K4 & K5 & K6).
    destruct (find_none _ _ Ed) as [Hs Hn]. rewrite Hs.
    apply (wf_add w dst _ nx); auto.
  - (* Drop *)
    destruct (find_store (live w) sid) as [s|] eqn:E; auto.
    destruct (find_split _ _ _ E) as (l1 & l2 & Hl & _ & Hdel). rewrite Hdel.
    apply (wf_drop w l1 sid s l2); auto.
  - (* Swap *)
    destruct (find_store (live w) a); auto. destruct (find_store (live w) b); auto.
    apply (wf_swap w a b W).
  - exact W.
Qed.

Theorem reachable_wf ops : WF (run Rebuilt ops).
Proof.
  unfold run. assert (H : forall w, WF w -> WF (fold_left (step Rebuilt) ops w)).
  { induction ops as [|o ops IH]; simpl; auto. intros w W. apply IH. apply step_wf. exact W. }
  apply H. apply wf_init.
Qed.

(* ---------- consequences ---------- *)
Lemma owned_in_all l sid s a : In (sid, s) l -> In a (owned_by s) -> In a (all_owned l).
Proof. intros H Ha. unfold all_owned. apply in_flat_map. exists (sid, s). auto. Qed.

(* no read of a live store ever touches released memory, or memory of another store *)
Theorem read_safe w sid s i : WF w -> In (sid, s) (live w) ->
  read w s i = ReadOutOfRange \/ exists t, read w s i = ReadOk t.
Proof.
  intros W Hs. unfold read. destruct (nth_error (i2t s) i) as [sl|] eqn:E; auto. right.
  destruct (inv_nth s i sl (wf_inv w W sid s Hs) E) as (k & Hk & -> & Hin).
  unfold slot_of in *. destruct (k_quoted k); simpl; [eauto|].
  assert (Hnf : existsb (fun a => aid_in a (freed w)) (k_owned k) = false).
  { apply not_true_is_false. intros H. apply existsb_exists in H as [a [Ha Hf]].
    unfold aid_in in Hf. apply existsb_exists in Hf as [a' [Hf E']]. apply N.eqb_eq in E'. subst a'.
    apply (wf_not_freed w W a); auto. eapply owned_in_all; eauto.
    unfold owned_by. apply in_flat_map. exists k. auto. }
  rewrite Hnf, Hk. simpl. rewrite aid_list_eqb_refl. eauto.
Qed.

Theorem reachable_read_safe ops sid s i : In (sid, s) (live (run Rebuilt ops)) ->
  read (run Rebuilt ops) s i = ReadOutOfRange \/ exists t, read (run Rebuilt ops) s i = ReadOk t.
Proof. apply read_safe. apply reachable_wf. Qed.

Theorem reachable_audit ops sid s : In (sid, s) (live (run Rebuilt ops)) ->
  forallb (fun b => b) (audit s) = true.
Proof. intros H. apply audit_all_true. exact (wf_inv _ (reachable_wf ops) sid s H). Qed.

(* independence: an operation whose subject is another store leaves this store, and therefore
   every value it returns, unchanged (cloning FROM a store does not change it either) *)
Definition touches (o : op) (sid : N) : bool :=
  match o with
  | New x | Insert x _ _ _ | Drop x | Grow x => N.eqb x sid
  | Clone _ dst => N.eqb dst sid
  | Swap a b => N.eqb a sid || N.eqb b sid
  end.

Lemma find_set_other l x s' sid : x <> sid -> find_store (set_store l x s') sid = find_store l sid.
Proof.
  intros Hn. induction l as [|[k v] r IH]; simpl.
  - destruct (N.eqb_spec x sid); congruence.
  - destruct (N.eqb_spec k x) as [->|Hk]; simpl.
    + destruct (N.eqb_spec x sid); congruence.
    + destruct (N.eqb_spec k sid); auto.
Qed.
Lemma find_del_other l x sid : x <> sid -> find_store (del_store l x) sid = find_store l sid.
Proof.
  intros Hn. induction l as [|[k v] r IH]; simpl; auto.
  destruct (N.eqb_spec k x) as [->|Hk]; simpl.
  - destruct (N.eqb_spec x sid); congruence.
  - destruct (N.eqb_spec k sid); auto.
Qed.
Lemma find_swap_other l a b sid : a <> sid -> b <> sid ->
  find_store (map (fun p => (if N.eqb (fst p) a then b else if N.eqb (fst p) b then a else fst p, snd p)) l) sid
  = find_store l sid.
Proof.
  intros Ha Hb. induction l as [|[k v] r IH]; simpl; auto.
  destruct (N.eqb_spec k a) as [->|Hka]; [|destruct (N.eqb_spec k b) as [->|Hkb]].
  - destruct (N.eqb_spec b sid), (N.eqb_spec a sid); try congruence; try exact IH.
  - destruct (N.eqb_spec a sid), (N.eqb_spec b sid); try congruence; try exact IH.
  - destruct (N.eqb_spec k sid); auto.
Qed.

Theorem frame m w o sid : touches o sid = false ->
  find_store (live (step m w o)) sid = find_store (live w) sid.
Proof.
  destruct o as [x|x t n qd|src dst|x|a b|x]; simpl; intros H.
  - apply N.eqb_neq in H. destruct (find_store (live w) x); auto. simpl. apply find_set_other; auto.
  - apply N.eqb_neq in H. destruct (find_store (live w) x) as [s|]; auto.
    destruct (ensure w s t (S n) qd) as [w' s'] eqn:E. simpl.
    rewrite find_set_other by auto. unfold ensure in E. destruct (has_term s t); inversion E; subst; reflexivity.
  - apply N.eqb_neq in H. destruct (find_store (live w) src) as [s|]; auto.
    destruct (find_store (live w) dst); auto.
    destruct (clone_store m w s) as [w' s'] eqn:E. simpl.
    rewrite find_set_other by auto. unfold clone_store in E.
    destruct (clone_keys (keys s) (next w)); inversion E; subst; reflexivity.
  - apply N.eqb_neq in H. destruct (find_store (live w) x); auto. simpl. apply find_del_other; auto.
  - apply orb_false_iff in H as [H1 H2]. apply N.eqb_neq in H1, H2.
    destruct (find_store (live w) a); auto. destruct (find_store (live w) b); auto.
    simpl. apply find_swap_other; auto.
  - reflexivity.
Qed.

Theorem independent_reads w o sid s i : WF w -> touches o sid = false ->
  find_store (live w) sid = Some s ->
  find_store (live (step Rebuilt w o)) sid = Some s
  /\ read (step Rebuilt w o) s i = read w s i.
Proof.
  intros W Ht Hf. pose proof (frame Rebuilt w o sid Ht) as Hfr. rewrite Hf in Hfr. split; auto.
  pose proof (step_wf w o W) as W'.
  pose proof (read_safe w sid s i W (find_In _ _ _ Hf)) as R1.
  pose proof (read_safe _ sid s i W' (find_In _ _ _ Hfr)) as R2.
  unfold read in *. destruct (nth_error (i2t s) i) as [sl|] eqn:En; auto.
  destruct (s_self sl); auto.
  destruct (existsb (fun a => aid_in a (freed w)) (s_ptrs sl)) eqn:X1;
    [destruct R1 as [R1|[t R1]]; discriminate|].
  destruct (existsb (fun a => aid_in a (freed (step Rebuilt w o))) (s_ptrs sl)) eqn:X2;
    [destruct R2 as [R2|[t R2]]; discriminate|].
  reflexivity.
Qed.

(* ---------- the derived Clone is refuted: clone, drop the original, read the clone ---------- *)
Example derived_clone_refuted :
  let w := run Derived [New 0; Insert 0 7 0 false; Clone 0 1; Drop 0] in
  exists s, find_store (live w) 1 = Some s /\ read w s 0 = ReadFreed
            /\ audit s = [false].
Proof. eexists. vm_compute. repeat split; reflexivity. Qed.
Example rebuilt_clone_ok :
  let w := run Rebuilt [New 0; Insert 0 7 0 false; Insert 0 8 2 true; Clone 0 1; Drop 0; Insert 1 9 1 false; Swap 1 2; Grow 1] in
  exists s, find_store (live w) 1 = Some s /\ read w s 0 = ReadOk 7 /\ read w s 2 = ReadOk 9
            /\ audit s = [true; true; true].
Proof. eexists. vm_compute. repeat split; reflexivity. Qed.
