(* C04/Model.v -- executable model of the Turtle/TriG pretty-printer of sophia_turtle
   (turtle/src/serializer/_pretty.rs, as repaired by build/proposed/C04-{a,b,c,d}.diff):
     * the decision to write a literal bare (write_literal + the REGENERATED regexes INTEGER, DECIMAL,
       DOUBLE, BOOLEAN of gen/RegexTurtle.v, run by the derivative matcher of Regex.v);
     * the decision to write an IRI as a prefixed name (write_iri + regenerated PN_LOCAL +
       PrefixMap::get_checked_prefixed_pair of api/src/prefix/_prefix_map.rs);
     * the PLANNING phase: build_labelled (profiles, cycle detection), build_subject_types,
       build_lists / list_item, over a dataset given as the list of its quads in GSPO order, terms
       being identifiers (interned by the harness modulo Term::eq, in Term::cmp order) plus kinds;
     * the statements the writer emits for a plan (write_all / write_graph / write_tree /
       write_properties / write_object / write_term / write_bnode, abstracting the text away);
     * the pre-fix variants of the cycle detection and of list_item (for the recorded defects);
     * the harness-facing checkers.
   Definitions only. *)
From Sophia.Common Require Export Prelude.
From Sophia.C04 Require Export Regex.

(* ===================================================================================== *)
(* literals: write_literal                                                               *)
(* ===================================================================================== *)
Definition xsd_ns : str :=   (* "http://www.w3.org/2001/XMLSchema#" *)
  [104;116;116;112;58;47;47;119;119;119;46;119;51;46;111;114;103;47;50;48;48;49;47;88;77;76;83;99;104;101;109;97;35].
Definition xsd_integer : str := xsd_ns ++ [105;110;116;101;103;101;114].
Definition xsd_decimal : str := xsd_ns ++ [100;101;99;105;109;97;108].
Definition xsd_double : str := xsd_ns ++ [100;111;117;98;108;101].
Definition xsd_boolean : str := xsd_ns ++ [98;111;111;108;101;97;110].

(* the condition under which write_literal copies the lexical form without quotes *)
Definition bare_with (ri rd rb rbo : rex cclass) (dt lex : str) : bool :=
  (str_eqb dt xsd_integer && matchb ri lex) || (str_eqb dt xsd_decimal && matchb rd lex) ||
  (str_eqb dt xsd_double && matchb rb lex) || (str_eqb dt xsd_boolean && matchb rbo lex).
Definition bare_literal : str -> str -> bool := bare_with integer_re decimal_re double_re boolean_re.

(* ===================================================================================== *)
(* prefixed names: PrefixMap::get_checked_prefixed_pair for [(P, N)]                      *)
(* ===================================================================================== *)
Fixpoint strip_prefix (pre s : str) : option str :=
  match pre, s with
  | [], _ => Some s
  | x :: pre', y :: s' => if N.eqb x y then strip_prefix pre' s' else None
  | _ :: _, [] => None
  end.
Definition slen (s : str) : N := N.of_nat (length s).

(* the loop: [matched] is the length of the best namespace so far, [found] the best pair so far *)
Fixpoint gcpp_go (check : str -> bool) (iri : str) (pm : list (str * str)) (matched : N) (found : option (str * str))
  : option (str * str) :=
  match pm with
  | [] => found
  | (p, n) :: pm' =>
      match strip_prefix n iri with
      | Some suffix =>
          if (matched <? slen n) && check suffix then gcpp_go check iri pm' (slen n) (Some (p, suffix))
          else gcpp_go check iri pm' matched found
      | None => gcpp_go check iri pm' matched found
      end
  end.
Definition get_checked_prefixed_pair (check : str -> bool) (pm : list (str * str)) (iri : str) : option (str * str) :=
  gcpp_go check iri pm 0 None.
(* write_iri: Some (prefix, local) = written `prefix:local`; None = written `<iri>` *)
Definition write_iri_pname (pm : list (str * str)) (iri : str) : option (str * str) :=
  get_checked_prefixed_pair (matchb pn_local_re) pm iri.

(* ===================================================================================== *)
(* datasets                                                                              *)
(* ===================================================================================== *)
(* kind of a term identifier; a quoted triple knows its three components *)
Inductive tk := TB | TI | TL | TT (s p o : N).
Definition kind_of (ks : list tk) (t : N) : tk := nth (N.to_nat t) ks TI.
Definition is_bnode (ks : list tk) (t : N) : bool := match kind_of ks t with TB => true | _ => false end.

Definition gname := option N.
Definition quad := (gname * N * N * N)%type.
Definition q_g (q : quad) : gname := fst (fst (fst q)).
Definition q_s (q : quad) : N := snd (fst (fst q)).
Definition q_p (q : quad) : N := snd (fst q).
Definition q_o (q : quad) : N := snd q.
Definition g_eqb : gname -> gname -> bool := opt_eqb N.eqb.
Definition quad_eqb (a b : quad) : bool :=
  g_eqb (q_g a) (q_g b) && N.eqb (q_s a) (q_s b) && N.eqb (q_p a) (q_p b) && N.eqb (q_o a) (q_o b).

(* Term::atoms: the non-triple constituents, in order (fuel = nesting depth bound) *)
Fixpoint atoms (fuel : nat) (ks : list tk) (t : N) : list N :=
  match fuel with
  | O => []
  | S f => match kind_of ks t with
           | TT s p o => atoms f ks s ++ atoms f ks p ++ atoms f ks o
           | _ => [t]
           end
  end.

(* ===================================================================================== *)
(* build_labelled                                                                        *)
(* ===================================================================================== *)
Record profile := { bad : bool; graphs : list gname; out_degree : N; predecessor : option N; visited : N }.
Definition set_bad (p : profile) : profile :=
  {| bad := true; graphs := graphs p; out_degree := out_degree p; predecessor := predecessor p; visited := visited p |}.
Definition set_visited (p : profile) (v : N) : profile :=
  {| bad := bad p; graphs := graphs p; out_degree := out_degree p; predecessor := predecessor p; visited := v |}.

(* BTreeMap<term, BnodeProfile>: association list kept in increasing key order *)
Definition pmap := list (N * profile).
Fixpoint pm_get (m : pmap) (k : N) : option profile :=
  match m with
  | [] => None
  | (k', v) :: m' => if N.eqb k k' then Some v else pm_get m' k
  end.
Fixpoint pm_put (m : pmap) (k : N) (v : profile) : pmap :=
  match m with
  | [] => [(k, v)]
  | (k', v') :: m' =>
      if k <? k' then (k, v) :: m
      else if N.eqb k k' then (k, v) :: m'
      else (k', v') :: pm_put m' k v
  end.

Definition add_named_graph (p : profile) (g : gname) : profile :=
  let gs := if existsb (g_eqb g) (graphs p) then graphs p else g :: graphs p in
  {| bad := if (1 <? length gs)%nat then true else bad p; graphs := gs; out_degree := out_degree p;
     predecessor := predecessor p; visited := visited p |}.
Definition update_positions (p : profile) (pos : N) (s : N) : profile :=
  if N.eqb pos 0 then
    {| bad := bad p; graphs := graphs p; out_degree := out_degree p + 1; predecessor := predecessor p; visited := visited p |}
  else if N.eqb pos 2 then
    match predecessor p with
    | None => {| bad := bad p; graphs := graphs p; out_degree := out_degree p; predecessor := Some s; visited := visited p |}
    | Some _ => set_bad p
    end
  else set_bad p.

(* the BlankNode arm of the first loop, for the component at position [i] of quad [q] *)
Definition visit_bnode (m : pmap) (i : N) (t : N) (q : quad) : pmap :=
  match pm_get m t with
  | Some p => pm_put m t (if bad p then p else update_positions (add_named_graph p (q_g q)) i (q_s q))
  | None => pm_put m t {| bad := N.eqb i 1 || N.eqb i 3; graphs := [q_g q];
                          out_degree := if N.eqb i 0 then 1 else 0;
                          predecessor := if N.eqb i 2 then Some (q_s q) else None; visited := 0 |}
  end.
(* the Triple arm: every blank node among the atoms is forced to be labelled
   (the code computes an iterator skipping the asserted subject, but then iterates over t.atoms() anew) *)
Definition visit_quoted_atom (m : pmap) (a : N) : pmap :=
  match pm_get m a with
  | Some p => pm_put m a (set_bad p)
  | None => pm_put m a {| bad := true; graphs := []; out_degree := 0; predecessor := None; visited := 0 |}
  end.
Definition visit_term (ks : list tk) (m : pmap) (i : N) (t : N) (q : quad) : pmap :=
  match kind_of ks t with
  | TB => visit_bnode m i t q
  | TT _ _ _ => fold_left visit_quoted_atom (filter (is_bnode ks) (atoms (S (length ks)) ks t)) m
  | _ => m
  end.
(* iter_spog(q).enumerate() *)
Definition spog (q : quad) : list (N * N) :=
  [(0, q_s q); (1, q_p q); (2, q_o q)] ++ match q_g q with Some g => [(3, g)] | None => [] end.
Definition visit_quad (ks : list tk) (m : pmap) (q : quad) : pmap :=
  fold_left (fun m it => visit_term ks m (fst it) (snd it) q) (spog q) m.
Definition profiles (ks : list tk) (quads : list quad) : pmap := fold_left (visit_quad ks) quads [].

(* --- cycle detection (REPAIRED: per-walk stamp) --- *)
Fixpoint walk (fuel : nat) (stamp : N) (m : pmap) (current : option N) : pmap :=
  match fuel with
  | O => m
  | S f =>
      match current with
      | None => m
      | Some t =>
          match pm_get m t with
          | None => m
          | Some p =>
              if bad p then m
              else if N.eqb (visited p) stamp then pm_put m t (set_bad p)
              else if negb (N.eqb (visited p) 0) then m
              else walk f stamp (pm_put m t (set_visited p stamp)) (predecessor p)
          end
      end
  end.
Definition detect_step (m : pmap) (ik : N * N) : pmap :=
  let stamp := fst ik + 1 in
  let key := snd ik in
  match pm_get m key with
  | None => m
  | Some p =>
      if bad p || negb (N.eqb (visited p) 0) then m
      else walk (S (length m)) stamp (pm_put m key (set_visited p stamp)) (predecessor p)
  end.
Fixpoint enumerate_from {A} (i : N) (l : list A) : list (N * A) :=
  match l with [] => [] | x :: l' => (i, x) :: enumerate_from (i + 1) l' end.
Definition keys (m : pmap) : list N := map fst m.
Definition detect_cycles (m : pmap) : pmap := fold_left detect_step (enumerate_from 0 (keys m)) m.
Definition labelled_of (m : pmap) : list N := map fst (filter (fun kp => bad (snd kp)) m).
Definition build_labelled (ks : list tk) (quads : list quad) : list N :=
  labelled_of (detect_cycles (profiles ks quads)).

(* --- cycle detection (PRE-FIX: one boolean mark shared by all walks; visited = 0 / 1) --- *)
Fixpoint walk_old (fuel : nat) (key : N) (m : pmap) (current : option N) : pmap :=
  match fuel with
  | O => m
  | S f =>
      match current with
      | None => m
      | Some t =>
          match pm_get m t with
          | None => m
          | Some p =>
              if N.eqb t key then pm_put m t (set_bad p)
              else if bad p || negb (N.eqb (visited p) 0) then m
              else walk_old f key (pm_put m t (set_visited p 1)) (predecessor p)
          end
      end
  end.
Definition detect_step_old (m : pmap) (key : N) : pmap :=
  match pm_get m key with
  | None => m
  | Some p =>
      if bad p || negb (N.eqb (visited p) 0) then m
      else walk_old (S (length m)) key (pm_put m key (set_visited p 1)) (predecessor p)
  end.
Definition detect_cycles_old (m : pmap) : pmap := fold_left detect_step_old (keys m) m.
Definition build_labelled_old (ks : list tk) (quads : list quad) : list N :=
  labelled_of (detect_cycles_old (profiles ks quads)).

(* ===================================================================================== *)
(* build_subject_types                                                                   *)
(* ===================================================================================== *)
Inductive stype := Root | SubTree | Annotation | Done.
Definition stype_eqb (a b : stype) : bool :=
  match a, b with Root, Root | SubTree, SubTree | Annotation, Annotation | Done, Done => true | _, _ => false end.
Definition skey := (gname * N)%type.
Definition skey_eqb (a b : skey) : bool := g_eqb (fst a) (fst b) && N.eqb (snd a) (snd b).
Definition stmap := list (skey * stype).
Fixpoint st_get (m : stmap) (k : skey) : option stype :=
  match m with [] => None | (k', v) :: m' => if skey_eqb k k' then Some v else st_get m' k end.
Definition st_remove (m : stmap) (k : skey) : stmap := filter (fun kv => negb (skey_eqb k (fst kv))) m.
Fixpoint st_set (m : stmap) (k : skey) (v : stype) : stmap :=
  match m with
  | [] => []
  | (k', v') :: m' => if skey_eqb k k' then (k', v) :: m' else (k', v') :: st_set m' k v
  end.

(* Dataset::contains / quads_matching(Any, Any, [s], [g]).take(2).count() *)
Definition contains (quads : list quad) (g : gname) (s p o : N) : bool := existsb (quad_eqb (g, s, p, o)) quads.
Definition count_as_object (quads : list quad) (g : gname) (s : N) : nat :=
  length (filter (fun q => N.eqb (q_o q) s && g_eqb (q_g q) g) quads).

Definition subject_type (ks : list tk) (first rest : N) (labelled : list N) (quads : list quad) (g : gname) (s : N) : stype :=
  match kind_of ks s with
  | TB => if negb (memN s labelled) && Nat.eqb (count_as_object quads g s) 1 then SubTree else Root
  | TT a b c => if negb (N.eqb first b) && negb (N.eqb rest b) && contains quads g a b c then Annotation else Root
  | _ => Root
  end.
(* d.iter().map(|q| (q.g(), q.s())).dedup(): consecutive duplicates removed *)
Fixpoint dedup_adj (l : list skey) : list skey :=
  match l with
  | [] => []
  | x :: l' => match l' with
               | y :: _ => if skey_eqb x y then dedup_adj l' else x :: dedup_adj l'
               | [] => [x]
               end
  end.
Definition build_subject_types (ks : list tk) (first rest : N) (labelled : list N) (quads : list quad) : stmap :=
  map (fun k => (k, subject_type ks first rest labelled quads (fst k) (snd k)))
      (dedup_adj (map (fun q => (q_g q, q_s q)) quads)).

(* ===================================================================================== *)
(* build_lists / list_item                                                               *)
(* ===================================================================================== *)
Definition subject_quads (quads : list quad) (s : N) : list quad := filter (fun q => N.eqb (q_s q) s) quads.

(* list_item (REPAIRED): exactly one rdf:first, at most one rdf:rest, nothing else *)
Fixpoint list_item_go (first rest : N) (qs : list quad) (ret : option N) (has_rest : bool) : option N :=
  match qs with
  | [] => ret
  | q :: qs' =>
      if N.eqb rest (q_p q) && negb has_rest then list_item_go first rest qs' ret true
      else if N.eqb first (q_p q) && (match ret with None => true | Some _ => false end)
           then list_item_go first rest qs' (Some (q_o q)) has_rest
      else None
  end.
Definition list_item (first rest : N) (quads : list quad) (s : N) : option N :=
  list_item_go first rest (subject_quads quads s) None false.

(* list_item (PRE-FIX): every rdf:rest is skipped *)
Fixpoint list_item_old_go (first rest : N) (qs : list quad) (ret : option N) : option N :=
  match qs with
  | [] => ret
  | q :: qs' =>
      if N.eqb rest (q_p q) then list_item_old_go first rest qs' ret
      else if N.eqb first (q_p q) && (match ret with None => true | Some _ => false end)
           then list_item_old_go first rest qs' (Some (q_o q))
      else None
  end.
Definition list_item_old (first rest : N) (quads : list quad) (s : N) : option N :=
  list_item_old_go first rest (subject_quads quads s) None.

(* preds: BTreeMap<object, subject> with the Vacant -> insert / Occupied -> remove toggle *)
Definition nmap := list (N * N).
Fixpoint nm_get (m : nmap) (k : N) : option N :=
  match m with [] => None | (k', v) :: m' => if N.eqb k k' then Some v else nm_get m' k end.
Definition nm_remove (m : nmap) (k : N) : nmap := filter (fun kv => negb (N.eqb k (fst kv))) m.
Definition nm_toggle (m : nmap) (k v : N) : nmap :=
  match nm_get m k with None => (k, v) :: m | Some _ => nm_remove m k end.

Record lstate := { l_preds : nmap; l_seeds : list (skey * N); l_st : stmap }.

Section Lists.
  Variable item : N -> option N.      (* list_item or list_item_old, on the dataset *)
  Variables (ks : list tk) (rest nil : N).

  (* first loop, over quads_matching(BlankNode, [rdf::rest], Any, Any) *)
  Definition lists_scan_step (st : lstate) (q : quad) : lstate :=
    let s := q_s q in let o := q_o q in let g := q_g q in
    if negb (is_bnode ks s && N.eqb rest (q_p q)) then st
    else if negb (opt_eqb stype_eqb (st_get (l_st st) (g, s)) (Some SubTree)) then st
    else if N.eqb nil o then
      match item s with
      | Some v => {| l_preds := l_preds st; l_seeds := l_seeds st ++ [((g, s), v)]; l_st := st_remove (l_st st) (g, s) |}
      | None => st
      end
    else if is_bnode ks o then {| l_preds := nm_toggle (l_preds st) o s; l_seeds := l_seeds st; l_st := l_st st |}
    else st.

  (* the `loop` climbing from a seed: returns the head, the items pushed so far (last item first) and the
     cells taken off subject_types *)
  Fixpoint climb (fuel : nat) (preds : nmap) (bn : N) (items : list N) (removed : list N) : N * list N * list N :=
    match fuel with
    | O => (bn, items, removed)
    | S f =>
        match nm_get preds bn with
        | Some pred =>
            match item pred with
            | Some v => climb f preds pred (v :: items) (pred :: removed)
            | None => (bn, items, removed)
            end
        | None => (bn, items, removed)
        end
    end.
End Lists.

(* collect::<BTreeMap<_, _>>(): a later entry with the same key replaces an earlier one *)
Definition lmap := list (N * list N).
Fixpoint lm_get (m : lmap) (k : N) : option (list N) :=
  match m with [] => None | (k', v) :: m' => if N.eqb k k' then Some v else lm_get m' k end.
Fixpoint lm_put (m : lmap) (k : N) (v : list N) : lmap :=
  match m with
  | [] => [(k, v)]
  | (k', v') :: m' =>
      if k <? k' then (k, v) :: m else if N.eqb k k' then (k, v) :: m' else (k', v') :: lm_put m' k v
  end.
Definition lm_remove (m : lmap) (k : N) : lmap := filter (fun kv => negb (N.eqb k (fst kv))) m.

(* build_lists: the map head -> items, and subject_types without the list cells *)
Definition build_lists_with (item : N -> option N) (ks : list tk) (rest nil : N) (quads : list quad) (st0 : stmap)
  : lmap * stmap :=
  let sc := fold_left (lists_scan_step item ks rest nil) quads {| l_preds := []; l_seeds := []; l_st := st0 |} in
  fold_left (fun (acc : lmap * stmap) (seed : skey * N) =>
               let g := fst (fst seed) in
               let r := climb item (S (length quads)) (l_preds sc) (snd (fst seed)) [snd seed] [] in
               let head := fst (fst r) in
               (* items were pushed in reverse order, then reversed: here they are consed, already in order *)
               (lm_put (fst acc) head (snd (fst r)),
                fold_left (fun st c => st_remove st (g, c)) (snd r) (snd acc)))
            (l_seeds sc) ([], l_st sc).
Definition build_lists (first rest nil : N) (ks : list tk) (quads : list quad) (st0 : stmap) : lmap * stmap :=
  build_lists_with (list_item first rest quads) ks rest nil quads st0.
Definition build_lists_old (first rest nil : N) (ks : list tk) (quads : list quad) (st0 : stmap) : lmap * stmap :=
  build_lists_with (list_item_old first rest quads) ks rest nil quads st0.

(* ===================================================================================== *)
(* the plan                                                                              *)
(* ===================================================================================== *)
Record plan := { pl_labelled : list N; pl_lists : lmap; pl_st : stmap }.
Definition make_plan (ks : list tk) (first rest nil : N) (quads : list quad) : plan :=
  let lab := build_labelled ks quads in
  let st0 := build_subject_types ks first rest lab quads in
  let ls := build_lists first rest nil ks quads st0 in
  {| pl_labelled := lab; pl_lists := fst ls; pl_st := snd ls |}.
Definition make_plan_old (ks : list tk) (first rest nil : N) (quads : list quad) : plan :=
  let lab := build_labelled_old ks quads in
  let st0 := build_subject_types ks first rest lab quads in
  let ls := build_lists_old first rest nil ks quads st0 in
  {| pl_labelled := lab; pl_lists := fst ls; pl_st := snd ls |}.

(* ===================================================================================== *)
(* the writer, reduced to the statements it makes                                        *)
(* ===================================================================================== *)
(* state of the writer: subject_types (with Done marks), lists not written yet, statements made so far,
   and a flag cleared when the recursion budget is exhausted (the real writer would overflow its stack) *)
Record wstate := { w_st : stmap; w_lists : lmap; w_out : list quad; w_ok : bool }.
Definition w_emit (w : wstate) (q : quad) : wstate :=
  {| w_st := w_st w; w_lists := w_lists w; w_out := w_out w ++ [q]; w_ok := w_ok w |}.
Definition w_fail (w : wstate) : wstate :=
  {| w_st := w_st w; w_lists := w_lists w; w_out := w_out w; w_ok := false |}.
Definition w_done (w : wstate) (k : skey) : wstate :=
  {| w_st := st_set (w_st w) k Done; w_lists := w_lists w; w_out := w_out w; w_ok := w_ok w |}.
Definition w_take_list (w : wstate) (bn : N) : wstate :=
  {| w_st := w_st w; w_lists := lm_remove (w_lists w) bn; w_out := w_out w; w_ok := w_ok w |}.

(* the identifier of the quoted triple << s p o >>, if the dataset has that term *)
Fixpoint find_triple_from (i : N) (ks : list tk) (s p o : N) : option N :=
  match ks with
  | [] => None
  | k :: ks' => match k with
                | TT a b c => if N.eqb a s && N.eqb b p && N.eqb c o then Some i else find_triple_from (i + 1) ks' s p o
                | _ => find_triple_from (i + 1) ks' s p o
                end
  end.

Section Writer.
  Variables (ks : list tk) (first rest nil type_ : N) (labelled : list N) (quads : list quad).

  (* the cell that follows [c] in graph [g] *)
  Definition rest_of (g : gname) (c : N) : option N :=
    match filter (fun q => N.eqb (q_s q) c && N.eqb (q_p q) rest && g_eqb (q_g q) g) quads with
    | q :: _ => Some (q_o q)
    | [] => None
    end.

  (* quads_matching([subject], Any, Any, [g]): the rdf:type ones first *)
  Definition props_of (g : gname) (s : N) : list quad :=
    let mine := filter (fun q => N.eqb (q_s q) s && g_eqb (q_g q) g) quads in
    filter (fun q => N.eqb (q_p q) type_) mine ++ filter (fun q => negb (N.eqb (q_p q) type_)) mine.

  (* [write f true g w s]  = write_properties(s) in graph g
     [write f false g w t] = write_term(t) where t is a root, an object or a list item: only blank nodes make
                             statements (write_bnode); IRIs, literals and quoted triples are just spelled.
     One unit of fuel per call; running out of it stands for the stack overflow of the real writer. *)
  Fixpoint write (fuel : nat) (props : bool) (g : gname) (w : wstate) (t : N) : wstate :=
    match fuel with
    | O => w_fail w
    | S f =>
        if props then
          fold_left (fun w q =>
                       (* write_object(subject, predicate, object) *)
                       let w := write f false g (w_emit w q) (q_o q) in
                       match find_triple_from 0 ks (q_s q) (q_p q) (q_o q) with
                       | Some tr =>
                           match st_get (w_st w) (g, tr) with
                           | Some Annotation => w_done (write f true g w tr) (g, tr)       (* {| ... |} *)
                           | _ => w
                           end
                       | None => w
                       end)
                    (props_of g t) w
        else
          match kind_of ks t with
          | TB =>
              match lm_get (w_lists w) t with
              | Some items =>
                  (* ( i1 ... in ): read back as fresh cells c1..cn with ck first ik, ck rest c(k+1), cn rest nil;
                     the fresh cells are identified with the cells of the dataset, following rdf:rest from t *)
                  (fix go (w : wstate) (c : option N) (items : list N) : wstate :=
                     match items, c with
                     | [], _ => w
                     | it :: items', Some c =>
                         let w := w_emit w (g, c, first, it) in
                         let w := write f false g w it in
                         match items' with
                         | [] => w_emit w (g, c, rest, nil)
                         | _ :: _ => match rest_of g c with
                                     | Some r => go (w_emit w (g, c, rest, r)) (Some r) items'
                                     | None => w_fail w
                                     end
                         end
                     | _ :: _, None => w_fail w
                     end) (w_take_list w t) (Some t) items
              | None =>
                  if memN t labelled then w                                                 (* _:label *)
                  else match st_get (w_st w) (g, t) with
                       | Some SubTree => w_done (write f true g w t) (g, t)                 (* [ ... ] *)
                       | _ => w                                                             (* [] *)
                       end
              end
          | _ => w
          end
    end.

  Definition write_fuel : nat := 2 * length quads + 4.
  (* write_all / write_graph / write_tree: every subject that is (still) a Root when its turn comes *)
  Definition write_all (pl_st0 : stmap) (lists : lmap) : wstate :=
    fold_left (fun w (e : skey * stype) =>
                 let k := fst e in
                 match st_get (w_st w) k with
                 | Some Root =>
                     let w := write write_fuel false (fst k) w (snd k) in
                     let w := write write_fuel true (fst k) w (snd k) in
                     w_done w k
                 | _ => w
                 end)
              pl_st0 {| w_st := pl_st0; w_lists := lists; w_out := []; w_ok := true |}.
End Writer.

Definition emitted (ks : list tk) (first rest nil type_ : N) (quads : list quad) (pl : plan) : wstate :=
  write_all ks first rest nil type_ (pl_labelled pl) quads (pl_st pl) (pl_lists pl).

(* every quad of the dataset is stated exactly once, nothing else is stated, the writer terminated *)
Definition count_quad (q : quad) (l : list quad) : nat := length (filter (quad_eqb q) l).
Definition exactly_once (quads out : list quad) : bool :=
  Nat.eqb (length out) (length quads) && forallb (fun q => Nat.eqb (count_quad q out) 1) quads.

(* ===================================================================================== *)
(* harness-facing checkers                                                               *)
(* ===================================================================================== *)
Fixpoint sorted_insert (x : N) (l : list N) : list N :=
  match l with [] => [x] | y :: l' => if x <=? y then x :: l else y :: sorted_insert x l' end.
Definition sortN (l : list N) : list N := fold_right sorted_insert [] l.
Definition count_st (v : stype) (m : stmap) : N := N.of_nat (length (filter (fun kv => stype_eqb (snd kv) v) m)).

(* the model's plan against what the implementation wrote: the blank nodes that appear as `_:` labels, the
   number of `( ... )` collections and of `[ ... ]` property lists; and the model's own accounting check *)
Definition plan_ok (ks : list tk) (first rest nil type_ : N) (quads : list quad)
           (obs_labels : list N) (obs_collections obs_plists : N) : bool :=
  let pl := make_plan ks first rest nil quads in
  let w := emitted ks first rest nil type_ quads pl in
  list_eqb N.eqb (sortN (pl_labelled pl)) (sortN obs_labels) &&
  N.eqb (N.of_nat (length (pl_lists pl))) obs_collections &&
  N.eqb (count_st SubTree (pl_st pl)) obs_plists &&
  w_ok w && exactly_once quads (w_out w).

(* write_literal's decision *)
Definition lit_ok (dt lex : str) (obs_bare : bool) : bool := Bool.eqb (bare_literal dt lex) obs_bare.
(* write_iri's decision *)
Definition pair_eqb (a b : str * str) : bool := str_eqb (fst a) (fst b) && str_eqb (snd a) (snd b).
Definition pname_ok (pm : list (str * str)) (iri : str) (obs : option (str * str)) : bool :=
  opt_eqb pair_eqb (write_iri_pname pm iri) obs.
