//! C14: ORDER BY of sophia_sparql run through the public query API on small datasets drawn from a
//! pool of ~170 terms, against the Coq model (C14/Model.v) and an independent oracle:
//!   (i)   the ordered result is a permutation of the unordered solutions,
//!   (ii)  no later solution is '<' an earlier one (SPARQL operator '<' re-implemented here from
//!         the XSD lexical forms: exact decimals, promotion by correctly rounded parsing,
//!         codepoint order of strings, false < true, XSD partial order of dateTimes),
//!   (iii) unbound < blank node < IRI < literal < triple term,
//!   (iv)  the comparator observed by sorting every 2-element multiset of the pool is
//!         antisymmetric and its "not greater" is transitive on every triple of the pool,
//!   and sorting never panics.
//! The model receives, for every pool term, the value that the implementation itself parsed
//! (Debug rendering of ResultTerm::value()), so that lexical parsing is not part of the model.
use sophia_api::prelude::*;
use sophia_api::sparql::{Query as _, SparqlDataset as _};
use sophia_api::term::{SimpleTerm, Term, TermKind};
use sophia_sparql::{ResultTerm, SparqlQuery, SparqlWrapper};
use sophia_term::ArcTerm;
use std::cmp::Ordering;
use verif_harness::*;

// ---------------------------------------------------------------- pool
fn x(l: &str, local: &str) -> ST { lit_dt(l, &format!("{XSD}{local}")) }
fn pool_terms() -> Vec<ST> {
    let mut v: Vec<ST> = vec![];
    for l in ["0", "1", "-1", "9", "10", "007", "+5", "-0", "9007199254740991", "9007199254740992", "9007199254740993",
              "16777217", "9223372036854775807", "9223372036854775808", "123456789012345678901234567890",
              "-123456789012345678901234567890", "1a", " 1", "1_000", ""] { v.push(x(l, "integer")); }
    v.push(x(&format!("1{}", "0".repeat(400)), "integer"));
    for l in ["2.0", "1.0", "0.1", "1.5", "-1.5", "2.50", "2.5", "0.30000000000000004", "9007199254740992.5",
              "9007199254740993.0", "123456789012345678901234567890.123456789", "0.0000000000000000000000000000000000001",
              "1.", ".5", "-0.0", "1e3", "abc", "16777216.5"] { v.push(x(l, "decimal")); }
    for l in ["1", "1.0E0", "0.1", "1.5", "-1.5", "2.5e0", "9007199254740992", "9.007199254740993E15", "9007199254740994",
              "1e400", "INF", "-INF", "+INF", "NaN", "-0.0", "0", "5e-324", "1e-400", "1.7976931348623157e308",
              "0.30000000000000004", "16777217", "inf", "nan", "", "1e5x", "123456789012345678901234567890"] { v.push(x(l, "double")); }
    for l in ["1", "1.5", "0.1", "16777217", "16777216", "NaN", "INF", "-INF", "-0.0", "3.4028235e38", "x", "infinity", "2.5"] { v.push(x(l, "float")); }
    for (l, t) in [("5", "long"), ("-7", "int"), ("300", "short"), ("127", "byte"), ("300", "byte"), ("18446744073709551615", "unsignedLong"),
                   ("7", "unsignedInt"), ("8", "unsignedShort"), ("255", "unsignedByte"), ("256", "unsignedByte"), ("3", "nonNegativeInteger"),
                   ("-3", "nonNegativeInteger"), ("4", "positiveInteger"), ("0", "positiveInteger"), ("-2", "nonPositiveInteger"),
                   ("0", "nonPositiveInteger"), ("-6", "negativeInteger"), ("0", "negativeInteger"), ("1 ", "int"), ("2.0", "long")] { v.push(x(l, t)); }
    for l in ["a", "b", "B", "", "10", "9", "abc", "\u{e9}", "z\u{10000}", "1"] { v.push(x(l, "string")); }
    for (l, t) in [("a", "en"), ("a", "EN"), ("b", "en"), ("a", "fr"), ("a", "en-US"), ("", "en"), ("1", "de")] { v.push(lit_lang(l, t)); }
    for (l, d) in [("x", "http://example.org/dt"), ("1", "http://example.org/dt"), ("2", "http://example.org/dt")] { v.push(lit_dt(l, d)); }
    for (l, t) in [("2024", "gYear"), ("2024-01-01", "date"), ("P1D", "duration"), ("1", "hexBinary")] { v.push(x(l, t)); }
    v.push(lit_dt("<b>a</b>", &format!("{RDF}HTML")));
    for l in ["true", "false", "1", "0", "TRUE", "maybe"] { v.push(x(l, "boolean")); }
    for l in ["2024-09-17T12:00:00Z", "2024-09-17T13:00:00+01:00", "2024-09-17T23:00:00+10:00", "2024-09-17T10:00:00-05:00",
              "2024-09-17T15:00:00", "2024-09-17T12:00:00", "2024-09-18T06:00:00", "2024-09-17T24:00:00", "2024-09-18T00:00:00",
              "2024-09-17T12:00:00.5Z", "2024-09-17T12:00:00.500Z", "2024-09-17T12:00:00.25", "-0044-03-15T12:00:00Z", "12024-01-01T00:00:00Z",
              "2023-02-29T00:00:00", "yesterday", "2024-09-17T12:00:00+14:00", "2024-09-17T12:00:00-14:00", "2024-09-16T21:59:59Z",
              "2024-09-18T02:00:01Z", "1969-12-31T23:59:59.999999999Z", "1970-01-01T00:00:00"] { v.push(x(l, "dateTime")); }
    for i in ["http://example.org/a", "http://example.org/b", "http://example.org/A", "urn:x", "a:"] { v.push(iri(i)); }
    for b in ["b1", "b2", "B"] { v.push(bnode(b)); }
    v.push(triple(iri("http://example.org/a"), iri("http://example.org/p"), x("1", "integer")));
    v.push(triple(iri("http://example.org/a"), iri("http://example.org/p"), x("2", "integer")));
    v.push(triple(bnode("b1"), iri("http://example.org/p"), iri("http://example.org/a")));
    v
}

fn show(t: &ST) -> String {
    match t {
        SimpleTerm::Iri(i) => format!("<{}>", i.as_str()),
        SimpleTerm::BlankNode(b) => format!("_:{}", b.as_str()),
        SimpleTerm::LiteralDatatype(l, d) => { let l: String = if l.len() > 48 { format!("{}..({} chars)", &l[..12], l.len()) } else { l.to_string() }; format!("{:?}^^{}", l, d.as_str().replace(XSD, "xsd:").replace(RDF, "rdf:")) }
        SimpleTerm::LiteralLanguage(l, t) => format!("{:?}@{}", l, t.as_str()),
        SimpleTerm::Triple(spo) => format!("<< {} {} {} >>", show(&spo[0]), show(&spo[1]), show(&spo[2])),
        SimpleTerm::Variable(v) => format!("?{}", v.as_str()),
    }
}

mod ora {
    //! no `Term` trait in scope here (it would shadow Ord::cmp on the primitive types)
    use sophia_api::term::SimpleTerm;
    use std::cmp::Ordering;
    use verif_harness::{ST, XSD};
// ---------------------------------------------------------------- calendar
/// days since 1970-01-01 of a proleptic Gregorian date (astronomical year numbering)
pub fn days_from_civil(y: i64, m: i64, d: i64) -> i64 {
    let y = if m <= 2 { y - 1 } else { y };
    let era = if y >= 0 { y } else { y - 399 } / 400;
    let yoe = y - era * 400;
    let mp = (m + 9) % 12;
    let doy = (153 * mp + 2) / 5 + d - 1;
    let doe = yoe * 365 + yoe / 4 - yoe / 100 + doy;
    era * 146097 + doe - 719468
}
pub fn days_in_month(y: i64, m: i64) -> i64 {
    match m { 1 | 3 | 5 | 7 | 8 | 10 | 12 => 31, 4 | 6 | 9 | 11 => 30, _ => if (y % 4 == 0 && y % 100 != 0) || y % 400 == 0 { 29 } else { 28 } }
}

// ---------------------------------------------------------------- independent oracle: SPARQL '<' from the XSD lexical forms
#[derive(Clone, Debug)]
pub struct Dec { neg: bool, int: String, frac: String } // no leading zeros in int, no trailing zeros in frac
pub fn all_digits(s: &str) -> bool { s.bytes().all(|b| b.is_ascii_digit()) }
pub fn parse_dec(s: &str, allow_point: bool) -> Option<Dec> {
    let (neg, r) = match s.as_bytes().first()? { b'-' => (true, &s[1..]), b'+' => (false, &s[1..]), _ => (false, s) };
    let (i, f) = match r.find('.') { Some(p) if allow_point => (&r[..p], &r[p + 1..]), Some(_) => return None, None => (r, "") };
    if !all_digits(i) || !all_digits(f) || (i.is_empty() && f.is_empty()) { return None; }
    if r.contains('.') && i.is_empty() && f.is_empty() { return None; }
    Some(Dec { neg, int: i.trim_start_matches('0').to_string(), frac: f.trim_end_matches('0').to_string() })
}
impl Dec {
    pub fn is_zero(&self) -> bool { self.int.is_empty() && self.frac.is_empty() }
    pub fn cmp_abs(&self, o: &Dec) -> Ordering {
        self.int.len().cmp(&o.int.len()).then_with(|| self.int.cmp(&o.int)).then_with(|| {
            let n = self.frac.len().max(o.frac.len());
            format!("{:0<n$}", self.frac).cmp(&format!("{:0<n$}", o.frac))
        })
    }
    pub fn cmp(&self, o: &Dec) -> Ordering {
        match (self.is_zero(), o.is_zero()) { (true, true) => return Ordering::Equal, _ => {} }
        let (sn, on) = (self.neg && !self.is_zero(), o.neg && !o.is_zero());
        match (sn, on) { (false, true) => Ordering::Greater, (true, false) => Ordering::Less, (false, false) => self.cmp_abs(o), (true, true) => o.cmp_abs(self) }
    }
    pub fn text(&self) -> String { format!("{}{}.{}", if self.neg { "-" } else { "" }, if self.int.is_empty() { "0" } else { &self.int }, if self.frac.is_empty() { "0" } else { &self.frac }) }
}
pub fn int_dec(s: &str) -> Dec { parse_dec(s, false).unwrap() }
pub fn xsd_float_lexical(s: &str) -> bool {
    if matches!(s, "INF" | "-INF" | "+INF" | "NaN") { return true; }
    let (mant, exp) = match s.find(['e', 'E']) { Some(p) => (&s[..p], Some(&s[p + 1..])), None => (s, None) };
    if parse_dec(mant, true).is_none() { return false; }
    match exp { None => true, Some(e) => { let e = e.strip_prefix(['+', '-']).unwrap_or(e); !e.is_empty() && all_digits(e) } }
}
#[derive(Clone, Debug)]
pub enum OV { Dec(Dec), Dbl(f64), Flt(f32), Str(String), Bool(bool), Date { zoned: bool, secs: i64, frac: String }, Other }
pub fn xsd_datetime(s: &str) -> Option<OV> {
    let (neg, r) = if let Some(r) = s.strip_prefix('-') { (true, r) } else { (false, s) };
    let tpos = r.find('T')?;
    let (date, rest) = (&r[..tpos], &r[tpos + 1..]);
    let dp: Vec<&str> = date.split('-').collect();
    if dp.len() != 3 || dp[0].len() < 4 || dp[1].len() != 2 || dp[2].len() != 2 || !dp.iter().all(|p| all_digits(p)) { return None; }
    if dp[0].len() > 4 && dp[0].starts_with('0') { return None; }
    let y: i64 = dp[0].parse().ok()?; let y = if neg { -y } else { y };
    if y == 0 { return None; } // 0000 is not a year in XSD 1.0: leave it unconstrained
    let m: i64 = dp[1].parse().ok()?; let d: i64 = dp[2].parse().ok()?;
    let (time, tz) = if let Some(t) = rest.strip_suffix('Z') { (t, Some(0i64)) }
        else if rest.len() > 6 && matches!(rest.as_bytes()[rest.len() - 6], b'+' | b'-') && rest.as_bytes()[rest.len() - 3] == b':' {
            let o = &rest[rest.len() - 6..]; if !all_digits(&o[1..3]) || !all_digits(&o[4..6]) { return None; }
            let (hh, mm): (i64, i64) = (o[1..3].parse().ok()?, o[4..6].parse().ok()?);
            if mm > 59 || hh > 14 || (hh == 14 && mm != 0) { return None; }
            (&rest[..rest.len() - 6], Some(if o.starts_with('-') { -1 } else { 1 } * (hh * 3600 + mm * 60)))
        } else { (rest, None) };
    let tb = time.as_bytes();
    if tb.len() < 8 || tb[2] != b':' || tb[5] != b':' || !all_digits(&time[0..2]) || !all_digits(&time[3..5]) || !all_digits(&time[6..8]) { return None; }
    let frac = if tb.len() > 8 { if tb[8] != b'.' || tb.len() == 9 || !all_digits(&time[9..]) { return None; } time[9..].trim_end_matches('0').to_string() } else { String::new() };
    let (h, mi, sec): (i64, i64, i64) = (time[0..2].parse().ok()?, time[3..5].parse().ok()?, time[6..8].parse().ok()?);
    if m < 1 || m > 12 || d < 1 || d > days_in_month(y, m) || mi > 59 || sec > 59 { return None; }
    if h > 24 || (h == 24 && (mi != 0 || sec != 0 || !frac.is_empty())) { return None; }
    let secs = days_from_civil(y, m, d) * 86400 + h * 3600 + mi * 60 + sec - tz.unwrap_or(0);
    Some(OV::Date { zoned: tz.is_some(), secs, frac })
}
pub fn in_range(d: &Dec, lo: Option<&str>, hi: Option<&str>) -> bool {
    lo.map_or(true, |l| d.cmp(&int_dec(l)) != Ordering::Less) && hi.map_or(true, |h| d.cmp(&int_dec(h)) != Ordering::Greater)
}
pub fn oracle_value(t: &ST) -> OV {
    let SimpleTerm::LiteralDatatype(lex, dt) = t else { return OV::Other };
    let Some(local) = dt.as_str().strip_prefix(XSD) else { return OV::Other };
    let int = |lo: Option<&str>, hi: Option<&str>| match parse_dec(lex, false) { Some(d) if in_range(&d, lo, hi) => OV::Dec(d), _ => OV::Other };
    match local {
        "integer" => int(None, None),
        "decimal" => parse_dec(lex, true).map_or(OV::Other, OV::Dec),
        "double" => if xsd_float_lexical(lex) { lex.parse::<f64>().map_or(OV::Other, OV::Dbl) } else { OV::Other },
        "float" => if xsd_float_lexical(lex) { lex.parse::<f32>().map_or(OV::Other, OV::Flt) } else { OV::Other },
        "string" => OV::Str(lex.to_string()),
        "boolean" => match &lex[..] { "true" | "1" => OV::Bool(true), "false" | "0" => OV::Bool(false), _ => OV::Other },
        "dateTime" => xsd_datetime(lex).unwrap_or(OV::Other),
        "long" => int(Some("-9223372036854775808"), Some("9223372036854775807")),
        "int" => int(Some("-2147483648"), Some("2147483647")),
        "short" => int(Some("-32768"), Some("32767")),
        "byte" => int(Some("-128"), Some("127")),
        "unsignedLong" => int(Some("0"), Some("18446744073709551615")),
        "unsignedInt" => int(Some("0"), Some("4294967295")),
        "unsignedShort" => int(Some("0"), Some("65535")),
        "unsignedByte" => int(Some("0"), Some("255")),
        "nonNegativeInteger" => int(Some("0"), None),
        "positiveInteger" => int(Some("1"), None),
        "nonPositiveInteger" => int(None, Some("0")),
        "negativeInteger" => int(None, Some("-1")),
        _ => OV::Other,
    }
}
/// the comparison underlying '<' '>' (None: the operators raise a type error, or NaN is involved)
pub fn oracle_cmp_values(a: &OV, b: &OV) -> Option<Ordering> {
    use OV::*;
    let to64 = |v: &OV| match v { Dec(d) => d.text().parse::<f64>().ok(), Dbl(f) => Some(*f), Flt(f) => Some(*f as f64), _ => None };
    let to32 = |v: &OV| match v { Dec(d) => d.text().parse::<f32>().ok(), Flt(f) => Some(*f), _ => None };
    match (a, b) {
        (Dec(x), Dec(y)) => Some(x.cmp(y)),
        (Dbl(_), Dec(_) | Dbl(_) | Flt(_)) | (Dec(_) | Flt(_), Dbl(_)) => to64(a)?.partial_cmp(&to64(b)?),
        (Flt(_), Dec(_) | Flt(_)) | (Dec(_), Flt(_)) => to32(a)?.partial_cmp(&to32(b)?),
        (Str(x), Str(y)) => Some(x.as_str().cmp(y.as_str())),
        (Bool(x), Bool(y)) => Some(x.cmp(y)),
        (Date { zoned: z1, secs: s1, frac: f1 }, Date { zoned: z2, secs: s2, frac: f2 }) => {
            let key = |s: i64, f: &str| (s, format!("{f:0<40}"));
            if z1 == z2 { Some(key(*s1, f1).cmp(&key(*s2, f2))) }
            else {
                // XML Schema part 2, 3.2.7.4: compare the zoned one with the other at +14:00 and -14:00
                let (zs, zf, ns, nf, flip) = if *z1 { (*s1, f1, *s2, f2, false) } else { (*s2, f2, *s1, f1, true) };
                let r = if key(zs, zf) < key(ns - 50400, nf) { Some(Ordering::Less) } else if key(zs, zf) > key(ns + 50400, nf) { Some(Ordering::Greater) } else { None };
                r.map(|o| if flip { o.reverse() } else { o })
            }
        }
        _ => None,
    }
}
}
use ora::{OV, days_from_civil, oracle_cmp_values, oracle_value};

// ---------------------------------------------------------------- the value seen by the implementation, as a Coq term
fn coq_z(s: &str) -> String { let s = s.trim_start_matches('+'); if let Some(r) = s.strip_prefix('-') { format!("(-{r})%Z") } else { format!("({s})%Z") } }
fn coq_f64(f: f64) -> String {
    if f.is_nan() { return "FNaN".into(); }
    if f.is_infinite() { return format!("(FInf {})", coq_bool(f < 0.0)); }
    let b = f.to_bits(); let neg = b >> 63 == 1; let e = ((b >> 52) & 0x7ff) as i64; let fr = b & ((1u64 << 52) - 1);
    let (m, ex) = if e == 0 { (fr, -1074) } else { (fr + (1u64 << 52), e - 1075) };
    format!("(FFin {} {m} ({ex})%Z)", coq_bool(neg))
}
fn coq_f32(f: f32) -> String {
    if f.is_nan() { return "FNaN".into(); }
    if f.is_infinite() { return format!("(FInf {})", coq_bool(f < 0.0)); }
    let b = f.to_bits(); let neg = b >> 31 == 1; let e = ((b >> 23) & 0xff) as i64; let fr = (b & ((1u32 << 23) - 1)) as u64;
    let (m, ex) = if e == 0 { (fr, -149) } else { (fr + (1u64 << 23), e - 150) };
    format!("(FFin {} {m} ({ex})%Z)", coq_bool(neg))
}
/// chrono's Debug of NaiveDateTime / DateTime<FixedOffset>: [+-]Y..-MM-DDTHH:MM:SS[.f+][+-HH:MM[:SS]]
fn coq_datetime(s: &str, zoned: bool) -> Option<String> {
    let tpos = s.find('T')?;
    let (date, rest) = (&s[..tpos], &s[tpos + 1..]);
    let (neg, date) = if let Some(r) = date.strip_prefix('-') { (true, r) } else { (false, date.trim_start_matches('+')) };
    let mut it = date.rsplitn(3, '-');
    let d: i64 = it.next()?.parse().ok()?; let m: i64 = it.next()?.parse().ok()?; let y: i64 = it.next()?.parse().ok()?;
    let y = if neg { -y } else { y };
    let (time, off) = if zoned { let p = rest[8..].find(['+', '-'])? + 8; (&rest[..p], &rest[p..]) } else { (rest, "") };
    let (h, mi, sec): (i64, i64, i64) = (time[0..2].parse().ok()?, time[3..5].parse().ok()?, time[6..8].parse().ok()?);
    let nanos: u64 = if time.len() > 9 { let f = &time[9..]; format!("{f:0<9}")[..9].parse().ok()? } else { 0 };
    let mut secs = days_from_civil(y, m, d) * 86400 + h * 3600 + mi * 60 + sec;
    if zoned {
        let sg = if off.starts_with('-') { -1 } else { 1 };
        let parts: Vec<i64> = off[1..].split(':').map(|p| p.parse().unwrap_or(0)).collect();
        secs -= sg * (parts[0] * 3600 + parts.get(1).copied().unwrap_or(0) * 60 + parts.get(2).copied().unwrap_or(0));
    }
    Some(format!("({} {} {nanos})", if zoned { "Timezoned" } else { "Naive" }, coq_z(&secs.to_string())))
}
fn inner<'a>(s: &'a str, pre: &str) -> Option<&'a str> { s.strip_prefix(pre).and_then(|r| r.strip_suffix(')')) }
/// Coq `option value` from the Debug rendering of `ResultTerm::value()`
fn coq_value(t: &ST) -> Result<String, String> {
    let at: ArcTerm = t.into_term();
    let rt = ResultTerm::from(at);
    let dbg = format!("{:?}", rt.value());
    let bad = || format!("unexpected Debug rendering {dbg:?}");
    if dbg == "None" { return Ok("None".into()); }
    let v = inner(&dbg, "Some(").ok_or_else(bad)?;
    let body = if let Some(n) = inner(v, "Number(") {
        let num = if let Some(i) = inner(n, "NativeInt(") { format!("(NativeInt {})", coq_z(i)) }
        else if let Some(i) = inner(n, "BigInt(") { format!("(BigInt {})", coq_z(i)) }
        else if let Some(d) = inner(n, "Decimal(BigDecimal(").and_then(|r| r.strip_suffix(')')) {
            // sign=Plus, scale=2, digits=[250]   (digits: little-endian base 2^64)
            let mut sign = ""; let mut scale = ""; let mut digits = "";
            for part in d.splitn(3, ", ") { if let Some(r) = part.strip_prefix("sign=") { sign = r } else if let Some(r) = part.strip_prefix("scale=") { scale = r } else if let Some(r) = part.strip_prefix("digits=") { digits = r } }
            let limbs: Vec<&str> = digits.trim_start_matches('[').trim_end_matches(']').split(", ").filter(|s| !s.is_empty()).collect();
            let mut mag = "0".to_string();
            for l in limbs.iter().rev() { mag = format!("({l} + 18446744073709551616 * {mag})"); }
            let mag = if sign == "Minus" { format!("(- {mag})") } else { mag };
            format!("(Decimal ({mag})%Z {})", coq_z(scale))
        }
        else if let Some(f) = inner(n, "Float(") { format!("(Float {})", coq_f32(f.parse::<f32>().map_err(|_| bad())?)) }
        else if let Some(f) = inner(n, "Double(") { format!("(Double {})", coq_f64(f.parse::<f64>().map_err(|_| bad())?)) }
        else { return Err(bad()) };
        format!("(VNum {num})")
    } else if v.starts_with("String(") {
        match t.language_tag() { Some(tag) => format!("(VStr {} (Some {}))", coq_str(&t.lexical_form().unwrap()), coq_str(tag.as_str())), None => format!("(VStr {} None)", coq_str(&t.lexical_form().unwrap())) }
    } else if let Some(b) = inner(v, "Boolean(") {
        match b { "Some(true)" => "(VBool (Some true))".into(), "Some(false)" => "(VBool (Some false))".into(), "None" => "(VBool None)".to_string(), _ => return Err(bad()) }
    } else if let Some(d) = inner(v, "DateTime(") {
        if d == "None" { "(VDate None)".to_string() }
        else if let Some(n) = inner(d, "Some(Naive(").and_then(|r| r.strip_suffix(')')) { format!("(VDate (Some {}))", coq_datetime(n, false).ok_or_else(bad)?) }
        else if let Some(n) = inner(d, "Some(Timezoned(").and_then(|r| r.strip_suffix(')')) { format!("(VDate (Some {}))", coq_datetime(n, true).ok_or_else(bad)?) }
        else { return Err(bad()) }
    } else { return Err(bad()) };
    Ok(format!("(Some {body})"))
}

fn rank_of(t: Option<&ST>) -> u8 {
    match t { None => 0, Some(t) => match t.kind() { TermKind::BlankNode => 1, TermKind::Iri => 2, TermKind::Literal => 3, TermKind::Triple => 4, TermKind::Variable => 5 } }
}

// ---------------------------------------------------------------- running the implementation
struct Pool { terms: Vec<ST>, ov: Vec<OV>, names: Vec<String> }
type Key = Option<usize>;
fn key_name(p: &Pool, k: Key) -> String { match k { Some(i) => p.names[i].clone(), None => "UNBOUND".into() } }

/// the solutions (position of the row in `rows`) in the order produced by the query; `flip` puts
/// the branch producing unbound keys first in each UNION (to control the unsorted sequence)
fn run(p: &Pool, rows: &[Vec<Key>], descs: Option<&[bool]>, flip: bool) -> Result<Vec<(usize, Vec<Option<String>>)>, String> { run_x(p, rows, descs, flip, false) }
/// `expr`: order by the expressions (?xk * 1) instead of the variables
fn run_x(p: &Pool, rows: &[Vec<Key>], descs: Option<&[bool]>, flip: bool, expr: bool) -> Result<Vec<(usize, Vec<Option<String>>)>, String> {
    let nk = rows[0].len();
    let mut ds: Vec<([ST; 3], Option<ST>)> = vec![];
    for (i, r) in rows.iter().enumerate() {
        for (k, key) in r.iter().enumerate() {
            match key {
                Some(pi) => ds.push(([iri(&format!("x:s{i}")), iri(&format!("x:k{k}")), p.terms[*pi].clone()], None)),
                None => ds.push(([iri(&format!("x:s{i}")), iri(&format!("x:u{k}")), x("0", "integer")], None)),
            }
        }
    }
    let mut q = String::from("SELECT ?s");
    for k in 0..nk { q.push_str(&format!(" ?x{k}")); }
    q.push_str(" {");
    // no Join in sophia_sparql: one UNION branch (a single BGP) per set of unbound keys
    let masks: Vec<usize> = if flip { (0..1usize << nk).rev().collect() } else { (0..1usize << nk).collect() };
    for (bi, mask) in masks.iter().enumerate() {
        if bi > 0 { q.push_str(" UNION"); }
        q.push_str(" {");
        for k in 0..nk { q.push_str(&if mask >> k & 1 == 1 { format!(" ?s <x:u{k}> ?z{k} .") } else { format!(" ?s <x:k{k}> ?x{k} .") }); }
        q.push_str(" }");
    }
    q.push_str(" }");
    if let Some(d) = descs {
        q.push_str(" ORDER BY");
        for (k, desc) in d.iter().enumerate() { let e = if expr { format!("(?x{k} * 1)") } else { format!("?x{k}") }; q.push_str(&if *desc { format!(" DESC({e})") } else { format!(" {e}") }); }
    }
    let res = std::panic::catch_unwind(std::panic::AssertUnwindSafe(|| -> Result<Vec<(usize, Vec<Option<String>>)>, String> {
        let w = SparqlWrapper(&ds);
        let pq = SparqlQuery::parse(&q).map_err(|e| format!("parse error {e:?} in {q}"))?;
        let b = w.query(&pq).map_err(|e| format!("query error {e:?} in {q}"))?.into_bindings();
        let mut out = vec![];
        for row in b {
            let row = row.map_err(|e| format!("row error {e:?}"))?;
            let s = row[0].as_ref().ok_or("unbound ?s")?.iri().ok_or("?s not an IRI")?.as_str().strip_prefix("x:s").ok_or("?s")?.parse::<usize>().map_err(|_| "?s")?;
            out.push((s, row[1..].iter().map(|t| t.as_ref().map(|t| format!("{t}"))).collect()));
        }
        Ok(out)
    }));
    match res { Ok(r) => r, Err(_) => Err(format!("PANIC while evaluating {q}")) }
}

/// oracle (i)-(iii) on one ordered result; returns a description of the first violation
fn numeric_dt(t: &ST) -> bool {
    const N: [&str; 16] = ["integer", "decimal", "float", "double", "long", "int", "short", "byte", "unsignedLong", "unsignedInt", "unsignedShort", "unsignedByte", "nonNegativeInteger", "positiveInteger", "nonPositiveInteger", "negativeInteger"];
    match t { SimpleTerm::LiteralDatatype(_, dt) => dt.as_str().strip_prefix(XSD).map_or(false, |l| N.contains(&l)), _ => false }
}
fn check_output(p: &Pool, rows: &[Vec<Key>], descs: &[bool], unsorted: &[(usize, Vec<Option<String>>)], sorted: &[(usize, Vec<Option<String>>)]) -> Option<String> { check_output_x(p, rows, descs, unsorted, sorted, false) }
/// `expr`: the keys are (?xk * 1): a key that is certainly not a number is an error, hence unbound
fn check_output_x(p: &Pool, rows: &[Vec<Key>], descs: &[bool], unsorted: &[(usize, Vec<Option<String>>)], sorted: &[(usize, Vec<Option<String>>)], expr: bool) -> Option<String> {
    let mut a: Vec<_> = unsorted.to_vec(); let mut b: Vec<_> = sorted.to_vec(); a.sort(); b.sort();
    let mut seen: Vec<usize> = a.iter().map(|r| r.0).collect(); seen.dedup();
    if a != b || seen.len() != rows.len() { return Some(format!("(i) the ordered result is not a permutation of the {} unordered solutions: unordered {:?}, ordered {:?}", rows.len(), unsorted, sorted)); }
    for i in 0..sorted.len() {
        for j in i + 1..sorted.len() {
            let (e, l) = (&rows[sorted[i].0], &rows[sorted[j].0]);
            for k in 0..descs.len() {
                if e[k] == l[k] { continue; }
                let (te, tl) = (e[k].map(|i| &p.terms[i]), l[k].map(|i| &p.terms[i]));
                let (re, rl) = (rank_of(te), rank_of(tl));
                if expr {
                    // 0: certainly an error (unbound key), 1: a valid XSD number, 2: no opinion
                    let cls = |k: Key| match k { None => 0, Some(i) => if !numeric_dt(&p.terms[i]) { 0 } else if matches!(p.ov[i], OV::Dec(_) | OV::Dbl(_) | OV::Flt(_)) { 1 } else { 2 } };
                    let exp = match (cls(e[k]), cls(l[k])) {
                        (0, 0) => continue,
                        (0, 1) => Some(Ordering::Less), (1, 0) => Some(Ordering::Greater),
                        (1, 1) => oracle_cmp_values(&p.ov[e[k].unwrap()], &p.ov[l[k].unwrap()]).filter(|o| *o != Ordering::Equal),
                        _ => None,
                    }.map(|o| if descs[k] { o.reverse() } else { o });
                    if exp == Some(Ordering::Greater) {
                        return Some(format!("(ii)/(iii) on the expression key ({} * 1) {}: {} is output (position {i}) before {} (position {j}) although it must come after it; whole output on that key: [{}]",
                            "?x", if descs[k] { "DESC" } else { "ASC" }, key_name(p, e[k]), key_name(p, l[k]), sorted.iter().map(|r| key_name(p, rows[r.0][k])).collect::<Vec<_>>().join(", ")));
                    }
                    break;
                }
                let (exp, why) = if re != rl { (Some(Ord::cmp(&re, &rl)), "(iii) kind rank") }
                    else if re == 3 { (oracle_cmp_values(&p.ov[e[k].unwrap()], &p.ov[l[k].unwrap()]).filter(|o| *o != Ordering::Equal), "(ii) operator '<'") }
                    else { (None, "") };
                let exp = exp.map(|o| if descs[k] { o.reverse() } else { o });
                if exp == Some(Ordering::Greater) {
                    return Some(format!("{why}: with key {k} {}, {} is output (position {i}) before {} (position {j}) although it must come after it; whole output on that key: [{}]",
                        if descs[k] { "DESC" } else { "ASC" }, key_name(p, e[k]), key_name(p, l[k]), sorted.iter().map(|r| key_name(p, rows[r.0][k])).collect::<Vec<_>>().join(", ")));
                }
                break; // the first key on which the two solutions differ decides (as far as the oracle can tell)
            }
        }
    }
    None
}

/// the comparator observed on (k1, k2) by sorting the two-element multiset in both arrangements:
/// 0 Less, 1 Equal (input order kept both times), 2 Greater, 3 inconsistent
fn observe_pair(p: &Pool, k1: Key, k2: Key) -> Result<(u8, String), String> {
    if k1 == k2 { return Ok((1, "same key".into())); }
    let rows_a = vec![vec![k1], vec![k2]]; let rows_b = vec![vec![k2], vec![k1]];
    let (ua, sa) = (run(p, &rows_a, None, false)?, run(p, &rows_a, Some(&[false]), false)?);
    let (ub, sb) = (run(p, &rows_b, None, true)?, run(p, &rows_b, Some(&[false]), true)?);
    if ua.len() != 2 || ub.len() != 2 || sa.len() != 2 || sb.len() != 2 { return Err(format!("expected 2 solutions, got {ua:?} {sa:?} {ub:?} {sb:?}")); }
    // express every sequence with 0 = k1, 1 = k2
    let seq_a = |v: &[(usize, Vec<Option<String>>)]| [v[0].0, v[1].0];
    let seq_b = |v: &[(usize, Vec<Option<String>>)]| [1 - v[0].0, 1 - v[1].0];
    let (ia, oa, ib, ob) = (seq_a(&ua), seq_a(&sa), seq_b(&ub), seq_b(&sb));
    if ia == ib { return Err(format!("could not present {} and {} to the sort in both arrangements", key_name(p, k1), key_name(p, k2))); }
    // a stable-for-two sort swaps iff second < first
    let first_less_than_second_in = |inp: [usize; 2], out: [usize; 2]| inp != out; // true: input[1] < input[0]
    let (x_in_a, x_in_b) = (first_less_than_second_in(ia, oa), first_less_than_second_in(ib, ob));
    // in the arrangement whose input is [k1, k2] a swap means k2 < k1; in the other one it means k1 < k2
    let (k2_lt_k1, k1_lt_k2) = if ia == [0, 1] { (x_in_a, x_in_b) } else { (x_in_b, x_in_a) };
    let code = match (k1_lt_k2, k2_lt_k1) { (true, false) => 0, (false, false) => 1, (false, true) => 2, (true, true) => 3 };
    Ok((code, format!("inputs {ia:?}/{ib:?} outputs {oa:?}/{ob:?}")))
}

const TRIPLE_BASE: usize = 1_000_000_000;
const PAIR_BASE: usize = 3_000_000_000;
fn coq_key(k: Key) -> String { match k { Some(i) => format!("(Some p{i})"), None => "None".into() } }

fn main() {
    let a = parse_args();
    std::panic::set_hook(Box::new(|_| {}));
    let mut sum = Summary::default();
    sum.rule = "pool of RDF terms (all numeric XSD types incl. derived integers, NaN, +-INF, -0.0, 2^53+-1, 2^24+1, huge/tiny decimals and doubles, ill-typed and Rust-only lexical forms, plain/tagged strings, unknown datatypes, booleans, dateTimes with/without zone, IRIs, blank nodes, triple terms) + unbound; \
case = either an ordered pair of keys (comparator observed by sorting the two-element multiset in both arrangements with real ORDER BY queries) or a dataset of 2..8 (sometimes 24..60) solutions with 1 or 2 keys and random ASC/DESC; \
non-trivial = the keys of the case span at least two value classes (kind / numeric type / NaN / ill-typed / string / boolean / dateTime zone-ness) ; distinct = distinct (keys, directions); \
additionally every run sorts all 2-element multisets of the pool and checks the observed comparator on all triples (oracle iv)".into();
    let terms = pool_terms();
    let pool = Pool { ov: terms.iter().map(oracle_value).collect(), names: terms.iter().map(show).collect(), terms };
    let np = pool.terms.len();
    // header: the pool as Coq items (term + the value the implementation parsed)
    let mut header = String::from("From Sophia.C14 Require Import Model.\n");
    let mut class_tag: Vec<String> = vec![];
    for (i, t) in pool.terms.iter().enumerate() {
        let v = match coq_value(t) { Ok(v) => v, Err(e) => { eprintln!("c14: {e} for {}", pool.names[i]); std::process::exit(2) } };
        let dbg = { let at: ArcTerm = t.into_term(); format!("{:?}", ResultTerm::from(at).value()) };
        let tag = match t.kind() {
            TermKind::Literal => {
                let d = dbg.as_str();
                if d == "None" { "lit:no-value".to_string() } else if d.contains("NaN") { "num:nan".into() } else if d.contains("Float(") { "num:float".into() } else if d.contains("Double(") { "num:double".into() }
                else if d.contains("Decimal(") { "num:decimal".into() } else if d.contains("Int(") { "num:integer".into() } else if d.contains("String(") { if t.language_tag().is_some() { "str:lang".into() } else { "str:simple".into() } }
                else if d.contains("Boolean(Some") { "bool".into() } else if d.contains("Naive(") { "date:naive".into() } else if d.contains("Timezoned(") { "date:zoned".into() } else { "lit:ill-formed".into() }
            }
            k => format!("{k:?}"),
        };
        class_tag.push(tag);
        header.push_str(&format!("Definition p{i} : item := mkItem {} {}.\n", coq_term(t), v));
    }
    let tag_of = |k: Key| match k { Some(i) => class_tag[i].clone(), None => "unbound".into() };

    // ---------- oracle (iv): exhaustive sweep of the pool (seed independent)
    if a.only.is_none() {
        let n = np + 1; // index np stands for unbound
        let keyof = |i: usize| if i == np { None } else { Some(i) };
        let mut m = vec![vec![1u8; n]; n];
        let mut shown = 0;
        let mut bad_pairs = 0u64;
        for i in 0..n { for j in i + 1..n {
            match observe_pair(&pool, keyof(i), keyof(j)) {
                Ok((c, how)) => {
                    m[i][j] = c; m[j][i] = match c { 0 => 2, 2 => 0, c => c };
                    if c == 3 { bad_pairs += 1; if shown < 5 { shown += 1; sum.oracle_failures.push(((PAIR_BASE + i * 1000 + j).to_string(), format!("(iv) antisymmetry: sorting {{{}, {}}} reverses the pair whatever the input order ({how})", key_name(&pool, keyof(i)), key_name(&pool, keyof(j))))); } }
                }
                Err(e) => { sum.oracle_failures.push(((PAIR_BASE + i * 1000 + j).to_string(), e)); }
            }
        } }
        let le = |c: u8| c == 0 || c == 1;
        let (mut bad_triples, mut shown) = (0u64, 0);
        for i in 0..n { for j in 0..n { if j == i || !le(m[i][j]) { continue; } for k in 0..n {
            if k == i || k == j || !le(m[j][k]) { continue; }
            if !le(m[i][k]) {
                bad_triples += 1;
                // show witnesses from different class combinations first
                if shown < 12 && (shown < 4 || bad_triples % 997 == 0) { shown += 1;
                    let rel = |c: u8| if c == 0 { "<" } else { "~" };
                    sum.oracle_failures.push(((TRIPLE_BASE + (i * 1000 + j) * 1000 + k).to_string(), format!("(iv) transitivity: ORDER BY puts {a} {r1} {b} and {b} {r2} {c} but {c} < {a}  ('<' strictly before, '~' no preference; each pair observed by sorting the 2-element dataset in both input orders)",
                        a = key_name(&pool, keyof(i)), b = key_name(&pool, keyof(j)), c = key_name(&pool, keyof(k)), r1 = rel(m[i][j]), r2 = rel(m[j][k]))));
                }
            }
        } } }
        sum.extra.push(("sweep_pairs".into(), (n * (n - 1) / 2).to_string()));
        sum.extra.push(("sweep_inconsistent_pairs".into(), bad_pairs.to_string()));
        sum.extra.push(("sweep_intransitive_triples".into(), bad_triples.to_string()));
        sum.bump_by("sweep:pairs", (n * (n - 1) / 2) as u64);
        sum.bump_by("sweep:intransitive-triples", bad_triples);
        println!("c14: pool of {np} terms; sweep: {} pairs, {bad_pairs} inconsistent, {bad_triples} intransitive triples", n * (n - 1) / 2);
    }

    // ---------- replay of a sweep finding (ids above TRIPLE_BASE / PAIR_BASE)
    if let Some(id) = a.only.filter(|id| *id >= TRIPLE_BASE) {
        let keyof = |i: usize| if i == np { None } else { Some(i) };
        let ids: Vec<usize> = if id >= PAIR_BASE { let r = id - PAIR_BASE; vec![r / 1000, r % 1000] } else { let r = id - TRIPLE_BASE; vec![r / 1_000_000, r / 1000 % 1000, r % 1000] };
        if ids.iter().any(|i| *i > np) { eprintln!("c14: no such sweep case"); std::process::exit(2) }
        let mut obs = vec![];
        for (x, y) in if ids.len() == 2 { vec![(0, 1)] } else { vec![(0, 1), (1, 2), (0, 2)] } {
            let r = observe_pair(&pool, keyof(ids[x]), keyof(ids[y]));
            println!("CASE {id}: sorting {{{}, {}}} in both input orders => {}", key_name(&pool, keyof(ids[x])), key_name(&pool, keyof(ids[y])),
                match &r { Ok((c, how)) => format!("{} ({how})", ["first before second", "no preference", "second before first", "INCONSISTENT"][*c as usize]), Err(e) => e.clone() });
            obs.push(r.map(|r| r.0).unwrap_or(3));
        }
        let le = |c: u8| c == 0 || c == 1;
        let bad = obs.contains(&3) || (obs.len() == 3 && le(obs[0]) && le(obs[1]) && !le(obs[2]));
        println!("  oracle (iv): {}", if bad { "VIOLATED (the observed comparator is not a total preorder on these keys)" } else { "ok" });
        println!("c14: 1 cases, 1 distinct non-trivial, {} oracle failures", bad as u8);
        return;
    }

    // ---------- random cases
    let base = Rng::new(a.seed);
    let mut cases = vec![]; let mut seen = std::collections::HashSet::new();
    let range: Vec<usize> = match a.only { Some(i) => vec![i], None => (0..a.n).collect() };
    // indices by class, to draw related terms together
    let mut classes: Vec<(String, Vec<usize>)> = vec![];
    for (i, t) in class_tag.iter().enumerate() { let fam = t.split(':').next().unwrap().to_string(); match classes.iter_mut().find(|c| c.0 == fam) { Some(c) => c.1.push(i), None => classes.push((fam, vec![i])) } }
    for idx in range {
        let mut r = base.fork(idx as u64);
        let draw = |r: &mut Rng, focus: &Option<Vec<usize>>| -> Key {
            if r.chance(1, 14) { return None; }
            match focus { Some(f) if r.chance(3, 4) => Some(*r.pick(f)), _ => Some(r.below(np)) }
        };
        // half of the cases concentrate on one or two families (numbers, dates, ...) so that
        // value comparisons and fallbacks meet; the others draw from the whole pool
        let focus: Option<Vec<usize>> = if r.chance(1, 2) { let mut f = r.pick(&classes).1.clone(); if r.chance(1, 2) { f.extend(r.pick(&classes).1.iter().copied()); } Some(f) } else { None };
        let kind = r.below(20);
        let (text, body, desc_txt, failure, keys_flat): (String, Option<String>, String, Option<String>, Vec<Key>);
        if kind < 7 {
            let (k1, k2) = (draw(&mut r, &focus), draw(&mut r, &focus));
            text = format!("pair {} | {}", key_name(&pool, k1), key_name(&pool, k2));
            keys_flat = vec![k1, k2];
            match observe_pair(&pool, k1, k2) {
                Ok((code, how)) => {
                    desc_txt = format!("observed {} ({how})", ["Less", "Equal", "Greater", "INCONSISTENT"][code as usize]);
                    // oracle (ii)/(iii) on the pair through a plain ascending sort
                    let rows = vec![vec![k1], vec![k2]];
                    failure = if code == 3 { Some(format!("(iv) antisymmetry: sorting {{{}, {}}} reverses the pair whatever the input order", key_name(&pool, k1), key_name(&pool, k2))) }
                        else { match (run(&pool, &rows, None, false), run(&pool, &rows, Some(&[false]), false)) { (Ok(u), Ok(s)) => check_output(&pool, &rows, &[false], &u, &s), (Err(e), _) | (_, Err(e)) => Some(e) } };
                    body = Some(format!("pair_ok {} {} {code}", coq_key(k1), coq_key(k2)));
                    sum.bump(&format!("pair:{}", ["less", "equal", "greater", "inconsistent"][code as usize]));
                }
                Err(e) => { desc_txt = e.clone(); failure = Some(e); body = None; }
            }
        } else {
            let expr = kind == 17 || kind == 18;
            let n = if kind == 19 { r.range(24, 60) } else { r.range(2, 8) };
            let nk = if kind == 19 || expr { 1 } else { r.range(1, 2) };
            let descs: Vec<bool> = (0..nk).map(|_| r.chance(1, 3)).collect();
            // with two keys, the first one is drawn from few values so that ties happen
            let few: Vec<Key> = (0..3).map(|_| draw(&mut r, &focus)).collect();
            let rows: Vec<Vec<Key>> = (0..n).map(|_| (0..nk).map(|k| if nk == 2 && k == 0 { *r.pick(&few) } else { draw(&mut r, &focus) }).collect()).collect();
            let flip = r.chance(1, 2);
            text = format!("rows [{}] order {}{}{}", rows.iter().map(|row| row.iter().map(|k| key_name(&pool, *k)).collect::<Vec<_>>().join(" & ")).collect::<Vec<_>>().join("; "),
                descs.iter().map(|d| if *d { "DESC" } else { "ASC" }).collect::<Vec<_>>().join(","), if flip { " (unbound first in input)" } else { "" }, if expr { " by the expression (?x0 * 1)" } else { "" });
            keys_flat = rows.iter().flatten().copied().collect();
            match (run(&pool, &rows, None, flip), run_x(&pool, &rows, Some(&descs), flip, expr)) {
                (Ok(u), Ok(s)) => {
                    failure = check_output_x(&pool, &rows, &descs, &u, &s, expr);
                    desc_txt = format!("output order (row numbers) {:?}", s.iter().map(|x| x.0).collect::<Vec<_>>());
                    body = Some(format!("{} {} {} {}", if expr { "expr_rows_ok" } else { "rows_ok" }, coq_list(descs.iter().map(|d| coq_bool(*d).to_string())),
                        coq_list(rows.iter().map(|row| coq_list(row.iter().map(|k| coq_key(*k))))), coq_list(s.iter().map(|x| x.0.to_string()))));
                    sum.bump(&format!("rows:{}key{}{}", nk, if n > 8 { ":large" } else { "" }, if expr { ":expression" } else { "" }));
                }
                (Err(e), _) | (_, Err(e)) => { desc_txt = e.clone(); failure = Some(if e.starts_with("PANIC") { format!("sorting panicked: {e}") } else { e }); body = None; }
            }
        }
        if let Some(f) = &failure { sum.oracle_failures.push((idx.to_string(), format!("{f}  [case: {text}]"))); }
        if a.only.is_some() { println!("CASE {idx}: {text}\n  => {desc_txt}\n  oracle: {}\n  coq: {}", failure.clone().unwrap_or("ok".into()), body.clone().unwrap_or("-".into())); }
        let mut tags: Vec<String> = keys_flat.iter().map(|k| tag_of(*k)).collect(); tags.sort(); tags.dedup();
        let nontrivial = tags.len() >= 2;
        if seen.insert(text.clone()) && nontrivial { sum.distinct_nontrivial += 1; }
        for t in &tags { sum.bump(&format!("has:{t}")); }
        if sum.samples.len() < 6 && nontrivial && text.len() < 400 { sum.samples.push(format!("case {idx}: {text} => {desc_txt}")); }
        sum.evaluations += 1;
        if let Some(b) = body { cases.push((idx, b)); }
    }
    if a.only.is_none() {
        sum.shards = write_shards(&a.out, &header, &cases, a.shards);
        sum.extra.push(("coq_cases".into(), cases.len().to_string()));
        sum.extra.push(("pool_size".into(), np.to_string()));
        std::fs::write(format!("{}/summary.json", a.out), sum.to_json()).unwrap();
    }
    println!("c14: {} cases, {} distinct non-trivial, {} oracle failures", sum.evaluations, sum.distinct_nontrivial, sum.oracle_failures.len());
}
