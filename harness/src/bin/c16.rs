//! C16: stack use does not grow with the amount of data processed.
//!
//! Three things happen here:
//!  1. correspondence: small generated inputs run through the real iterators / quoted_string /
//!     GRAPH ?g / JSON-LD list serialisation / constituents, printed as Coq boolean cases against
//!     C16/Model.v (functional results only);
//!  2. ORACLE (i): stack-address probes through caller-supplied callbacks (closure matchers,
//!     io::Write sinks, a probing Dataset) at 10^4 and 10^5 elements: the spread of the addresses
//!     seen by the callback must stay below 64 KiB; the slope is reported in bytes/element;
//!     plus, as exploration, the high-water mark of a fresh thread stack measured with mincore(2);
//!  3. ORACLE (ii): every operation at the requested sizes on a thread with a 2 MiB stack in a
//!     SUBPROCESS of this very binary (so in the profile it was built with): a stack overflow
//!     aborts the child, the parent reports which operation, size and profile.
use sophia_api::dataset::{Dataset, MutableDataset};
use sophia_api::graph::{Graph, MutableGraph};
use sophia_api::prelude::*;
use sophia_api::serializer::{QuadSerializer, Stringifier, TripleSerializer};
use sophia_api::source::{IntoSource, QuadSource, Source, TripleSource};
use sophia_api::sparql::{Query as _, SparqlDataset as _};
use sophia_api::term::matcher::Any;
use sophia_api::term::{GraphName, SimpleTerm, Term};
use sophia_inmem::dataset::{FastDataset, LightDataset};
use sophia_inmem::graph::{FastGraph, LightGraph};
use std::cell::Cell;
use std::io::Write as _;
use verif_harness::*;

const PROFILE: &str = if cfg!(debug_assertions) { "dev" } else { "release" };
const RDF_FIRST: &str = "http://www.w3.org/1999/02/22-rdf-syntax-ns#first";
const RDF_REST: &str = "http://www.w3.org/1999/02/22-rdf-syntax-ns#rest";
const RDF_NIL: &str = "http://www.w3.org/1999/02/22-rdf-syntax-ns#nil";

// ---------------------------------------------------------------------------------------------
// address probe: callbacks record the address of one of their locals
// ---------------------------------------------------------------------------------------------
thread_local! { static PROBE: Cell<(usize, usize, u64)> = const { Cell::new((usize::MAX, 0, 0)) }; }
#[inline(never)]
fn probe() {
    let x = 0u8;
    let a = std::hint::black_box(&x) as *const u8 as usize;
    PROBE.with(|p| { let (lo, hi, n) = p.get(); p.set((lo.min(a), hi.max(a), n + 1)); });
}
fn probe_reset() { PROBE.with(|p| p.set((usize::MAX, 0, 0))); }
/// (spread in bytes, number of callback invocations)
fn probe_read() -> (usize, u64) { PROBE.with(|p| { let (lo, hi, n) = p.get(); if n == 0 { (0, 0) } else { (hi - lo, n) } }) }

/// io::Write sink that probes at each call and counts bytes
struct ProbeSink(u64);
impl std::io::Write for ProbeSink {
    fn write(&mut self, b: &[u8]) -> std::io::Result<usize> { probe(); self.0 += b.len() as u64; Ok(b.len()) }
    fn flush(&mut self) -> std::io::Result<()> { Ok(()) }
}

/// Dataset wrapper probing at each quads_matching / graph_names call
struct ProbeDs<D>(D);
impl<D: Dataset> Dataset for ProbeDs<D> {
    type Quad<'x> = D::Quad<'x> where Self: 'x;
    type Error = D::Error;
    fn quads(&self) -> impl Iterator<Item = Result<Self::Quad<'_>, Self::Error>> + '_ { probe(); self.0.quads() }
    fn quads_matching<'s, 't, S, P, O, G>(&'s self, sm: S, pm: P, om: O, gm: G) -> impl Iterator<Item = Result<Self::Quad<'s>, Self::Error>> + 't
    where 's: 't, S: sophia_api::term::matcher::TermMatcher + 't, P: sophia_api::term::matcher::TermMatcher + 't, O: sophia_api::term::matcher::TermMatcher + 't, G: sophia_api::term::matcher::GraphNameMatcher + 't {
        probe(); self.0.quads_matching(sm, pm, om, gm)
    }
    fn graph_names(&self) -> impl Iterator<Item = Result<sophia_api::dataset::DTerm<'_, Self>, Self::Error>> + '_ { probe(); self.0.graph_names() }
}

// ---------------------------------------------------------------------------------------------
// the operations, each parameterised by the number of elements along its size dimension
// ---------------------------------------------------------------------------------------------
const STATIC_OPS: &[(&str, &str)] = &[
    // (a) the five matching iterators, light and fast stores: n rows, all skipped but the last
    ("spo-light", "LightGraph::triples_matching(closure, Any, Any): SpoMatchingIterator skipping n-1 rows"),
    ("spo-fast", "FastGraph::triples_matching(closure, Any, Any): SpoMatchingIterator skipping n-1 rows"),
    ("bc-light", "LightGraph::triples_matching([s], closure, Any): BcMatchingIterator skipping n-1 rows"),
    ("bc-fast", "FastGraph::triples_matching([s], closure, Any): BcMatchingIterator skipping n-1 rows"),
    ("bc-fast-pos", "FastGraph::triples_matching(Any, [p], closure): BcMatchingIterator (POS index) skipping n-1 rows"),
    ("gspo-light", "LightDataset::quads_matching(closure, Any, Any, Any): GspoMatchingIterator skipping n-1 rows"),
    ("gspo-fast", "FastDataset::quads_matching(closure, Any, Any, Any): GspoMatchingIterator skipping n-1 rows"),
    ("bcd-light", "LightDataset::quads_matching(closure, Any, Any, [g]): BcdMatchingIterator skipping n-1 rows"),
    ("bcd-fast", "FastDataset::quads_matching(closure, Any, Any, [g]): BcdMatchingIterator skipping n-1 rows"),
    ("cd-light", "LightDataset::quads_matching([s], closure, Any, [g]): CdMatchingIterator skipping n-1 rows"),
    ("cd-fast", "FastDataset::quads_matching([s], closure, Any, [g]): CdMatchingIterator skipping n-1 rows"),
    // (b) escaped characters in one literal
    ("nt-escape", "NtSerializer on one literal with n escaped characters (nt::quoted_string)"),
    ("nq-escape", "NqSerializer on one literal with n escaped characters"),
    ("ttl-escape", "pretty TurtleSerializer on one literal with n escaped characters (nt::quoted_string)"),
    // (c) named graphs
    ("sparql-graph", "SELECT ?g ?s { GRAPH ?g { ?s ?p ?o } } over n named graphs (exec::graph_rec), all solutions consumed"),
    // (d) list items
    ("jsonld-list", "JsonLdSerializer on one RDF list of n items (engine::mark_list_node / populate_list)"),
    ("ttl-list", "pretty TurtleSerializer on one RDF list of n items"),
    // statements in one document / store
    ("insert-remove", "FastDataset: insert n quads, query, remove them all"),
    ("nt-roundtrip", "serialise n triples as N-Triples and parse them back"),
    ("ttl-roundtrip", "serialise n triples as (streaming) Turtle and parse them back"),
    ("ttl-pretty-stmts", "pretty TurtleSerializer on n statements with distinct subjects"),
    ("ttl-parse-list", "Turtle parser on one collection of n items"),
    ("jsonld-stmts", "JsonLdSerializer on n statements with distinct subjects"),
    ("sparql-bgp", "SELECT ?s { ?s <x:p> ?o FILTER(?o = <x:nope>) } over n triples (all filtered out)"),
    ("sparql-order", "SELECT ?s { ?s <x:p> ?o } ORDER BY DESC(?s) over n triples"),
    // a chain of n statements _:b(i) <x:p> _:b(i+1): no nesting in the data, the pretty serializer nests [ ... ]
    ("ttl-chain", "pretty TurtleSerializer on a chain of n blank nodes (the serializer chooses to nest them in [ ])"),
    ("ttl-type-chain", "pretty TurtleSerializer on a chain of n blank nodes linked by rdf:type (written with the 'a' shorthand, a separate code path)"),
];
/// every skip position of every matching iterator: "it-<store>-<constant positions or _>-<varying position>":
/// n rows that differ only in the varying position, queried with constants at the constant
/// positions, a caller-supplied matcher accepting only the last row at the varying position and
/// `Any`-like matchers elsewhere (so that n-1 rows are skipped at that position of whichever
/// iterator / index the store picks for this combination of constants)
fn generated_ops() -> Vec<(String, String)> {
    let mut v = vec![];
    for (store, name, npos) in [("lg", "LightGraph", 3usize), ("fg", "FastGraph", 3), ("ld", "LightDataset", 4), ("fd", "FastDataset", 4)] {
        for var in 0..npos { for mask in 0..(1u8 << npos) {
            if mask & (1 << var) != 0 { continue; }
            let consts: String = (0..npos).filter(|i| mask & (1 << i) != 0).map(|i| ['s', 'p', 'o', 'g'][i]).collect();
            let pat: Vec<String> = (0..npos).map(|i| if i == var { "closure".to_string() } else if mask & (1 << i) != 0 { format!("[{}]", ['s', 'p', 'o', 'g'][i]) } else { "any".to_string() }).collect();
            v.push((format!("it-{store}-{}-{}", if consts.is_empty() { "_" } else { &consts }, ['s', 'p', 'o', 'g'][var]),
                    format!("{name}::{}({}) over n rows differing in position {}: n-1 rows skipped at that position", if npos == 3 { "triples_matching" } else { "quads_matching" }, pat.join(", "), ['s', 'p', 'o', 'g'][var])));
        } }
    }
    v
}
fn ops() -> &'static [(&'static str, &'static str)] {
    static ALL: std::sync::OnceLock<Vec<(&'static str, &'static str)>> = std::sync::OnceLock::new();
    ALL.get_or_init(|| { let mut v: Vec<(&'static str, &'static str)> = STATIC_OPS.to_vec(); for (a, b) in generated_ops() { v.push((Box::leak(a.into_boxed_str()), Box::leak(b.into_boxed_str()))); } v })
}
/// matchers of the generated iterator operations
enum SM { K(ST), AnyM, Last }
impl sophia_api::term::matcher::TermMatcher for SM {
    type Term = ST;
    fn matches<T2: Term + ?Sized>(&self, t: &T2) -> bool { match self { SM::K(k) => Term::eq(k, t.borrow_term()), SM::AnyM => true, SM::Last => { probe(); t.iri().map_or(false, |i| i.as_str() == "x:last") } } }
    fn constant(&self) -> Option<&ST> { if let SM::K(k) = self { Some(k) } else { None } }
}
enum SG { K(GraphName<ST>), AnyM, Last }
impl sophia_api::term::matcher::GraphNameMatcher for SG {
    type Term = ST;
    fn matches<T2: Term + ?Sized>(&self, g: GraphName<&T2>) -> bool { match self { SG::K(k) => sophia_api::term::graph_name_eq(k.as_ref().map(|t| t.borrow_term()), g.map(|t| t.borrow_term())), SG::AnyM => true, SG::Last => { probe(); g.and_then(|t| t.iri()).map_or(false, |i| i.as_str() == "x:last") } } }
    fn constant(&self) -> Option<GraphName<&ST>> { if let SG::K(k) = self { Some(k.as_ref()) } else { None } }
}
fn run_generated(op: &str, n: usize) -> u64 {
    let parts: Vec<&str> = op.split('-').collect();
    let (store, consts, var) = (parts[1], parts[2], parts[3]);
    let var = "spog".find(var).unwrap();
    let fixed = [iri("x:s"), iri("x:p"), iri("x:o"), iri("x:g")];
    let row = |i: usize| -> [ST; 4] { let mut r = fixed.clone(); r[var] = if i + 1 == n { iri("x:last") } else { s_i(i) }; r };
    let sm = |pos: usize| if pos == var { SM::Last } else if consts.contains(['s', 'p', 'o', 'g'][pos]) { SM::K(fixed[pos].clone()) } else { SM::AnyM };
    let gm = || if var == 3 { SG::Last } else if consts.contains('g') { SG::K(Some(fixed[3].clone())) } else { SG::AnyM };
    fn g_go<G: MutableGraph + Graph>(mut g: G, n: usize, row: impl Fn(usize) -> [ST; 4], s: SM, p: SM, o: SM) -> u64 {
        for i in 0..n { let [a, b, c, _] = row(i); g.insert(a, b, c).ok().unwrap(); }
        g.triples_matching(s, p, o).count() as u64
    }
    fn d_go<D: MutableDataset + Dataset>(mut d: D, n: usize, row: impl Fn(usize) -> [ST; 4], s: SM, p: SM, o: SM, g: SG) -> u64 {
        for i in 0..n { let [a, b, c, gn] = row(i); d.insert(a, b, c, Some(gn)).ok().unwrap(); }
        d.quads_matching(s, p, o, g).count() as u64
    }
    match store {
        "lg" => g_go(LightGraph::new(), n, row, sm(0), sm(1), sm(2)),
        "fg" => g_go(FastGraph::new(), n, row, sm(0), sm(1), sm(2)),
        "ld" => d_go(LightDataset::new(), n, row, sm(0), sm(1), sm(2), gm()),
        _ => d_go(FastDataset::new(), n, row, sm(0), sm(1), sm(2), gm()),
    }
}
/// operations whose size dimension is one the property quantifies over (ORACLE); the rest would be exploration
fn in_oracle(_op: &str) -> bool { true }

fn s_i(i: usize) -> ST { iri(&format!("x:s{i}")) }
fn lit(i: usize) -> ST { lit_dt(&format!("{i}"), &format!("{XSD}string")) }
fn list_triples(n: usize) -> Vec<[ST; 3]> {
    let mut v = vec![[iri("x:s"), iri("x:p"), if n == 0 { iri(RDF_NIL) } else { bnode("l0") }]];
    for i in 0..n {
        v.push([bnode(&format!("l{i}")), iri(RDF_FIRST), lit(i)]);
        v.push([bnode(&format!("l{i}")), iri(RDF_REST), if i + 1 == n { iri(RDF_NIL) } else { bnode(&format!("l{}", i + 1)) }]);
    }
    v
}
fn escapes(n: usize) -> String { (0..n).map(|i| ['"', '\\', '\n', '\r'][i % 4]).collect() }

/// runs `op` at size `n`; the returned number is a functional summary that the caller checks
/// (expected value given by `expected`)
fn run_op(op: &str, n: usize) -> u64 {
    let last = |t: SimpleTerm| -> bool { probe(); t.iri().map_or(false, |i| i.as_str() == "x:last") };
    match op {
        o if o.starts_with("it-") => run_generated(o, n),
        "spo-light" | "spo-fast" => {
            fn go<G: MutableGraph + Graph>(mut g: G, n: usize, last: impl Fn(SimpleTerm) -> bool) -> u64 {
                for i in 0..n { g.insert(if i + 1 == n { iri("x:last") } else { s_i(i) }, iri("x:p"), iri("x:o")).ok().unwrap(); }
                g.triples_matching(last, Any, Any).count() as u64
            }
            if op == "spo-light" { go(LightGraph::new(), n, last) } else { go(FastGraph::new(), n, last) }
        }
        "bc-light" | "bc-fast" => {
            fn go<G: MutableGraph + Graph>(mut g: G, n: usize, last: impl Fn(SimpleTerm) -> bool) -> u64 {
                for i in 0..n { g.insert(iri("x:s"), if i + 1 == n { iri("x:last") } else { s_i(i) }, iri("x:o")).ok().unwrap(); }
                g.triples_matching([iri("x:s")], last, Any).count() as u64
            }
            if op == "bc-light" { go(LightGraph::new(), n, last) } else { go(FastGraph::new(), n, last) }
        }
        "bc-fast-pos" => {
            let mut g = FastGraph::new();
            for i in 0..n { g.insert(iri("x:s"), iri("x:p"), if i + 1 == n { iri("x:last") } else { s_i(i) }).unwrap(); }
            g.triples_matching(Any, [iri("x:p")], last).count() as u64
        }
        "gspo-light" | "gspo-fast" | "bcd-light" | "bcd-fast" | "cd-light" | "cd-fast" => {
            fn go<D: MutableDataset + Dataset>(mut d: D, kind: u8, n: usize, last: impl Fn(SimpleTerm) -> bool) -> u64 {
                let g = Some(iri("x:g"));
                for i in 0..n {
                    let v = if i + 1 == n { iri("x:last") } else { s_i(i) };
                    if kind == 2 { d.insert(iri("x:s"), v, iri("x:o"), g.as_ref()).ok().unwrap(); } else { d.insert(v, iri("x:p"), iri("x:o"), g.as_ref()).ok().unwrap(); }
                }
                match kind {
                    0 => d.quads_matching(last, Any, Any, Any).count() as u64,
                    1 => d.quads_matching(last, Any, Any, [g.as_ref()]).count() as u64,
                    _ => d.quads_matching([iri("x:s")], last, Any, [g.as_ref()]).count() as u64,
                }
            }
            let kind = if op.starts_with("gspo") { 0 } else if op.starts_with("bcd") { 1 } else { 2 };
            if op.ends_with("light") { go(LightDataset::new(), kind, n, last) } else { go(FastDataset::new(), kind, n, last) }
        }
        "nt-escape" => {
            let t = [iri("x:s"), iri("x:p"), lit_dt(&escapes(n), &format!("{XSD}string"))];
            let mut sink = ProbeSink(0);
            sophia_turtle::serializer::nt::NtSerializer::new(&mut sink).serialize_triples([t].into_iter().into_source()).unwrap();
            sink.0
        }
        "nq-escape" => {
            let q = ([iri("x:s"), iri("x:p"), lit_dt(&escapes(n), &format!("{XSD}string"))], Some(iri("x:g")));
            let mut sink = ProbeSink(0);
            sophia_turtle::serializer::nq::NqSerializer::new(&mut sink).serialize_quads([q].into_iter().into_source()).unwrap();
            sink.0
        }
        "ttl-escape" => {
            let t = [iri("x:s"), iri("x:p"), lit_dt(&escapes(n), &format!("{XSD}string"))];
            let cfg = sophia_turtle::serializer::turtle::TurtleConfig::new().with_pretty(true);
            let mut sink = ProbeSink(0);
            sophia_turtle::serializer::turtle::TurtleSerializer::new_with_config(&mut sink, cfg).serialize_triples([t].into_iter().into_source()).unwrap();
            sink.0
        }
        "sparql-graph" => {
            use sophia_sparql::{SparqlQuery, SparqlWrapper};
            let mut d = FastDataset::new();
            for i in 0..n { d.insert(s_i(i), iri("x:p"), iri("x:o"), Some(iri(&format!("x:g{i}")))).unwrap(); }
            let d = ProbeDs(d);
            let w = SparqlWrapper(&d);
            let q = SparqlQuery::parse("SELECT ?g ?s { GRAPH ?g { ?s ?p ?o } }").unwrap();
            let b = w.query(&q).unwrap().into_bindings();
            let mut c = 0;
            for row in b { let row = row.unwrap(); if row[0].is_some() && row[1].is_some() { c += 1; } }
            c
        }
        "jsonld-list" | "jsonld-stmts" => {
            let ts: Vec<[ST; 3]> = if op == "jsonld-list" { list_triples(n) } else { (0..n).map(|i| [s_i(i), iri("x:p"), lit(i)]).collect() };
            let mut ser = sophia_jsonld::JsonLdSerializer::new_stringifier();
            ser.serialize_quads(ts.into_iter().map(|t| (t, None::<ST>)).into_source()).unwrap();
            // functional summary: the number of "@value" entries
            String::from_utf8_lossy(ser.as_utf8()).matches("\"@value\"").count() as u64
        }
        "ttl-list" | "ttl-pretty-stmts" | "ttl-chain" | "ttl-type-chain" => {
            let ts: Vec<[ST; 3]> = match op {
                "ttl-list" => list_triples(n),
                "ttl-pretty-stmts" => (0..n).map(|i| [s_i(i), iri("x:p"), lit(i)]).collect(),
                "ttl-type-chain" => (0..n).map(|i| [if i == 0 { iri("x:s") } else { bnode(&format!("b{i}")) }, iri("http://www.w3.org/1999/02/22-rdf-syntax-ns#type"), bnode(&format!("b{}", i + 1))]).collect(),
                _ => (0..n).map(|i| [if i == 0 { iri("x:s") } else { bnode(&format!("b{i}")) }, iri("x:p"), bnode(&format!("b{}", i + 1))]).collect(),
            };
            let cfg = sophia_turtle::serializer::turtle::TurtleConfig::new().with_pretty(true);
            let mut ser = sophia_turtle::serializer::turtle::TurtleSerializer::new_stringifier_with_config(cfg);
            let orig: Vec<[ST; 3]> = if n <= 1000 { ts.clone() } else { vec![] };
            ser.serialize_triples(ts.into_iter().into_source()).unwrap();
            let out = ser.as_utf8().to_vec();
            // parse it back: the number of triples must be the original one
            let back: Vec<[ST; 3]> = match sophia_turtle::parser::turtle::parse_bufread(&out[..]).collect_triples() {
                Ok(b) => b,
                // Rio refuses documents nested deeper than its own limit with an error VALUE: a
                // legitimate way to terminate for C16 (that the serializer wrote such a document is C04's business)
                Err(e) if (op == "ttl-chain" || op == "ttl-type-chain") && format!("{e:?}").contains("StackOverflow") => return n as u64,
                Err(e) => panic!("the Turtle parser rejects the serializer's output: {e:?}"),
            };
            // small enough: the graph read back must be the graph written (up to blank node labels)
            if n <= 1000 && !sophia_isomorphism::isomorphic_graphs(&orig, &back).unwrap() { return u64::MAX; }
            (back.len() as u64 - 1) / if op == "ttl-list" { 2 } else { 1 } + if op == "ttl-list" { 0 } else { 1 }
        }
        "insert-remove" => {
            let mut d = FastDataset::new();
            for i in 0..n { d.insert(s_i(i % (n / 2 + 1)), iri(&format!("x:p{}", i % 7)), lit(i), Some(iri(&format!("x:g{}", i % 11)))).unwrap(); }
            let c = d.quads_matching(Any, [iri("x:p3")], Any, Any).count() as u64 + d.quads().count() as u64;
            for i in 0..n { d.remove(s_i(i % (n / 2 + 1)), iri(&format!("x:p{}", i % 7)), lit(i), Some(iri(&format!("x:g{}", i % 11)))).unwrap(); }
            c * (d.quads().count() == 0) as u64
        }
        "nt-roundtrip" | "ttl-roundtrip" => {
            let ts = (0..n).map(|i| [s_i(i / 3), iri(&format!("x:p{}", i % 3)), lit(i)]);
            let out = if op == "nt-roundtrip" {
                let mut ser = sophia_turtle::serializer::nt::NtSerializer::new_stringifier();
                ser.serialize_triples(ts.into_source()).unwrap(); ser.as_utf8().to_vec()
            } else {
                let mut ser = sophia_turtle::serializer::turtle::TurtleSerializer::new_stringifier();
                ser.serialize_triples(ts.into_source()).unwrap(); ser.as_utf8().to_vec()
            };
            let mut c = 0u64;
            if op == "nt-roundtrip" { sophia_turtle::parser::nt::parse_bufread(&out[..]).for_each_triple(|_| c += 1).unwrap(); }
            else { sophia_turtle::parser::turtle::parse_bufread(&out[..]).for_each_triple(|_| c += 1).unwrap(); }
            c
        }
        "ttl-parse-list" => {
            let mut doc = String::from("<x:s> <x:p> (");
            for i in 0..n { doc.push_str(&format!(" \"{i}\"")); }
            doc.push_str(" ) .\n");
            let mut c = 0u64;
            sophia_turtle::parser::turtle::parse_bufread(doc.as_bytes()).for_each_triple(|_| c += 1).unwrap();
            (c - 1) / 2
        }
        "sparql-bgp" | "sparql-order" => {
            use sophia_sparql::{SparqlQuery, SparqlWrapper};
            let mut d = FastDataset::new();
            for i in 0..n { d.insert(s_i(i), iri("x:p"), lit(i), None::<ST>).unwrap(); }
            let d = ProbeDs(d);
            let w = SparqlWrapper(&d);
            let q = SparqlQuery::parse(if op == "sparql-bgp" { "SELECT ?s { ?s <x:p> ?o FILTER(?o = <x:nope>) }" } else { "SELECT ?s { ?s <x:p> ?o } ORDER BY DESC(?s)" }).unwrap();
            let b = w.query(&q).unwrap().into_bindings();
            let c = b.into_iter().filter(|r| r.is_ok()).count() as u64;
            if op == "sparql-bgp" { n as u64 - c } else { c }
        }
        _ => panic!("unknown operation {op}"),
    }
}
/// the functional summary expected from run_op
fn expected(op: &str, n: usize) -> Option<u64> {
    match op {
        o if o.starts_with("it-") || o.starts_with("spo-") || o.starts_with("bc-") || o.starts_with("gspo-") || o.starts_with("bcd-") || o.starts_with("cd-") => Some(1),
        "nt-escape" | "nq-escape" | "ttl-escape" => None, // byte count, checked > 2n below
        "insert-remove" => Some((n + (n + 3) / 7) as u64),
        _ => Some(n as u64),
    }
}

// ---------------------------------------------------------------------------------------------
// measurement helpers
// ---------------------------------------------------------------------------------------------
unsafe extern "C" { fn mincore(addr: *mut u8, length: usize, vec: *mut u8) -> i32; }
static THREAD_SEQ: std::sync::atomic::AtomicUsize = std::sync::atomic::AtomicUsize::new(0);
const PAGE: usize = 4096;

/// number of bytes below `top` (a page-aligned address near the base of the current thread's
/// stack) that are resident, looking `len` bytes down: the high-water mark of a stack that was
/// freshly mapped for this thread (exploration: page granularity, needs a never-used stack)
fn resident_below(top: usize, len: usize) -> usize {
    let lo = top - len;
    let mut v = vec![0u8; len / PAGE];
    let rc = unsafe { mincore(lo as *mut u8, len, v.as_mut_ptr()) };
    if rc != 0 { usize::MAX } else { match v.iter().position(|b| b & 1 == 1) { Some(i) => len - i * PAGE, None => 0 } }
}
/// Runs `f` on a fresh thread with a `size`-byte stack; returns (result, callback spread,
/// callback calls, high-water mark of the stack in bytes)
fn on_thread<R: Send + 'static>(size: usize, f: impl FnOnce() -> R + Send + 'static) -> std::thread::Result<(R, usize, u64, usize)> {
    std::thread::Builder::new().stack_size(size).spawn(move || {
        let top_probe = 0u8;
        let top = (std::hint::black_box(&top_probe) as *const u8 as usize) & !(PAGE - 1);
        probe_reset();
        let r = f();
        let (spread, calls) = probe_read();
        // stay inside the mapping: TLS and the frames of the thread start-up sit above `top`
        let used = resident_below(top, size - (64 << 10));
        (r, spread, calls, used)
    }).unwrap().join()
}
/// the same on a stack too big for glibc's stack cache (never a reused, already-touched one) and
/// for any of the recursions to overflow at the sizes used here
fn on_big_thread<R: Send + 'static>(f: impl FnOnce() -> R + Send + 'static) -> Option<(R, usize, u64, usize)> {
    let size = (768usize << 20) + PAGE * 16 * THREAD_SEQ.fetch_add(1, std::sync::atomic::Ordering::SeqCst);
    on_thread(size, f).ok()
}

fn child_main(op: &str, n: usize, stack: usize) {
    let op2 = op.to_string();
    match on_thread(stack, move || run_op(&op2, n)) {
        Ok((v, spread, calls, used)) => { println!("OK {v} {spread} {calls} {used}"); }
        Err(_) => { println!("PANIC"); std::process::exit(3); }
    }
}

#[derive(Debug, Clone)]
enum ChildOutcome { Ok { value: u64, spread: usize, calls: u64, used: usize }, Crashed(String), TimedOut, Wrong(String) }
fn run_child(op: &str, n: usize, stack: usize, timeout_s: u64) -> (ChildOutcome, f64) {
    use std::os::unix::process::ExitStatusExt;
    use std::io::Read;
    let t0 = std::time::Instant::now();
    let mut ch = std::process::Command::new(std::env::current_exe().unwrap())
        .args(["--child", op, &n.to_string(), &stack.to_string()])
        .stdout(std::process::Stdio::piped()).stderr(std::process::Stdio::piped()).spawn().unwrap();
    let status = loop {
        if let Some(s) = ch.try_wait().unwrap() { break Some(s); }
        if t0.elapsed().as_secs() > timeout_s { let _ = ch.kill(); let _ = ch.wait(); break None; }
        std::thread::sleep(std::time::Duration::from_millis(20));
    };
    let dt = t0.elapsed().as_secs_f64();
    let Some(status) = status else { return (ChildOutcome::TimedOut, dt) };
    let (mut so, mut se) = (String::new(), String::new());
    if let Some(mut o) = ch.stdout.take() { let _ = o.read_to_string(&mut so); }
    if let Some(mut e) = ch.stderr.take() { let _ = e.read_to_string(&mut se); }
    if status.success() {
        let f: Vec<u64> = so.trim().strip_prefix("OK ").map(|v| v.split(' ').filter_map(|x| x.parse().ok()).collect()).unwrap_or_default();
        if f.len() == 4 { (ChildOutcome::Ok { value: f[0], spread: f[1] as usize, calls: f[2], used: f[3] as usize }, dt) } else { (ChildOutcome::Wrong(so), dt) }
    } else {
        let why = match status.signal() { Some(6) => "aborted (signal 6)".to_string(), Some(11) => "segmentation fault (signal 11)".to_string(), Some(sig) => format!("killed by signal {sig}"), None => format!("exit code {:?}", status.code()) };
        let msg: String = se.lines().filter(|l| l.contains("overflowed") || l.contains("panicked")).take(1).collect();
        (ChildOutcome::Crashed(format!("{why}{}{}", if msg.is_empty() { "" } else { ": " }, msg.trim())), dt)
    }
}

// ---------------------------------------------------------------------------------------------
// correspondence cases
// ---------------------------------------------------------------------------------------------
use sophia_api::term::matcher::{GraphNameMatcher, TermMatcher};
use std::cell::RefCell;

fn id_of<T: Term>(pool: &[ST], t: T) -> u64 { pool.iter().position(|x| Term::eq(x, t.borrow_term())).map_or(999, |i| i as u64 + 1) }
fn gid_of<T: Term>(pool: &[ST], g: GraphName<T>) -> u64 { g.map_or(0, |t| id_of(pool, t)) }

/// a caller-supplied matcher: a constant, "anything" (silent), or an accept-set that logs its calls
struct PM<'a> { konst: Option<ST>, any: bool, acc: Vec<u64>, pos: u8, log: &'a RefCell<Vec<(u8, u64)>>, pool: &'a [ST] }
impl TermMatcher for PM<'_> {
    type Term = ST;
    fn matches<T2: Term + ?Sized>(&self, t: &T2) -> bool {
        if let Some(k) = &self.konst { return Term::eq(k, t.borrow_term()); }
        if self.any { return true; }
        let id = id_of(self.pool, t.borrow_term());
        self.log.borrow_mut().push((self.pos, id));
        self.acc.contains(&id)
    }
    fn constant(&self) -> Option<&ST> { self.konst.as_ref() }
}
struct GM<'a> { konst: Option<GraphName<ST>>, any: bool, acc: Vec<u64>, log: &'a RefCell<Vec<(u8, u64)>>, pool: &'a [ST] }
impl GraphNameMatcher for GM<'_> {
    type Term = ST;
    fn matches<T2: Term + ?Sized>(&self, g: GraphName<&T2>) -> bool {
        if let Some(k) = &self.konst { return sophia_api::term::graph_name_eq(k.as_ref().map(|t| t.borrow_term()), g.map(|t| t.borrow_term())); }
        if self.any { return true; }
        let id = gid_of(self.pool, g.map(|t| t.borrow_term()));
        self.log.borrow_mut().push((3, id));
        self.acc.contains(&id)
    }
    fn constant(&self) -> Option<GraphName<&ST>> { self.konst.as_ref().map(|g| g.as_ref()) }
}

fn c_nlist(v: &[u64]) -> String { coq_list(v.iter().map(|x| x.to_string())) }
fn c_rows(v: &[Vec<u64>]) -> String { coq_list(v.iter().map(|r| c_nlist(r))) }

/// positions: 0 = s, 1 = p, 2 = o, 3 = g.  For a store kind and a set of constant positions:
/// the non-constant positions in the column order of the index the store picks
/// (inmem/src/graph.rs, inmem/src/dataset.rs), or None when no matching iterator is used
fn column_order(fast: bool, dataset: bool, konst: [bool; 4]) -> Option<Vec<u8>> {
    let k: Vec<u8> = (0..4u8).filter(|i| konst[*i as usize]).collect();
    Some(match (dataset, fast, &k[..]) {
        (false, _, []) => vec![0, 1, 2],
        (false, _, [0]) => vec![1, 2],
        (false, true, [1]) => vec![2, 0],
        (false, true, [2]) => vec![0, 1],
        (true, _, []) => vec![3, 0, 1, 2],
        (true, _, [3]) => vec![0, 1, 2],
        (true, _, [0, 3]) => vec![1, 2],
        (true, true, [0]) => vec![1, 2, 3],
        (true, true, [1]) => vec![2, 0, 3],
        (true, true, [2]) => vec![0, 1, 3],
        (true, true, [1, 3]) => vec![2, 0],
        (true, true, [2, 3]) => vec![0, 1],
        (true, true, [0, 1]) => vec![2, 3],
        (true, true, [0, 2]) => vec![1, 3],
        (true, true, [1, 2]) => vec![0, 3],
        _ => return None,
    })
}

/// one query through a store; returns the rows (s,p,o,g as ids) in iteration order
fn query_store(kind: u8, quads: &[[u64; 4]], pool: &[ST], mk: &dyn Fn(u8) -> (Option<u64>, bool, Vec<u64>), log: &RefCell<Vec<(u8, u64)>>) -> Vec<[u64; 4]> {
    let term = |id: u64| pool[id as usize - 1].clone();
    let pm = |pos: u8| { let (k, any, acc) = mk(pos); PM { konst: k.map(term), any, acc, pos, log, pool } };
    let gm = || { let (k, any, acc) = mk(3); GM { konst: k.map(|id| if id == 0 { None } else { Some(term(id)) }), any, acc, log, pool } };
    fn graph_q<G: Graph>(g: &G, pool: &[ST], s: PM, p: PM, o: PM) -> Vec<[u64; 4]> {
        g.triples_matching(s, p, o).map(|t| { let t = t.ok().unwrap(); [id_of(pool, t.s()), id_of(pool, t.p()), id_of(pool, t.o()), 0] }).collect()
    }
    fn ds_q<D: Dataset>(d: &D, pool: &[ST], s: PM, p: PM, o: PM, g: GM) -> Vec<[u64; 4]> {
        d.quads_matching(s, p, o, g).map(|q| { let q = q.ok().unwrap(); [id_of(pool, q.s()), id_of(pool, q.p()), id_of(pool, q.o()), gid_of(pool, q.g())] }).collect()
    }
    match kind {
        0 => { let mut g = LightGraph::new(); for q in quads { g.insert(term(q[0]), term(q[1]), term(q[2])).unwrap(); } graph_q(&g, pool, pm(0), pm(1), pm(2)) }
        1 => { let mut g = FastGraph::new(); for q in quads { g.insert(term(q[0]), term(q[1]), term(q[2])).unwrap(); } graph_q(&g, pool, pm(0), pm(1), pm(2)) }
        2 => { let mut d = LightDataset::new(); for q in quads { d.insert(term(q[0]), term(q[1]), term(q[2]), if q[3] == 0 { None } else { Some(term(q[3])) }).unwrap(); } ds_q(&d, pool, pm(0), pm(1), pm(2), gm()) }
        _ => { let mut d = FastDataset::new(); for q in quads { d.insert(term(q[0]), term(q[1]), term(q[2]), if q[3] == 0 { None } else { Some(term(q[3])) }).unwrap(); } ds_q(&d, pool, pm(0), pm(1), pm(2), gm()) }
    }
}

// a small JSON reader for the output of the JSON-LD serializer
#[derive(Debug, Clone)]
enum J { Null, Bool(bool), Num(String), Str(String), Arr(Vec<J>), Obj(Vec<(String, J)>) }
fn parse_json(s: &str) -> Option<J> {
    fn ws(b: &[u8], i: &mut usize) { while *i < b.len() && (b[*i] as char).is_ascii_whitespace() { *i += 1; } }
    fn string(b: &[u8], i: &mut usize) -> Option<String> {
        if b.get(*i) != Some(&b'"') { return None; } *i += 1; let mut o = Vec::new();
        loop { let c = *b.get(*i)?; *i += 1; match c {
            b'"' => return String::from_utf8(o).ok(),
            b'\\' => { let e = *b.get(*i)?; *i += 1; match e { b'n' => o.push(b'\n'), b't' => o.push(b'\t'), b'r' => o.push(b'\r'), b'b' => o.push(8), b'f' => o.push(12),
                b'u' => { let h = std::str::from_utf8(b.get(*i..*i + 4)?).ok()?; *i += 4; let c = char::from_u32(u32::from_str_radix(h, 16).ok()?)?; let mut buf = [0; 4]; o.extend_from_slice(c.encode_utf8(&mut buf).as_bytes()); }
                x => o.push(x) } }
            x => o.push(x) } }
    }
    fn val(b: &[u8], i: &mut usize) -> Option<J> {
        ws(b, i);
        match *b.get(*i)? {
            b'{' => { *i += 1; let mut m = vec![]; ws(b, i); if b.get(*i) == Some(&b'}') { *i += 1; return Some(J::Obj(m)); }
                loop { ws(b, i); let k = string(b, i)?; ws(b, i); if b.get(*i) != Some(&b':') { return None; } *i += 1; let v = val(b, i)?; m.push((k, v)); ws(b, i);
                    match *b.get(*i)? { b',' => *i += 1, b'}' => { *i += 1; return Some(J::Obj(m)); } _ => return None } } }
            b'[' => { *i += 1; let mut a = vec![]; ws(b, i); if b.get(*i) == Some(&b']') { *i += 1; return Some(J::Arr(a)); }
                loop { a.push(val(b, i)?); ws(b, i); match *b.get(*i)? { b',' => *i += 1, b']' => { *i += 1; return Some(J::Arr(a)); } _ => return None } } }
            b'"' => string(b, i).map(J::Str),
            b't' => { *i += 4; Some(J::Bool(true)) } b'f' => { *i += 5; Some(J::Bool(false)) } b'n' => { *i += 4; Some(J::Null) }
            _ => { let st = *i; while *i < b.len() && (b[*i] == b'-' || b[*i] == b'+' || b[*i] == b'.' || b[*i] == b'e' || b[*i] == b'E' || b[*i].is_ascii_digit()) { *i += 1; } if *i == st { None } else { Some(J::Num(String::from_utf8_lossy(&b[st..*i]).to_string())) } }
        }
    }
    let b = s.as_bytes(); let mut i = 0; let v = val(b, &mut i)?; ws(b, &mut i); if i == b.len() { Some(v) } else { None }
}
impl J { fn get(&self, k: &str) -> Option<&J> { match self { J::Obj(m) => m.iter().find(|(x, _)| x == k).map(|(_, v)| v), _ => None } } }
/// token stream of a JSON-LD value object / list object (see C16/Model.v): 0 = open, 1 = close, 2+v = value
fn json_tokens(v: &J, out: &mut Vec<u64>) {
    if let Some(J::Arr(items)) = v.get("@list") { out.push(0); for i in items { json_tokens(i, out); } out.push(1); }
    else if let Some(J::Str(x)) = v.get("@value") { out.push(2 + x.parse::<u64>().unwrap_or(900)); }
    else { out.push(999); }
}

/// a nested list: Err(v) = a literal item, Ok(items) = a list
#[derive(Clone, Debug)]
enum LT { Lit(u64), List(Vec<LT>) }
fn gen_list(r: &mut Rng, depth: usize, maxlen: usize) -> Vec<LT> {
    (0..r.below(maxlen + 1)).map(|_| if depth > 0 && r.chance(1, 4) { LT::List(gen_list(r, depth - 1, 3)) } else { LT::Lit(r.below(20) as u64) }).collect()
}
fn coq_jl(items: &[LT]) -> String {
    let mut s = String::new();
    for it in items { s.push_str("(JCons "); match it { LT::Lit(v) => s.push_str(&format!("(JLit {v})")), LT::List(l) => s.push_str(&format!("(JSub {})", coq_jl(l))) } s.push(' '); }
    s.push_str("JNil"); for _ in items { s.push(')'); }
    s
}
/// the triples of a list; returns the head term
fn list_to_triples(items: &[LT], ctr: &mut usize, out: &mut Vec<[ST; 3]>) -> ST {
    if items.is_empty() { return iri(RDF_NIL); }
    let ids: Vec<usize> = items.iter().map(|_| { *ctr += 1; *ctr - 1 }).collect();
    for (k, it) in items.iter().enumerate() {
        let cell = bnode(&format!("c{}", ids[k]));
        let first = match it { LT::Lit(v) => lit(*v as usize), LT::List(l) => list_to_triples(l, ctr, out) };
        out.push([cell.clone(), iri(RDF_FIRST), first]);
        out.push([cell, iri(RDF_REST), if k + 1 == items.len() { iri(RDF_NIL) } else { bnode(&format!("c{}", ids[k + 1])) }]);
    }
    bnode(&format!("c{}", ids[0]))
}
fn jsonld_of(ts: Vec<[ST; 3]>) -> Result<J, String> {
    let mut ser = sophia_jsonld::JsonLdSerializer::new_stringifier();
    ser.serialize_quads(ts.into_iter().map(|t| (t, None::<ST>)).into_source()).map_err(|e| format!("{e:?}"))?;
    let txt = String::from_utf8_lossy(ser.as_utf8()).to_string();
    parse_json(&txt).ok_or_else(|| format!("unreadable JSON: {txt}"))
}

fn gen_term(r: &mut Rng, depth: usize) -> ST {
    if depth > 0 && r.chance(1, 3) { return triple(gen_term(r, depth - 1), iri(r.ps(&["x:p", "x:q"])), gen_term(r, depth - 1)); }
    match r.below(5) { 0 => iri(r.ps(&["x:a", "x:b"])), 1 => bnode(r.ps(&["b1", "b2"])), 2 => lit_dt(r.ps(&["1", "two"]), &format!("{XSD}string")), 3 => lit_lang("chat", r.ps(&["fr", "en"])), _ => var(r.ps(&["v", "w"])) }
}

struct Case { idx: usize, body: String, text: String, nontrivial: bool, kind: &'static str }

fn gen_case(idx: usize, base: &Rng, sum: &mut Summary) -> Option<Case> {
    let mut r = base.fork(idx as u64);
    let pool: Vec<ST> = vec![iri("x:a"), iri("x:b"), bnode("x"), triple(iri("x:a"), iri("x:p"), bnode("x")), iri("x:p"), iri("x:q"), iri("x:r"),
        lit_dt("lit", &format!("{XSD}string")), lit_lang("lit", "en"), lit_dt("1", &format!("{XSD}integer")), iri("x:g1"), bnode("g2")];
    match idx % 10 {
        0..=4 => {
            // (a) a pattern query through one of the five matching iterators
            let kind = r.below(4) as u8; let (dataset, fast) = (kind >= 2, kind % 2 == 1);
            let nq = r.below(14);
            let quads: Vec<[u64; 4]> = (0..nq).map(|_| [*r.pick(&[1u64, 2, 3, 4]), *r.pick(&[5u64, 6, 7]), *r.pick(&[1u64, 2, 8, 9, 10, 4]), if dataset { *r.pick(&[0u64, 11, 12]) } else { 0 }]).collect();
            // constant positions
            let npos = if dataset { 4 } else { 3 };
            let cands: Vec<[bool; 4]> = (0..16u8).map(|m| [m & 1 != 0, m & 2 != 0, m & 4 != 0, m & 8 != 0]).filter(|k| (dataset || !k[3]) && column_order(fast, dataset, *k).is_some()).collect();
            let konst = *r.pick(&cands);
            let cols = column_order(fast, dataset, konst).unwrap();
            let kvals: [u64; 4] = [*r.pick(&[1u64, 2, 3, 4]), *r.pick(&[5u64, 6, 7]), *r.pick(&[1u64, 2, 8, 9, 10, 4]), *r.pick(&[0u64, 11, 12])];
            let universe: [Vec<u64>; 4] = [vec![1, 2, 3, 4], vec![5, 6, 7], vec![1, 2, 8, 9, 10, 4], vec![0, 11, 12]];
            let accs: Vec<Vec<u64>> = (0..4).map(|p| match r.below(5) { 0 => universe[p].clone(), 1 => vec![], _ => universe[p].iter().copied().filter(|_| r.chance(1, 2)).collect() }).collect();
            let log = RefCell::new(vec![]);
            let all = query_store(kind, &quads, &pool, &|p| if konst[p as usize] { (Some(kvals[p as usize]), false, vec![]) } else { (None, true, vec![]) }, &log);
            let got = query_store(kind, &quads, &pool, &|p| if konst[p as usize] { (Some(kvals[p as usize]), false, vec![]) } else { (None, false, accs[p as usize].clone()) }, &log);
            let tr: Vec<(u8, u64)> = log.borrow().clone();
            let proj = |q: &[u64; 4]| -> Vec<u64> { cols.iter().map(|c| q[*c as usize]).collect() };
            let rows: Vec<Vec<u64>> = all.iter().map(proj).collect();
            let out: Vec<Vec<u64>> = got.iter().map(proj).collect();
            let colno = |pos: u8| cols.iter().position(|c| *c == pos).unwrap_or(99);
            let c_tr = coq_list(tr.iter().map(|(p, id)| format!("({}, {id})", colno(*p))));
            let c_accs = coq_list(cols.iter().map(|c| c_nlist(&accs[*c as usize])));
            let _ = npos;
            sum.bump(&format!("iter:{}:{}cols", ["LightGraph", "FastGraph", "LightDataset", "FastDataset"][kind as usize], cols.len()));
            let text = format!("store={} quads={quads:?} const={:?} accept={:?}", ["LightGraph", "FastGraph", "LightDataset", "FastDataset"][kind as usize], (0..4).filter(|p| konst[*p]).map(|p| (["s", "p", "o", "g"][p], kvals[p])).collect::<Vec<_>>(), cols.iter().map(|c| (["s", "p", "o", "g"][*c as usize], accs[*c as usize].clone())).collect::<Vec<_>>());
            Some(Case { idx, body: format!("iter_ok {c_accs} {} {} {c_tr}", c_rows(&rows), c_rows(&out)), text: format!("{text} => rows {got:?}, matcher calls {tr:?}"), nontrivial: rows.len() >= 2 && out.len() < rows.len(), kind: "iter" })
        }
        5 | 6 => {
            // (b) quoted_string through nt::write_term
            let alphabet = ['"', '\\', '\n', '\r', 'a', 'é', '\t', ' ', 'x', '\u{1F600}', '\'', '\u{0}'];
            let len = if r.chance(1, 10) { r.range(30, 120) } else { r.below(12) };
            let txt: String = (0..len).map(|_| if r.chance(1, 2) { alphabet[r.below(4)] } else { *r.pick(&alphabet) }).collect();
            let mut buf: Vec<u8> = vec![];
            sophia_turtle::serializer::nt::write_term(&mut buf, lit_dt(&txt, &format!("{XSD}string"))).unwrap();
            let inner = if buf.len() >= 2 && buf[0] == b'"' && buf[buf.len() - 1] == b'"' { buf[1..buf.len() - 1].to_vec() } else { buf.clone() };
            sum.bump("quoted_string");
            Some(Case { idx, body: format!("quoted_ok {} {}", coq_bytes(txt.as_bytes()), coq_bytes(&inner)), text: format!("literal {txt:?} => {:?}", String::from_utf8_lossy(&buf)), nontrivial: txt.chars().filter(|c| "\"\\\n\r".contains(*c)).count() >= 2, kind: "quoted" })
        }
        7 => {
            // (c) GRAPH ?g over a small dataset
            use sophia_sparql::{SparqlQuery, SparqlWrapper};
            let fast = r.chance(1, 2);
            let gnames: Vec<ST> = vec![iri("x:g1"), bnode("g2"), iri("x:g0"), iri("x:h"), bnode("a1")];
            let mut lpool = pool.clone(); lpool.extend([iri("x:g0"), iri("x:h"), bnode("a1")]);
            let ng = r.below(5);
            let chosen: Vec<ST> = { let mut v = gnames.clone(); for i in (1..v.len()).rev() { v.swap(i, r.below(i + 1)); } v.truncate(ng); v };
            let mut quads: Vec<([ST; 3], Option<ST>)> = vec![];
            let form_b = r.chance(1, 3); // GRAPH ?g { ?s ?p ?g }: the inner pattern binds the GRAPH variable itself
            let obj = |r: &mut Rng| if form_b && r.chance(1, 2) && !chosen.is_empty() { r.pick(&chosen).clone() } else { pool[r.below(10)].clone() };
            for g in &chosen { for _ in 0..r.range(1, 3) { let o = obj(&mut r); quads.push(([pool[r.below(4)].clone(), pool[4 + r.below(3)].clone(), o], Some(g.clone()))); } }
            for _ in 0..r.below(3) { let o = obj(&mut r); quads.push(([pool[r.below(4)].clone(), pool[4 + r.below(3)].clone(), o], None)); }
            for i in (1..quads.len()).rev() { quads.swap(i, r.below(i + 1)); }
            type Tbl = Vec<(u64, Vec<(u64, Vec<u64>)>)>;
            fn run<D: Dataset + MutableDataset>(mut d: D, quads: &[([ST; 3], Option<ST>)], lpool: &[ST], form_b: bool) -> Result<(Vec<u64>, Tbl, Vec<Vec<u64>>), String> {
                for (t, g) in quads { d.insert(&t[0], &t[1], &t[2], g.as_ref()).ok().unwrap(); }
                let names: std::collections::BTreeSet<sophia_term::ArcTerm> = d.graph_names().map(|t| t.ok().unwrap().into_term::<sophia_term::ArcTerm>()).collect();
                let names: Vec<u64> = names.iter().map(|t| id_of(lpool, t)).collect();
                let tbl: Tbl = names.iter().map(|g| (*g, d.quads_matching(Any, Any, Any, [Some(&lpool[*g as usize - 1])]).map(|q| { let q = q.ok().unwrap();
                    if form_b { (id_of(lpool, q.o()), vec![id_of(lpool, q.s()), id_of(lpool, q.p())]) } else { (0, vec![id_of(lpool, q.s()), id_of(lpool, q.p()), id_of(lpool, q.o())]) } }).collect())).collect();
                let w = SparqlWrapper(&d);
                let q = SparqlQuery::parse(if form_b { "SELECT ?g ?s ?p { GRAPH ?g { ?s ?p ?g } }" } else { "SELECT ?g ?s ?p ?o { GRAPH ?g { ?s ?p ?o } }" }).map_err(|e| format!("{e:?}"))?;
                let b = w.query(&q).map_err(|e| format!("{e:?}"))?.into_bindings();
                let mut out = vec![];
                for row in b { let row = row.map_err(|e| format!("{e:?}"))?; out.push(row.iter().map(|t| t.as_ref().map_or(0, |t| id_of(lpool, t.borrow_term()))).collect()); }
                Ok((names, tbl, out))
            }
            let res = if fast { run(FastDataset::new(), &quads, &lpool, form_b) } else { run(LightDataset::new(), &quads, &lpool, form_b) };
            let (names, tbl, out) = match res { Ok(x) => x, Err(e) => { sum.oracle_failures.push((idx.to_string(), format!("GRAPH ?g query failed on {quads:?}: {e}"))); return None; } };
            sum.bump(&format!("graph:{}names{}", names.len(), if form_b { ":inner-binds-g" } else { "" }));
            let c_tbl = coq_list(tbl.iter().map(|(g, rows)| format!("({g}, {})", coq_list(rows.iter().map(|(b, r)| format!("({b}, {})", c_nlist(r)))))));
            Some(Case { idx, body: format!("graph_ok {} {c_tbl} {}", c_nlist(&names), c_rows(&out)), text: format!("{} {} quads {:?} => {out:?}", if fast { "FastDataset" } else { "LightDataset" }, if form_b { "GRAPH ?g { ?s ?p ?g }" } else { "GRAPH ?g { ?s ?p ?o }" }, quads.iter().map(|(t, g)| (id_of(&lpool, &t[0]), id_of(&lpool, &t[1]), id_of(&lpool, &t[2]), gid_of(&lpool, g.as_ref()))).collect::<Vec<_>>()), nontrivial: names.len() >= 2, kind: "graph" })
        }
        8 => {
            if r.chance(2, 3) {
                // (d) a nested list through the JSON-LD serializer
                let items = gen_list(&mut r, 2, 5);
                let mut ts = vec![]; let mut ctr = 0;
                let head = list_to_triples(&items, &mut ctr, &mut ts);
                ts.push([iri("x:s"), iri("x:p"), head]);
                if r.chance(1, 2) { ts.reverse(); }
                let j = match jsonld_of(ts) { Ok(j) => j, Err(e) => { sum.oracle_failures.push((idx.to_string(), format!("JSON-LD serialisation of the list {items:?} failed: {e}"))); return None; } };
                let mut toks = vec![];
                let node = match &j { J::Arr(nodes) => nodes.iter().find(|n| matches!(n.get("@id"), Some(J::Str(s)) if s == "x:s")).cloned(), _ => None };
                match node.as_ref().and_then(|n| n.get("x:p")) { Some(J::Arr(vs)) if vs.len() == 1 => json_tokens(&vs[0], &mut toks), _ => toks.push(998) }
                sum.bump("jsonld:list");
                Some(Case { idx, body: format!("list_ok {} {}", coq_jl(&items), c_nlist(&toks)), text: format!("list {items:?} => tokens {toks:?}"), nontrivial: items.len() >= 2, kind: "list" })
            } else {
                // (d) mark_list_node: a flat list whose cell `bad` carries one more property
                let n = r.range(1, 7); let bad = r.below(n + 1);
                let items: Vec<LT> = (0..n).map(|i| LT::Lit(i as u64)).collect();
                let mut ts = vec![]; let mut ctr = 0;
                let head = list_to_triples(&items, &mut ctr, &mut ts);
                ts.push([iri("x:s"), iri("x:p"), head]);
                if bad < n { ts.push([bnode(&format!("c{bad}")), iri("x:extra"), lit(77)]); }
                let j = match jsonld_of(ts) { Ok(j) => j, Err(e) => { sum.oracle_failures.push((idx.to_string(), format!("JSON-LD serialisation of a {n}-cell list with an extra property on cell {bad} failed: {e}"))); return None; } };
                let present: Vec<String> = match &j { J::Arr(nodes) => nodes.iter().filter_map(|n| match n.get("@id") { Some(J::Str(s)) => Some(s.clone()), _ => None }).collect(), _ => vec![] };
                let marked: Vec<u64> = (0..n as u64).rev().filter(|i| !present.contains(&format!("_:c{i}"))).collect();
                sum.bump("jsonld:mark");
                Some(Case { idx, body: format!("mark_ok {n} {bad} {}", c_nlist(&marked)), text: format!("{n}-cell list, extra property on cell {bad} => cells not rendered as nodes {marked:?}"), nontrivial: n >= 2, kind: "mark" })
            }
        }
        _ => {
            // constituents / atoms of a nested term
            let t = gen_term(&mut r, 3);
            let cs: Vec<String> = t.constituents().map(|x| coq_term(x)).collect();
            let at: Vec<String> = t.atoms().map(|x| coq_term(x)).collect();
            sum.bump("constituents");
            Some(Case { idx, body: format!("constituents_ok {} {} {}", coq_term(&t), coq_list(cs.clone()), coq_list(at)), text: format!("term {t:?} => {} constituents", cs.len()), nontrivial: t.is_triple(), kind: "constituents" })
        }
    }
}

// ---------------------------------------------------------------------------------------------
// the stack oracle
// ---------------------------------------------------------------------------------------------
const STACK: usize = 2 << 20;
const SPREAD_BOUND: usize = 64 << 10;
const STACK_CASE_BASE: usize = 1_000_000;
fn is_pretty(op: &str) -> bool { matches!(op, "ttl-list" | "ttl-pretty-stmts" | "ttl-chain" | "ttl-type-chain") }
/// sizes for one operation: powers of ten from 10^4 to `big`; the pretty Turtle serializer takes
/// quadratic time, so it gets what can be run at all
fn sizes_for(op: &str, big: usize) -> Vec<usize> {
    if is_pretty(op) { return if big >= 1_000_000 { vec![300, 1000, if cfg!(debug_assertions) { 3000 } else { 10_000 }] } else { vec![300, 1000] }; }
    if op.starts_with("it-") { return vec![big]; }
    let mut v = vec![]; let mut n = 10_000; while n <= big { v.push(n); n *= 10; } if v.is_empty() { v.push(big); } v
}
fn check_value(op: &str, n: usize, v: u64) -> bool { match expected(op, n) { Some(e) => v == e, None => v > 2 * n as u64 } }
/// bytes of stack per element, measured in-process on a huge stack at two small sizes
fn slope_of(op: &str) -> (f64, f64) {
    let (n1, n2) = if is_pretty(op) { (100, 200) } else { (1000, 3000) };
    let (o1, o2, o3) = (op.to_string(), op.to_string(), op.to_string());
    let _ = on_big_thread(move || run_op(&o3, 10));
    let (Some((_, s1, _, u1)), Some((_, s2, _, u2))) = (on_big_thread(move || run_op(&o1, n1)), on_big_thread(move || run_op(&o2, n2))) else { return (f64::NAN, f64::NAN) };
    ((s2 as f64 - s1 as f64) / (n2 - n1) as f64, (u2 as f64 - u1 as f64) / (n2 - n1) as f64)
}

fn main() {
    let a = parse_args();
    let flag = |name: &str| a.rest.iter().position(|s| s == name);
    if let Some(i) = flag("--child") { child_main(&a.rest[i + 1], a.rest[i + 2].parse().unwrap(), a.rest[i + 3].parse().unwrap()); return; }
    if let Some(i) = flag("--measure") {
        // exploration: c16 --measure <op> <n>...
        let op = a.rest[i + 1].clone();
        for n in a.rest[i + 2..].iter().filter_map(|s| s.parse::<usize>().ok()) {
            let op2 = op.clone();
            let Some((v, spread, calls, used)) = on_big_thread(move || run_op(&op2, n)) else { println!("{op} n={n}: panicked"); continue };
            println!("{op} n={n} [{PROFILE}] result={v} callback-spread={spread}B over {calls} calls, stack high-water={used}B");
        }
        return;
    }
    if let Some(i) = flag("--crash-table") {
        // exploration: every operation x sizes on a 2 MiB thread in a subprocess
        let sizes: Vec<usize> = a.rest[i + 1..].iter().filter_map(|s| s.parse().ok()).collect();
        let only: Vec<&str> = a.rest[i + 1..].iter().filter(|s| s.parse::<usize>().is_err()).map(|s| s.as_str()).collect();
        for (op, _) in ops() { if !only.is_empty() && !only.iter().any(|o| op.starts_with(o)) { continue; } for &n in &sizes {
            let (o, dt) = run_child(op, n, STACK, 1200);
            println!("{op:18} n={n:<8} [{PROFILE}] {o:?} ({dt:.1}s)");
        } }
        return;
    }
    let big: usize = flag("--big").map_or(100_000, |i| a.rest[i + 1].parse().unwrap());
    let jobs: usize = flag("--jobs").map_or(8, |i| a.rest[i + 1].parse().unwrap());
    let mut sum = Summary::default();
    sum.rule = "two kinds of evaluations. (1) correspondence case = a small generated input through the real code, compared inside Coq with C16/Model.v: \
a pattern query (0-13 quads over a 12-term pool, light/fast graph/dataset, every arm of graph.rs/dataset.rs that uses one of the five matching iterators, caller-supplied matchers that log their calls), \
a literal through nt::write_term (escapable bytes over-represented), GRAPH ?g over 0-4 named graphs, a nested RDF list or a list with a damaged cell through the JSON-LD serializer, constituents/atoms of a nested term; \
non-trivial = at least two rows of which one is skipped / two escaped bytes / two graph names / two cells / a quoted triple. \
(2) stack case (ids from 1000000) = one operation at one size on a thread with a 2 MiB stack in a subprocess of this binary (profile of the binary), with callback address spread and mincore high-water mark; all are non-trivial".into();

    // one stack case, verbosely
    if let Some(id) = a.only.filter(|i| *i >= STACK_CASE_BASE) {
        let k = id - STACK_CASE_BASE; let (op, desc) = ops()[k / 10]; let sizes = sizes_for(op, big);
        let n = *sizes.get(k % 10).unwrap_or(&sizes[sizes.len() - 1]);
        let (o, dt) = run_child(op, n, STACK, 3600);
        println!("STACK CASE {id}: {op} ({desc}) n={n} on a {STACK}-byte stack [{PROFILE}] => {o:?} in {dt:.1}s");
        let (cs, ws) = slope_of(op);
        println!("  measured on a 768 MiB stack: {cs:.1} bytes/element between callback addresses, {ws:.1} bytes/element of stack high-water mark");
        return;
    }

    // ---- (1) correspondence
    let base = Rng::new(a.seed);
    let mut cases = vec![]; let mut seen = std::collections::HashSet::new();
    let range: Vec<usize> = match a.only { Some(i) => vec![i], None => (0..a.n).collect() };
    for idx in range {
        let Some(c) = gen_case(idx, &base, &mut sum) else { continue };
        if a.only.is_some() { println!("CASE {idx} [{}]: {}\n  Coq: {}", c.kind, c.text, c.body); }
        if seen.insert(c.body.clone()) && c.nontrivial { sum.distinct_nontrivial += 1; }
        if sum.samples.len() < 6 && c.nontrivial && sum.samples.iter().filter(|s: &&String| s.contains(&format!("[{}]", c.kind))).count() == 0 { sum.samples.push(format!("case {idx} [{}]: {}", c.kind, c.text.chars().take(400).collect::<String>())); }
        sum.evaluations += 1;
        cases.push((c.idx, c.body));
    }
    if a.only.is_some() { return; }

    // ---- (2) the stack oracle: all (operation, size) pairs, `jobs` children at a time
    let mut work: Vec<(usize, usize, &'static str, usize)> = vec![]; // (case id, op index, op, n)
    for (oi, (op, _)) in ops().iter().enumerate() { for (si, n) in sizes_for(op, big).into_iter().enumerate() { work.push((STACK_CASE_BASE + oi * 10 + si, oi, op, n)); } }
    let queue = std::sync::Arc::new(std::sync::Mutex::new(work.clone().into_iter().rev().collect::<Vec<_>>()));
    let results = std::sync::Arc::new(std::sync::Mutex::new(Vec::<(usize, usize, usize, ChildOutcome, f64)>::new()));
    let t_stack = std::time::Instant::now();
    let handles: Vec<_> = (0..jobs).map(|_| { let (q, res) = (queue.clone(), results.clone()); std::thread::spawn(move || loop {
        let job = q.lock().unwrap().pop(); let Some((id, oi, op, n)) = job else { break };
        let (o, dt) = run_child(op, n, STACK, 3000);
        res.lock().unwrap().push((id, oi, n, o, dt));
    }) }).collect();
    for h in handles { h.join().unwrap(); }
    let mut results = results.lock().unwrap().clone(); results.sort_by_key(|r| r.0);
    let mut table = vec![];
    for (oi, (op, desc)) in ops().iter().enumerate() {
        let mine: Vec<_> = results.iter().filter(|r| r.1 == oi).collect();
        let mut oks: Vec<(usize, usize, u64, usize)> = vec![]; // n, spread, calls, used
        let mut crashed = false;
        for (id, _, n, o, dt) in mine.iter().map(|r| (r.0, r.1, r.2, &r.3, r.4)) {
            sum.evaluations += 1; sum.distinct_nontrivial += 1; sum.bump(&format!("stack:{}", if in_oracle(op) { "oracle" } else { "exploration" }));
            let (status, detail) = match o {
                ChildOutcome::Ok { value, spread, calls, used } => {
                    if check_value(op, n, *value) { oks.push((n, *spread, *calls, *used)); ("ok".to_string(), String::new()) }
                    else { ("wrong-result".to_string(), format!("returned the functional summary {value}, expected {:?}", expected(op, n))) }
                }
                ChildOutcome::Crashed(why) => { crashed = true; ("crashed".to_string(), why.clone()) }
                ChildOutcome::TimedOut => ("timeout".to_string(), "did not finish within 3000 s".to_string()),
                ChildOutcome::Wrong(s) => ("garbled".to_string(), format!("unexpected output {s:?}")),
            };
            table.push(format!("{{\"case\": {id}, \"op\": {}, \"n\": {n}, \"profile\": {}, \"status\": {}, \"seconds\": {dt:.1}{}}}", json_str(op), json_str(PROFILE), json_str(&status),
                match o { ChildOutcome::Ok { spread, calls, used, .. } => format!(", \"callback_spread\": {spread}, \"callback_calls\": {calls}, \"stack_high_water\": {used}"), _ => String::new() }));
            if status != "ok" {
                let slope = if status == "crashed" { let (cs, ws) = slope_of(op); format!("; measured on a 768 MiB stack: {ws:.0} bytes of stack per element ({cs:.0} between the addresses seen by the callbacks)") } else { String::new() };
                let msg = format!("operation {op} [{desc}] at n = {n} elements on a thread with a {STACK}-byte stack, {PROFILE} profile: {status}: {detail}{slope}");
                if in_oracle(op) { sum.oracle_failures.push((id.to_string(), msg)); } else { sum.extra.push((format!("exploration_{op}_{n}"), json_str(&msg))); }
            }
        }
        // (i) spread of the callback addresses, growth of the high-water mark
        if !crashed && oks.len() >= 1 {
            let (n_hi, spread, calls, used_hi) = oks[oks.len() - 1]; let (n_lo, spread_lo, _, used_lo) = oks[0];
            let id = STACK_CASE_BASE + oi * 10 + oks.len() - 1;
            let per = |hi: usize, lo: usize| if n_hi > n_lo { (hi as f64 - lo as f64) / (n_hi - n_lo) as f64 } else { 0.0 };
            table.push(format!("{{\"op\": {}, \"profile\": {}, \"slope_callback_bytes_per_element\": {:.4}, \"slope_high_water_bytes_per_element\": {:.4}, \"from_n\": {n_lo}, \"to_n\": {n_hi}}}", json_str(op), json_str(PROFILE), per(spread, spread_lo), per(used_hi, used_lo)));
            let mut bad = vec![];
            if calls > 0 && spread > SPREAD_BOUND { bad.push(format!("the addresses of a local variable of the caller-supplied callback spread over {spread} bytes in {calls} calls (bound {SPREAD_BOUND}; {:.1} bytes/element)", per(spread, spread_lo))); }
            if used_hi != usize::MAX && used_lo != usize::MAX && used_hi > used_lo + SPREAD_BOUND { bad.push(format!("the high-water mark of the stack grew from {used_lo} bytes at n = {n_lo} to {used_hi} bytes at n = {n_hi} ({:.1} bytes/element)", per(used_hi, used_lo))); }
            if !bad.is_empty() {
                let msg = format!("operation {op} [{desc}] at n = {n_hi} elements, {PROFILE} profile: stack use grows with the number of elements: {}", bad.join("; "));
                if in_oracle(op) { sum.oracle_failures.push((id.to_string(), msg)); } else { sum.extra.push((format!("exploration_{op}_slope"), json_str(&msg))); }
            }
        }
    }
    sum.extra.push(("stack_table".into(), format!("[{}]", table.join(", "))));
    sum.extra.push(("stack_seconds".into(), format!("{:.1}", t_stack.elapsed().as_secs_f64())));
    sum.extra.push(("profile".into(), json_str(PROFILE)));
    sum.shards = write_shards(&a.out, "From Sophia.C16 Require Import Model.\n", &cases, a.shards);
    sum.extra.push(("coq_cases".into(), cases.len().to_string()));
    std::fs::write(format!("{}/summary.json", a.out), sum.to_json()).unwrap();
    println!("c16 [{PROFILE}]: {} evaluations ({} correspondence cases, {} stack runs in {:.0}s), {} distinct non-trivial, {} oracle failures", sum.evaluations, cases.len(), results.len(), t_stack.elapsed().as_secs_f64(), sum.distinct_nontrivial, sum.oracle_failures.len());
    for (c, d) in sum.oracle_failures.iter().take(40) { println!("  ORACLE {c}: {d}"); }
    let _ = std::io::stdout().flush();
}
