//! C16: stack use does not grow with the amount of data processed.
//!
//! Three things happen here:
//!  1. correspondence: small generated inputs run through the real iterators / quoted_string /
//!     GRAPH ?g / JSON-LD list serialisation / constituents, printed as Coq boolean cases against
//!     C16/Model.v (functional results only);
//!  2. ORACLE (i): stack-address probes through caller-supplied callbacks (closure matchers,
//!     io::Write sinks, a probing Dataset) at 10^4 and 10^5 elements: the spread of the addresses
//!     seen by the callback must stay below 64 KiB; the slope is reported in bytes/element;
//!     plus, as exploration, the high-water mark of a fresh thread stack measured with mincore(2);
//!  3. ORACLE (ii): every operation at the requested sizes on a thread with a 2 MiB stack in a
//!     SUBPROCESS of this very binary (so in the profile it was built with): a stack overflow
//!     aborts the child, the parent reports which operation, size and profile.
//!     The operations: STATIC_OPS + generated_ops (every skip position of every matching iterator)
//!     + WIDE_OPS (the remaining arms of the anchored files) + LOOP_OPS (every loop over data of
//!     the parsers, serializers, stores and source adapters driven with a large count of the thing
//!     it iterates over) + store_ops (every store type, Vec-backed ones included, with very many
//!     statements and with very many COPIES of one statement, every mutation and query);
//!     each operation that reaches a CONFIGURABLE component (Turtle / TriG indentation and prefix
//!     map, JSON-LD spaces and processing mode, RDF/XML indentation, N-Triples config, SPARQL entry
//!     point) is run again under the configuration of the legal extremes (empty indentation, ...)
//!     and under one configuration drawn from the seed (quick) / under every configuration (thorough);
//!     `x-sparql-*` (size of the QUERY) and `x-nt-ascii` are exploration, recorded, not judged.
//!  4. directed correspondence streams (ids from 500000): histories on Vec stores holding many
//!     copies (C16/VecStore.v), blank node chains through the pretty writer under a configuration
//!     (C16/PrettyChain.v).
use sophia_api::dataset::{Dataset, MutableDataset};
use sophia_api::graph::{Graph, MutableGraph};
use sophia_api::prelude::*;
use sophia_api::serializer::{QuadSerializer, Stringifier, TripleSerializer};
use sophia_api::source::{IntoSource, QuadSource, Source, TripleSource};
use sophia_api::sparql::{Query as _, SparqlDataset as _};
use sophia_api::term::matcher::Any;
use sophia_api::term::{GraphName, SimpleTerm, Term};
use sophia_inmem::dataset::{FastDataset, LightDataset};
use sophia_inmem::graph::{FastGraph, LightGraph};
use std::cell::Cell;
use std::io::Write as _;
use verif_harness::*;

const PROFILE: &str = if cfg!(debug_assertions) { "dev" } else { "release" };
const RDF_FIRST: &str = "http://www.w3.org/1999/02/22-rdf-syntax-ns#first";
const RDF_REST: &str = "http://www.w3.org/1999/02/22-rdf-syntax-ns#rest";
const RDF_NIL: &str = "http://www.w3.org/1999/02/22-rdf-syntax-ns#nil";

// ---------------------------------------------------------------------------------------------
// address probe: callbacks record the address of one of their locals
// ---------------------------------------------------------------------------------------------
thread_local! { static PROBE: Cell<(usize, usize, u64)> = const { Cell::new((usize::MAX, 0, 0)) }; }
#[inline(never)]
fn probe() {
    let x = 0u8;
    let a = std::hint::black_box(&x) as *const u8 as usize;
    PROBE.with(|p| { let (lo, hi, n) = p.get(); p.set((lo.min(a), hi.max(a), n + 1)); });
}
fn probe_reset() { PROBE.with(|p| p.set((usize::MAX, 0, 0))); }
/// (spread in bytes, number of callback invocations)
fn probe_read() -> (usize, u64) { PROBE.with(|p| { let (lo, hi, n) = p.get(); if n == 0 { (0, 0) } else { (hi - lo, n) } }) }

/// io::Write sink that probes at each call and counts bytes
struct ProbeSink(u64);
impl std::io::Write for ProbeSink {
    fn write(&mut self, b: &[u8]) -> std::io::Result<usize> { probe(); self.0 += b.len() as u64; Ok(b.len()) }
    fn flush(&mut self) -> std::io::Result<()> { Ok(()) }
}

/// Dataset wrapper probing at each quads_matching / graph_names call
struct ProbeDs<D>(D);
impl<D: Dataset> Dataset for ProbeDs<D> {
    type Quad<'x> = D::Quad<'x> where Self: 'x;
    type Error = D::Error;
    fn quads(&self) -> impl Iterator<Item = Result<Self::Quad<'_>, Self::Error>> + '_ { probe(); self.0.quads() }
    fn quads_matching<'s, 't, S, P, O, G>(&'s self, sm: S, pm: P, om: O, gm: G) -> impl Iterator<Item = Result<Self::Quad<'s>, Self::Error>> + 't
    where 's: 't, S: sophia_api::term::matcher::TermMatcher + 't, P: sophia_api::term::matcher::TermMatcher + 't, O: sophia_api::term::matcher::TermMatcher + 't, G: sophia_api::term::matcher::GraphNameMatcher + 't {
        probe(); self.0.quads_matching(sm, pm, om, gm)
    }
    fn graph_names(&self) -> impl Iterator<Item = Result<sophia_api::dataset::DTerm<'_, Self>, Self::Error>> + '_ { probe(); self.0.graph_names() }
}

// ---------------------------------------------------------------------------------------------
// configurations: every operation reaches the configurable components (Turtle / TriG serializer,
// JSON-LD serializer, RDF/XML serializer, N-Triples / N-Quads serializers, SPARQL wrapper) through
// the helpers below, which read the CURRENT configuration: one value index per dimension, 0 = the
// component's default, i.e. the operation exactly as it is written.  An operation name may carry a
// configuration: "ttl-chain@i1p1" = ttl-chain with indentation #1 and prefix map #1.
// The helpers also record which dimensions an operation consulted (that is how the harness knows
// which configurations can influence an operation at all).
// ---------------------------------------------------------------------------------------------
use std::sync::atomic::{AtomicU64, Ordering::SeqCst};
/// (letter, what, values; the FIRST value is the default; `extreme` = index of the legal extreme value)
struct Dim { letter: char, what: &'static str, values: &'static [&'static str], extreme: u8 }
const DIMS: &[Dim] = &[
    Dim { letter: 'i', what: "TurtleConfig::with_indentation", values: &["default (two spaces)", "\"\" (empty)", "one space", "one tab", "nine characters (spaces and tabs)", "a line feed and a space"], extreme: 1 },
    Dim { letter: 'p', what: "TurtleConfig prefix map", values: &["default / the operation's own", "empty", "seven prefixes covering the IRIs of the data"], extreme: 1 },
    Dim { letter: 's', what: "JsonLdOptions::with_spaces", values: &["default (0)", "2", "1", "8"], extreme: 3 },
    Dim { letter: 'm', what: "JsonLdOptions::with_processing_mode", values: &["default (json-ld-1.1)", "json-ld-1.0"], extreme: 1 },
    Dim { letter: 'x', what: "RdfXmlConfig::with_indentation", values: &["default (0)", "4", "1"], extreme: 1 },
    // (set_ascii(true) is not a usable configuration: NtSerializer / NqSerializer answer it with `todo!()`; recorded as exploration)
    Dim { letter: 'a', what: "NtConfig", values: &["default", "set_ascii(false) called explicitly, serializer built by new_with_config / new_stringifier_with_config"], extreme: 1 },
    // (no extreme value among the entry points: one of them is drawn from the seed)
    Dim { letter: 'q', what: "SPARQL entry point", values: &["Query::parse, then query(&query)", "query(&str)", "prepare_query, then query(&query)", "prepare_query_with(base), then query(&query)"], extreme: 0 },
];
const D_IND: usize = 0; const D_PM: usize = 1; const D_SP: usize = 2; const D_MODE: usize = 3; const D_XI: usize = 4; const D_ASCII: usize = 5; const D_QE: usize = 6;
/// current configuration, 4 bits per dimension
static CFG: AtomicU64 = AtomicU64::new(0);
/// dimensions consulted since the last reset (bit per dimension)
static CFG_USED: AtomicU64 = AtomicU64::new(0);
fn cfg_get(d: usize) -> u8 { CFG_USED.fetch_or(1 << d, SeqCst); ((CFG.load(SeqCst) >> (4 * d)) & 15) as u8 }
fn cfg_value(packed: u64, d: usize) -> u8 { ((packed >> (4 * d)) & 15) as u8 }
/// "i1p2" -> packed
fn cfg_parse(s: &str) -> u64 {
    let mut packed = 0u64; let b: Vec<char> = s.chars().collect(); let mut k = 0;
    while k + 1 < b.len() { let d = DIMS.iter().position(|d| d.letter == b[k]).unwrap_or_else(|| panic!("unknown configuration dimension {}", b[k])); let v = b[k + 1].to_digit(16).unwrap() as u64; assert!((v as usize) < DIMS[d].values.len()); packed |= v << (4 * d); k += 2; }
    packed
}
fn cfg_suffix(packed: u64) -> String { DIMS.iter().enumerate().filter(|(d, _)| cfg_value(packed, *d) != 0).map(|(d, dim)| format!("{}{:x}", dim.letter, cfg_value(packed, d))).collect() }
fn cfg_describe(packed: u64) -> String { DIMS.iter().enumerate().filter(|(d, _)| cfg_value(packed, *d) != 0).map(|(d, dim)| format!("{} = {}", dim.what, dim.values[cfg_value(packed, d) as usize])).collect::<Vec<_>>().join(", ") }
/// (operation, packed configuration) of a name like "ttl-chain@i1p1"
fn split_op(op: &str) -> (&str, u64) { match op.split_once('@') { Some((b, c)) => (b, cfg_parse(c)), None => (op, 0) } }
/// all the non-default configurations over the dimensions in `dims` (bit set), in a fixed order
fn all_configs(dims: u64) -> Vec<u64> {
    let mut v = vec![0u64];
    for (d, dim) in DIMS.iter().enumerate() { if dims & (1 << d) == 0 { continue; } v = v.iter().flat_map(|c| (0..dim.values.len() as u64).map(move |x| c | (x << (4 * d)))).collect(); }
    v.retain(|c| *c != 0); v.sort(); v
}
/// every used dimension at its legal extreme value
fn extreme_config(dims: u64) -> u64 { DIMS.iter().enumerate().filter(|(d, _)| dims & (1 << d) != 0).map(|(d, dim)| (dim.extreme as u64) << (4 * d)).sum() }

type PmPair = (sophia_api::prefix::Prefix<Box<str>>, sophia_iri::Iri<Box<str>>);
fn pm_pair(p: &str, ns: &str) -> PmPair { (sophia_api::prefix::Prefix::new_unchecked(p.into()), sophia_iri::Iri::new_unchecked(ns.into())) }
fn rich_prefix_map() -> Vec<PmPair> {
    vec![pm_pair("x", "x:"), pm_pair("ex", "http://example.org/ns/"), pm_pair("e", "http://example.org/"), pm_pair("rdf", RDF), pm_pair("xsd", XSD), pm_pair("", "x:s"), pm_pair("i18n", "https://www.w3.org/ns/i18n#")]
}
/// the configured indentation applied to `c`
fn with_cfg_indentation(c: sophia_turtle::serializer::turtle::TurtleConfig) -> sophia_turtle::serializer::turtle::TurtleConfig {
    match cfg_get(D_IND) { 0 => c, 1 => c.with_indentation(""), 2 => c.with_indentation(" "), 3 => c.with_indentation("\t"), 4 => c.with_indentation("  \t   \t  "), _ => c.with_indentation("\n ") }
}
/// Turtle / TriG configuration of an operation that does not care about the prefix map
fn turtle_cfg(pretty: bool) -> sophia_turtle::serializer::turtle::TurtleConfig {
    let c = with_cfg_indentation(sophia_turtle::serializer::turtle::TurtleConfig::new().with_pretty(pretty));
    match cfg_get(D_PM) { 0 => c, 1 => c.with_own_prefix_map(vec![]), _ => c.with_own_prefix_map(rich_prefix_map()) }
}
/// Turtle / TriG configuration of an operation that has a prefix map of its own (kept in the default configuration)
fn turtle_cfg_own(pretty: bool, own: Vec<PmPair>) -> sophia_turtle::serializer::turtle::TurtleConfig {
    let c = with_cfg_indentation(sophia_turtle::serializer::turtle::TurtleConfig::new().with_pretty(pretty));
    match cfg_get(D_PM) { 0 => c.with_own_prefix_map(own), 1 => c.with_own_prefix_map(vec![]), _ => c.with_own_prefix_map(rich_prefix_map()) }
}
fn jsonld_opts() -> sophia_jsonld::JsonLdOptions<sophia_jsonld::loader_factory::DefaultLoaderFactory<sophia_jsonld::loader::NoLoader>> {
    let o = sophia_jsonld::JsonLdOptions::new();
    let o = match cfg_get(D_SP) { 0 => o, 1 => o.with_spaces(2), 2 => o.with_spaces(1), _ => o.with_spaces(8) };
    if cfg_get(D_MODE) == 1 { o.with_processing_mode(sophia_jsonld::ProcessingMode::JsonLd1_0) } else { o }
}
fn xml_cfg() -> sophia_xml::serializer::RdfXmlConfig { let c = sophia_xml::serializer::RdfXmlConfig::new(); match cfg_get(D_XI) { 0 => c, 1 => c.with_indentation(4), _ => c.with_indentation(1) } }
fn nt_cfg() -> sophia_turtle::serializer::nt::NtConfig { let mut c = sophia_turtle::serializer::nt::NtConfig::default(); if cfg_get(D_ASCII) == 1 { c.set_ascii(false); } c }
/// one SPARQL query through the configured entry point
fn sq<'a, D: Dataset + ?Sized>(w: &sophia_sparql::SparqlWrapper<'a, D>, text: &str) -> Result<sophia_api::sparql::SparqlResult<sophia_sparql::SparqlWrapper<'a, D>>, sophia_sparql::SparqlWrapperError<D::Error>> {
    use sophia_sparql::SparqlQuery;
    match cfg_get(D_QE) {
        0 => { let q = SparqlQuery::parse(text)?; w.query(&q) }
        1 => w.query(text),
        2 => { let q = w.prepare_query(text)?; w.query(&q) }
        _ => { let q = w.prepare_query_with(text, sophia_iri::Iri::new_unchecked("http://base.example/dir/"))?; w.query(&q) }
    }
}

// ---------------------------------------------------------------------------------------------
// the operations, each parameterised by the number of elements along its size dimension
// ---------------------------------------------------------------------------------------------
const STATIC_OPS: &[(&str, &str)] = &[
    // (a) the five matching iterators, light and fast stores: n rows, all skipped but the last
    ("spo-light", "LightGraph::triples_matching(closure, Any, Any): SpoMatchingIterator skipping n-1 rows"),
    ("spo-fast", "FastGraph::triples_matching(closure, Any, Any): SpoMatchingIterator skipping n-1 rows"),
    ("bc-light", "LightGraph::triples_matching([s], closure, Any): BcMatchingIterator skipping n-1 rows"),
    ("bc-fast", "FastGraph::triples_matching([s], closure, Any): BcMatchingIterator skipping n-1 rows"),
    ("bc-fast-pos", "FastGraph::triples_matching(Any, [p], closure): BcMatchingIterator (POS index) skipping n-1 rows"),
    ("gspo-light", "LightDataset::quads_matching(closure, Any, Any, Any): GspoMatchingIterator skipping n-1 rows"),
    ("gspo-fast", "FastDataset::quads_matching(closure, Any, Any, Any): GspoMatchingIterator skipping n-1 rows"),
    ("bcd-light", "LightDataset::quads_matching(closure, Any, Any, [g]): BcdMatchingIterator skipping n-1 rows"),
    ("bcd-fast", "FastDataset::quads_matching(closure, Any, Any, [g]): BcdMatchingIterator skipping n-1 rows"),
    ("cd-light", "LightDataset::quads_matching([s], closure, Any, [g]): CdMatchingIterator skipping n-1 rows"),
    ("cd-fast", "FastDataset::quads_matching([s], closure, Any, [g]): CdMatchingIterator skipping n-1 rows"),
    // (b) escaped characters in one literal
    ("nt-escape", "NtSerializer on one literal with n escaped characters (nt::quoted_string)"),
    ("nq-escape", "NqSerializer on one literal with n escaped characters"),
    ("ttl-escape", "pretty TurtleSerializer on one literal with n escaped characters (nt::quoted_string)"),
    // (c) named graphs
    ("sparql-graph", "SELECT ?g ?s { GRAPH ?g { ?s ?p ?o } } over n named graphs (exec::graph_rec), all solutions consumed"),
    // (d) list items
    ("jsonld-list", "JsonLdSerializer on one RDF list of n items (engine::mark_list_node / populate_list)"),
    ("ttl-list", "pretty TurtleSerializer on one RDF list of n items"),
    // statements in one document / store
    ("insert-remove", "FastDataset: insert n quads, query, remove them all"),
    ("nt-roundtrip", "serialise n triples as N-Triples and parse them back"),
    ("ttl-roundtrip", "serialise n triples as (streaming) Turtle and parse them back"),
    ("ttl-pretty-stmts", "pretty TurtleSerializer on n statements with distinct subjects"),
    ("ttl-parse-list", "Turtle parser on one collection of n items"),
    ("jsonld-stmts", "JsonLdSerializer on n statements with distinct subjects"),
    ("sparql-bgp", "SELECT ?s { ?s <x:p> ?o FILTER(?o = <x:nope>) } over n triples (all filtered out)"),
    ("sparql-order", "SELECT ?s { ?s <x:p> ?o } ORDER BY DESC(?s) over n triples"),
    // a chain of n statements _:b(i) <x:p> _:b(i+1): no nesting in the data, the pretty serializer nests [ ... ]
    ("ttl-chain", "pretty TurtleSerializer on a chain of n blank nodes (the serializer chooses to nest them in [ ])"),
    ("ttl-type-chain", "pretty TurtleSerializer on a chain of n blank nodes linked by rdf:type (written with the 'a' shorthand, a separate code path)"),
];
/// every skip position of every matching iterator: "it-<store>-<constant positions or _>-<varying position>":
/// n rows that differ only in the varying position, queried with constants at the constant
/// positions, a caller-supplied matcher accepting only the last row at the varying position and
/// `Any`-like matchers elsewhere (so that n-1 rows are skipped at that position of whichever
/// iterator / index the store picks for this combination of constants)
fn generated_ops() -> Vec<(String, String)> {
    let mut v = vec![];
    for (store, name, npos) in [("lg", "LightGraph", 3usize), ("fg", "FastGraph", 3), ("ld", "LightDataset", 4), ("fd", "FastDataset", 4)] {
        for var in 0..npos { for mask in 0..(1u8 << npos) {
            if mask & (1 << var) != 0 { continue; }
            let consts: String = (0..npos).filter(|i| mask & (1 << i) != 0).map(|i| ['s', 'p', 'o', 'g'][i]).collect();
            let pat: Vec<String> = (0..npos).map(|i| if i == var { "closure".to_string() } else if mask & (1 << i) != 0 { format!("[{}]", ['s', 'p', 'o', 'g'][i]) } else { "any".to_string() }).collect();
            v.push((format!("it-{store}-{}-{}", if consts.is_empty() { "_" } else { &consts }, ['s', 'p', 'o', 'g'][var]),
                    format!("{name}::{}({}) over n rows differing in position {}: n-1 rows skipped at that position", if npos == 3 { "triples_matching" } else { "quads_matching" }, pat.join(", "), ['s', 'p', 'o', 'g'][var])));
        } }
    }
    v
}
fn ops() -> &'static [(&'static str, &'static str)] {
    static ALL: std::sync::OnceLock<Vec<(&'static str, &'static str)>> = std::sync::OnceLock::new();
    ALL.get_or_init(|| { let mut v: Vec<(&'static str, &'static str)> = STATIC_OPS.to_vec(); for (a, b) in generated_ops() { v.push((Box::leak(a.into_boxed_str()), Box::leak(b.into_boxed_str()))); } v.extend_from_slice(WIDE_OPS); v.extend_from_slice(LOOP_OPS); v.extend_from_slice(store_ops()); v })
}
/// matchers of the generated iterator operations
enum SM { K(ST), AnyM, Last }
impl sophia_api::term::matcher::TermMatcher for SM {
    type Term = ST;
    fn matches<T2: Term + ?Sized>(&self, t: &T2) -> bool { match self { SM::K(k) => Term::eq(k, t.borrow_term()), SM::AnyM => true, SM::Last => { probe(); t.iri().map_or(false, |i| i.as_str() == "x:last") } } }
    fn constant(&self) -> Option<&ST> { if let SM::K(k) = self { Some(k) } else { None } }
}
enum SG { K(GraphName<ST>), AnyM, Last }
impl sophia_api::term::matcher::GraphNameMatcher for SG {
    type Term = ST;
    fn matches<T2: Term + ?Sized>(&self, g: GraphName<&T2>) -> bool { match self { SG::K(k) => sophia_api::term::graph_name_eq(k.as_ref().map(|t| t.borrow_term()), g.map(|t| t.borrow_term())), SG::AnyM => true, SG::Last => { probe(); g.and_then(|t| t.iri()).map_or(false, |i| i.as_str() == "x:last") } } }
    fn constant(&self) -> Option<GraphName<&ST>> { if let SG::K(k) = self { Some(k.as_ref()) } else { None } }
}
fn run_generated(op: &str, n: usize) -> u64 {
    let parts: Vec<&str> = op.split('-').collect();
    let (store, consts, var) = (parts[1], parts[2], parts[3]);
    let var = "spog".find(var).unwrap();
    let fixed = [iri("x:s"), iri("x:p"), iri("x:o"), iri("x:g")];
    let row = |i: usize| -> [ST; 4] { let mut r = fixed.clone(); r[var] = if i + 1 == n { iri("x:last") } else { s_i(i) }; r };
    let sm = |pos: usize| if pos == var { SM::Last } else if consts.contains(['s', 'p', 'o', 'g'][pos]) { SM::K(fixed[pos].clone()) } else { SM::AnyM };
    let gm = || if var == 3 { SG::Last } else if consts.contains('g') { SG::K(Some(fixed[3].clone())) } else { SG::AnyM };
    fn g_go<G: MutableGraph + Graph>(mut g: G, n: usize, row: impl Fn(usize) -> [ST; 4], s: SM, p: SM, o: SM) -> u64 {
        for i in 0..n { let [a, b, c, _] = row(i); g.insert(a, b, c).ok().unwrap(); }
        g.triples_matching(s, p, o).count() as u64
    }
    fn d_go<D: MutableDataset + Dataset>(mut d: D, n: usize, row: impl Fn(usize) -> [ST; 4], s: SM, p: SM, o: SM, g: SG) -> u64 {
        for i in 0..n { let [a, b, c, gn] = row(i); d.insert(a, b, c, Some(gn)).ok().unwrap(); }
        d.quads_matching(s, p, o, g).count() as u64
    }
    match store {
        "lg" => g_go(LightGraph::new(), n, row, sm(0), sm(1), sm(2)),
        "fg" => g_go(FastGraph::new(), n, row, sm(0), sm(1), sm(2)),
        "ld" => d_go(LightDataset::new(), n, row, sm(0), sm(1), sm(2), gm()),
        _ => d_go(FastDataset::new(), n, row, sm(0), sm(1), sm(2), gm()),
    }
}
/// operations whose size dimension is one the property quantifies over (ORACLE); the rest would be exploration
fn in_oracle(_op: &str) -> bool { true }

fn s_i(i: usize) -> ST { iri(&format!("x:s{i}")) }
fn lit(i: usize) -> ST { lit_dt(&format!("{i}"), &format!("{XSD}string")) }
fn list_triples(n: usize) -> Vec<[ST; 3]> {
    let mut v = vec![[iri("x:s"), iri("x:p"), if n == 0 { iri(RDF_NIL) } else { bnode("l0") }]];
    for i in 0..n {
        v.push([bnode(&format!("l{i}")), iri(RDF_FIRST), lit(i)]);
        v.push([bnode(&format!("l{i}")), iri(RDF_REST), if i + 1 == n { iri(RDF_NIL) } else { bnode(&format!("l{}", i + 1)) }]);
    }
    v
}
fn escapes(n: usize) -> String { (0..n).map(|i| ['"', '\\', '\n', '\r'][i % 4]).collect() }

/// runs `op` at size `n`; the returned number is a functional summary that the caller checks
/// (expected value given by `expected`)
fn run_op(op: &str, n: usize) -> u64 {
    let (op, packed) = split_op(op);
    CFG.store(packed, SeqCst);
    let last = |t: SimpleTerm| -> bool { probe(); t.iri().map_or(false, |i| i.as_str() == "x:last") };
    match op {
        o if o.starts_with("it-") => run_generated(o, n),
        "spo-light" | "spo-fast" => {
            fn go<G: MutableGraph + Graph>(mut g: G, n: usize, last: impl Fn(SimpleTerm) -> bool) -> u64 {
                for i in 0..n { g.insert(if i + 1 == n { iri("x:last") } else { s_i(i) }, iri("x:p"), iri("x:o")).ok().unwrap(); }
                g.triples_matching(last, Any, Any).count() as u64
            }
            if op == "spo-light" { go(LightGraph::new(), n, last) } else { go(FastGraph::new(), n, last) }
        }
        "bc-light" | "bc-fast" => {
            fn go<G: MutableGraph + Graph>(mut g: G, n: usize, last: impl Fn(SimpleTerm) -> bool) -> u64 {
                for i in 0..n { g.insert(iri("x:s"), if i + 1 == n { iri("x:last") } else { s_i(i) }, iri("x:o")).ok().unwrap(); }
                g.triples_matching([iri("x:s")], last, Any).count() as u64
            }
            if op == "bc-light" { go(LightGraph::new(), n, last) } else { go(FastGraph::new(), n, last) }
        }
        "bc-fast-pos" => {
            let mut g = FastGraph::new();
            for i in 0..n { g.insert(iri("x:s"), iri("x:p"), if i + 1 == n { iri("x:last") } else { s_i(i) }).unwrap(); }
            g.triples_matching(Any, [iri("x:p")], last).count() as u64
        }
        "gspo-light" | "gspo-fast" | "bcd-light" | "bcd-fast" | "cd-light" | "cd-fast" => {
            fn go<D: MutableDataset + Dataset>(mut d: D, kind: u8, n: usize, last: impl Fn(SimpleTerm) -> bool) -> u64 {
                let g = Some(iri("x:g"));
                for i in 0..n {
                    let v = if i + 1 == n { iri("x:last") } else { s_i(i) };
                    if kind == 2 { d.insert(iri("x:s"), v, iri("x:o"), g.as_ref()).ok().unwrap(); } else { d.insert(v, iri("x:p"), iri("x:o"), g.as_ref()).ok().unwrap(); }
                }
                match kind {
                    0 => d.quads_matching(last, Any, Any, Any).count() as u64,
                    1 => d.quads_matching(last, Any, Any, [g.as_ref()]).count() as u64,
                    _ => d.quads_matching([iri("x:s")], last, Any, [g.as_ref()]).count() as u64,
                }
            }
            let kind = if op.starts_with("gspo") { 0 } else if op.starts_with("bcd") { 1 } else { 2 };
            if op.ends_with("light") { go(LightDataset::new(), kind, n, last) } else { go(FastDataset::new(), kind, n, last) }
        }
        "nt-escape" => {
            let t = [iri("x:s"), iri("x:p"), lit_dt(&escapes(n), &format!("{XSD}string"))];
            let mut sink = ProbeSink(0);
            sophia_turtle::serializer::nt::NtSerializer::new_with_config(&mut sink, nt_cfg()).serialize_triples([t].into_iter().into_source()).unwrap();
            sink.0
        }
        "nq-escape" => {
            let q = ([iri("x:s"), iri("x:p"), lit_dt(&escapes(n), &format!("{XSD}string"))], Some(iri("x:g")));
            let mut sink = ProbeSink(0);
            sophia_turtle::serializer::nq::NqSerializer::new_with_config(&mut sink, nt_cfg()).serialize_quads([q].into_iter().into_source()).unwrap();
            sink.0
        }
        "ttl-escape" => {
            let t = [iri("x:s"), iri("x:p"), lit_dt(&escapes(n), &format!("{XSD}string"))];
            let cfg = turtle_cfg(true);
            let mut sink = ProbeSink(0);
            sophia_turtle::serializer::turtle::TurtleSerializer::new_with_config(&mut sink, cfg).serialize_triples([t].into_iter().into_source()).unwrap();
            sink.0
        }
        "sparql-graph" => {
            use sophia_sparql::SparqlWrapper;
            let mut d = FastDataset::new();
            for i in 0..n { d.insert(s_i(i), iri("x:p"), iri("x:o"), Some(iri(&format!("x:g{i}")))).unwrap(); }
            let d = ProbeDs(d);
            let w = SparqlWrapper(&d);
            let b = sq(&w, "SELECT ?g ?s { GRAPH ?g { ?s ?p ?o } }").unwrap().into_bindings();
            let mut c = 0;
            for row in b { let row = row.unwrap(); if row[0].is_some() && row[1].is_some() { c += 1; } }
            c
        }
        "jsonld-list" | "jsonld-stmts" => {
            let ts: Vec<[ST; 3]> = if op == "jsonld-list" { list_triples(n) } else { (0..n).map(|i| [s_i(i), iri("x:p"), lit(i)]).collect() };
            let mut ser = sophia_jsonld::JsonLdSerializer::new_stringifier_with_options(jsonld_opts());
            ser.serialize_quads(ts.into_iter().map(|t| (t, None::<ST>)).into_source()).unwrap();
            // functional summary: the number of "@value" entries
            String::from_utf8_lossy(ser.as_utf8()).matches("\"@value\"").count() as u64
        }
        "ttl-list" | "ttl-pretty-stmts" | "ttl-chain" | "ttl-type-chain" => {
            let ts: Vec<[ST; 3]> = match op {
                "ttl-list" => list_triples(n),
                "ttl-pretty-stmts" => (0..n).map(|i| [s_i(i), iri("x:p"), lit(i)]).collect(),
                "ttl-type-chain" => (0..n).map(|i| [if i == 0 { iri("x:s") } else { bnode(&format!("b{i}")) }, iri("http://www.w3.org/1999/02/22-rdf-syntax-ns#type"), bnode(&format!("b{}", i + 1))]).collect(),
                _ => (0..n).map(|i| [if i == 0 { iri("x:s") } else { bnode(&format!("b{i}")) }, iri("x:p"), bnode(&format!("b{}", i + 1))]).collect(),
            };
            let cfg = turtle_cfg(true);
            let mut ser = sophia_turtle::serializer::turtle::TurtleSerializer::new_stringifier_with_config(cfg);
            let orig: Vec<[ST; 3]> = if n <= 1000 { ts.clone() } else { vec![] };
            ser.serialize_triples(ts.into_iter().into_source()).unwrap();
            let out = ser.as_utf8().to_vec();
            // parse it back: the number of triples must be the original one
            let back: Vec<[ST; 3]> = match sophia_turtle::parser::turtle::parse_bufread(&out[..]).collect_triples() {
                Ok(b) => b,
                // Rio refuses documents nested deeper than its own limit with an error VALUE: a
                // legitimate way to terminate for C16 (that the serializer wrote such a document is C04's business)
                Err(e) if (op == "ttl-chain" || op == "ttl-type-chain") && format!("{e:?}").contains("StackOverflow") => return n as u64,
                Err(e) => panic!("the Turtle parser rejects the serializer's output: {e:?}"),
            };
            // small enough: the graph read back must be the graph written (up to blank node labels)
            if n <= 1000 && !sophia_isomorphism::isomorphic_graphs(&orig, &back).unwrap() { return u64::MAX; }
            (back.len() as u64 - 1) / if op == "ttl-list" { 2 } else { 1 } + if op == "ttl-list" { 0 } else { 1 }
        }
        "insert-remove" => {
            let mut d = FastDataset::new();
            for i in 0..n { d.insert(s_i(i % (n / 2 + 1)), iri(&format!("x:p{}", i % 7)), lit(i), Some(iri(&format!("x:g{}", i % 11)))).unwrap(); }
            let c = d.quads_matching(Any, [iri("x:p3")], Any, Any).count() as u64 + d.quads().count() as u64;
            for i in 0..n { d.remove(s_i(i % (n / 2 + 1)), iri(&format!("x:p{}", i % 7)), lit(i), Some(iri(&format!("x:g{}", i % 11)))).unwrap(); }
            c * (d.quads().count() == 0) as u64
        }
        "nt-roundtrip" | "ttl-roundtrip" => {
            let ts = (0..n).map(|i| [s_i(i / 3), iri(&format!("x:p{}", i % 3)), lit(i)]);
            let out = if op == "nt-roundtrip" {
                let mut ser = sophia_turtle::serializer::nt::NtSerializer::new_stringifier_with_config(nt_cfg());
                ser.serialize_triples(ts.into_source()).unwrap(); ser.as_utf8().to_vec()
            } else {
                let mut ser = sophia_turtle::serializer::turtle::TurtleSerializer::new_stringifier_with_config(turtle_cfg(false));
                ser.serialize_triples(ts.into_source()).unwrap(); ser.as_utf8().to_vec()
            };
            let mut c = 0u64;
            if op == "nt-roundtrip" { sophia_turtle::parser::nt::parse_bufread(&out[..]).for_each_triple(|_| c += 1).unwrap(); }
            else { sophia_turtle::parser::turtle::parse_bufread(&out[..]).for_each_triple(|_| c += 1).unwrap(); }
            c
        }
        "ttl-parse-list" => {
            let mut doc = String::from("<x:s> <x:p> (");
            for i in 0..n { doc.push_str(&format!(" \"{i}\"")); }
            doc.push_str(" ) .\n");
            let mut c = 0u64;
            sophia_turtle::parser::turtle::parse_bufread(doc.as_bytes()).for_each_triple(|_| c += 1).unwrap();
            (c - 1) / 2
        }
        "sparql-bgp" | "sparql-order" => {
            use sophia_sparql::SparqlWrapper;
            let mut d = FastDataset::new();
            for i in 0..n { d.insert(s_i(i), iri("x:p"), lit(i), None::<ST>).unwrap(); }
            let d = ProbeDs(d);
            let w = SparqlWrapper(&d);
            let b = sq(&w, if op == "sparql-bgp" { "SELECT ?s { ?s <x:p> ?o FILTER(?o = <x:nope>) }" } else { "SELECT ?s { ?s <x:p> ?o } ORDER BY DESC(?s)" }).unwrap().into_bindings();
            let c = b.into_iter().filter(|r| r.is_ok()).count() as u64;
            if op == "sparql-bgp" { n as u64 - c } else { c }
        }
        o if WIDE_OPS.iter().any(|(k, _)| *k == o) => run_wide(o, n),
        o if LOOP_OPS.iter().any(|(k, _)| *k == o) => run_loop(o, n),
        o if o.starts_with("store-") => run_store(o, n),
        // exploration only (not in the table of operations): the size of the QUERY, on 3 triples
        "x-sparql-keys" | "x-sparql-patterns" | "x-sparql-unions" => {
            let mut d = FastDataset::new();
            for i in 0..3 { d.insert(s_i(i), iri("x:p"), lit(7), None::<ST>).unwrap(); }
            let q = match op {
                "x-sparql-keys" => format!("SELECT ?s {{ ?s <x:p> ?o }} ORDER BY {} ?s", "?o ".repeat(n)),
                "x-sparql-patterns" => format!("SELECT ?s {{ {} }}", "?s <x:p> ?o . ".repeat(n)),
                _ => format!("SELECT ?s {{ {} }}", vec!["{ ?s <x:p> ?o }"; n].join(" UNION ")),
            };
            if std::env::var("C16_PARSE_ONLY").is_ok() { use sophia_sparql::SparqlQuery; let _q: SparqlQuery<FastDataset> = SparqlQuery::parse(&q).unwrap(); return n as u64; }
            match sparql_run(&d, &q) { Ok((c, 0)) if c == if op == "x-sparql-unions" { 3 * n as u64 } else { 3 } => n as u64, r => { eprintln!("{:?}", r.map_err(|e| e.chars().take(200).collect::<String>())); 0 } }
        }
        // exploration only: NtConfig::set_ascii(true) ("Pure-ASCII N-Triples is not implemented yet": todo!())
        "x-nt-ascii" => {
            let mut c = sophia_turtle::serializer::nt::NtConfig::default(); c.set_ascii(true);
            let mut ser = sophia_turtle::serializer::nt::NtSerializer::new_stringifier_with_config(c);
            ser.serialize_triples((0..n).map(|i| [s_i(i), iri("x:p"), lit_lang("\u{e9}", "fr")]).into_source()).unwrap();
            n as u64
        }
        _ => panic!("unknown operation {op}"),
    }
}
/// the functional summary expected from run_op
fn expected(op: &str, n: usize) -> Option<u64> {
    match split_op(op).0 {
        o if o.starts_with("it-") || o.starts_with("spo-") || o.starts_with("bc-") || o.starts_with("gspo-") || o.starts_with("bcd-") || o.starts_with("cd-") => Some(1),
        o if o.contains("-escape") => None, // byte count, checked > 2n below
        "insert-remove" => Some((n + (n + 3) / 7) as u64),
        _ => Some(n as u64),
    }
}

// ---------------------------------------------------------------------------------------------
// operations added after the coverage report: the remaining arms of the anchored files
// (nt.rs terms of every kind, _pretty.rs named graphs / property and object lists / annotations /
// cycles / damaged lists, exec.rs FROM / UNION / BIND / DISTINCT / OFFSET / ASK / GRAPH <iri> /
// EXISTS / unsupported forms / failing datasets, bgp.rs joins, engine.rs named graphs / @type /
// native types / compound literals / cyclic lists / JSON literals, term.rs eq / cmp / hash on
// every kind and the provided methods of the native term types), each at large sizes.
// Every operation checks its own functional summary and returns n when it is right.
// ---------------------------------------------------------------------------------------------
const WIDE_OPS: &[(&str, &str)] = &[
    ("nt-kinds", "NtSerializer::new_with_config(NtConfig::set_ascii(false)) on n triples going through every kind of term (blank nodes, language-tagged and typed literals, quoted triples two deep), read back by the N-Triples parser and compared term by term"),
    ("nq-kinds", "NqSerializer on n generalized quads (variables, IRI / blank node / absent graph names), read back by the generalized N-Quads parser and compared term by term"),
    ("nt-escape-lang", "NtSerializer on one language-tagged literal with n escaped characters"),
    ("nt-escape-dt", "NtSerializer on one typed literal with n escaped characters"),
    ("nt-escape-quoted", "nt::write_triple on a triple whose object is a quoted triple holding a literal with n escaped characters"),
    ("trig-graphs", "pretty TrigSerializer on n named graphs (IRI and blank node names, a blank node shared by many graphs)"),
    ("ttl-wide", "pretty TurtleSerializer on one subject with n predicates, n objects of one predicate and n rdf:type objects"),
    ("ttl-annot", "pretty TurtleSerializer on n annotated asserted triples, quoted triples as subjects and objects (with blank nodes inside)"),
    ("ttl-kinds", "pretty TurtleSerializer (prefix map) on n generalized statements: language-tagged, typed and native literals, rdf:nil, prefixed / relative IRIs, [] subjects, labelled blank nodes, variables; read back by the generalized TriG parser"),
    ("ttl-cycle", "pretty TurtleSerializer on a cycle of n blank nodes plus a chain of n blank nodes hanging from a labelled node"),
    ("ttl-lists-bad", "pretty TurtleSerializer on n small lists (well-formed, shared head, shared tail, extra property, two rdf:first) plus one list of n cells damaged in the middle"),
    ("sparql-from", "SELECT ?s FROM <x:g> { ?s <x:p> ?o } over n triples of one named graph"),
    ("sparql-unsupported", "every form the wrapper does not implement (FROM NAMED, path, join, OPTIONAL, MINUS, VALUES, REDUCED, GROUP BY, SERVICE, CONSTRUCT, DESCRIBE) over n quads in n/2 named graphs: an error value each"),
    ("sparql-union", "SELECT ?s ?o { {..} UNION {..} UNION {..} UNION {..} } over n triples"),
    ("sparql-extend", "SELECT ?s ?x { ?s <x:p> ?o BIND(STR(?o) AS ?x) } over n triples"),
    ("sparql-distinct", "SELECT DISTINCT ?o over n triples with 3 distinct objects (n-3 solutions skipped)"),
    ("sparql-slice", "SELECT ?s { ?s <x:p> ?o } OFFSET n-1 LIMIT 5 / LIMIT 7 / OFFSET n+5 over n triples"),
    ("sparql-ask", "ASK { ?s <x:p> ?o } and ASK with a filter rejecting all n solutions"),
    ("sparql-graph-const", "SELECT ?s { GRAPH <x:g7> { ?s ?p ?o } } and GRAPH <x:absent> over n named graphs"),
    ("sparql-exists", "FILTER [NOT] EXISTS over n/2 solutions of the default graph (one sub-evaluation per solution), and GRAPH ?g {..} FILTER [NOT] EXISTS { GRAPH ?g {..} } (GRAPH variable bound from outside) over n quads in 100 named graphs"),
    ("sparql-errors", "a dataset whose iterators end with an error: GRAPH ?g { .. FILTER(true) } over n named graphs (n error items flow through bgp, filter and the per-graph join), ORDER BY (error value), failing graph_names"),
    ("sparql-order-multi", "SELECT ?s { {..} UNION {..} } ORDER BY ?nope ?o DESC(?s) over n triples (unbound keys)"),
    ("sparql-bgp-join", "basic graph patterns of 3 triple patterns over 3n triples: a ground pattern, n intermediate solutions, a variable repeated in one pattern (n candidate rows rejected)"),
    ("jsonld-graphs", "JsonLdSerializer on n named graphs of one statement each"),
    ("jsonld-graph-nodes", "JsonLdSerializer on n subjects in n/100 named graphs of 100 subjects each"),
    ("jsonld-types", "JsonLdSerializer on n typed subjects plus n/100 subjects with 100 types each, with and without use_rdf_type"),
    ("jsonld-kinds", "JsonLdSerializer (use_native_types, rdfDirection i18n-datatype) on n statements: language-tagged strings, integers, doubles, booleans, i18n datatypes, other datatypes, IRI and blank node objects, rdf:JSON literals"),
    ("jsonld-compound", "JsonLdSerializer (rdfDirection compound-literal) on n compound literals"),
    ("jsonld-list-cycle", "JsonLdSerializer on one list of n cells whose last item is the list itself (unanchored: nothing may disappear)"),
    ("jsonld-shared", "JsonLdSerializer on a blank node with n parents and n/4 one-cell lists whose cell also occurs in another graph"),
    ("jsonld-list10", "JsonLdSerializer in json-ld-1.0 mode on one list of n items, one of which is a list"),
    ("jsonld-json-literal", "JsonLdSerializer on one rdf:JSON literal holding a flat array of n numbers"),
    ("term-ord", "Term::cmp / eq / hash on n terms of every kind (variables, language-tagged literals, quoted triples), owned and through &T: sort, dedup, hash"),
    ("term-native", "the provided methods of Term (is_literal, is_variable, variable, eq, cmp) on n IriRef / BnodeId / VarName / i32 / str terms"),
    ("term-nested", "constituents / to_constituents / atoms / to_atoms / eq / cmp / hash of n quoted triples nested 4 deep"),
];

fn xsd(s: &str) -> String { format!("{XSD}{s}") }
const RDF_TYPE: &str = "http://www.w3.org/1999/02/22-rdf-syntax-ns#type";
/// statement number i of a stream that goes through every kind of term (distinct for distinct i)
fn kinds_triple(i: usize, generalized: bool) -> [ST; 3] {
    let s = match i % 4 {
        0 => s_i(i),
        1 => bnode(&format!("b{i}")),
        2 => triple(s_i(i), iri("x:p"), lit(i)),
        _ => triple(triple(bnode(&format!("q{i}")), iri("x:p"), lit_lang("a\"b\\c\nd", "en")), iri("x:q"), s_i(i)),
    };
    let o = match i % 6 {
        0 => lit(i),
        1 => lit_lang(&format!("chat\n\"{i}\""), "fr-FR"),
        2 => lit_dt(&format!("{i}"), &xsd("integer")),
        3 => bnode(&format!("o{i}")),
        4 => triple(bnode(&format!("o{i}")), iri("x:p"), lit_dt("\r\\", "x:dt")),
        _ => if generalized { var(&format!("v{i}")) } else { iri(&format!("x:o{i}")) },
    };
    [s, iri(&format!("x:p{}", i % 3)), o]
}
/// io::Write sink that probes at each call and keeps the bytes
struct ProbeVec(Vec<u8>);
impl std::io::Write for ProbeVec {
    fn write(&mut self, b: &[u8]) -> std::io::Result<usize> { probe(); self.0.extend_from_slice(b); Ok(b.len()) }
    fn flush(&mut self) -> std::io::Result<()> { Ok(()) }
}
type Q = ([ST; 3], Option<ST>);
/// pretty Turtle / TriG there and back: the quads read back must be as many as the quads
/// written, and (small sizes) the same dataset up to blank node labels.  `expect`: what the
/// reader is expected to return when it is not literally the input (relative IRIs resolved).
fn pretty_there_and_back(quads: Vec<Q>, expect: Option<Vec<Q>>, trig: bool, generalized: bool, n: usize) -> bool {
    use sophia_api::parser::QuadParser;
    let cfg = turtle_cfg_own(true, vec![pm_pair("ex", "http://example.org/ns/")]);
    let len = quads.len();
    let orig: Vec<Q> = match expect { Some(e) => e, None => if n <= 300 { quads.clone() } else { vec![] } };
    let out = if trig {
        let mut sink = ProbeVec(vec![]);
        sophia_turtle::serializer::trig::TrigSerializer::new_with_config(&mut sink, cfg).serialize_quads(quads.into_iter().into_source()).unwrap();
        sink.0
    } else {
        assert!(quads.iter().all(|q| q.1.is_none()));
        let mut sink = ProbeVec(vec![]);
        sophia_turtle::serializer::turtle::TurtleSerializer::new_with_config(&mut sink, cfg).serialize_triples(quads.into_iter().map(|q| q.0).into_source()).unwrap();
        sink.0
    };
    let back: Vec<Q> = if generalized {
        let p = sophia_turtle::parser::gtrig::GTriGParser { base: Some(sophia_iri::Iri::new_unchecked("http://base/".to_string())) };
        match p.parse(&out[..]).collect_quads() { Ok(b) => b, Err(e) => panic!("the generalized TriG parser rejects the serializer's output: {e:?}\n{}", String::from_utf8_lossy(&out[..out.len().min(3000)])) }
    } else {
        match sophia_turtle::parser::trig::parse_bufread(&out[..]).collect_quads() { Ok(b) => b, Err(e) => panic!("the TriG parser rejects the serializer's output: {e:?}\n{}", String::from_utf8_lossy(&out[..out.len().min(3000)])) }
    };
    if back.len() != len { eprintln!("{len} quads written, {} read back", back.len()); return false; }
    if n <= 300 && !sophia_isomorphism::isomorphic_datasets(&orig, &back).unwrap() { eprintln!("the dataset read back differs:\n{}", String::from_utf8_lossy(&out[..out.len().min(3000)])); return false; }
    true
}

/// a dataset whose iterators end with an error item (and, optionally, whose graph_names fails)
struct FailDs<D> { d: D, fail_names: bool }
impl<D: Dataset> Dataset for FailDs<D> {
    type Quad<'x> = D::Quad<'x> where Self: 'x;
    type Error = MyErr;
    fn quads(&self) -> impl Iterator<Item = Result<Self::Quad<'_>, Self::Error>> + '_ { probe(); self.d.quads().map(|r| r.map_err(|_| MyErr(0))).chain(std::iter::once_with(|| Err(MyErr(1)))) }
    fn quads_matching<'s, 't, S, P, O, G>(&'s self, sm: S, pm: P, om: O, gm: G) -> impl Iterator<Item = Result<Self::Quad<'s>, Self::Error>> + 't
    where 's: 't, S: sophia_api::term::matcher::TermMatcher + 't, P: sophia_api::term::matcher::TermMatcher + 't, O: sophia_api::term::matcher::TermMatcher + 't, G: sophia_api::term::matcher::GraphNameMatcher + 't {
        probe(); self.d.quads_matching(sm, pm, om, gm).map(|r| r.map_err(|_| MyErr(0))).chain(std::iter::once_with(|| Err(MyErr(2))))
    }
    fn graph_names(&self) -> impl Iterator<Item = Result<sophia_api::dataset::DTerm<'_, Self>, Self::Error>> + '_ {
        probe(); let fail = self.fail_names;
        self.d.graph_names().map(|r| r.map_err(|_| MyErr(0))).chain(std::iter::once_with(|| Err(MyErr(3))).filter(move |_| fail))
    }
}

/// outcome of one query: Ok((solutions, error items)) / Ok for ASK ((1|0), 0) / Err(the error value, as text)
fn sparql_run<D: Dataset>(d: &D, q: &str) -> Result<(u64, u64), String> {
    use sophia_sparql::SparqlWrapper;
    let w = SparqlWrapper(d);
    match sq(&w, q) {
        Err(e) => Err(format!("{e:?}")),
        Ok(sophia_api::sparql::SparqlResult::Boolean(b)) => Ok((b as u64, 0)),
        Ok(r) => { let (mut ok, mut er) = (0, 0); for row in r.into_bindings() { match row { Ok(_) => ok += 1, Err(_) => er += 1 } } Ok((ok, er)) }
    }
}
fn jsonld_text<LF: sophia_jsonld::loader_factory::LoaderFactory>(quads: Vec<Q>, opt: sophia_jsonld::JsonLdOptions<LF>) -> String {
    let mut sink = ProbeVec(vec![]);
    sophia_jsonld::JsonLdSerializer::new_with_options(&mut sink, opt).serialize_quads(quads.into_iter().into_source()).unwrap();
    String::from_utf8(sink.0).unwrap()
}
fn top_len(txt: &str) -> usize { match parse_json(txt) { Some(J::Arr(a)) => a.len(), _ => usize::MAX } }
fn nq(t: [ST; 3]) -> Q { (t, None) }
static QUIET: std::sync::atomic::AtomicBool = std::sync::atomic::AtomicBool::new(false);
fn ck(cond: bool, what: &str) -> bool { if !cond && !QUIET.load(SeqCst) { eprintln!("functional check failed: {what}"); } cond }

fn run_wide(op: &str, n: usize) -> u64 {
    use sophia_turtle::serializer::{nq::NqSerializer, nt::{NtConfig, NtSerializer}};
    let yes = |b: bool| if b { n as u64 } else { 0 };
    match op {
        "nt-kinds" => {
            let mut cfg = NtConfig::default(); cfg.set_ascii(false); let _ = cfg_get(D_ASCII);
            let mut sink = ProbeVec(vec![]);
            { let mut ser = NtSerializer::new_with_config(&mut sink, cfg);
              let _ = ser.config();
              ser.serialize_triples((0..n).map(|i| kinds_triple(i, false)).into_source()).unwrap(); }
            let out = sink.0;
            let (mut c, mut same) = (0usize, true);
            sophia_turtle::parser::nt::parse_bufread(&out[..]).for_each_triple(|t| { let e = kinds_triple(c, false); same &= Term::eq(&e[0], t.s()) && Term::eq(&e[1], t.p()) && Term::eq(&e[2], t.o()); c += 1; }).unwrap();
            // the stringifier writes the same bytes
            let same_str = n > 20_000 || { let mut s = NtSerializer::new_stringifier_with_config(nt_cfg()); s.serialize_triples((0..n).map(|i| kinds_triple(i, false)).into_source()).unwrap(); s.as_utf8() == &out[..] };
            yes(ck(c == n, "number of triples read back") && ck(same, "terms read back") && ck(same_str, "stringifier"))
        }
        "nq-kinds" => {
            let quad = |i: usize| -> Q { (kinds_triple(i, true), match i % 5 { 0 => None, 1 | 2 => Some(iri(&format!("x:g{}", i % 50))), 3 => Some(bnode(&format!("g{}", i % 50))), _ => Some(var("g")) }) };
            let mut sink = ProbeVec(vec![]);
            NqSerializer::new_with_config(&mut sink, nt_cfg()).serialize_quads((0..n).map(quad).into_source()).unwrap();
            let out = sink.0;
            let (mut c, mut same) = (0usize, true);
            sophia_turtle::parser::gnq::parse_bufread(&out[..]).for_each_quad(|q| { let e = quad(c); same &= Term::eq(&e.0[0], q.s()) && Term::eq(&e.0[1], q.p()) && Term::eq(&e.0[2], q.o()) && sophia_api::term::graph_name_eq(e.1.as_ref(), q.g()); c += 1; }).unwrap();
            yes(ck(c == n, "number of quads read back") && ck(same, "terms read back"))
        }
        "nt-escape-lang" | "nt-escape-dt" => {
            let l = if op == "nt-escape-lang" { lit_lang(&escapes(n), "en") } else { lit_dt(&escapes(n), "x:dt") };
            let mut sink = ProbeSink(0);
            NtSerializer::new_with_config(&mut sink, nt_cfg()).serialize_triples([[iri("x:s"), iri("x:p"), l]].into_iter().into_source()).unwrap();
            sink.0
        }
        "nt-escape-quoted" => {
            let t = [iri("x:s"), iri("x:p"), triple(iri("x:a"), iri("x:p"), lit_lang(&escapes(n), "en-GB"))];
            let mut sink = ProbeSink(0);
            sophia_turtle::serializer::nt::write_triple(&mut sink, t).unwrap();
            sink.0
        }
        "trig-graphs" => {
            let mut qs: Vec<Q> = vec![nq([iri("x:s"), iri("x:p"), iri("x:o")])];
            for i in 0..n {
                let g = if i % 2 == 0 { iri(&format!("x:g{i}")) } else { bnode(&format!("g{i}")) };
                if i % 4 == 1 { qs.push(nq([g.clone(), iri("x:p"), lit(i)])); } // the name of a graph is also a subject of the default graph
                if i % 3 == 0 { qs.push(([bnode("shared"), iri("x:p"), iri("x:o")], Some(g.clone()))); } // one blank node in many graphs
                if i % 5 == 0 { qs.push(([s_i(i), iri("x:q"), bnode(&format!("in{i}"))], Some(g.clone()))); qs.push(([bnode(&format!("in{i}")), iri("x:p"), lit(i)], Some(g.clone()))); }
                qs.push(([s_i(i), iri("x:p"), lit(i)], Some(g)));
            }
            yes(pretty_there_and_back(qs, None, true, false, n))
        }
        "ttl-wide" => {
            if !pretty_there_and_back(vec![], None, false, false, n) || !pretty_there_and_back(vec![], None, true, false, n) { eprintln!("the empty graph / dataset"); return 0; }
            let mut qs: Vec<Q> = vec![];
            for i in 0..n {
                qs.push(nq([iri("x:s"), iri(&format!("x:p{i}")), lit(i)]));
                qs.push(nq([iri("x:s"), iri("x:many"), if i % 2 == 0 { lit(i) } else { s_i(i) }]));
                qs.push(nq([iri("x:s"), iri(RDF_TYPE), iri(&format!("http://example.org/ns/C{i}"))]));
            }
            yes(pretty_there_and_back(qs, None, false, false, n))
        }
        "ttl-annot" => {
            let mut qs: Vec<Q> = vec![];
            for i in 0..n {
                let o = if i % 2 == 0 { lit(i) } else { s_i(i + 1) };
                qs.push(nq([s_i(i), iri("x:p"), o.clone()]));
                qs.push(nq([triple(s_i(i), iri("x:p"), o), iri("x:q"), lit(i)])); // annotation of an asserted triple
                match i % 3 {
                    1 => qs.push(nq([triple(iri("x:a"), iri("x:p"), lit(i)), iri("x:q"), iri("x:o")])), // a quoted triple that is not asserted
                    2 => { // a quoted triple as object, its blank node subject asserted / not asserted
                        qs.push(nq([s_i(i), iri("x:r"), triple(bnode(&format!("k{i}")), iri("x:p"), iri("x:o"))]));
                        if i % 2 == 0 { qs.push(nq([bnode(&format!("k{i}")), iri("x:p"), iri("x:o")])); }
                    }
                    _ => { qs.push(nq([s_i(i), iri("x:r"), triple(triple(iri("x:a"), iri("x:p"), bnode(&format!("m{i}"))), iri("x:q"), lit_lang("x", "en"))]));
                        // asserted and quoted, but with rdf:first as predicate: not written as an annotation
                        qs.push(nq([s_i(i), iri(RDF_FIRST), lit(i)])); qs.push(nq([triple(s_i(i), iri(RDF_FIRST), lit(i)), iri("x:q"), lit(i)])); }
                }
            }
            yes(pretty_there_and_back(qs, None, false, false, n))
        }
        "ttl-kinds" => {
            let (mut qs, mut ex): (Vec<Q>, Vec<Q>) = (vec![], vec![]);
            let mut both = |t: [ST; 3], e: Option<[ST; 3]>| { ex.push(nq(e.unwrap_or_else(|| t.clone()))); qs.push(nq(t)); };
            for i in 0..n {
                let s = s_i(i);
                match i % 16 {
                    0 => both([s, iri("x:p"), lit_lang(&format!("chat \"{i}\"\n"), "fr-FR")], None),
                    1 => both([s, iri("x:p"), lit_dt(&format!("{i}"), "http://example.org/ns/dt")], None),
                    2 => both([s, iri("x:p"), lit_dt(&format!("{i}"), &xsd("integer"))], None),
                    3 => both([s, iri("x:p"), lit_dt(&format!("{i}.5"), &xsd("decimal"))], None),
                    4 => both([s, iri("x:p"), lit_dt(&format!("{i}e3"), &xsd("double"))], None),
                    5 => both([s, iri("x:p"), lit_dt(if i % 32 == 5 { "true" } else { "false" }, &xsd("boolean"))], None),
                    6 => both([s, iri("x:p"), lit_dt(&format!("abc{i}"), &xsd("integer"))], None), // not in the lexical space: quoted
                    7 => both([s, iri("x:p"), iri(RDF_NIL)], None),
                    8 => both([iri(&format!("http://example.org/ns/n{i}")), iri("http://example.org/ns/p"), iri(&format!("http://example.org/ns/a/b{i}"))], None), // prefixed name / not a PN_LOCAL
                    9 => both([iri(&format!("rel{i}")), iri("x:p"), lit(i)], Some([iri(&format!("http://base/rel{i}")), iri("x:p"), lit(i)])), // relative IRI reference
                    10 => both([bnode(&format!("anon{i}")), iri("x:p"), lit(i)], None), // a blank node that is nobody's object: []
                    11 => { both([s.clone(), iri("x:p"), bnode(&format!("twice{i}"))], None); both([s, iri("x:q"), bnode(&format!("twice{i}"))], None); both([bnode(&format!("twice{i}")), iri("x:p"), lit(i)], None); } // labelled
                    12 => both([s, iri("x:p"), var(&format!("v{i}"))], None),
                    13 => both([s, bnode(&format!("pred{i}")), lit(i)], None), // generalized: blank node as predicate
                    14 => { both([bnode(&format!("sp{i}")), iri("x:p"), lit(i)], None); both([s, bnode(&format!("sp{i}")), lit(i)], None); } // first a subject, then a predicate
                    _ => both([s, iri("x:p"), triple(var("x"), iri(RDF_NIL), lit_dt("1", &xsd("integer")))], None),
                }
            }
            yes(pretty_there_and_back(qs, Some(ex), false, true, n))
        }
        "ttl-cycle" => {
            let mut qs: Vec<Q> = vec![];
            for i in 0..n { qs.push(nq([bnode(&format!("c{i}")), iri("x:p"), bnode(&format!("c{}", (i + 1) % n))])); }
            qs.push(nq([iri("x:s1"), iri("x:p"), bnode("top")])); qs.push(nq([iri("x:s2"), iri("x:p"), bnode("top")]));
            for i in 0..n { qs.push(nq([if i == 0 { bnode("top") } else { bnode(&format!("h{i}")) }, iri("x:p"), bnode(&format!("h{}", i + 1))])); }
            yes(pretty_there_and_back(qs, None, false, false, n))
        }
        "ttl-lists-bad" => {
            let mut qs: Vec<Q> = vec![];
            let cell = |qs: &mut Vec<Q>, id: &str, first: ST, rest: ST| { qs.push(nq([bnode(id), iri(RDF_FIRST), first])); qs.push(nq([bnode(id), iri(RDF_REST), rest])); };
            for i in 0..n {
                let (a, b) = (format!("a{i}"), format!("b{i}"));
                qs.push(nq([s_i(i), iri("x:p"), bnode(&a)]));
                cell(&mut qs, &b, lit(i), iri(RDF_NIL));
                match i % 6 {
                    5 => cell(&mut qs, &a, lit(i), iri("x:not-a-list")), // rdf:rest is neither rdf:nil nor a blank node
                    0 => cell(&mut qs, &a, lit(i), bnode(&b)),
                    1 => { cell(&mut qs, &a, lit(i), bnode(&b)); qs.push(nq([s_i(i), iri("x:q"), bnode(&a)])); } // the head has two parents
                    2 => { cell(&mut qs, &a, lit(i), bnode(&b)); qs.push(nq([s_i(i), iri("x:q"), bnode(&format!("z{i}"))])); cell(&mut qs, &format!("z{i}"), lit(i), bnode(&b)); } // two cells share their tail
                    3 => { cell(&mut qs, &a, lit(i), bnode(&b)); qs.push(nq([bnode(&b), iri("x:extra"), lit(i)])); } // the last cell has one more property
                    _ => { cell(&mut qs, &a, lit(i), bnode(&b)); qs.push(nq([bnode(&a), iri(RDF_FIRST), lit(i + 1)])); } // two rdf:first
                }
            }
            // one long list, damaged in the middle
            qs.push(nq([iri("x:long"), iri("x:p"), bnode("l0")]));
            for i in 0..n { cell(&mut qs, &format!("l{i}"), lit(i), if i + 1 == n { iri(RDF_NIL) } else { bnode(&format!("l{}", i + 1)) }); }
            qs.push(nq([bnode(&format!("l{}", n / 2)), iri("x:extra"), lit(0)]));
            yes(pretty_there_and_back(qs, None, false, false, n))
        }
        "sparql-from" => {
            let mut d = FastDataset::new();
            for i in 0..n { d.insert(s_i(i), iri("x:p"), lit(i), Some(if i % 7 == 3 { iri("x:other3") } else { iri("x:g") })).unwrap(); }
            d.insert(iri("x:s"), iri("x:p"), iri("x:o"), None::<ST>).unwrap();
            let d = ProbeDs(d);
            let a = sparql_run(&d, "SELECT ?s FROM <x:g> { ?s <x:p> ?o }");
            let b = sparql_run(&d, "SELECT ?s FROM <x:g> FROM <x:other3> { ?s <x:p> ?o }");
            // (spargebra reports FROM with an empty FROM NAMED list, which the wrapper refuses: an error value)
            let unsupported = |r: &Result<(u64, u64), String>| matches!(r, Err(e) if e.contains("Not implemented"));
            yes(ck(a == Ok((n as u64 - ((n + 3) / 7) as u64, 0)) || unsupported(&a), &format!("FROM <x:g>: {a:?}")) && ck(b == Ok((n as u64, 0)) || unsupported(&b), &format!("two FROM: {b:?}")))
        }
        "sparql-unsupported" => {
            let mut d = FastDataset::new();
            for i in 0..n { d.insert(s_i(i), iri("x:p"), lit(i), if i % 2 == 0 { None } else { Some(iri(&format!("x:g{i}"))) }).unwrap(); }
            let d = ProbeDs(d);
            let qs = ["SELECT ?s FROM NAMED <x:g1> { ?s ?p ?o }", "SELECT ?s { ?s <x:p>+ ?o }", "SELECT ?s { { ?s <x:p> ?o FILTER(true) } { SELECT ?s { ?s <x:q> ?o2 } } }", "SELECT ?s { ?s <x:p> ?o OPTIONAL { ?s <x:q> ?o2 } }",
                "SELECT ?s { ?s <x:p> ?o MINUS { ?s <x:q> ?o } }", "SELECT ?s { VALUES ?s { <x:s0> <x:s1> } ?s <x:p> ?o }", "SELECT ?s { VALUES ?s { <x:s0> <x:s1> } }", "SELECT REDUCED ?s { ?s <x:p> ?o }", "SELECT (COUNT(?s) AS ?c) { ?s <x:p> ?o }",
                "SELECT ?p (COUNT(?s) AS ?c) { ?s ?p ?o } GROUP BY ?p", "SELECT ?s { SERVICE <x:svc> { ?s <x:p> ?o } }", "CONSTRUCT { ?s <x:q> ?o } WHERE { ?s <x:p> ?o }", "DESCRIBE <x:s0>"];
            let mut all = true;
            for q in qs { let r = sparql_run(&d, q); all &= ck(matches!(&r, Err(e) if e.contains("Not implemented")), &format!("{q}: expected a NotImplemented error value, got {r:?}")); }
            yes(all)
        }
        "sparql-union" => {
            let mut d = FastDataset::new();
            for i in 0..n { d.insert(s_i(i), iri(&format!("x:p{}", i % 4)), lit(i), None::<ST>).unwrap(); }
            let d = ProbeDs(d);
            let r = sparql_run(&d, "SELECT ?s ?o ?o1 { { ?s <x:p0> ?o } UNION { ?s <x:p1> ?o1 } UNION { ?s <x:p2> ?o } UNION { ?s <x:p3> ?o } }");
            yes(ck(r == Ok((n as u64, 0)), &format!("{r:?}")))
        }
        "sparql-extend" => {
            use sophia_sparql::SparqlWrapper;
            let mut d = FastDataset::new();
            for i in 0..n { d.insert(s_i(i), iri("x:p"), lit(i), None::<ST>).unwrap(); }
            let d = ProbeDs(d);
            let w = SparqlWrapper(&d);
            let mut c = 0usize;
            for row in sq(&w, "SELECT ?s ?x ?y { ?s <x:p> ?o BIND(STR(?o) AS ?x) BIND(?nope AS ?y) }").unwrap().into_bindings() { let row = row.unwrap(); if row[0].is_some() && row[1].is_some() && row[2].is_none() { c += 1; } }
            // a variable bound twice is refused: by the parser, or with an error value
            let r = sparql_run(&d, "SELECT ?s { ?s <x:p> ?o BIND(1 AS ?o) }");
            yes(ck(c == n, &format!("{c} extended solutions")) && ck(r.is_err(), &format!("BIND on a bound variable: {r:?}")))
        }
        "sparql-distinct" => {
            let mut d = FastDataset::new();
            for i in 0..n { d.insert(s_i(i), iri("x:p"), lit(i % 3), None::<ST>).unwrap(); }
            let d = ProbeDs(d);
            let r = sparql_run(&d, "SELECT DISTINCT ?o { ?s <x:p> ?o }");
            let r2 = sparql_run(&d, "SELECT DISTINCT ?s ?o { ?s <x:p> ?o }");
            yes(ck(r == Ok((3.min(n) as u64, 0)), &format!("{r:?}")) && ck(r2 == Ok((n as u64, 0)), &format!("{r2:?}")))
        }
        "sparql-slice" => {
            let mut d = FastDataset::new();
            for i in 0..n { d.insert(s_i(i), iri("x:p"), lit(i), None::<ST>).unwrap(); }
            let d = ProbeDs(d);
            let a = sparql_run(&d, &format!("SELECT ?s {{ ?s <x:p> ?o }} OFFSET {} LIMIT 5", n - 1));
            let b = sparql_run(&d, "SELECT ?s { ?s <x:p> ?o } LIMIT 7");
            let c = sparql_run(&d, &format!("SELECT ?s {{ ?s <x:p> ?o }} OFFSET {}", n + 5));
            yes(ck(a == Ok((1, 0)), &format!("{a:?}")) && ck(b == Ok((7, 0)), &format!("{b:?}")) && ck(c == Ok((0, 0)), &format!("{c:?}")))
        }
        "sparql-ask" => {
            let mut d = FastDataset::new();
            for i in 0..n { d.insert(s_i(i), iri("x:p"), lit(i), None::<ST>).unwrap(); }
            let d = ProbeDs(d);
            let a = sparql_run(&d, "ASK { ?s <x:p> ?o }");
            let b = sparql_run(&d, "ASK { ?s <x:p> ?o FILTER(?o = <x:nope>) }");
            let c = sparql_run(&d, "ASK { ?s <x:q> ?o }");
            yes(ck(a == Ok((1, 0)), &format!("{a:?}")) && ck(b == Ok((0, 0)), &format!("{b:?}")) && ck(c == Ok((0, 0)), &format!("{c:?}")))
        }
        "sparql-graph-const" => {
            let mut d = FastDataset::new();
            for i in 0..n { d.insert(s_i(i), iri("x:p"), lit(i), Some(iri(&format!("x:g{i}")))).unwrap(); }
            d.insert(iri("x:s"), iri("x:p"), iri("x:absent"), None::<ST>).unwrap();
            let d = ProbeDs(d);
            let a = sparql_run(&d, "SELECT ?s { GRAPH <x:g7> { ?s ?p ?o } }");
            let b = sparql_run(&d, "SELECT ?s { GRAPH <x:absent> { } }");
            let c = sparql_run(&d, &format!("SELECT ?s {{ GRAPH <x:g{}> {{ ?s ?p ?o FILTER(?s != <x:nope>) }} }}", n - 1));
            yes(ck(a == Ok((1, 0)), &format!("{a:?}")) && ck(b == Ok((0, 0)), &format!("{b:?}")) && ck(c == Ok((1, 0)), &format!("{c:?}")))
        }
        "sparql-exists" => {
            let mut d = FastDataset::new();
            for i in 0..n {
                if i % 2 == 0 { d.insert(s_i(i), iri("x:p"), lit(i), None::<ST>).unwrap(); }
                if i % 4 == 0 { d.insert(s_i(i), iri("x:q"), lit(i), None::<ST>).unwrap(); }
                d.insert(s_i(i), iri("x:p"), lit(i), Some(iri(&format!("x:g{}", i % 100)))).unwrap();
            }
            // (the list of graph names kept by the wrapper has one entry per quad of a named graph, and a bound GRAPH
            // variable is looked up in it once per solution: only a few solutions take that path)
            let rare = (0..20.min(n)).map(|k| 5 * k).filter(|k| *k < n.min(100)).collect::<Vec<_>>();
            for k in &rare { d.insert(s_i(*k), iri("x:rare"), lit(*k), Some(iri(&format!("x:g{}", k % 100)))).unwrap(); }
            let d = ProbeDs(d);
            let a = sparql_run(&d, "SELECT ?s { ?s <x:p> ?o FILTER EXISTS { ?s <x:q> ?o2 } }");
            let a2 = sparql_run(&d, "SELECT ?s { ?s <x:p> ?o FILTER NOT EXISTS { ?s <x:q> ?o2 } }");
            let b = sparql_run(&d, "SELECT ?s { GRAPH ?g { ?s <x:rare> ?o } FILTER EXISTS { GRAPH ?g { ?s <x:p> ?o2 } } }");
            let c = sparql_run(&d, "SELECT ?s { GRAPH ?g { ?s <x:rare> ?o } FILTER NOT EXISTS { GRAPH ?g { ?s <x:nope> ?o2 } } }");
            yes(ck(a == Ok(((n as u64 + 3) / 4, 0)), &format!("{a:?}")) && ck(a2 == Ok(((n as u64 + 1) / 2 - (n as u64 + 3) / 4, 0)), &format!("{a2:?}")) && ck(b == Ok((rare.len() as u64, 0)), &format!("{b:?}")) && ck(c == Ok((rare.len() as u64, 0)), &format!("{c:?}")))
        }
        "sparql-errors" => {
            let mut d = FastDataset::new();
            for i in 0..n { d.insert(s_i(i), iri("x:p"), lit(i), Some(iri(&format!("x:g{i}")))).unwrap(); }
            let names = FailDs { d, fail_names: true };
            let c = sparql_run(&names, "SELECT ?s { ?s ?p ?o }");
            let d = FailDs { d: names.d, fail_names: false };
            let a = sparql_run(&d, "SELECT ?g ?s { GRAPH ?g { ?s ?p ?o FILTER(true) } }");
            let b = sparql_run(&d, "SELECT ?s { GRAPH ?g { ?s ?p ?o } } ORDER BY ?s");
            let e = sparql_run(&d, "SELECT DISTINCT ?s ?x { { GRAPH <x:g1> { ?s ?p ?o } } UNION { GRAPH <x:g2> { ?s ?p ?o } } BIND(1 AS ?x) } LIMIT 10");
            yes(ck(a == Ok((0, n as u64)), &format!("GRAPH ?g over failing iterators: {a:?}")) && ck(matches!(&b, Err(e) if e.contains("Dataset error")), &format!("ORDER BY: {b:?}"))
                && ck(matches!(&c, Err(e) if e.contains("Dataset error")), &format!("failing graph_names: {c:?}")) && ck(e == Ok((0, 2)), &format!("errors through union / extend / distinct / slice: {e:?}")))
        }
        "sparql-order-multi" => {
            use sophia_sparql::SparqlWrapper;
            let mut d = FastDataset::new();
            for i in 0..n { d.insert(s_i(i), iri(if i % 2 == 0 { "x:p" } else { "x:q" }), lit(i % 10), None::<ST>).unwrap(); }
            let d = ProbeDs(d);
            let w = SparqlWrapper(&d);
            let rows: Vec<_> = sq(&w, "SELECT ?s ?o { { ?s <x:p> ?o } UNION { ?s <x:q> ?o2 } } ORDER BY ?nope ?o DESC(?s)").unwrap().into_bindings().into_iter().map(|r| r.unwrap()).collect();
            // the solutions without ?o come first; then ?o ascending
            let unbound_first = rows.iter().take(n / 2).all(|r| r[1].is_none()) && rows.iter().skip(n / 2).all(|r| r[1].is_some());
            let key = |r: &Vec<Option<sophia_sparql::ResultTerm>>| r[1].as_ref().map(|t| t.lexical_form().unwrap().to_string());
            let sorted = rows.windows(2).all(|w| key(&w[0]) <= key(&w[1]));
            yes(ck(rows.len() == n, "number of solutions") && ck(unbound_first, "solutions without ?o first") && ck(sorted, "?o ascending"))
        }
        "sparql-bgp-join" => {
            let mut d = FastDataset::new();
            for i in 0..n { d.insert(s_i(i), iri("x:p"), lit(i), None::<ST>).unwrap(); d.insert(s_i(i), iri("x:q"), s_i(i), None::<ST>).unwrap(); d.insert(s_i(i), iri("x:r"), s_i(i + 1), None::<ST>).unwrap(); }
            let d = ProbeDs(d);
            let a = sparql_run(&d, "SELECT ?s ?o { <x:s0> <x:p> \"0\" . ?s <x:p> ?o . ?s <x:q> ?s }");
            let b = sparql_run(&d, "SELECT ?x { ?x <x:r> ?x }");
            let e = sparql_run(&d, "SELECT ?s { <x:s0> <x:p> \"1\" . ?s <x:p> ?o }");
            yes(ck(a == Ok((n as u64, 0)), &format!("{a:?}")) && ck(b == Ok((0, 0)), &format!("{b:?}")) && ck(e == Ok((0, 0)), &format!("{e:?}")))
        }
        "jsonld-graphs" | "jsonld-graph-nodes" => {
            let qs: Vec<Q> = (0..n).map(|i| ([s_i(i), iri("x:p"), lit(i)], Some(if op == "jsonld-graphs" { if i % 2 == 0 { iri(&format!("x:g{i}")) } else { bnode(&format!("g{i}")) } } else { iri(&format!("x:g{}", i / 100)) }))).collect();
            let txt = jsonld_text(qs, jsonld_opts());
            let graphs = if op == "jsonld-graphs" { n } else { (n + 99) / 100 };
            yes(ck(top_len(&txt) == graphs, "number of top-level nodes") && ck(txt.matches("\"@graph\"").count() == graphs, "number of @graph entries") && ck(txt.matches("\"@value\"").count() == n, "number of values"))
        }
        "jsonld-types" => {
            let mut qs: Vec<Q> = vec![];
            for i in 0..n { qs.push(nq([s_i(i), iri(RDF_TYPE), iri(&format!("x:C{}", i % 5))])); qs.push(nq([iri(&format!("x:many{}", i / 100)), iri(RDF_TYPE), iri(&format!("x:T{i}"))])); qs.push(nq([s_i(i), iri(RDF_TYPE), bnode(&format!("t{}", i % 3))])); }
            let a = jsonld_text(qs.clone(), jsonld_opts());
            let b = jsonld_text(qs, jsonld_opts().with_use_rdf_type(true));
            let many = (n + 99) / 100;
            yes(ck(top_len(&a) == n + many && a.matches("\"@type\"").count() == n + many && a.matches("\"x:T").count() == n, "@type entries") && ck(top_len(&b) == n + many && b.matches("\"@type\"").count() == 0 && b.matches(&format!("\"{RDF_TYPE}\"")).count() == n + many, "rdf:type entries with use_rdf_type"))
        }
        "jsonld-kinds" => {
            let mut qs: Vec<Q> = vec![];
            for i in 0..n {
                let o = match i % 10 {
                    0 => lit_lang(&format!("chat {i}"), "fr"), 1 => lit_dt(&format!("{i}"), &xsd("integer")), 2 => lit_dt(&format!("{i}.5e0"), &xsd("double")), 3 => lit_dt("true", &xsd("boolean")),
                    4 => lit_dt(&format!("t{i}"), "https://www.w3.org/ns/i18n#en_ltr"), 5 => lit_dt(&format!("t{i}"), "https://www.w3.org/ns/i18n#_rtl"), 6 => lit_dt(&format!("{i}"), "x:dt"),
                    7 => iri(&format!("x:o{i}")), 8 => bnode(&format!("o{i}")), _ => lit_dt(&format!("{{\"a\": [{i}, null, {{\"b\": \"c\"}}]}}"), &format!("{RDF}JSON")),
                };
                qs.push(nq([s_i(i), iri("x:p"), o]));
                if i % 10 == 2 { qs.push(nq([lit(i), iri("x:p"), s_i(i)])); qs.push(nq([s_i(i), bnode("pred"), lit(i)])); qs.push(nq([s_i(i), iri("x:p"), var("v")])); qs.push(nq([s_i(i), iri("x:p"), triple(s_i(i), iri("x:p"), lit(i))])); } // not expressible in JSON-LD: skipped
                if i % 10 == 1 { qs.push(nq([s_i(i), iri("x:p"), lit_dt("not a number", &xsd("integer"))])); qs.push(nq([s_i(i), iri("x:p"), lit_dt("maybe", &xsd("boolean"))])); qs.push(nq([s_i(i), iri("x:p"), lit_dt("x", "https://www.w3.org/ns/i18n#EN_up")])); }
            }
            let opt = jsonld_opts().with_use_native_types(true).with_rdf_direction(sophia_jsonld::RdfDirection::I18nDatatype);
            let txt = jsonld_text(qs, opt);
            let tenth = |k: usize| (n + 9 - k) / 10;
            yes(ck(top_len(&txt) == n, "number of nodes") && ck(txt.matches("\"@language\"").count() == tenth(0) + tenth(4), "@language entries") && ck(txt.matches("\"@direction\"").count() == tenth(4) + tenth(5), "@direction entries")
                && ck(txt.matches("\"@json\"").count() == tenth(9), "@json entries") && ck(txt.matches("\"@id\"").count() == n + tenth(7) + tenth(8), "@id entries"))
        }
        "jsonld-compound" => {
            let mut qs: Vec<Q> = vec![];
            for i in 0..n {
                let c = bnode(&format!("c{i}"));
                qs.push(nq([s_i(i), iri("x:p"), c.clone()]));
                qs.push(nq([c.clone(), iri(&format!("{RDF}value")), lit(i)])); qs.push(nq([c.clone(), iri(&format!("{RDF}direction")), lit_dt(if i % 2 == 0 { "ltr" } else { "rtl" }, &xsd("string"))]));
                if i % 3 == 0 { qs.push(nq([c.clone(), iri(&format!("{RDF}language")), lit_dt("en", &xsd("string"))])); }
                if i % 7 == 3 { qs.push(nq([s_i(i + n), iri("x:p"), c])); } // referenced twice: stays a node
            }
            let twice = (0..n).filter(|i| i % 7 == 3).count();
            let txt = jsonld_text(qs, jsonld_opts().with_rdf_direction(sophia_jsonld::RdfDirection::CompoundLiteral));
            yes(ck(top_len(&txt) == n + 2 * twice, &format!("number of nodes {} (expected {})", top_len(&txt), n + 2 * twice)) && ck(txt.matches("\"@direction\"").count() == n - twice, "@direction entries"))
        }
        "jsonld-list-cycle" => {
            let mut qs: Vec<Q> = vec![];
            for i in 0..n { let c = bnode(&format!("l{i}"));
                qs.push(nq([c.clone(), iri(RDF_FIRST), if i + 1 == n { bnode("l0") } else { lit(i) }]));
                qs.push(nq([c, iri(RDF_REST), if i + 1 == n { iri(RDF_NIL) } else { bnode(&format!("l{}", i + 1)) }])); }
            let txt = jsonld_text(qs, jsonld_opts());
            // (json-ld-1.0: the cells after the first one are folded into an @list under the first cell's rdf:rest; nothing is lost either)
            if cfg_get(D_MODE) == 1 { return yes(ck(top_len(&txt) == 1 && txt.matches("\"@value\"").count() == n - 1, &format!("{} nodes rendered, {} values", top_len(&txt), txt.matches("\"@value\"").count()))); }
            yes(ck(top_len(&txt) == n.max(1), &format!("{} nodes rendered", top_len(&txt))))
        }
        "jsonld-shared" => {
            let mut qs: Vec<Q> = vec![];
            for i in 0..n {
                qs.push(nq([s_i(i), iri("x:p"), bnode("shared")]));
                if i % 4 == 1 { let o = bnode(&format!("orphan{i}")); qs.push(nq([o.clone(), iri(RDF_FIRST), lit(i)])); qs.push(nq([o, iri(RDF_REST), iri(RDF_NIL)])); } // a list seed that is nobody's object
                if i % 4 == 2 { let o = bnode(&format!("two{i}")); qs.push(nq([o.clone(), iri(RDF_FIRST), lit(i)])); qs.push(nq([o.clone(), iri(RDF_REST), iri(RDF_NIL)])); qs.push(nq([s_i(i), iri("x:l"), o.clone()])); qs.push(nq([s_i(i), iri("x:m"), o])); } // a list seed with two parents
                if i % 4 != 0 { continue; }
                let m = bnode(&format!("m{i}"));
                let (g1, g2) = (Some(iri(&format!("x:g{}", i / 100))), Some(iri(&format!("x:h{}", i / 100))));
                qs.push(([s_i(i), iri("x:l"), m.clone()], g1.clone())); qs.push(([m.clone(), iri(RDF_FIRST), lit(i)], g1.clone())); qs.push(([m.clone(), iri(RDF_REST), iri(RDF_NIL)], g1));
                qs.push(([m, iri("x:also"), lit(i)], g2));
            }
            let txt = jsonld_text(qs, jsonld_opts());
            yes(ck(parse_json(&txt).is_some(), "readable JSON") && ck(txt.matches("\"x:also\"").count() == (n + 3) / 4, "x:also entries") && ck(txt.matches(&format!("\"{RDF_FIRST}\"")).count() == (n + 3) / 4 + (n + 2) / 4 + (n + 1) / 4, "cells kept as nodes"))
        }
        "jsonld-list10" => {
            let mut qs: Vec<Q> = list_triples(n).into_iter().map(nq).collect();
            // item n/2 is replaced by a two-item list
            let k = n / 2;
            qs.retain(|q| !(Term::eq(&q.0[0], bnode(&format!("l{k}"))) && Term::eq(&q.0[1], iri(RDF_FIRST))));
            qs.push(nq([bnode(&format!("l{k}")), iri(RDF_FIRST), bnode("i0")]));
            qs.push(nq([bnode("i0"), iri(RDF_FIRST), lit(1)])); qs.push(nq([bnode("i0"), iri(RDF_REST), bnode("i1")]));
            qs.push(nq([bnode("i1"), iri(RDF_FIRST), lit(2)])); qs.push(nq([bnode("i1"), iri(RDF_REST), iri(RDF_NIL)]));
            let txt = jsonld_text(qs.clone(), jsonld_opts().with_processing_mode(sophia_jsonld::ProcessingMode::JsonLd1_0));
            let txt11 = jsonld_text(qs, jsonld_opts());
            yes(ck(parse_json(&txt).is_some() && txt.matches("\"@value\"").count() == n + 1, "values in 1.0 mode") && ck(cfg_get(D_MODE) == 1 || (top_len(&txt11) == 1 && txt11.matches("\"@list\"").count() == 2), "lists in 1.1 mode"))
        }
        "jsonld-json-literal" => {
            let arr = format!("[{}]", (0..n).map(|i| i.to_string()).collect::<Vec<_>>().join(","));
            let txt = jsonld_text(vec![nq([iri("x:s"), iri("x:p"), lit_dt(&arr, &format!("{RDF}JSON"))])], jsonld_opts());
            let items = match parse_json(&txt) { Some(J::Arr(a)) => match a.first().and_then(|x| x.get("x:p")) { Some(J::Arr(v)) => match v.first().and_then(|x| x.get("@value")) { Some(J::Arr(items)) => items.len(), _ => usize::MAX }, _ => usize::MAX }, _ => usize::MAX };
            yes(ck(items == n, &format!("{items} array items")) && ck(txt.contains("\"@json\""), "@json"))
        }
        "term-ord" => term_ord(n),
        "term-native" => term_native(n),
        "term-nested" => term_nested(n),
        _ => unreachable!(),
    }
}

fn kind_rank<T: Term>(t: &T) -> (u8, String, String, String) {
    use sophia_api::term::TermKind::*;
    match t.kind() {
        BlankNode => (0, t.bnode_id().unwrap().to_string(), String::new(), String::new()),
        Iri => (1, t.iri().unwrap().to_string(), String::new(), String::new()),
        Literal => match t.language_tag() { Some(tag) => (2, format!("{RDF}langString"), tag.to_string(), t.lexical_form().unwrap().to_string()), None => (2, t.datatype().unwrap().to_string(), String::new(), t.lexical_form().unwrap().to_string()) },
        Triple => (3, String::new(), String::new(), String::new()),
        Variable => (4, t.variable().unwrap().to_string(), String::new(), String::new()),
    }
}
/// reference order of two terms (documentation of Term::cmp), written independently
fn ref_cmp(a: &ST, b: &ST) -> std::cmp::Ordering {
    let (ka, kb) = (kind_rank(a), kind_rank(b));
    if ka.0 == 3 && kb.0 == 3 { let (x, y) = (a.triple().unwrap(), b.triple().unwrap()); return ref_cmp(x[0], y[0]).then_with(|| ref_cmp(x[1], y[1])).then_with(|| ref_cmp(x[2], y[2])); }
    // two language-tagged strings: tag, then lexical form; otherwise datatype, then lexical form
    ka.cmp(&kb)
}
fn forwarded<T: Term>(t: T) -> (bool, bool, bool, bool, bool) { (t.is_iri(), t.is_blank_node(), t.is_literal(), t.is_variable(), t.is_triple()) }
fn term_ord(n: usize) -> u64 {
    use std::hash::{Hash, Hasher};
    let mut ts: Vec<ST> = vec![];
    for i in 0..n { let [s, _, o] = kinds_triple(i / 2, true); ts.push(if i % 2 == 0 { s } else { o }); if i % 9 == 0 { ts.push(var(&format!("v{}", i % 100))); } if i % 11 == 0 { ts.push(lit_lang("same", ["en", "fr", "de"][i % 3])); } }
    let total = ts.len();
    // every term twice: duplicates to remove
    let mut all: Vec<ST> = ts.iter().cloned().chain(ts.iter().rev().cloned()).collect();
    all.sort_by(|a, b| Term::cmp(a, b.borrow_term()));
    let sorted = all.windows(2).all(|w| ref_cmp(&w[0], &w[1]) != std::cmp::Ordering::Greater);
    // through &T as well
    let fw = all.iter().all(|t| forwarded(t) == forwarded(t.clone()) && forwarded(t) == (t.is_iri(), t.is_blank_node(), t.is_literal(), t.is_variable(), t.is_triple()));
    all.dedup_by(|a, b| Term::eq(a, b.borrow_term()));
    let distinct_ref: std::collections::BTreeSet<String> = ts.iter().map(|t| format!("{t:?}")).collect();
    let hashes: std::collections::HashSet<u64> = all.iter().map(|t| { let mut h = std::collections::hash_map::DefaultHasher::new(); Term::hash(t, &mut h); h.finish() }).collect();
    let hashes2: std::collections::HashSet<u64> = ts.iter().map(|t| { let mut h = std::collections::hash_map::DefaultHasher::new(); Term::hash(&t, &mut h); 0u8.hash(&mut h); h.finish() }).collect();
    let _ = total;
    if ck(sorted, "sorted by Term::cmp agrees with the reference order") && ck(fw, "&T forwards the kind tests") && ck(all.len() == distinct_ref.len(), &format!("{} distinct terms by Term::eq, {} by text", all.len(), distinct_ref.len())) && ck(hashes.len() == all.len() && hashes2.len() == all.len(), "one hash per distinct term") { n as u64 } else { 0 }
}
fn term_native(n: usize) -> u64 {
    use sophia_api::term::{BnodeId, IriRef, VarName};
    let mut ok = true; let mut count = 0usize;
    let mut vars: Vec<VarName<String>> = vec![];
    for i in 0..n {
        let name = format!("x:n{i}");
        let i1 = IriRef::new_unchecked(name.as_str());
        let b1 = BnodeId::new_unchecked(format!("b{i}"));
        let v1 = VarName::new_unchecked(format!("v{}", (i * 7919) % n));
        let num = i as i32;
        let txt: &str = &name;
        ok &= !i1.is_literal() && !i1.is_variable() && i1.variable().is_none() && i1.language_tag().is_none() && i1.is_iri();
        ok &= !b1.is_literal() && !b1.is_variable() && b1.variable().is_none() && b1.is_blank_node();
        ok &= !v1.is_literal() && v1.is_variable() && v1.variable().is_some();
        ok &= v1.iri().is_none() && v1.bnode_id().is_none() && v1.lexical_form().is_none() && v1.datatype().is_none() && v1.language_tag().is_none() && v1.triple().is_none() && v1.clone().to_triple().is_none() && v1.is_atom();
        ok &= v1.constituents().count() == 1 && v1.atoms().count() == 1 && b1.triple().is_none() && i1.triple().is_none() && num.triple().is_none();
        ok &= num.is_literal() && !num.is_variable() && num.variable().is_none();
        ok &= txt.is_literal() && !txt.is_variable();
        ok &= Term::eq(&v1, var(&format!("v{}", (i * 7919) % n))) && !Term::eq(&v1, var("other")) && !Term::eq(&v1, i1) && Term::eq(&i1, iri(&name)) && Term::eq(&num, lit_dt(&format!("{i}"), &xsd("integer")));
        ok &= Term::cmp(&b1, i1) == std::cmp::Ordering::Less && Term::cmp(&i1, num) == std::cmp::Ordering::Less && Term::cmp(&num, &v1) == std::cmp::Ordering::Less && Term::cmp(&v1, VarName::new_unchecked("zzzzzzzz")) == std::cmp::Ordering::Less;
        vars.push(v1); count += 1;
    }
    vars.sort_by(|a, b| Term::cmp(a, b));
    ok &= vars.windows(2).all(|w| w[0].as_str() <= w[1].as_str());
    if ck(ok, "provided methods of the native term types") && count == n { n as u64 } else { 0 }
}
fn nested(i: usize, depth: usize) -> ST { let mut t = triple(bnode(&format!("b{i}")), iri("x:p"), lit_lang("x", "en")); for k in 1..depth { t = if k % 2 == 0 { triple(t, iri("x:p"), var("v")) } else { triple(s_i(i), iri("x:q"), t) }; } t }
fn term_nested(n: usize) -> u64 {
    use std::hash::Hasher;
    const D: usize = 4;
    let mut ok = true;
    let mut prev: Option<ST> = None;
    for i in 0..n {
        let t = nested(i, D);
        let (c, a) = (t.constituents().count(), t.atoms().count());
        let (c2, a2) = (t.clone().to_constituents().count(), t.clone().to_atoms().count());
        ok &= c == 3 * D + 1 && a == 2 * D + 1 && c2 == c && a2 == a && !t.is_atom() && t.atoms().all(|x| x.is_atom());
        ok &= Term::eq(&t, nested(i, D)) && !Term::eq(&t, nested(i + 1, D));
        if let Some(p) = &prev { ok &= Term::cmp(p, &t) != std::cmp::Ordering::Equal && Term::cmp(p, &t) == Term::cmp(&t, p).reverse(); }
        let (mut h1, mut h2) = (std::collections::hash_map::DefaultHasher::new(), std::collections::hash_map::DefaultHasher::new());
        Term::hash(&t, &mut h1); Term::hash(&nested(i, D), &mut h2); ok &= h1.finish() == h2.finish();
        prev = Some(t);
    }
    if ck(ok, "nested quoted triples") { n as u64 } else { 0 }
}

// ---------------------------------------------------------------------------------------------
// every loop over data driven with a large count of the thing it iterates over: consecutive
// statement-less steps of every kind in every parser (comments, empty lines, prefix / base
// directives, empty XML elements, JSON-LD nodes without properties), statements per subject /
// objects per predicate / statements per graph / graphs per document on the parsing and on the
// serialising side (streaming and pretty), escapes in every kind of token, prefixes per prefix
// map, values per JSON-LD property, ORDER BY keys, consecutive duplicates skipped by the
// enumerations of the in-memory stores, bulk mutations, items skipped by the source adapters.
// ---------------------------------------------------------------------------------------------
const LOOP_OPS: &[(&str, &str)] = &[
    ("parse-void-nt", "N-Triples parser on n comment lines, n empty lines, one triple, n comment lines (for_each_triple, and a for_some_triple loop)"),
    ("parse-void-nq", "N-Quads parser on n comment lines, n empty lines, one quad, n comment lines"),
    ("parse-void-gnq", "generalized N-Quads parser on n comment lines, n empty lines, one quad, n comment lines"),
    ("parse-void-ttl", "Turtle parser on n comments, n empty lines, n @prefix, n PREFIX, n @base, n BASE directives, one triple, n comments"),
    ("parse-void-trig", "TriG parser on n comments, n empty lines, n @prefix, n PREFIX, n @base, n BASE directives, n empty GRAPH blocks, one quad, n comments"),
    ("parse-void-gtrig", "generalized TriG parser on n comments, n empty lines, n @prefix, n PREFIX, n @base, n BASE directives, n empty GRAPH blocks, one quad, n comments"),
    ("parse-void-xml", "RDF/XML parser on n comments, n processing instructions, n empty rdf:Description elements, n white-space runs, one property"),
    ("parse-void-jsonld", "JSON-LD parser on n nodes without any property, then one node with a property"),
    ("parse-subject-ttl", "Turtle parser on one subject with n predicates (;), one predicate with n objects (,), n blank node labels and n anonymous nodes"),
    ("parse-subject-trig", "TriG parser on one GRAPH block of n statements and n GRAPH blocks of one statement, with and without the GRAPH keyword"),
    ("parse-subject-xml", "RDF/XML parser on one rdf:Description with n property elements, n rdf:Description elements, n rdf:li, n typed nodes"),
    ("parse-subject-jsonld", "JSON-LD parser on one node with n values of one property, and a @graph of n nodes"),
    ("parse-tokens-nt", "N-Triples / N-Quads / generalized N-Quads parsers on a literal with n escapes of every kind, an IRI with n \\u escapes, a comment of n characters, a blank node label of n characters"),
    ("parse-tokens-ttl", "Turtle / TriG / generalized TriG parsers on literals (short and long quotes) with n escapes and n line feeds, an IRI with n \\u escapes, a prefixed name with n escaped characters, an integer of n digits, a comment of n characters"),
    ("parse-tokens-xml", "RDF/XML parser on a text and an attribute with n entity references, a CDATA section of 3n characters, min(n, 3000) namespace declarations"),
    ("ttl-stream-subject", "streaming TurtleSerializer on one subject with n predicates and one predicate with n objects, read back"),
    ("trig-stream-graphs", "streaming TrigSerializer on n named graphs of one statement and one named graph of n statements, read back"),
    ("ttl-prefixes", "TurtleSerializer, streaming and pretty, with a prefix map of n prefixes (IRIs matching the first, the last and no prefix), read back"),
    ("xml-ser", "RdfXmlSerializer on n subjects with one triple each and one subject with n triples, read back by the RDF/XML parser"),
    ("ttl-pretty-subject", "pretty TurtleSerializer on ONE subject with 3n triples (n predicates, n objects of one predicate, n types) and on one subject with 3n triples in one named graph (TriG)"),
    ("trig-pretty-big", "pretty TrigSerializer on n named graphs (IRI names) of one statement each plus n statements in the default graph"),
    ("jsonld-values", "JsonLdSerializer on one subject with n values of one property and n values of rdf:type"),
    ("sparql-order-keys", "SELECT ?s { ?s <x:p> ?o } ORDER BY with 10 keys, the first 9 of them tied, over n solutions"),
    ("inmem-enumerate", "subjects / predicates / objects / graph_names / iris / blank_nodes / literals / quoted_triples / variables of the four in-memory stores over n quads with 3 predicates and 7 graph names"),
    ("inmem-bulk", "from_quad_source / collect / insert_all / remove_matching / retain_matching / remove_all / contains on the in-memory stores and on Vec / HashSet / BTreeSet datasets, n quads"),
    ("source-adapters", "filter_triples / filter_map_triples / map_triples / to_quads / filter_quads over n items (all but one rejected), on an iterator source and on a parser source"),
];
fn loop_sizes(op: &str, big: usize) -> Option<Vec<usize>> {
    let thorough = big >= 1_000_000;
    Some(match op {
        // linear, but slow in unoptimised builds
        "ttl-pretty-subject" => if thorough { vec![10_000, 100_000] } else { vec![3_000, 12_000] },
        // quadratic: push_if_new scans the values already there
        "jsonld-values" => if thorough { vec![10_000, 40_000] } else { vec![5_000, 20_000] },
        // the JSON-LD processor is slow
        "parse-void-jsonld" | "parse-subject-jsonld" => if thorough { vec![10_000, 100_000] } else { vec![5_000, 30_000] },
        _ => return None,
    })
}

fn count_triples<S: TripleSource>(mut src: S) -> Result<usize, String> { let mut c = 0; src.for_each_triple(|_| c += 1).map_err(|e| format!("{e:?}"))?; Ok(c) }
fn count_quads<S: QuadSource>(mut src: S) -> Result<usize, String> { let mut c = 0; src.for_each_quad(|_| c += 1).map_err(|e| format!("{e:?}"))?; Ok(c) }
/// number of statements of `doc` according to the parser of `fmt`, consumed with for_each
fn parse_count(fmt: &str, doc: &str) -> Result<usize, String> {
    use sophia_api::parser::{QuadParser, TripleParser};
    let b = doc.as_bytes();
    match fmt {
        "nt" => count_triples(sophia_turtle::parser::nt::parse_bufread(b)),
        "nq" => count_quads(sophia_turtle::parser::nq::parse_bufread(b)),
        "gnq" => count_quads(sophia_turtle::parser::gnq::parse_bufread(b)),
        "ttl" => count_triples(sophia_turtle::parser::turtle::parse_bufread(b)),
        "trig" => count_quads(sophia_turtle::parser::trig::parse_bufread(b)),
        "gtrig" => count_quads(sophia_turtle::parser::gtrig::parse_bufread(b)),
        "xml" => count_triples(sophia_xml::parser::parse_bufread(b)),
        "jsonld" => count_quads(sophia_jsonld::JsonLdParser::new().parse_str(doc)),
        _ => unreachable!(),
    }
}
/// the same through a caller's loop over for_some_*
fn parse_count_some(fmt: &str, doc: &str) -> Result<usize, String> {
    let b = doc.as_bytes();
    fn t<S: TripleSource>(mut s: S) -> Result<usize, String> { let mut c = 0; while s.for_some_triple(|_| c += 1).map_err(|e| format!("{e:?}"))? {} Ok(c) }
    fn q<S: QuadSource>(mut s: S) -> Result<usize, String> { let mut c = 0; while s.for_some_quad(|_| c += 1).map_err(|e| format!("{e:?}"))? {} Ok(c) }
    match fmt {
        "nt" => t(sophia_turtle::parser::nt::parse_bufread(b)), "nq" => q(sophia_turtle::parser::nq::parse_bufread(b)), "gnq" => q(sophia_turtle::parser::gnq::parse_bufread(b)),
        "ttl" => t(sophia_turtle::parser::turtle::parse_bufread(b)), "trig" => q(sophia_turtle::parser::trig::parse_bufread(b)), "gtrig" => q(sophia_turtle::parser::gtrig::parse_bufread(b)),
        "xml" => t(sophia_xml::parser::parse_bufread(b)),
        _ => parse_count(fmt, doc),
    }
}
fn expect_count(what: &str, got: Result<usize, String>, want: usize) -> bool { ck(got == Ok(want), &format!("{what}: {:?} statements, expected {want}", got.as_ref().map_err(|e| e.chars().take(300).collect::<String>()))) }
const XML_HEAD: &str = "<?xml version=\"1.0\"?>\n<rdf:RDF xmlns:rdf=\"http://www.w3.org/1999/02/22-rdf-syntax-ns#\" xmlns:e=\"http://example.org/ns/\">\n";

fn run_loop(op: &str, n: usize) -> u64 {
    use std::fmt::Write as _;
    let yes = |b: bool| if b { n as u64 } else { 0 };
    match op {
        "parse-void-nt" | "parse-void-nq" | "parse-void-gnq" | "parse-void-ttl" | "parse-void-trig" | "parse-void-gtrig" => {
            let fmt = &op["parse-void-".len()..];
            let turtle = matches!(fmt, "ttl" | "trig" | "gtrig");
            let mut d = String::new();
            for i in 0..n { writeln!(d, "# comment {i}").unwrap(); }
            for _ in 0..n { d.push('\n'); }
            for i in 0..n { if i % 3 == 0 { d.push_str("   \t\n"); } else { d.push_str("#\n"); } }
            if turtle {
                for i in 0..n { writeln!(d, "@prefix p{i}: <http://example.org/{i}/> .").unwrap(); }
                for i in 0..n { writeln!(d, "PREFIX q{i}: <http://example.org/{i}#>").unwrap(); }
                for i in 0..n { writeln!(d, "@base <http://example.org/base{i}/> .").unwrap(); }
                for i in 0..n { writeln!(d, "BASE <http://example.org/Base{i}/>").unwrap(); }
                if fmt != "ttl" { for i in 0..n { if i % 2 == 0 { writeln!(d, "GRAPH <http://example.org/g{i}> {{ }}").unwrap(); } else { writeln!(d, "<http://example.org/g{i}> {{ }} {{ }}").unwrap(); } } }
                writeln!(d, "p0:s q{}:p <o> .", n - 1).unwrap();
            } else { d.push_str("<x:s> <x:p> <x:o> .\n"); }
            for i in 0..n { writeln!(d, "# trailing comment {i}").unwrap(); }
            yes(expect_count("for_each", parse_count(fmt, &d), 1) && expect_count("for_some loop", parse_count_some(fmt, &d), 1))
        }
        "parse-void-xml" => {
            let mut d = String::from(XML_HEAD);
            for i in 0..n { writeln!(d, "<!-- comment {i} -->").unwrap(); }
            for i in 0..n { writeln!(d, "<?pi number {i}?>").unwrap(); }
            for i in 0..n { writeln!(d, "<rdf:Description rdf:about=\"http://example.org/s{i}\"/>").unwrap(); }
            for i in 0..n { if i % 2 == 0 { writeln!(d, "<rdf:Description rdf:about=\"http://example.org/t{i}\"></rdf:Description>").unwrap(); } else { d.push_str(" \n\t\n"); } }
            d.push_str("<rdf:Description rdf:about=\"http://example.org/s\"><e:p>o</e:p></rdf:Description>\n");
            for i in 0..n { writeln!(d, "<!-- trailing comment {i} -->").unwrap(); }
            d.push_str("</rdf:RDF>\n");
            yes(expect_count("for_each", parse_count("xml", &d), 1) && expect_count("for_some loop", parse_count_some("xml", &d), 1))
        }
        "parse-void-jsonld" => {
            let mut d = String::from("[\n");
            for i in 0..n { writeln!(d, "{{\"@id\": \"http://example.org/s{i}\"}},").unwrap(); }
            for i in 0..n { if i % 2 == 0 { writeln!(d, "{{\"@id\": \"http://example.org/t{i}\", \"http://example.org/p\": []}},").unwrap(); } else { writeln!(d, "{{\"@id\": \"http://example.org/t{i}\", \"ignored term\": {i}}},").unwrap(); } }
            d.push_str("{\"@id\": \"http://example.org/s\", \"http://example.org/p\": \"o\"}\n]\n");
            yes(expect_count("for_each", parse_count("jsonld", &d), 1))
        }
        "parse-subject-ttl" => {
            let mut d = String::from("@prefix e: <http://example.org/ns/> .\ne:s ");
            for i in 0..n { write!(d, "e:p{i} {i} ;\n  ").unwrap(); }
            d.push_str("e:many ");
            for i in 0..n { write!(d, "{i} ,\n  ").unwrap(); }
            d.push_str("\"last\" ;;; .\n");
            for i in 0..n { writeln!(d, "_:b{i} e:p [] .").unwrap(); }
            for i in 0..n { writeln!(d, "[] e:p _:b{i} .").unwrap(); }
            yes(expect_count("Turtle", parse_count("ttl", &d), 4 * n + 1) && expect_count("TriG", parse_count("trig", &d), 4 * n + 1) && expect_count("generalized TriG", parse_count_some("gtrig", &d), 4 * n + 1))
        }
        "parse-subject-trig" => {
            let mut d = String::from("@prefix e: <http://example.org/ns/> .\nGRAPH e:g {\n");
            for i in 0..n { writeln!(d, "  e:s{i} e:p {i} .").unwrap(); }
            d.push_str("}\ne:h {\n");
            for i in 0..n { writeln!(d, "  e:s e:p{i} {i} .").unwrap(); }
            d.push_str("}\n");
            for i in 0..n { if i % 2 == 0 { writeln!(d, "GRAPH e:g{i} {{ e:s e:p {i} }}").unwrap(); } else { writeln!(d, "_:g{i} {{ e:s e:p {i} . }}").unwrap(); } }
            for i in 0..n { writeln!(d, "{{ e:s{i} e:q {i} }}").unwrap(); }
            yes(expect_count("TriG", parse_count("trig", &d), 4 * n) && expect_count("generalized TriG", parse_count("gtrig", &d), 4 * n))
        }
        "parse-subject-xml" => {
            let mut d = String::from(XML_HEAD);
            d.push_str("<rdf:Description rdf:about=\"http://example.org/s\">\n");
            for i in 0..n { match i % 4 { 0 => writeln!(d, "<e:p{i}>{i}</e:p{i}>"), 1 => writeln!(d, "<e:p rdf:resource=\"http://example.org/o{i}\"/>"), 2 => writeln!(d, "<e:p xml:lang=\"en\">v{i}</e:p>"), _ => writeln!(d, "<e:p rdf:datatype=\"http://www.w3.org/2001/XMLSchema#integer\">{i}</e:p>") }.unwrap(); }
            d.push_str("</rdf:Description>\n<rdf:Seq rdf:about=\"http://example.org/seq\">\n");
            for i in 0..n { writeln!(d, "<rdf:li>{i}</rdf:li>").unwrap(); }
            d.push_str("</rdf:Seq>\n");
            for i in 0..n { if i % 2 == 0 { writeln!(d, "<rdf:Description rdf:about=\"http://example.org/s{i}\" e:q=\"{i}\"/>").unwrap(); } else { writeln!(d, "<e:C rdf:nodeID=\"b{i}\"/>").unwrap(); } }
            d.push_str("</rdf:RDF>\n");
            yes(expect_count("RDF/XML", parse_count("xml", &d), 3 * n + 1))
        }
        "parse-subject-jsonld" => {
            let mut d = String::from("{\"@id\": \"http://example.org/s\", \"http://example.org/p\": [");
            for i in 0..n { write!(d, "{}{i}", if i == 0 { "" } else { ", " }).unwrap(); }
            d.push_str("],\n\"@graph\": [\n");
            for i in 0..n { writeln!(d, "{}{{\"@id\": \"http://example.org/s{i}\", \"http://example.org/q\": {{\"@id\": \"_:b{i}\"}}}}", if i == 0 { "" } else { "," }).unwrap(); }
            d.push_str("]}\n");
            yes(expect_count("JSON-LD", parse_count("jsonld", &d), 2 * n))
        }
        "parse-tokens-nt" => {
            let esc: String = (0..n).map(|i| ["\\\"", "\\\\", "\\n", "\\r", "\\t", "\\u00E9", "\\U0001F600", "a"][i % 8]).collect();
            let iri_esc: String = (0..n).map(|i| ["\\u00E9", "a", "\\U0001F600"][i % 3]).collect();
            let label: String = (0..n).map(|i| char::from(b'a' + (i % 26) as u8)).collect();
            let mut d = String::new();
            writeln!(d, "#{}", "c".repeat(n)).unwrap();
            writeln!(d, "<x:s> <x:p> \"{esc}\" .").unwrap();
            writeln!(d, "<x:s> <x:p> \"{esc}\"@en .").unwrap();
            writeln!(d, "<x:s> <x:p> \"{esc}\"^^<x:dt> .").unwrap();
            writeln!(d, "<x:{iri_esc}> <x:p> <x:o> .").unwrap();
            writeln!(d, "_:{label} <x:p> _:{label}2 .   #{}", "c".repeat(n)).unwrap();
            writeln!(d, "<< <x:s> <x:p> \"{esc}\" >> <x:q> <x:o> .").unwrap();
            yes(expect_count("N-Triples", parse_count("nt", &d), 6) && expect_count("N-Quads", parse_count("nq", &d), 6) && expect_count("generalized N-Quads", parse_count("gnq", &d), 6))
        }
        "parse-tokens-ttl" => {
            let esc: String = (0..n).map(|i| ["\\\"", "\\\\", "\\n", "\\r", "\\t", "\\u00E9", "\\U0001F600", "a", "\\'", "\\b", "\\f"][i % 11]).collect();
            let long: String = (0..n).map(|i| ["\n", "\"", "''", "\\\"", "é", "a", "\r\n", "\"\""][i % 8]).collect::<String>() + "x";
            let iri_esc: String = (0..n).map(|i| ["\\u00E9", "a", "\\U0001F600"][i % 3]).collect();
            let local: String = (0..n).map(|i| ["\\~", "a", "\\.", "%41", ":", "\\-", "é", "."][i % 8]).collect::<String>() + "z";
            let mut d = String::from("@prefix e: <http://example.org/ns/> .\n");
            writeln!(d, "#{}", "c".repeat(n)).unwrap();
            writeln!(d, "e:s e:p \"{esc}\" , '{esc}' , \"{esc}\"@en , '{esc}'^^e:dt .").unwrap();
            writeln!(d, "e:s e:p \"\"\"{long}\"\"\" , '''{}'''@fr .", long.replace("''", "'")).unwrap();
            writeln!(d, "<http://example.org/{iri_esc}> e:p e:a{local} .").unwrap();
            writeln!(d, "e:s e:p {} , {}.{} , {}.{}e{} , -{} .", "7".repeat(n), "1".repeat(n), "2".repeat(n), "3".repeat(n), "4".repeat(n), "5".repeat(n.min(3)), "8".repeat(n)).unwrap();
            writeln!(d, "e:s{}e:p{}e:o{}.{}", " \t".repeat(n), "\n".repeat(n), " ".repeat(n), "\n".repeat(n)).unwrap();
            yes(expect_count("Turtle", parse_count("ttl", &d), 12) && expect_count("TriG", parse_count("trig", &d), 12) && expect_count("generalized TriG", parse_count("gtrig", &d), 12))
        }
        "parse-tokens-xml" => {
            let ents: String = (0..n).map(|i| ["&amp;", "&lt;", "&#233;", "&#x1F600;", "a", "&quot;", "&gt;", "&apos;"][i % 8]).collect();
            let mut d = String::from("<?xml version=\"1.0\"?>\n<rdf:RDF xmlns:rdf=\"http://www.w3.org/1999/02/22-rdf-syntax-ns#\" xmlns:e=\"http://example.org/ns/\"");
            let nns = n.min(3000); // (the XML reader takes quadratic time in the number of namespace declarations)
            for i in 0..nns { write!(d, "\n xmlns:n{i}=\"http://example.org/ns{i}/\"").unwrap(); }
            d.push_str(">\n");
            writeln!(d, "<rdf:Description rdf:about=\"http://example.org/s\" e:a=\"{ents}\"><e:p>{ents}</e:p><n{}:q><![CDATA[{}]]></n{}:q></rdf:Description>", nns - 1, "<&>".repeat(n), nns - 1).unwrap();
            d.push_str("</rdf:RDF>\n");
            yes(expect_count("RDF/XML", parse_count("xml", &d), 3))
        }
        "ttl-stream-subject" | "ttl-pretty-subject" => {
            let pretty = op == "ttl-pretty-subject";
            let mut ts: Vec<[ST; 3]> = vec![];
            for i in 0..n { ts.push([iri("x:s"), iri(&format!("x:p{i}")), lit(i)]); }
            for i in 0..n { ts.push([iri("x:s"), iri("x:many"), if i % 2 == 0 { lit(i) } else { s_i(i) }]); }
            for i in 0..n { ts.push([iri("x:s"), iri(RDF_TYPE), iri(&format!("x:C{i}"))]); }
            let cfg = turtle_cfg(pretty);
            let mut sink = ProbeVec(vec![]);
            sophia_turtle::serializer::turtle::TurtleSerializer::new_with_config(&mut sink, cfg.clone()).serialize_triples(ts.iter().cloned().into_source()).unwrap();
            let a = parse_count("ttl", std::str::from_utf8(&sink.0).unwrap());
            // the same statements in one named graph
            let mut sink2 = ProbeVec(vec![]);
            sophia_turtle::serializer::trig::TrigSerializer::new_with_config(&mut sink2, cfg).serialize_quads(ts.into_iter().map(|t| (t, Some(iri("x:g")))).into_source()).unwrap();
            let b = parse_count("trig", std::str::from_utf8(&sink2.0).unwrap());
            yes(expect_count("Turtle read back", a, 3 * n) && expect_count("TriG read back", b, 3 * n))
        }
        "trig-stream-graphs" | "trig-pretty-big" => {
            let pretty = op == "trig-pretty-big";
            let mut qs: Vec<Q> = vec![];
            for i in 0..n { qs.push(([s_i(i), iri("x:p"), lit(i)], Some(iri(&format!("x:g{i}"))))); }
            for i in 0..n { qs.push(([s_i(i), iri("x:q"), lit(i)], if pretty { None } else { Some(iri("x:big")) })); }
            let cfg = turtle_cfg(pretty);
            let mut sink = ProbeVec(vec![]);
            sophia_turtle::serializer::trig::TrigSerializer::new_with_config(&mut sink, cfg).serialize_quads(qs.into_iter().into_source()).unwrap();
            yes(expect_count("TriG read back", parse_count("trig", std::str::from_utf8(&sink.0).unwrap()), 2 * n))
        }
        "ttl-prefixes" => {
            let pm: Vec<_> = (0..n).map(|i| (sophia_api::prefix::Prefix::new_unchecked(format!("p{i}").into()), sophia_iri::Iri::new_unchecked(format!("http://example.org/ns{i}/").into()))).collect();
            let ts: Vec<[ST; 3]> = vec![[iri("http://example.org/ns0/s"), iri(&format!("http://example.org/ns{}/p", n - 1)), iri("http://example.org/other/o")], [iri(&format!("http://example.org/ns{}/s", n / 2)), iri("x:p"), lit_dt("1", &format!("http://example.org/ns{}/dt", n - 1))]];
            let mut ok = true;
            for pretty in [false, true] {
                let cfg = with_cfg_indentation(sophia_turtle::serializer::turtle::TurtleConfig::new().with_pretty(pretty).with_own_prefix_map(pm.clone()));
                let mut sink = ProbeVec(vec![]);
                sophia_turtle::serializer::turtle::TurtleSerializer::new_with_config(&mut sink, cfg.clone()).serialize_triples(ts.iter().cloned().into_source()).unwrap();
                let txt = String::from_utf8(sink.0).unwrap();
                ok &= expect_count(if pretty { "pretty Turtle read back" } else { "Turtle read back" }, parse_count("ttl", &txt), 2);
                let decls = txt.matches("PREFIX").count() + txt.matches("@prefix").count();
                ok &= ck(decls == n || (!pretty && decls == 0), &format!("{decls} prefix declarations")) && ck(!pretty || txt.contains(&format!("p{}:p", n - 1)), "the last prefix is used");
                let mut sink = ProbeVec(vec![]);
                sophia_turtle::serializer::trig::TrigSerializer::new_with_config(&mut sink, cfg).serialize_quads(ts.iter().cloned().map(|t| (t, Some(iri(&format!("http://example.org/ns{}/g", n - 1))))).into_source()).unwrap();
                ok &= expect_count("TriG read back", parse_count("trig", std::str::from_utf8(&sink.0).unwrap()), 2);
            }
            yes(ok)
        }
        "xml-ser" => {
            let mut ts: Vec<[ST; 3]> = vec![];
            for i in 0..n { ts.push([if i % 3 == 0 { bnode(&format!("b{i}")) } else { iri(&format!("http://example.org/s{i}")) }, iri("http://example.org/ns/p"), match i % 4 { 0 => lit(i), 1 => lit_lang("<&>\"'", "en"), 2 => iri(&format!("http://example.org/o{i}")), _ => bnode(&format!("o{i}")) }]); }
            for i in 0..n { ts.push([iri("http://example.org/s"), iri(&format!("http://example.org/ns/p{}", i % 50)), lit(i)]); }
            let mut sink = ProbeVec(vec![]);
            sophia_xml::serializer::RdfXmlSerializer::new_with_config(&mut sink, xml_cfg()).serialize_triples(ts.into_iter().into_source()).unwrap();
            yes(expect_count("RDF/XML read back", parse_count("xml", std::str::from_utf8(&sink.0).unwrap()), 2 * n))
        }
        "jsonld-values" => {
            let mut qs: Vec<Q> = vec![];
            for i in 0..n { qs.push(nq([iri("x:s"), iri("x:p"), if i % 2 == 0 { lit(i) } else { s_i(i) }])); qs.push(nq([iri("x:s"), iri(RDF_TYPE), iri(&format!("x:C{i}"))])); }
            let txt = jsonld_text(qs, jsonld_opts());
            yes(ck(top_len(&txt) == 1, "one node") && ck(txt.matches("\"@value\"").count() == (n + 1) / 2, "values") && ck(txt.matches("\"x:C").count() == n, "types"))
        }
        "sparql-order-keys" => {
            use sophia_sparql::SparqlWrapper;
            let mut d = FastDataset::new();
            for i in 0..n { d.insert(s_i(i), iri("x:p"), lit(i % 2), None::<ST>).unwrap(); }
            let d = ProbeDs(d);
            let keys: String = (0..9).map(|k| match k % 4 { 0 => "?o ".to_string(), 1 => "DESC(?o) ".to_string(), 2 => format!("(?nope{k}) "), _ => "ASC(STR(?o)) ".to_string() }).collect();
            let w = SparqlWrapper(&d);
            let rows: Vec<_> = sq(&w, &format!("SELECT ?s ?o {{ ?s <x:p> ?o }} ORDER BY {keys} DESC(?s)")).unwrap().into_bindings().into_iter().map(|r| r.unwrap()).collect();
            let key = |r: &Vec<Option<sophia_sparql::ResultTerm>>| (r[1].as_ref().unwrap().lexical_form().unwrap().to_string(), std::cmp::Reverse(r[0].as_ref().unwrap().iri().unwrap().to_string()));
            yes(ck(rows.len() == n, "number of solutions") && ck(rows.windows(2).all(|w| key(&w[0]) <= key(&w[1])), "order: ?o ascending, then ?s descending"))
        }
        "inmem-enumerate" => {
            // (the enumerations MAY yield a term several times: the distinct terms are counted)
            fn distinct<T: Term, E>(it: impl Iterator<Item = Result<T, E>>) -> usize { use std::hash::Hasher; let mut set = std::collections::HashSet::new(); for t in it { let t = t.ok().unwrap(); let mut h = std::collections::hash_map::DefaultHasher::new(); Term::hash(&t, &mut h); set.insert(h.finish()); } set.len() }
            fn go<D: MutableDataset + Dataset>(mut d: D, n: usize) -> bool where for<'x> sophia_api::dataset::DTerm<'x, D>: Clone {
                for i in 0..n {
                    let o = match i % 5 { 0 => lit(i), 1 => bnode(&format!("o{}", i % 11)), 2 => triple(s_i(i % 13), iri("x:p"), var("v")), 3 => var(&format!("v{}", i % 17)), _ => iri("x:o") };
                    d.insert(if i % 2 == 0 { s_i(i) } else { bnode(&format!("b{i}")) }, iri(&format!("x:p{}", i % 3)), o, if i % 8 == 7 { None } else { Some(iri(&format!("x:g{}", i % 8))) }).ok().unwrap();
                }
                let among = |k: usize, m: usize| (0..n).filter(|i| i % 5 == k).map(|i| i % m).collect::<std::collections::HashSet<_>>().len();
                let (subjects, predicates, objects, names) = (distinct(d.subjects()), distinct(d.predicates()), distinct(d.objects()), distinct(d.graph_names()));
                let (iris, bnodes, lits, quoted, vars) = (distinct(d.iris()), distinct(d.blank_nodes()), distinct(d.literals()), distinct(d.quoted_triples()), distinct(d.variables()));
                let exp_objects = (n + 4) / 5 + among(1, 11) + among(2, 13) + among(3, 17) + (n > 4) as usize;
                let exp_names = (0..n).filter(|i| i % 8 != 7).map(|i| i % 8).collect::<std::collections::HashSet<_>>().len();
                let exp_iris = (n + 1) / 2 + 3.min(n) + exp_names + (n > 4) as usize + (0..n).filter(|i| i % 5 == 2).map(|i| i % 13).filter(|k| k % 2 == 1 || *k >= n).collect::<std::collections::HashSet<_>>().len() + (n > 2) as usize;
                ck(subjects == n, &format!("{subjects} subjects")) && ck(predicates == 3.min(n), &format!("{predicates} predicates")) && ck(objects == exp_objects, &format!("{objects} objects, expected {exp_objects}"))
                    && ck(names == exp_names, &format!("{names} graph names")) && ck(lits == (n + 4) / 5, &format!("{lits} literals")) && ck(bnodes == n / 2 + among(1, 11), &format!("{bnodes} blank nodes"))
                    && ck(quoted == among(2, 13), &format!("{quoted} quoted triples")) && ck(vars == among(3, 17) + (n > 2) as usize, &format!("{vars} variables")) && ck(iris >= (n + 1) / 2 && iris <= exp_iris + 13, &format!("{iris} IRIs (about {exp_iris} expected)"))
            }
            fn gr<G: MutableGraph + Graph>(mut g: G, n: usize) -> bool {
                for i in 0..n { g.insert(if i % 2 == 0 { s_i(i) } else { bnode(&format!("b{i}")) }, iri(&format!("x:p{}", i % 3)), if i % 2 == 0 { lit(i % 7) } else { iri("x:o") }).ok().unwrap(); }
                let (s, p, o) = (distinct(g.subjects()), distinct(g.predicates()), distinct(g.objects()));
                let (i, b, l) = (distinct(g.iris()), distinct(g.blank_nodes()), distinct(g.literals()));
                ck(s == n && p == 3.min(n) && o == 8.min(n), &format!("graph: {s} subjects, {p} predicates, {o} objects")) && ck(b == n / 2 && l == 7.min((n + 1) / 2) && i == (n + 1) / 2 + 3.min(n) + (n > 1) as usize, &format!("graph: {i} IRIs, {b} blank nodes, {l} literals"))
            }
            yes(go(FastDataset::new(), n) && go(LightDataset::new(), n / 10 + 1) && gr(FastGraph::new(), n / 10 + 1) && gr(LightGraph::new(), n))
        }
        "inmem-bulk" => {
            use sophia_api::dataset::CollectibleDataset; use sophia_api::graph::CollectibleGraph;
            let quad = |i: usize| -> Q { ([s_i(i % (n / 2 + 1)), iri(&format!("x:p{}", i % 3)), lit(i)], if i % 4 == 0 { None } else { Some(iri(&format!("x:g{}", i % 4))) }) };
            fn go<D: MutableDataset + Dataset + CollectibleDataset>(n: usize, quad: &dyn Fn(usize) -> Q, is_set: bool) -> bool where <D as MutableDataset>::MutationError: From<<D as Dataset>::Error> {
                let mut d = D::from_quad_source((0..n).map(quad).into_source()).ok().unwrap();
                let a = d.quads().count();
                let again = if is_set { d.insert_all((0..n).map(quad).into_source()).ok().unwrap() } else { 0 }; // (a Vec would hold every quad twice)
                let has = d.contains(&quad(n - 1).0[0], &quad(n - 1).0[1], &quad(n - 1).0[2], quad(n - 1).1.as_ref()).ok().unwrap();
                let removed = d.remove_matching(Any, [iri("x:p1")], Any, Any).ok().unwrap();
                d.retain_matching(Any, Any, Any, [None::<ST>, Some(iri("x:g1")), Some(iri("x:g2"))]).ok().unwrap();
                let left = d.quads().count();
                let gone = d.remove_all((0..n).map(quad).into_source()).ok().unwrap();
                let exp_left = (0..n).filter(|i| i % 3 != 1 && i % 4 != 3).count();
                ck(a == n && again == 0 && has, &format!("{a} quads collected, {again} inserted again")) && ck(removed == (n + 1) / 3, &format!("{removed} removed")) && ck(left == exp_left && (!is_set || gone == exp_left) && d.quads().count() == 0, &format!("{left} left, {gone} removed at the end, expected {exp_left}"))
            }
            let mut ok = go::<FastDataset>(n, &quad, true) && go::<LightDataset>(n / 10 + 1, &quad, true) && go::<Vec<Q>>(n.min(1_000), &quad, false) && go::<std::collections::HashSet<Q>>(n.min(1_000), &quad, true) && go::<std::collections::BTreeSet<sophia_api::quad::Gspo<ST>>>(n.min(1_000), &quad, true);
            let g: FastGraph = (0..n).map(|i| quad(i).0).into_source().collect_triples().ok().unwrap(); ok &= ck(g.triples().count() == n, "FastGraph collected");
            let g: LightGraph = LightGraph::from_triple_source((0..n).map(|i| quad(i).0).into_source()).ok().unwrap(); ok &= ck(g.triples().count() == n, "LightGraph collected");
            yes(ok)
        }
        "source-adapters" => {
            let last = |i: usize| if i + 1 == n { iri("x:last") } else { s_i(i) };
            let is_last = |t: &ST| t.iri().map_or(false, |i| i.as_str() == "x:last");
            let mut ok = true;
            let mut c = 0; (0..n).map(|i| [last(i), iri("x:p"), lit(i)]).into_source().filter_triples(|t| { probe(); is_last(&t[0]) }).for_each_triple(|_| c += 1).unwrap(); ok &= ck(c == 1, "filter_triples");
            let mut c = 0; (0..n).map(|i| [last(i), iri("x:p"), lit(i)]).into_source().filter_map_triples(|t| if is_last(&t[0]) { Some(1u8) } else { None }).for_each_item(|_| c += 1).unwrap(); ok &= ck(c == 1, "filter_map_triples");
            let mut c = 0; (0..n).map(|i| [last(i), iri("x:p"), lit(i)]).into_source().map_triples(|t| is_last(&t[0])).filter_items(|b| *b).for_each_item(|_| c += 1).unwrap(); ok &= ck(c == 1, "map_triples + filter_items");
            let mut c = 0; (0..n).map(|i| [last(i), iri("x:p"), lit(i)]).into_source().to_quads().filter_quads(|q| is_last(&q.0[0])).for_each_quad(|_| c += 1).unwrap(); ok &= ck(c == 1, "to_quads + filter_quads");
            let mut c = 0; (0..n).map(|i| ([last(i), iri("x:p"), lit(i)], Some(s_i(i)))).into_source().to_triples().filter_triples(|t| is_last(&t[0])).filter_triples(|_| true).for_each_triple(|_| c += 1).unwrap(); ok &= ck(c == 1, "to_triples + filter_triples twice");
            // a parser source
            let mut d = String::new(); for i in 0..n { writeln!(d, "<x:s{}> <x:p> \"{i}\" .", if i + 1 == n { "last".to_string() } else { i.to_string() }).unwrap(); }
            let mut c = 0; sophia_turtle::parser::nt::parse_bufread(d.as_bytes()).filter_triples(|t| { probe(); t.s().iri().map_or(false, |i| i.as_str() == "x:slast") }).for_each_triple(|_| c += 1).unwrap(); ok &= ck(c == 1, "filter_triples on a parser");
            let g: Vec<[ST; 3]> = sophia_turtle::parser::turtle::parse_bufread(d.as_bytes()).filter_triples(|t| t.s().iri().map_or(false, |i| i.as_str() == "x:slast")).collect_triples().unwrap(); ok &= ck(g.len() == 1, "collect after filter");
            yes(ok)
        }
        _ => unreachable!(),
    }
}

// ---------------------------------------------------------------------------------------------
// every store type, every mutation and query of it, with VERY MANY statements and with VERY MANY
// COPIES of one statement: the Vec-backed stores of api/src/{dataset,graph}/_foreign_impl.rs are
// not sets (insert pushes), so a statement may be held n times and every mutation that looks for
// it meets n copies; the set stores (HashSet, BTreeSet, sophia_inmem) get the same histories.
// "store-<kind>-<shape>": shape `many` = n distinct statements, `copies` = n copies of one
// statement, both between two other statements that must survive.
// The functional checks are those of the API contract (a removed statement is less often there
// than before, the other statements are untouched, retain / remove_matching leave nothing that
// they should have removed); how many copies `remove` takes away is the model's business (Coq).
// ---------------------------------------------------------------------------------------------
const STORE_KINDS: &[(&str, &str)] = &[
    ("vgspo", "Vec<Gspo<SimpleTerm>> dataset"), ("vspog", "Vec<Spog<SimpleTerm>> dataset"), ("hgspo", "HashSet<Gspo<SimpleTerm>> dataset"), ("hspog", "HashSet<Spog<SimpleTerm>> dataset"),
    ("bgspo", "BTreeSet<Gspo<SimpleTerm>> dataset"), ("bspog", "BTreeSet<Spog<SimpleTerm>> dataset"), ("mutref", "&mut Vec<Gspo<SimpleTerm>> dataset"), ("gasd", "GraphAsDataset<Vec<[SimpleTerm; 3]>> dataset (into_dataset)"),
    ("fastd", "FastDataset"), ("lightd", "LightDataset"),
    ("vtri", "Vec<[SimpleTerm; 3]> graph"), ("htri", "HashSet<[SimpleTerm; 3]> graph"), ("btri", "BTreeSet<[SimpleTerm; 3]> graph"), ("gmutref", "&mut Vec<[SimpleTerm; 3]> graph"),
    ("dsgv", "DatasetGraph<&mut Vec<Gspo<SimpleTerm>>, _> graph (graph_mut)"), ("dsgs", "DatasetGraph<&mut Vec<Spog<SimpleTerm>>, _> graph (graph_mut)"), ("fastg", "FastGraph"), ("lightg", "LightGraph"),
    ("views", "read-only views of Vec stores: slices of Gspo / Spog / triples, &Dataset, graph(name), union_graph, partial_union_graph, as_dataset"),
];
fn store_ops() -> &'static [(&'static str, &'static str)] {
    static ALL: std::sync::OnceLock<Vec<(&'static str, &'static str)>> = std::sync::OnceLock::new();
    ALL.get_or_init(|| { let mut v = vec![]; for (k, what) in STORE_KINDS { for (shape, sw) in [("many", "n distinct statements"), ("copies", "n copies of one statement")] {
        let name: &'static str = Box::leak(format!("store-{k}-{shape}").into_boxed_str());
        let desc: &'static str = Box::leak(format!("{what} holding {sw}: insert, insert_all, contains (present / absent), *_matching with caller-supplied matchers skipping n statements, enumerations, remove (absent / present), remove_quad / remove_triple, remove_all, remove_matching, retain_matching").into_boxed_str());
        v.push((name, desc)); } } v })
}
/// caller-supplied matcher: probes, accepts the IRIs listed (or everything but them)
struct IriIn { names: Vec<&'static str>, negate: bool }
impl sophia_api::term::matcher::TermMatcher for IriIn {
    type Term = ST;
    fn matches<T2: Term + ?Sized>(&self, t: &T2) -> bool { probe(); let hit = t.iri().map_or(false, |i| self.names.iter().any(|n| *n == i.as_str())); hit != self.negate }
}
fn iri_in(names: &[&'static str]) -> IriIn { IriIn { names: names.to_vec(), negate: false } }
fn iri_not_in(names: &[&'static str]) -> IriIn { IriIn { names: names.to_vec(), negate: true } }
/// the statements of a store history
#[derive(Clone, Copy)]
struct Shape { n: usize, copies: bool, named: bool }
impl Shape {
    fn g(&self) -> Option<ST> { if self.named { Some(iri("x:g")) } else { None } }
    fn step(&self) -> usize { self.n / 8 + 2 }
    fn rare(&self, i: usize) -> bool { !self.copies && i % self.step() == 1 && i + 8 < self.n }
    fn stmt(&self, i: usize) -> [ST; 3] { if self.copies { [iri("x:s"), iri("x:p"), iri("x:o")] } else { [s_i(i), iri(if self.rare(i) { "x:rare" } else { "x:p" }), lit(i)] } }
    /// k-th statement to remove (distinct statements in the `many` shape)
    fn tgt(&self, k: usize) -> [ST; 3] { self.stmt(self.n - 1 - k) }
    fn rares(&self) -> usize { (0..self.n).filter(|i| self.rare(*i)).count() }
    fn other_a(&self) -> [ST; 3] { [iri("x:other"), iri("x:p"), iri("x:o")] }
    fn other_b(&self) -> [ST; 3] { [iri("x:o"), iri("x:q"), iri("x:other")] }
    fn absent(&self) -> [ST; 3] { [iri("x:s"), iri("x:p"), iri("x:absent")] }
    fn quad(&self, t: [ST; 3]) -> Q { (t, self.g()) }
}
/// the queries of a history, on any Dataset (sized or not)
fn ds_reads<D: Dataset + ?Sized>(d: &D, sh: Shape, set: bool) -> bool {
    let (n, g) = (sh.n, sh.g());
    let total = if set && sh.copies { 3 } else { n + 2 };
    let t = sh.tgt(0); let a = sh.absent();
    let count = d.quads().count();
    let has = d.contains(&t[0], &t[1], &t[2], g.as_ref()).ok().unwrap();
    let has_not = d.contains(&a[0], &a[1], &a[2], g.as_ref()).ok().unwrap();
    // n statements rejected by a caller-supplied matcher at each position
    let by_s = d.quads_matching(iri_in(&["x:other"]), Any, Any, Any).count();
    let by_p = d.quads_matching(Any, iri_in(&["x:q"]), Any, Any).count();
    let by_o = d.quads_matching(Any, Any, iri_in(&["x:other"]), Any).count();
    let by_g = d.quads_matching(Any, Any, Any, SG::Last).count();
    let exact = d.quads_matching([&t[0]], [&t[1]], [&t[2]], [g.as_ref()]).count();
    let (subjects, names) = (d.subjects().count(), d.graph_names().count());
    let iris = d.iris().filter(|t| t.as_ref().ok().and_then(|t| t.iri()).map_or(false, |i| i.as_str() == "x:q")).count();
    ck(count == total, &format!("{count} quads, expected {total}")) && ck(has && !has_not, "contains") && ck(by_s == 1 && by_p == 1 && by_o == 1 && by_g == 0, &format!("quads_matching with closures: {by_s} {by_p} {by_o} {by_g}"))
        && ck(exact == if sh.copies && !set { n } else { 1 }, &format!("{exact} quads equal to the target")) && ck(subjects == total && names == if sh.named { total } else { 0 } && iris == 1, &format!("enumerations: {subjects} subjects, {names} graph names"))
}
fn ds_fill<D: MutableDataset>(d: &mut D, sh: Shape) {
    let q = sh.quad(sh.other_a()); d.insert(&q.0[0], &q.0[1], &q.0[2], q.1.as_ref()).ok().unwrap();
    for i in 0..sh.n / 2 { let q = sh.quad(sh.stmt(i)); d.insert_quad(q).ok().unwrap(); }
    d.insert_all((sh.n / 2..sh.n).map(|i| sh.quad(sh.stmt(i))).into_source()).ok().unwrap();
    let q = sh.quad(sh.other_b()); d.insert(&q.0[0], &q.0[1], &q.0[2], q.1.as_ref()).ok().unwrap();
}
/// puts the n copies back (`copies` shape only: the next mutation must meet n copies again)
fn ds_refill<D: MutableDataset + Dataset>(d: &mut D, sh: Shape) { if sh.copies { let t = sh.stmt(0); let have = d.quads_matching([&t[0]], [&t[1]], [&t[2]], [sh.g().as_ref()]).count(); d.insert_all((have..sh.n).map(|i| sh.quad(sh.stmt(i))).into_source()).ok().unwrap(); } }
fn ds_history<D: MutableDataset + Dataset>(mut d: D, sh: Shape, set: bool) -> bool where D::MutationError: From<D::Error> { ds_history_a(&mut d, sh, set) && ds_history_b(&mut d, sh, set) }
/// fill, query, remove / remove_quad / remove_all
fn ds_history_a<D: MutableDataset + Dataset>(d: &mut D, sh: Shape, set: bool) -> bool {
    let g = sh.g();
    ds_fill(d, sh);
    if !ds_reads(&*d, sh, set) { return false; }
    let intact = |d: &D| { let (a, b) = (sh.other_a(), sh.other_b()); d.contains(&a[0], &a[1], &a[2], g.as_ref()).ok().unwrap() && d.contains(&b[0], &b[1], &b[2], g.as_ref()).ok().unwrap() };
    // a removal of a statement that is there: strictly fewer quads (exactly one fewer when it was there once), the others untouched
    let fewer = |before: usize, after: usize, removed: usize| if sh.copies && !set { after < before && after >= 2 } else { after + removed == before };
    let mut ok = true;
    let c0 = d.quads().count();
    let a = sh.absent();
    let _ = d.remove(&a[0], &a[1], &a[2], g.as_ref()).ok().unwrap();
    ok &= ck(d.quads().count() == c0, "remove of an absent statement");
    let t = sh.tgt(0);
    let _ = d.remove(&t[0], &t[1], &t[2], g.as_ref()).ok().unwrap();
    let c1 = d.quads().count(); ok &= ck(fewer(c0, c1, 1) && intact(&*d), &format!("remove: {c0} quads before, {c1} after"));
    ds_refill(d, sh); let c1 = d.quads().count();
    let _ = d.remove_quad(sh.quad(sh.tgt(1))).ok().unwrap();
    let c2 = d.quads().count(); ok &= ck(fewer(c1, c2, 1) && intact(&*d), &format!("remove_quad: {c1} quads before, {c2} after"));
    ds_refill(d, sh); let c2 = d.quads().count();
    let _ = d.remove_all([sh.quad(sh.absent()), sh.quad(sh.tgt(2)), sh.quad(sh.tgt(2)), sh.quad(sh.tgt(3))].into_iter().into_source()).ok().unwrap();
    let c3 = d.quads().count(); ok &= ck(fewer(c2, c3, if sh.copies { 1 } else { 2 }) && intact(&*d), &format!("remove_all: {c2} quads before, {c3} after"));
    ok
}
/// remove_matching, retain_matching (after ds_history_a)
fn ds_history_b<D: MutableDataset + Dataset>(d: &mut D, sh: Shape, _set: bool) -> bool where D::MutationError: From<D::Error> {
    let g = sh.g();
    let intact = |d: &D| { let (a, b) = (sh.other_a(), sh.other_b()); d.contains(&a[0], &a[1], &a[2], g.as_ref()).ok().unwrap() && d.contains(&b[0], &b[1], &b[2], g.as_ref()).ok().unwrap() };
    let mut ok = true;
    ds_refill(d, sh); let c3 = d.quads().count();
    // remove_matching: every copy / the rare statements
    let removed = if sh.copies { d.remove_matching([iri("x:s")], Any, Any, Any) } else { d.remove_matching(Any, iri_in(&["x:rare"]), Any, Any) }.ok().unwrap();
    let c4 = d.quads().count();
    ok &= ck(if sh.copies { c4 == 2 && removed >= 1 } else { c4 + sh.rares() == c3 && removed == sh.rares() } && intact(&*d), &format!("remove_matching: {c3} quads before, {c4} after, {removed} reported"));
    ds_refill(d, sh); let c4 = d.quads().count();
    // retain_matching that removes one statement among n, then one that removes the copies / 5 statements
    d.retain_matching(Any, iri_not_in(&["x:q"]), Any, Any).ok().unwrap();
    let c5 = d.quads().count(); ok &= ck(c5 + 1 == c4, &format!("retain_matching removing one statement: {c4} quads before, {c5} after"));
    if sh.copies { d.retain_matching(iri_in(&["x:other"]), Any, Any, Any).ok().unwrap(); ok &= ck(d.quads().count() == 1, "retain_matching removing every copy"); }
    else { let keep: Vec<[ST; 3]> = (4..9).map(|k| sh.tgt(k)).collect(); let last5: Vec<ST> = keep.iter().map(|t| t[0].clone()).collect();
        d.retain_matching(|t: SimpleTerm| { probe(); !last5.iter().any(|x| Term::eq(x, &t)) }, Any, Any, Any).ok().unwrap(); let c6 = d.quads().count(); ok &= ck(c6 + 5 == c5, &format!("retain_matching removing 5 statements: {c5} quads before, {c6} after")); }
    let a = sh.other_a(); ok &= ck(d.contains(&a[0], &a[1], &a[2], g.as_ref()).ok().unwrap(), "the first statement is still there");
    ok
}
fn g_reads<G: Graph + ?Sized>(d: &G, sh: Shape, set: bool) -> bool {
    let n = sh.n;
    let total = if set && sh.copies { 3 } else { n + 2 };
    let t = sh.tgt(0); let a = sh.absent();
    let count = d.triples().count();
    let has = d.contains(&t[0], &t[1], &t[2]).ok().unwrap();
    let has_not = d.contains(&a[0], &a[1], &a[2]).ok().unwrap();
    let by_s = d.triples_matching(iri_in(&["x:other"]), Any, Any).count();
    let by_p = d.triples_matching(Any, iri_in(&["x:q"]), Any).count();
    let by_o = d.triples_matching(Any, Any, iri_in(&["x:other"])).count();
    let exact = d.triples_matching([&t[0]], [&t[1]], [&t[2]]).count();
    let objects = d.objects().count();
    let iris = d.iris().filter(|t| t.as_ref().ok().and_then(|t| t.iri()).map_or(false, |i| i.as_str() == "x:q")).count();
    ck(count == total, &format!("{count} triples, expected {total}")) && ck(has && !has_not, "contains") && ck(by_s == 1 && by_p == 1 && by_o == 1, &format!("triples_matching with closures: {by_s} {by_p} {by_o}"))
        && ck(exact == if sh.copies && !set { n } else { 1 }, &format!("{exact} triples equal to the target")) && ck((objects == total || objects == if sh.copies { 2 } else { total }) && iris >= 1, &format!("enumerations: {objects} objects"))
}
fn g_fill<G: MutableGraph>(d: &mut G, sh: Shape) {
    let t = sh.other_a(); d.insert(&t[0], &t[1], &t[2]).ok().unwrap();
    for i in 0..sh.n / 2 { d.insert_triple(sh.stmt(i)).ok().unwrap(); }
    d.insert_all((sh.n / 2..sh.n).map(|i| sh.stmt(i)).into_source()).ok().unwrap();
    let t = sh.other_b(); d.insert(&t[0], &t[1], &t[2]).ok().unwrap();
}
fn g_refill<G: MutableGraph + Graph>(d: &mut G, sh: Shape) { if sh.copies { let t = sh.stmt(0); let have = d.triples_matching([&t[0]], [&t[1]], [&t[2]]).count(); d.insert_all((have..sh.n).map(|i| sh.stmt(i)).into_source()).ok().unwrap(); } }
fn g_history<G: MutableGraph + Graph>(mut d: G, sh: Shape, set: bool) -> bool where G::MutationError: From<G::Error> {
    g_fill(&mut d, sh);
    if !g_reads(&d, sh, set) { return false; }
    let intact = |d: &G| { let (a, b) = (sh.other_a(), sh.other_b()); d.contains(&a[0], &a[1], &a[2]).ok().unwrap() && d.contains(&b[0], &b[1], &b[2]).ok().unwrap() };
    let fewer = |before: usize, after: usize, removed: usize| if sh.copies && !set { after < before && after >= 2 } else { after + removed == before };
    let mut ok = true;
    let c0 = d.triples().count();
    let a = sh.absent();
    let _ = d.remove(&a[0], &a[1], &a[2]).ok().unwrap();
    ok &= ck(d.triples().count() == c0, "remove of an absent statement");
    let t = sh.tgt(0);
    let _ = d.remove(&t[0], &t[1], &t[2]).ok().unwrap();
    let c1 = d.triples().count(); ok &= ck(fewer(c0, c1, 1) && intact(&d), &format!("remove: {c0} triples before, {c1} after"));
    g_refill(&mut d, sh); let c1 = d.triples().count();
    let _ = d.remove_triple(sh.tgt(1)).ok().unwrap();
    let c2 = d.triples().count(); ok &= ck(fewer(c1, c2, 1) && intact(&d), &format!("remove_triple: {c1} triples before, {c2} after"));
    g_refill(&mut d, sh); let c2 = d.triples().count();
    let _ = d.remove_all([sh.absent(), sh.tgt(2), sh.tgt(2), sh.tgt(3)].into_iter().into_source()).ok().unwrap();
    let c3 = d.triples().count(); ok &= ck(fewer(c2, c3, if sh.copies { 1 } else { 2 }) && intact(&d), &format!("remove_all: {c2} triples before, {c3} after"));
    g_refill(&mut d, sh); let c3 = d.triples().count();
    let removed = if sh.copies { d.remove_matching([iri("x:s")], Any, Any) } else { d.remove_matching(Any, iri_in(&["x:rare"]), Any) }.ok().unwrap();
    let c4 = d.triples().count();
    ok &= ck(if sh.copies { c4 == 2 && removed >= 1 } else { c4 + sh.rares() == c3 && removed == sh.rares() } && intact(&d), &format!("remove_matching: {c3} triples before, {c4} after, {removed} reported"));
    g_refill(&mut d, sh); let c4 = d.triples().count();
    d.retain_matching(Any, iri_not_in(&["x:q"]), Any).ok().unwrap();
    let c5 = d.triples().count(); ok &= ck(c5 + 1 == c4, &format!("retain_matching removing one statement: {c4} triples before, {c5} after"));
    if sh.copies { d.retain_matching(iri_in(&["x:other"]), Any, Any).ok().unwrap(); ok &= ck(d.triples().count() == 1, "retain_matching removing every copy"); }
    else { let last5: Vec<ST> = (4..9).map(|k| sh.tgt(k)[0].clone()).collect();
        d.retain_matching(|t: SimpleTerm| { probe(); !last5.iter().any(|x| Term::eq(x, &t)) }, Any, Any).ok().unwrap(); let c6 = d.triples().count(); ok &= ck(c6 + 5 == c5, &format!("retain_matching removing 5 statements: {c5} triples before, {c6} after")); }
    let a = sh.other_a(); ok &= ck(d.contains(&a[0], &a[1], &a[2]).ok().unwrap(), "the first statement is still there");
    ok
}
fn run_store(op: &str, n: usize) -> u64 {
    use sophia_api::quad::Gspo;
    use std::collections::{BTreeSet, HashSet};
    let parts: Vec<&str> = op.split('-').collect();
    let (kind, copies) = (parts[1], parts[2] == "copies");
    let sh = Shape { n, copies, named: true };
    let plain = Shape { n, copies, named: false };
    let ok = match kind {
        "vgspo" => ds_history(Vec::<Gspo<ST>>::new(), sh, false),
        "vspog" => ds_history(Vec::<Q>::new(), sh, false),
        "hgspo" => ds_history(HashSet::<Gspo<ST>>::new(), sh, true),
        "hspog" => ds_history(HashSet::<Q>::new(), sh, true),
        "bgspo" => ds_history(BTreeSet::<Gspo<ST>>::new(), sh, true),
        "bspog" => ds_history(BTreeSet::<Q>::new(), sh, true),
        "mutref" => { let mut v = Vec::<Gspo<ST>>::new(); ds_history(&mut v, sh, false) }
        "gasd" => { let mut d = Vec::<[ST; 3]>::new().into_dataset(); ds_history_a(&mut d, plain, false) }
        "fastd" => ds_history(FastDataset::new(), sh, true),
        "lightd" => ds_history(LightDataset::new(), sh, true),
        "vtri" => g_history(Vec::<[ST; 3]>::new(), plain, false),
        "htri" => g_history(HashSet::<[ST; 3]>::new(), plain, true),
        "btri" => g_history(BTreeSet::<[ST; 3]>::new(), plain, true),
        "gmutref" => { let mut v = Vec::<[ST; 3]>::new(); g_history(&mut v, plain, false) }
        "dsgv" => { let mut v = Vec::<Gspo<ST>>::new(); MutableDataset::insert(&mut v, iri("x:elsewhere"), iri("x:p"), iri("x:o"), Some(iri("x:g2"))).unwrap(); let r = g_history(v.graph_mut(Some(iri("x:g"))), plain, false); r && ck(Dataset::contains(&v, iri("x:elsewhere"), iri("x:p"), iri("x:o"), Some(iri("x:g2"))).unwrap() && (!copies || v.len() == 2), "the other graph is untouched") }
        "dsgs" => { let mut v = Vec::<Q>::new(); MutableDataset::insert(&mut v, iri("x:elsewhere"), iri("x:p"), iri("x:o"), None::<ST>).unwrap(); let r = g_history(v.graph_mut(Some(iri("x:g"))), plain, false); r && ck(Dataset::contains(&v, iri("x:elsewhere"), iri("x:p"), iri("x:o"), None::<ST>).unwrap() && (!copies || v.len() == 2), "the default graph is untouched") }
        "fastg" => g_history(FastGraph::new(), plain, true),
        "lightg" => g_history(LightGraph::new(), plain, true),
        "views" => {
            let (mut a, mut b, mut c) = (Vec::<Gspo<ST>>::new(), Vec::<Q>::new(), Vec::<[ST; 3]>::new());
            ds_fill(&mut a, sh); ds_fill(&mut b, sh); g_fill(&mut c, plain);
            let mut ok = ck(ds_reads(&a[..], sh, false), "slice of Gspo") && ck(ds_reads(&b[..], sh, false), "slice of Spog") && ck(g_reads(&c[..], plain, false), "slice of triples");
            ok &= ck(ds_reads(&&a, sh, false), "&Vec<Gspo>") && ck(g_reads(&&c, plain, false), "&Vec<[T; 3]>");
            ok &= ck(g_reads(&a.graph(Some(iri("x:g"))), plain, false), "graph(name) of Vec<Gspo>") && ck(g_reads(&b.union_graph(), plain, false), "union_graph of Vec<Spog>");
            let (g1, g2) = (iri("x:g"), iri("x:g2")); ok &= ck(g_reads(&a.partial_union_graph([Some(&g1), Some(&g2)]), plain, false), "partial_union_graph of Vec<Gspo>");
            ok &= ck(ds_reads(&c.as_dataset(), plain, false), "as_dataset of Vec<[T; 3]>");
            ok
        }
        _ => panic!("unknown store kind {kind}"),
    };
    if ok { n as u64 } else { 0 }
}

// ---------------------------------------------------------------------------------------------
// measurement helpers
// ---------------------------------------------------------------------------------------------
unsafe extern "C" { fn mincore(addr: *mut u8, length: usize, vec: *mut u8) -> i32; }
static THREAD_SEQ: std::sync::atomic::AtomicUsize = std::sync::atomic::AtomicUsize::new(0);
const PAGE: usize = 4096;

/// number of bytes below `top` (a page-aligned address near the base of the current thread's
/// stack) that are resident, looking `len` bytes down: the high-water mark of a stack that was
/// freshly mapped for this thread (exploration: page granularity, needs a never-used stack)
fn resident_below(top: usize, len: usize) -> usize {
    let lo = top - len;
    let mut v = vec![0u8; len / PAGE];
    let rc = unsafe { mincore(lo as *mut u8, len, v.as_mut_ptr()) };
    if rc != 0 { usize::MAX } else { match v.iter().position(|b| b & 1 == 1) { Some(i) => len - i * PAGE, None => 0 } }
}
/// Runs `f` on a fresh thread with a `size`-byte stack; returns (result, callback spread,
/// callback calls, high-water mark of the stack in bytes)
fn on_thread<R: Send + 'static>(size: usize, f: impl FnOnce() -> R + Send + 'static) -> std::thread::Result<(R, usize, u64, usize)> {
    std::thread::Builder::new().stack_size(size).spawn(move || {
        let top_probe = 0u8;
        let top = (std::hint::black_box(&top_probe) as *const u8 as usize) & !(PAGE - 1);
        probe_reset();
        let r = f();
        let (spread, calls) = probe_read();
        // stay inside the mapping: TLS and the frames of the thread start-up sit above `top`
        let used = resident_below(top, size - (64 << 10));
        (r, spread, calls, used)
    }).unwrap().join()
}
/// the same on a stack too big for glibc's stack cache (never a reused, already-touched one) and
/// for any of the recursions to overflow at the sizes used here
fn on_big_thread<R: Send + 'static>(f: impl FnOnce() -> R + Send + 'static) -> Option<(R, usize, u64, usize)> {
    let size = (768usize << 20) + PAGE * 16 * THREAD_SEQ.fetch_add(1, std::sync::atomic::Ordering::SeqCst);
    on_thread(size, f).ok()
}

fn child_main(op: &str, n: usize, stack: usize) {
    let op2 = op.to_string();
    match on_thread(stack, move || run_op(&op2, n)) {
        Ok((v, spread, calls, used)) => { println!("OK {v} {spread} {calls} {used}"); }
        Err(_) => { println!("PANIC"); std::process::exit(3); }
    }
}

#[derive(Debug, Clone)]
enum ChildOutcome { Ok { value: u64, spread: usize, calls: u64, used: usize }, Crashed(String), TimedOut, Wrong(String) }
fn run_child(op: &str, n: usize, stack: usize, timeout_s: u64) -> (ChildOutcome, f64) {
    use std::os::unix::process::ExitStatusExt;
    use std::io::Read;
    let t0 = std::time::Instant::now();
    let mut ch = std::process::Command::new(std::env::current_exe().unwrap())
        .args(["--child", op, &n.to_string(), &stack.to_string()])
        .stdout(std::process::Stdio::piped()).stderr(std::process::Stdio::piped()).spawn().unwrap();
    let status = loop {
        if let Some(s) = ch.try_wait().unwrap() { break Some(s); }
        if t0.elapsed().as_secs() > timeout_s { let _ = ch.kill(); let _ = ch.wait(); break None; }
        std::thread::sleep(std::time::Duration::from_millis(20));
    };
    let dt = t0.elapsed().as_secs_f64();
    let Some(status) = status else { return (ChildOutcome::TimedOut, dt) };
    let (mut so, mut se) = (String::new(), String::new());
    if let Some(mut o) = ch.stdout.take() { let _ = o.read_to_string(&mut so); }
    if let Some(mut e) = ch.stderr.take() { let _ = e.read_to_string(&mut se); }
    if status.success() {
        let f: Vec<u64> = so.trim().strip_prefix("OK ").map(|v| v.split(' ').filter_map(|x| x.parse().ok()).collect()).unwrap_or_default();
        if f.len() == 4 { (ChildOutcome::Ok { value: f[0], spread: f[1] as usize, calls: f[2], used: f[3] as usize }, dt) } else { (ChildOutcome::Wrong(so), dt) }
    } else {
        let why = match status.signal() { Some(6) => "aborted (signal 6)".to_string(), Some(11) => "segmentation fault (signal 11)".to_string(), Some(sig) => format!("killed by signal {sig}"), None => format!("exit code {:?}", status.code()) };
        let msg: String = se.lines().filter(|l| l.contains("overflowed") || l.contains("panicked")).take(1).collect();
        (ChildOutcome::Crashed(format!("{why}{}{}", if msg.is_empty() { "" } else { ": " }, msg.trim())), dt)
    }
}

// ---------------------------------------------------------------------------------------------
// correspondence cases
// ---------------------------------------------------------------------------------------------
use sophia_api::term::matcher::{GraphNameMatcher, TermMatcher};
use std::cell::RefCell;

fn id_of<T: Term>(pool: &[ST], t: T) -> u64 { pool.iter().position(|x| Term::eq(x, t.borrow_term())).map_or(999, |i| i as u64 + 1) }
fn gid_of<T: Term>(pool: &[ST], g: GraphName<T>) -> u64 { g.map_or(0, |t| id_of(pool, t)) }

/// a caller-supplied matcher: a constant, "anything" (silent), or an accept-set that logs its calls
struct PM<'a> { konst: Option<ST>, any: bool, acc: Vec<u64>, pos: u8, log: &'a RefCell<Vec<(u8, u64)>>, pool: &'a [ST] }
impl TermMatcher for PM<'_> {
    type Term = ST;
    fn matches<T2: Term + ?Sized>(&self, t: &T2) -> bool {
        if let Some(k) = &self.konst { return Term::eq(k, t.borrow_term()); }
        if self.any { return true; }
        let id = id_of(self.pool, t.borrow_term());
        self.log.borrow_mut().push((self.pos, id));
        self.acc.contains(&id)
    }
    fn constant(&self) -> Option<&ST> { self.konst.as_ref() }
}
struct GM<'a> { konst: Option<GraphName<ST>>, any: bool, acc: Vec<u64>, log: &'a RefCell<Vec<(u8, u64)>>, pool: &'a [ST] }
impl GraphNameMatcher for GM<'_> {
    type Term = ST;
    fn matches<T2: Term + ?Sized>(&self, g: GraphName<&T2>) -> bool {
        if let Some(k) = &self.konst { return sophia_api::term::graph_name_eq(k.as_ref().map(|t| t.borrow_term()), g.map(|t| t.borrow_term())); }
        if self.any { return true; }
        let id = gid_of(self.pool, g.map(|t| t.borrow_term()));
        self.log.borrow_mut().push((3, id));
        self.acc.contains(&id)
    }
    fn constant(&self) -> Option<GraphName<&ST>> { self.konst.as_ref().map(|g| g.as_ref()) }
}

fn c_nlist(v: &[u64]) -> String { coq_list(v.iter().map(|x| x.to_string())) }
fn c_rows(v: &[Vec<u64>]) -> String { coq_list(v.iter().map(|r| c_nlist(r))) }

/// positions: 0 = s, 1 = p, 2 = o, 3 = g.  For a store kind and a set of constant positions:
/// the non-constant positions in the column order of the index the store picks
/// (inmem/src/graph.rs, inmem/src/dataset.rs), or None when no matching iterator is used
fn column_order(fast: bool, dataset: bool, konst: [bool; 4]) -> Option<Vec<u8>> {
    let k: Vec<u8> = (0..4u8).filter(|i| konst[*i as usize]).collect();
    Some(match (dataset, fast, &k[..]) {
        (false, _, []) => vec![0, 1, 2],
        (false, _, [0]) => vec![1, 2],
        (false, true, [1]) => vec![2, 0],
        (false, true, [2]) => vec![0, 1],
        (true, _, []) => vec![3, 0, 1, 2],
        (true, _, [3]) => vec![0, 1, 2],
        (true, _, [0, 3]) => vec![1, 2],
        (true, true, [0]) => vec![1, 2, 3],
        (true, true, [1]) => vec![2, 0, 3],
        (true, true, [2]) => vec![0, 1, 3],
        (true, true, [1, 3]) => vec![2, 0],
        (true, true, [2, 3]) => vec![0, 1],
        (true, true, [0, 1]) => vec![2, 3],
        (true, true, [0, 2]) => vec![1, 3],
        (true, true, [1, 2]) => vec![0, 3],
        _ => return None,
    })
}

/// one query through a store; returns the rows (s,p,o,g as ids) in iteration order
fn query_store(kind: u8, quads: &[[u64; 4]], pool: &[ST], mk: &dyn Fn(u8) -> (Option<u64>, bool, Vec<u64>), log: &RefCell<Vec<(u8, u64)>>) -> Vec<[u64; 4]> {
    let term = |id: u64| pool[id as usize - 1].clone();
    let pm = |pos: u8| { let (k, any, acc) = mk(pos); PM { konst: k.map(term), any, acc, pos, log, pool } };
    let gm = || { let (k, any, acc) = mk(3); GM { konst: k.map(|id| if id == 0 { None } else { Some(term(id)) }), any, acc, log, pool } };
    fn graph_q<G: Graph>(g: &G, pool: &[ST], s: PM, p: PM, o: PM) -> Vec<[u64; 4]> {
        g.triples_matching(s, p, o).map(|t| { let t = t.ok().unwrap(); [id_of(pool, t.s()), id_of(pool, t.p()), id_of(pool, t.o()), 0] }).collect()
    }
    fn ds_q<D: Dataset>(d: &D, pool: &[ST], s: PM, p: PM, o: PM, g: GM) -> Vec<[u64; 4]> {
        d.quads_matching(s, p, o, g).map(|q| { let q = q.ok().unwrap(); [id_of(pool, q.s()), id_of(pool, q.p()), id_of(pool, q.o()), gid_of(pool, q.g())] }).collect()
    }
    match kind {
        0 => { let mut g = LightGraph::new(); for q in quads { g.insert(term(q[0]), term(q[1]), term(q[2])).unwrap(); } graph_q(&g, pool, pm(0), pm(1), pm(2)) }
        1 => { let mut g = FastGraph::new(); for q in quads { g.insert(term(q[0]), term(q[1]), term(q[2])).unwrap(); } graph_q(&g, pool, pm(0), pm(1), pm(2)) }
        2 => { let mut d = LightDataset::new(); for q in quads { d.insert(term(q[0]), term(q[1]), term(q[2]), if q[3] == 0 { None } else { Some(term(q[3])) }).unwrap(); } ds_q(&d, pool, pm(0), pm(1), pm(2), gm()) }
        _ => { let mut d = FastDataset::new(); for q in quads { d.insert(term(q[0]), term(q[1]), term(q[2]), if q[3] == 0 { None } else { Some(term(q[3])) }).unwrap(); } ds_q(&d, pool, pm(0), pm(1), pm(2), gm()) }
    }
}

// a small JSON reader for the output of the JSON-LD serializer
#[derive(Debug, Clone)]
enum J { Null, Bool(bool), Num(String), Str(String), Arr(Vec<J>), Obj(Vec<(String, J)>) }
fn parse_json(s: &str) -> Option<J> {
    fn ws(b: &[u8], i: &mut usize) { while *i < b.len() && (b[*i] as char).is_ascii_whitespace() { *i += 1; } }
    fn string(b: &[u8], i: &mut usize) -> Option<String> {
        if b.get(*i) != Some(&b'"') { return None; } *i += 1; let mut o = Vec::new();
        loop { let c = *b.get(*i)?; *i += 1; match c {
            b'"' => return String::from_utf8(o).ok(),
            b'\\' => { let e = *b.get(*i)?; *i += 1; match e { b'n' => o.push(b'\n'), b't' => o.push(b'\t'), b'r' => o.push(b'\r'), b'b' => o.push(8), b'f' => o.push(12),
                b'u' => { let h = std::str::from_utf8(b.get(*i..*i + 4)?).ok()?; *i += 4; let c = char::from_u32(u32::from_str_radix(h, 16).ok()?)?; let mut buf = [0; 4]; o.extend_from_slice(c.encode_utf8(&mut buf).as_bytes()); }
                x => o.push(x) } }
            x => o.push(x) } }
    }
    fn val(b: &[u8], i: &mut usize) -> Option<J> {
        ws(b, i);
        match *b.get(*i)? {
            b'{' => { *i += 1; let mut m = vec![]; ws(b, i); if b.get(*i) == Some(&b'}') { *i += 1; return Some(J::Obj(m)); }
                loop { ws(b, i); let k = string(b, i)?; ws(b, i); if b.get(*i) != Some(&b':') { return None; } *i += 1; let v = val(b, i)?; m.push((k, v)); ws(b, i);
                    match *b.get(*i)? { b',' => *i += 1, b'}' => { *i += 1; return Some(J::Obj(m)); } _ => return None } } }
            b'[' => { *i += 1; let mut a = vec![]; ws(b, i); if b.get(*i) == Some(&b']') { *i += 1; return Some(J::Arr(a)); }
                loop { a.push(val(b, i)?); ws(b, i); match *b.get(*i)? { b',' => *i += 1, b']' => { *i += 1; return Some(J::Arr(a)); } _ => return None } } }
            b'"' => string(b, i).map(J::Str),
            b't' => { *i += 4; Some(J::Bool(true)) } b'f' => { *i += 5; Some(J::Bool(false)) } b'n' => { *i += 4; Some(J::Null) }
            _ => { let st = *i; while *i < b.len() && (b[*i] == b'-' || b[*i] == b'+' || b[*i] == b'.' || b[*i] == b'e' || b[*i] == b'E' || b[*i].is_ascii_digit()) { *i += 1; } if *i == st { None } else { Some(J::Num(String::from_utf8_lossy(&b[st..*i]).to_string())) } }
        }
    }
    let b = s.as_bytes(); let mut i = 0; let v = val(b, &mut i)?; ws(b, &mut i); if i == b.len() { Some(v) } else { None }
}
impl J { fn get(&self, k: &str) -> Option<&J> { match self { J::Obj(m) => m.iter().find(|(x, _)| x == k).map(|(_, v)| v), _ => None } } }
/// token stream of a JSON-LD value object / list object (see C16/Model.v): 0 = open, 1 = close, 2+v = value
fn json_tokens(v: &J, out: &mut Vec<u64>) {
    if let Some(J::Arr(items)) = v.get("@list") { out.push(0); for i in items { json_tokens(i, out); } out.push(1); }
    else if let Some(J::Str(x)) = v.get("@value") { out.push(2 + x.parse::<u64>().unwrap_or(900)); }
    else { out.push(999); }
}

/// a nested list: Err(v) = a literal item, Ok(items) = a list
#[derive(Clone, Debug)]
enum LT { Lit(u64), List(Vec<LT>) }
fn gen_list(r: &mut Rng, depth: usize, maxlen: usize) -> Vec<LT> {
    (0..r.below(maxlen + 1)).map(|_| if depth > 0 && r.chance(1, 4) { LT::List(gen_list(r, depth - 1, 3)) } else { LT::Lit(r.below(20) as u64) }).collect()
}
fn coq_jl(items: &[LT]) -> String {
    let mut s = String::new();
    for it in items { s.push_str("(JCons "); match it { LT::Lit(v) => s.push_str(&format!("(JLit {v})")), LT::List(l) => s.push_str(&format!("(JSub {})", coq_jl(l))) } s.push(' '); }
    s.push_str("JNil"); for _ in items { s.push(')'); }
    s
}
/// the triples of a list; returns the head term
fn list_to_triples(items: &[LT], ctr: &mut usize, out: &mut Vec<[ST; 3]>) -> ST {
    if items.is_empty() { return iri(RDF_NIL); }
    let ids: Vec<usize> = items.iter().map(|_| { *ctr += 1; *ctr - 1 }).collect();
    for (k, it) in items.iter().enumerate() {
        let cell = bnode(&format!("c{}", ids[k]));
        let first = match it { LT::Lit(v) => lit(*v as usize), LT::List(l) => list_to_triples(l, ctr, out) };
        out.push([cell.clone(), iri(RDF_FIRST), first]);
        out.push([cell, iri(RDF_REST), if k + 1 == items.len() { iri(RDF_NIL) } else { bnode(&format!("c{}", ids[k + 1])) }]);
    }
    bnode(&format!("c{}", ids[0]))
}
fn jsonld_of(ts: Vec<[ST; 3]>) -> Result<J, String> {
    let mut ser = sophia_jsonld::JsonLdSerializer::new_stringifier();
    ser.serialize_quads(ts.into_iter().map(|t| (t, None::<ST>)).into_source()).map_err(|e| format!("{e:?}"))?;
    let txt = String::from_utf8_lossy(ser.as_utf8()).to_string();
    parse_json(&txt).ok_or_else(|| format!("unreadable JSON: {txt}"))
}

fn gen_term(r: &mut Rng, depth: usize) -> ST {
    if depth > 0 && r.chance(1, 3) { return triple(gen_term(r, depth - 1), iri(r.ps(&["x:p", "x:q"])), gen_term(r, depth - 1)); }
    match r.below(5) { 0 => iri(r.ps(&["x:a", "x:b"])), 1 => bnode(r.ps(&["b1", "b2"])), 2 => lit_dt(r.ps(&["1", "two"]), &format!("{XSD}string")), 3 => lit_lang("chat", r.ps(&["fr", "en"])), _ => var(r.ps(&["v", "w"])) }
}

struct Case { idx: usize, body: String, text: String, nontrivial: bool, kind: &'static str }

fn gen_case(idx: usize, base: &Rng, sum: &mut Summary) -> Option<Case> {
    let mut r = base.fork(idx as u64);
    let pool: Vec<ST> = vec![iri("x:a"), iri("x:b"), bnode("x"), triple(iri("x:a"), iri("x:p"), bnode("x")), iri("x:p"), iri("x:q"), iri("x:r"),
        lit_dt("lit", &format!("{XSD}string")), lit_lang("lit", "en"), lit_dt("1", &format!("{XSD}integer")), iri("x:g1"), bnode("g2")];
    match idx % 12 {
        0..=4 => {
            // (a) a pattern query through one of the five matching iterators
            let kind = r.below(4) as u8; let (dataset, fast) = (kind >= 2, kind % 2 == 1);
            let nq = r.below(14);
            let quads: Vec<[u64; 4]> = (0..nq).map(|_| [*r.pick(&[1u64, 2, 3, 4]), *r.pick(&[5u64, 6, 7]), *r.pick(&[1u64, 2, 8, 9, 10, 4]), if dataset { *r.pick(&[0u64, 11, 12]) } else { 0 }]).collect();
            // constant positions
            let npos = if dataset { 4 } else { 3 };
            let cands: Vec<[bool; 4]> = (0..16u8).map(|m| [m & 1 != 0, m & 2 != 0, m & 4 != 0, m & 8 != 0]).filter(|k| (dataset || !k[3]) && column_order(fast, dataset, *k).is_some()).collect();
            let konst = *r.pick(&cands);
            let cols = column_order(fast, dataset, konst).unwrap();
            let kvals: [u64; 4] = [*r.pick(&[1u64, 2, 3, 4]), *r.pick(&[5u64, 6, 7]), *r.pick(&[1u64, 2, 8, 9, 10, 4]), *r.pick(&[0u64, 11, 12])];
            // directed (own random stream): a constant that IS a term of the store but never occurs at its position, so
            // that the store builds its matching iterator over an empty index range
            let (mut quads, mut kvals) = (quads, kvals);
            { let mut r2 = base.fork(idx as u64 + 0x5eed_0000);
              if r2.chance(1, 5) { for p in [0usize, 2] { if konst[p] {
                  let v = *r2.pick(&[1u64, 2, 4]); kvals[p] = v; quads.retain(|q| q[p] != v);
                  let g = if dataset { *r2.pick(&[0u64, 11, 12]) } else { 0 };
                  quads.push(if p == 0 { [3, 5, v, g] } else { [v, 5, *r2.pick(&[8u64, 9, 10]), g] });
                  break;
              } } } }
            let universe: [Vec<u64>; 4] = [vec![1, 2, 3, 4], vec![5, 6, 7], vec![1, 2, 8, 9, 10, 4], vec![0, 11, 12]];
            let accs: Vec<Vec<u64>> = (0..4).map(|p| match r.below(5) { 0 => universe[p].clone(), 1 => vec![], _ => universe[p].iter().copied().filter(|_| r.chance(1, 2)).collect() }).collect();
            let log = RefCell::new(vec![]);
            let all = query_store(kind, &quads, &pool, &|p| if konst[p as usize] { (Some(kvals[p as usize]), false, vec![]) } else { (None, true, vec![]) }, &log);
            let got = query_store(kind, &quads, &pool, &|p| if konst[p as usize] { (Some(kvals[p as usize]), false, vec![]) } else { (None, false, accs[p as usize].clone()) }, &log);
            let tr: Vec<(u8, u64)> = log.borrow().clone();
            let proj = |q: &[u64; 4]| -> Vec<u64> { cols.iter().map(|c| q[*c as usize]).collect() };
            let rows: Vec<Vec<u64>> = all.iter().map(proj).collect();
            let out: Vec<Vec<u64>> = got.iter().map(proj).collect();
            let colno = |pos: u8| cols.iter().position(|c| *c == pos).unwrap_or(99);
            let c_tr = coq_list(tr.iter().map(|(p, id)| format!("({}, {id})", colno(*p))));
            let c_accs = coq_list(cols.iter().map(|c| c_nlist(&accs[*c as usize])));
            let _ = npos;
            sum.bump(&format!("iter:{}:{}cols", ["LightGraph", "FastGraph", "LightDataset", "FastDataset"][kind as usize], cols.len()));
            let text = format!("store={} quads={quads:?} const={:?} accept={:?}", ["LightGraph", "FastGraph", "LightDataset", "FastDataset"][kind as usize], (0..4).filter(|p| konst[*p]).map(|p| (["s", "p", "o", "g"][p], kvals[p])).collect::<Vec<_>>(), cols.iter().map(|c| (["s", "p", "o", "g"][*c as usize], accs[*c as usize].clone())).collect::<Vec<_>>());
            Some(Case { idx, body: format!("iter_ok {c_accs} {} {} {c_tr}", c_rows(&rows), c_rows(&out)), text: format!("{text} => rows {got:?}, matcher calls {tr:?}"), nontrivial: rows.len() >= 2 && out.len() < rows.len(), kind: "iter" })
        }
        5 | 6 => {
            // (b) quoted_string through nt::write_term, on a plain / language-tagged / typed literal
            let alphabet = ['"', '\\', '\n', '\r', 'a', 'é', '\t', ' ', 'x', '\u{1F600}', '\'', '\u{0}'];
            let len = if r.chance(1, 10) { r.range(30, 120) } else { r.below(12) };
            let txt: String = (0..len).map(|_| if r.chance(1, 2) { alphabet[r.below(4)] } else { *r.pick(&alphabet) }).collect();
            let (l, suffix): (ST, String) = match r.below(4) { 0 | 1 => (lit_dt(&txt, &format!("{XSD}string")), "\"".to_string()), 2 => { let tag = r.ps(&["en", "fr-FR", "de-Latn-DE"]); (lit_lang(&txt, tag), format!("\"@{tag}")) }, _ => { let dt = r.ps(&["x:dt", "http://www.w3.org/2001/XMLSchema#integer", "http://www.w3.org/2001/XMLSchema#strin"]); (lit_dt(&txt, dt), format!("\"^^<{dt}>")) } };
            let mut buf: Vec<u8> = vec![];
            sophia_turtle::serializer::nt::write_term(&mut buf, &l).unwrap();
            // oracle: an opening quote, the escaped text, the closing quote with the tag or datatype
            if buf.first() != Some(&b'"') || !buf.ends_with(suffix.as_bytes()) || buf.len() < 1 + suffix.len() { sum.oracle_failures.push((idx.to_string(), format!("nt::write_term on the literal {l:?} wrote {:?}: not of the form \"...{suffix}", String::from_utf8_lossy(&buf)))); return None; }
            let inner = buf[1..buf.len() - suffix.len()].to_vec();
            sum.bump("quoted_string");
            Some(Case { idx, body: format!("quoted_ok {} {}", coq_bytes(txt.as_bytes()), coq_bytes(&inner)), text: format!("literal {l:?} => {:?}", String::from_utf8_lossy(&buf)), nontrivial: txt.chars().filter(|c| "\"\\\n\r".contains(*c)).count() >= 2, kind: "quoted" })
        }
        7 => {
            // (c) GRAPH ?g over a small dataset
            use sophia_sparql::{SparqlQuery, SparqlWrapper};
            let fast = r.chance(1, 2);
            let gnames: Vec<ST> = vec![iri("x:g1"), bnode("g2"), iri("x:g0"), iri("x:h"), bnode("a1")];
            let mut lpool = pool.clone(); lpool.extend([iri("x:g0"), iri("x:h"), bnode("a1")]);
            let ng = r.below(5);
            let chosen: Vec<ST> = { let mut v = gnames.clone(); for i in (1..v.len()).rev() { v.swap(i, r.below(i + 1)); } v.truncate(ng); v };
            let mut quads: Vec<([ST; 3], Option<ST>)> = vec![];
            let form_b = r.chance(1, 3); // GRAPH ?g { ?s ?p ?g }: the inner pattern binds the GRAPH variable itself
            let obj = |r: &mut Rng| if form_b && r.chance(1, 2) && !chosen.is_empty() { r.pick(&chosen).clone() } else { pool[r.below(10)].clone() };
            for g in &chosen { for _ in 0..r.range(1, 3) { let o = obj(&mut r); quads.push(([pool[r.below(4)].clone(), pool[4 + r.below(3)].clone(), o], Some(g.clone()))); } }
            for _ in 0..r.below(3) { let o = obj(&mut r); quads.push(([pool[r.below(4)].clone(), pool[4 + r.below(3)].clone(), o], None)); }
            for i in (1..quads.len()).rev() { quads.swap(i, r.below(i + 1)); }
            type Tbl = Vec<(u64, Vec<(u64, Vec<u64>)>)>;
            fn run<D: Dataset + MutableDataset>(mut d: D, quads: &[([ST; 3], Option<ST>)], lpool: &[ST], form_b: bool) -> Result<(Vec<u64>, Tbl, Vec<Vec<u64>>), String> {
                for (t, g) in quads { d.insert(&t[0], &t[1], &t[2], g.as_ref()).ok().unwrap(); }
                let names: std::collections::BTreeSet<sophia_term::ArcTerm> = d.graph_names().map(|t| t.ok().unwrap().into_term::<sophia_term::ArcTerm>()).collect();
                let names: Vec<u64> = names.iter().map(|t| id_of(lpool, t)).collect();
                let tbl: Tbl = names.iter().map(|g| (*g, d.quads_matching(Any, Any, Any, [Some(&lpool[*g as usize - 1])]).map(|q| { let q = q.ok().unwrap();
                    if form_b { (id_of(lpool, q.o()), vec![id_of(lpool, q.s()), id_of(lpool, q.p())]) } else { (0, vec![id_of(lpool, q.s()), id_of(lpool, q.p()), id_of(lpool, q.o())]) } }).collect())).collect();
                let w = SparqlWrapper(&d);
                let q = SparqlQuery::parse(if form_b { "SELECT ?g ?s ?p { GRAPH ?g { ?s ?p ?g } }" } else { "SELECT ?g ?s ?p ?o { GRAPH ?g { ?s ?p ?o } }" }).map_err(|e| format!("{e:?}"))?;
                let b = w.query(&q).map_err(|e| format!("{e:?}"))?.into_bindings();
                let mut out = vec![];
                for row in b { let row = row.map_err(|e| format!("{e:?}"))?; out.push(row.iter().map(|t| t.as_ref().map_or(0, |t| id_of(lpool, t.borrow_term()))).collect()); }
                Ok((names, tbl, out))
            }
            let res = if fast { run(FastDataset::new(), &quads, &lpool, form_b) } else { run(LightDataset::new(), &quads, &lpool, form_b) };
            let (names, tbl, out) = match res { Ok(x) => x, Err(e) => { sum.oracle_failures.push((idx.to_string(), format!("GRAPH ?g query failed on {quads:?}: {e}"))); return None; } };
            sum.bump(&format!("graph:{}names{}", names.len(), if form_b { ":inner-binds-g" } else { "" }));
            let c_tbl = coq_list(tbl.iter().map(|(g, rows)| format!("({g}, {})", coq_list(rows.iter().map(|(b, r)| format!("({b}, {})", c_nlist(r)))))));
            Some(Case { idx, body: format!("graph_ok {} {c_tbl} {}", c_nlist(&names), c_rows(&out)), text: format!("{} {} quads {:?} => {out:?}", if fast { "FastDataset" } else { "LightDataset" }, if form_b { "GRAPH ?g { ?s ?p ?g }" } else { "GRAPH ?g { ?s ?p ?o }" }, quads.iter().map(|(t, g)| (id_of(&lpool, &t[0]), id_of(&lpool, &t[1]), id_of(&lpool, &t[2]), gid_of(&lpool, g.as_ref()))).collect::<Vec<_>>()), nontrivial: names.len() >= 2, kind: "graph" })
        }
        8 => {
            if r.chance(2, 3) {
                // (d) a nested list through the JSON-LD serializer
                let items = gen_list(&mut r, 2, 5);
                let mut ts = vec![]; let mut ctr = 0;
                let head = list_to_triples(&items, &mut ctr, &mut ts);
                ts.push([iri("x:s"), iri("x:p"), head]);
                if r.chance(1, 2) { ts.reverse(); }
                let j = match jsonld_of(ts) { Ok(j) => j, Err(e) => { sum.oracle_failures.push((idx.to_string(), format!("JSON-LD serialisation of the list {items:?} failed: {e}"))); return None; } };
                let mut toks = vec![];
                let node = match &j { J::Arr(nodes) => nodes.iter().find(|n| matches!(n.get("@id"), Some(J::Str(s)) if s == "x:s")).cloned(), _ => None };
                match node.as_ref().and_then(|n| n.get("x:p")) { Some(J::Arr(vs)) if vs.len() == 1 => json_tokens(&vs[0], &mut toks), _ => toks.push(998) }
                sum.bump("jsonld:list");
                Some(Case { idx, body: format!("list_ok {} {}", coq_jl(&items), c_nlist(&toks)), text: format!("list {items:?} => tokens {toks:?}"), nontrivial: items.len() >= 2, kind: "list" })
            } else {
                // (d) mark_list_node: a flat list whose cell `bad` carries one more property
                let n = r.range(1, 7); let bad = r.below(n + 1);
                let items: Vec<LT> = (0..n).map(|i| LT::Lit(i as u64)).collect();
                let mut ts = vec![]; let mut ctr = 0;
                let head = list_to_triples(&items, &mut ctr, &mut ts);
                ts.push([iri("x:s"), iri("x:p"), head]);
                if bad < n { ts.push([bnode(&format!("c{bad}")), iri("x:extra"), lit(77)]); }
                let j = match jsonld_of(ts) { Ok(j) => j, Err(e) => { sum.oracle_failures.push((idx.to_string(), format!("JSON-LD serialisation of a {n}-cell list with an extra property on cell {bad} failed: {e}"))); return None; } };
                let present: Vec<String> = match &j { J::Arr(nodes) => nodes.iter().filter_map(|n| match n.get("@id") { Some(J::Str(s)) => Some(s.clone()), _ => None }).collect(), _ => vec![] };
                let marked: Vec<u64> = (0..n as u64).rev().filter(|i| !present.contains(&format!("_:c{i}"))).collect();
                sum.bump("jsonld:mark");
                Some(Case { idx, body: format!("mark_ok {n} {bad} {}", c_nlist(&marked)), text: format!("{n}-cell list, extra property on cell {bad} => cells not rendered as nodes {marked:?}"), nontrivial: n >= 2, kind: "mark" })
            }
        }
        9 => {
            // constituents / atoms of a nested term, borrowed and consuming
            let t = gen_term(&mut r, 3);
            let cs: Vec<String> = t.constituents().map(|x| coq_term(x)).collect();
            let at: Vec<String> = t.atoms().map(|x| coq_term(x)).collect();
            let cs2: Vec<String> = t.clone().to_constituents().map(|x| coq_term(x)).collect();
            let at2: Vec<String> = t.clone().to_atoms().map(|x| coq_term(x)).collect();
            let (cs3, at3): (Vec<String>, Vec<String>) = ((&t).to_constituents().map(|x| coq_term(x)).collect(), (&t).to_atoms().map(|x| coq_term(x)).collect());
            sum.bump("constituents");
            Some(Case { idx, body: format!("constituents_ok {0} {1} {2} && constituents_ok {0} {3} {4} && constituents_ok {0} {5} {6}", coq_term(&t), coq_list(cs.clone()), coq_list(at), coq_list(cs2), coq_list(at2), coq_list(cs3), coq_list(at3)), text: format!("term {t:?} => {} constituents", cs.len()), nontrivial: t.is_triple(), kind: "constituents" })
        }
        10 => {
            // nt::write_term on a term of any kind
            let t = gen_rich_term(&mut r, 3);
            let mut buf: Vec<u8> = vec![];
            sophia_turtle::serializer::nt::write_term(&mut buf, &t).unwrap();
            sum.bump("nt:term");
            Some(Case { idx, body: format!("nt_term_ok {} {}", coq_term(&t), coq_bytes(&buf)), text: format!("term {t:?} => {:?}", String::from_utf8_lossy(&buf)), nontrivial: t.is_triple() || t.lexical_form().map_or(false, |l| l.chars().any(|c| "\"\\\n\r".contains(c))), kind: "nt-term" })
        }
        _ => {
            // NtSerializer on a few statements
            let ts: Vec<[ST; 3]> = (0..r.below(6)).map(|_| [gen_rich_term(&mut r, 2), gen_rich_term(&mut r, 0), gen_rich_term(&mut r, 2)]).collect();
            let mut ser = sophia_turtle::serializer::nt::NtSerializer::new_stringifier();
            ser.serialize_triples(ts.clone().into_iter().into_source()).unwrap();
            let out = ser.as_utf8().to_vec();
            // oracle: one line per statement
            if out.iter().filter(|b| **b == b'\n').count() != ts.len() || (!out.is_empty() && !out.ends_with(b".\n")) { sum.oracle_failures.push((idx.to_string(), format!("NtSerializer on {ts:?} wrote {:?}: not one line per statement", String::from_utf8_lossy(&out)))); return None; }
            sum.bump(&format!("nt:doc:{}", ts.len()));
            Some(Case { idx, body: format!("nt_doc_ok {} {}", coq_list(ts.iter().map(|t| format!("({}, {}, {})", coq_term(&t[0]), coq_term(&t[1]), coq_term(&t[2])))), coq_bytes(&out)), text: format!("statements {ts:?} => {:?}", String::from_utf8_lossy(&out)), nontrivial: ts.len() >= 2, kind: "nt-doc" })
        }
    }
}
/// terms of every kind with strings that need escaping / are not ASCII
fn gen_rich_term(r: &mut Rng, depth: usize) -> ST {
    if depth > 0 && r.chance(1, 3) { return triple(gen_rich_term(r, depth - 1), iri(r.ps(&["x:p", "http://example.org/é"])), gen_rich_term(r, depth - 1)); }
    let lex = |r: &mut Rng| -> String { let alphabet = ['"', '\\', '\n', '\r', 'a', 'é', '\u{1F600}', ' ']; (0..r.below(6)).map(|_| *r.pick(&alphabet)).collect() };
    match r.below(7) {
        0 => iri(r.ps(&["x:a", "http://example.org/b", "rel", ""])),
        1 => bnode(r.ps(&["b1", "b_2"])),
        2 => { let l = lex(r); lit_dt(&l, &format!("{XSD}string")) }
        3 => { let l = lex(r); lit_dt(&l, r.ps(&["x:dt", "http://www.w3.org/2001/XMLSchema#integer", "http://www.w3.org/2001/XMLSchema#strin", "http://www.w3.org/2001/XMLSchema#stringx"])) }
        4 | 5 => { let l = lex(r); lit_lang(&l, r.ps(&["fr", "en-GB"])) }
        _ => var(r.ps(&["v", "w1"])),
    }
}

// ---------------------------------------------------------------------------------------------
// directed correspondence streams (case ids from EXTRA_CASE_BASE), next to the random one:
//  - a history of mutations on a Vec-backed store holding MANY COPIES of few statements, compared
//    operation by operation (value returned, content of the Vec in index order) with C16/VecStore.v;
//  - a chain of blank nodes through the pretty Turtle / TriG writer under a configuration
//    (indentation "", " ", tab, two spaces, nine characters; three prefix maps), the brackets,
//    labels and indentation widths of the document compared with C16/PrettyChain.v.
// ---------------------------------------------------------------------------------------------
const EXTRA_CASE_BASE: usize = 500_000;
/// caller-supplied matcher accepting the IRIs listed
struct SubjIn(Vec<String>);
impl TermMatcher for SubjIn {
    type Term = ST;
    fn matches<T2: Term + ?Sized>(&self, t: &T2) -> bool { t.iri().map_or(false, |i| self.0.iter().any(|n| n == i.as_str())) }
}
#[derive(Clone, Debug)]
enum VOp { Insert(u64), Remove(u64), RemoveQuad(u64), RemoveAll(Vec<u64>), RemoveMatching(Vec<u64>), RetainMatching(Vec<u64>), Contains(u64) }
fn v_stmt(id: u64, named: bool) -> Q { ([iri(&format!("x:s{id}")), iri(&format!("x:p{}", id % 2)), lit((id % 3) as usize)], if named && id % 2 == 0 { Some(iri("x:g")) } else { None }) }
fn v_id<T: Term>(s: T) -> u64 { s.iri().and_then(|i| i.as_str().strip_prefix("x:s").and_then(|x| x.parse().ok())).unwrap_or(999) }
/// (value returned, content) after each operation
fn v_run_ds<D: MutableDataset + Dataset>(mut d: D, ops: &[VOp], content: impl Fn(&D) -> Vec<u64>) -> Vec<(u64, Vec<u64>)> where D::MutationError: From<D::Error> {
    let subj = |ids: &[u64]| SubjIn(ids.iter().map(|i| format!("x:s{i}")).collect());
    ops.iter().map(|o| {
        let ret = match o {
            VOp::Insert(q) => { let q = v_stmt(*q, true); d.insert(&q.0[0], &q.0[1], &q.0[2], q.1.as_ref()).ok().unwrap() as u64 }
            VOp::Remove(q) => { let q = v_stmt(*q, true); d.remove(&q.0[0], &q.0[1], &q.0[2], q.1.as_ref()).ok().unwrap() as u64 }
            VOp::RemoveQuad(q) => d.remove_quad(v_stmt(*q, true)).ok().unwrap() as u64,
            VOp::RemoveAll(src) => d.remove_all(src.iter().map(|q| v_stmt(*q, true)).collect::<Vec<_>>().into_iter().into_source()).ok().unwrap() as u64,
            VOp::RemoveMatching(acc) => d.remove_matching(subj(acc), Any, Any, Any).ok().unwrap() as u64,
            VOp::RetainMatching(acc) => { d.retain_matching(subj(acc), Any, Any, Any).ok().unwrap(); 0 }
            VOp::Contains(q) => { let q = v_stmt(*q, true); d.contains(&q.0[0], &q.0[1], &q.0[2], q.1.as_ref()).ok().unwrap() as u64 }
        };
        (ret, content(&d))
    }).collect()
}
fn v_run_g<G: MutableGraph + Graph>(mut d: G, ops: &[VOp], content: impl Fn(&G) -> Vec<u64>) -> Vec<(u64, Vec<u64>)> where G::MutationError: From<G::Error> {
    let subj = |ids: &[u64]| SubjIn(ids.iter().map(|i| format!("x:s{i}")).collect());
    ops.iter().map(|o| {
        let ret = match o {
            VOp::Insert(q) => { let q = v_stmt(*q, false).0; d.insert(&q[0], &q[1], &q[2]).ok().unwrap() as u64 }
            VOp::Remove(q) => { let q = v_stmt(*q, false).0; d.remove(&q[0], &q[1], &q[2]).ok().unwrap() as u64 }
            VOp::RemoveQuad(q) => d.remove_triple(v_stmt(*q, false).0).ok().unwrap() as u64,
            VOp::RemoveAll(src) => d.remove_all(src.iter().map(|q| v_stmt(*q, false).0).collect::<Vec<_>>().into_iter().into_source()).ok().unwrap() as u64,
            VOp::RemoveMatching(acc) => d.remove_matching(subj(acc), Any, Any).ok().unwrap() as u64,
            VOp::RetainMatching(acc) => { d.retain_matching(subj(acc), Any, Any).ok().unwrap(); 0 }
            VOp::Contains(q) => { let q = v_stmt(*q, false).0; d.contains(&q[0], &q[1], &q[2]).ok().unwrap() as u64 }
        };
        (ret, content(&d))
    }).collect()
}
fn coq_vop(o: &VOp) -> String {
    match o { VOp::Insert(q) => format!("VInsert {q}"), VOp::Remove(q) => format!("VRemove {q}"), VOp::RemoveQuad(q) => format!("VRemoveQuad {q}"), VOp::RemoveAll(s) => format!("VRemoveAll {}", c_nlist(s)),
        VOp::RemoveMatching(a) => format!("VRemoveMatching {}", c_nlist(a)), VOp::RetainMatching(a) => format!("VRetainMatching {}", c_nlist(a)), VOp::Contains(q) => format!("VContains {q}") }
}
/// tokens of a chain document (see C16/PrettyChain.v): 0 "[", 1 "]", 2 "[]", 3 end of statement,
/// 4 + 2j label of bj, 5 + 2k line feed followed by k bytes of indentation
fn chain_tokens(doc: &str) -> Vec<u64> {
    let body: String = doc.split_inclusive('\n').filter(|l| !l.starts_with("PREFIX") && !l.starts_with("@prefix")).collect();
    let b = body.as_bytes(); let mut i = 0; let mut out = vec![];
    while i < b.len() {
        match b[i] {
            b'<' => { while i < b.len() && b[i] != b'>' { i += 1; } i += 1; }
            b'[' => { if b.get(i + 1) == Some(&b']') { out.push(2); i += 2; } else { out.push(0); i += 1; } }
            b']' => { out.push(1); i += 1; }
            b'_' if b.get(i + 1) == Some(&b':') => { let st = i + 3; let mut e = st; while e < b.len() && b[e].is_ascii_digit() { e += 1; } out.push(4 + 2 * std::str::from_utf8(&b[st..e]).ok().and_then(|x| x.parse::<u64>().ok()).unwrap_or(499_999)); i = e; }
            b'.' if b.get(i + 1) == Some(&b'\n') => { out.push(3); i += 2; }
            b'\n' => { let mut e = i + 1; while e < b.len() && (b[e] == b' ' || b[e] == b'\t') { e += 1; } out.push(5 + 2 * (e - i - 1) as u64); i = e; }
            _ => i += 1,
        }
    }
    out
}
fn gen_extra_case(k: usize, base: &Rng, sum: &mut Summary) -> Option<Case> {
    let idx = EXTRA_CASE_BASE + k;
    let mut r = base.fork(idx as u64);
    if k % 2 == 0 {
        use sophia_api::quad::Gspo;
        let flavour = r.below(3) as u64;
        // few statements, many copies: the pool is small and the first insertions are repeated
        let pool = 2 + r.below(3) as u64;
        let pick = |r: &mut Rng| 1 + r.below(pool as usize) as u64;
        let subset = |r: &mut Rng| -> Vec<u64> { (1..=pool + 1).filter(|_| r.chance(1, 2)).collect() };
        let mut ops: Vec<VOp> = vec![];
        let fav = pick(&mut r);
        for _ in 0..r.range(2, 9) { ops.push(VOp::Insert(if r.chance(2, 3) { fav } else { pick(&mut r) })); }
        for _ in 0..r.range(1, 6) {
            let q = if r.chance(1, 2) { fav } else { pick(&mut r) };
            ops.push(match r.below(9) { 0 => VOp::Insert(q), 1 | 2 => VOp::Remove(q), 3 => VOp::RemoveQuad(q), 4 => VOp::RemoveAll((0..r.below(4)).map(|_| if r.chance(1, 2) { fav } else { 1 + r.below(pool as usize + 1) as u64 }).collect()),
                5 | 6 => VOp::RemoveMatching(subset(&mut r)), 7 => VOp::RetainMatching(subset(&mut r)), _ => VOp::Contains(q) });
            if r.chance(1, 3) { for _ in 0..r.range(1, 4) { ops.push(VOp::Insert(fav)); } }
        }
        let obs = match flavour {
            0 => v_run_ds(Vec::<Gspo<ST>>::new(), &ops, |v| v.iter().map(|q| v_id(&q.1[0])).collect()),
            1 => v_run_ds(Vec::<Q>::new(), &ops, |v| v.iter().map(|q| v_id(&q.0[0])).collect()),
            _ => v_run_g(Vec::<[ST; 3]>::new(), &ops, |v| v.iter().map(|t| v_id(&t[0])).collect()),
        };
        let name = ["Vec<Gspo<SimpleTerm>>", "Vec<Spog<SimpleTerm>>", "Vec<[SimpleTerm; 3]>"][flavour as usize];
        // oracle (the contract of the operations, on the numbers of copies)
        let count = |v: &Vec<u64>, q: u64| v.iter().filter(|x| **x == q).count();
        let mut prev: Vec<u64> = vec![];
        for (o, (ret, now)) in ops.iter().zip(obs.iter()) {
            let others_same = |q: u64| (1..=pool + 1).filter(|x| *x != q).all(|x| count(&prev, x) == count(now, x));
            let bad = match o {
                VOp::Insert(q) => count(now, *q) != count(&prev, *q) + 1 || !others_same(*q) || *ret != 1,
                VOp::Remove(q) | VOp::RemoveQuad(q) => !others_same(*q) || (count(&prev, *q) > 0 && (count(now, *q) >= count(&prev, *q) || *ret != 1)) || (count(&prev, *q) == 0 && now != &prev),
                VOp::RemoveAll(src) => (1..=pool + 1).any(|x| if src.contains(&x) { count(&prev, x) > 0 && count(now, x) >= count(&prev, x) } else { count(now, x) != count(&prev, x) }),
                VOp::RemoveMatching(acc) => (1..=pool + 1).any(|x| if acc.contains(&x) { count(now, x) != 0 } else { count(now, x) != count(&prev, x) }),
                VOp::RetainMatching(acc) => (1..=pool + 1).any(|x| if acc.contains(&x) { count(now, x) != count(&prev, x) } else { count(now, x) != 0 }),
                VOp::Contains(q) => now != &prev || (*ret == 1) != (count(&prev, *q) > 0),
            };
            if bad { sum.oracle_failures.push((idx.to_string(), format!("{name}: after the operations {:?} the store held the statements {prev:?} (by number); the operation {o:?} returned {ret} and left {now:?}", &ops[..ops.len().min(20)]))); return None; }
            prev = now.clone();
        }
        let most = obs.iter().map(|(_, v)| (1..=pool).map(|q| count(v, q)).max().unwrap_or(0)).max().unwrap_or(0);
        sum.bump(&format!("vec-history:{name}"));
        let c_obs = coq_list(obs.iter().map(|(r, v)| format!("({r}, {})", c_nlist(v))));
        Some(Case { idx, body: format!("vec_ok {flavour} {} {c_obs}", coq_list(ops.iter().map(|o| format!("({})", coq_vop(o))))), text: format!("{name} operations {ops:?} => {obs:?}"), nontrivial: most >= 3 && ops.iter().any(|o| !matches!(o, VOp::Insert(_) | VOp::Contains(_))), kind: "vec-history" })
    } else {
        let units = ["", " ", "\t", "  ", "  \t   \t  "];
        let unit = units[r.below(units.len())];
        let typed = r.chance(1, 3);
        let n = match r.below(6) { 0 | 1 => r.range(1, 13), 2 | 3 => r.range(60, 71), 4 => r.range(120, 135), _ => r.range(136, 260) };
        let pm = r.below(3); let trig = r.chance(1, 3);
        let p = if typed { iri(RDF_TYPE) } else { iri("x:p") };
        let node = |i: usize| if i == 0 { iri("x:s") } else { bnode(&format!("b{i}")) };
        let mut ts: Vec<[ST; 3]> = (0..n).map(|i| [node(i), p.clone(), node(i + 1)]).collect();
        for i in (1..ts.len()).rev() { ts.swap(i, r.below(i + 1)); }
        let cfg = sophia_turtle::serializer::turtle::TurtleConfig::new().with_pretty(true).with_indentation(unit);
        let cfg = match pm { 0 => cfg, 1 => cfg.with_own_prefix_map(vec![]), _ => cfg.with_own_prefix_map(rich_prefix_map()) };
        let doc = if trig { let mut ser = sophia_turtle::serializer::trig::TrigSerializer::new_stringifier_with_config(cfg); ser.serialize_quads(ts.iter().cloned().map(|t| (t, None::<ST>)).into_source()).unwrap(); ser.as_str().to_string() }
            else { let mut ser = sophia_turtle::serializer::turtle::TurtleSerializer::new_stringifier_with_config(cfg); ser.serialize_triples(ts.iter().cloned().into_source()).unwrap(); ser.as_str().to_string() };
        let toks = chain_tokens(&doc);
        let what = format!("pretty {} serializer, indentation {unit:?}, prefix map #{pm}, chain x:s -> _:b1 -> ... -> _:b{n} linked by {}", if trig { "TriG" } else { "Turtle" }, if typed { "rdf:type" } else { "<x:p>" });
        // oracle: the document nests square brackets no deeper than the writer's constant, whatever n and the
        // configuration (one level of brackets = one turn of the writer's recursion), and reads back as the graph written
        let (mut cur, mut deepest) = (0usize, 0usize);
        for t in &toks { if *t == 0 { cur += 1; deepest = deepest.max(cur); } else if *t == 1 { cur = cur.saturating_sub(1); } }
        if deepest > 64 { sum.oracle_failures.push((idx.to_string(), format!("{what}: the document nests square brackets {deepest} deep (the depth of the writer's recursion follows the NUMBER of statements; bound 64)"))); return None; }
        match sophia_turtle::parser::turtle::parse_str(&doc).collect_triples::<Vec<[ST; 3]>>() {
            Ok(back) if sophia_isomorphism::isomorphic_graphs(&ts, &back).unwrap_or(false) => {}
            other => { sum.oracle_failures.push((idx.to_string(), format!("{what}: the document does not read back as the graph written ({}): {}", match &other { Ok(b) => format!("{} triples", b.len()), Err(e) => format!("{e:?}") }, doc.chars().take(600).collect::<String>()))); return None; }
        }
        sum.bump(&format!("pretty-chain:unit{}:{}", unit.len(), if n > 64 { "cut" } else { "whole" }));
        Some(Case { idx, body: format!("chain_ok {} {} {n} {}", unit.len(), coq_bool(typed), c_nlist(&toks)), text: format!("{what} => {} tokens, brackets {deepest} deep", toks.len()), nontrivial: n >= 2, kind: "pretty-chain" })
    }
}

// ---------------------------------------------------------------------------------------------
// the stack oracle
// ---------------------------------------------------------------------------------------------
const STACK: usize = 2 << 20;
const SPREAD_BOUND: usize = 64 << 10;
const STACK_CASE_BASE: usize = 1_000_000;
/// the pretty serializer nests blank nodes in [ ] up to its constant MAX_DEPTH = 64 levels, whatever the length of the
/// chain: for the operations that make it do so through a probing writer, the absolute bound on the spread of
/// the callback addresses is 64 levels' worth, and the spread must not grow between the two sizes
fn spread_bound(op: &str) -> usize { if matches!(split_op(op).0, "ttl-cycle" | "ttl-lists-bad") { 512 << 10 } else { SPREAD_BOUND } }
fn is_pretty(op: &str) -> bool { matches!(split_op(op).0, "ttl-list" | "ttl-pretty-stmts" | "ttl-chain" | "ttl-type-chain" | "trig-graphs" | "ttl-wide" | "ttl-annot" | "ttl-kinds" | "ttl-cycle" | "ttl-lists-bad" | "trig-pretty-big") }
/// sizes for one operation: powers of ten from 10^4 to `big`; the pretty Turtle serializer takes
/// quadratic time, so it gets what can be run at all
fn sizes_for(op: &str, big: usize) -> Vec<usize> {
    // an operation under a non-default configuration: the smallest size of the operation and a multiple of it (the
    // growth of the stack between the two is what is judged); the first two sizes of the operation for the
    // configuration of the legal extremes in the thorough tier
    if let (base, packed @ 1..) = split_op(op) {
        let s = sizes_for(base, big);
        if big >= 1_000_000 && DIMS.iter().enumerate().all(|(d, dim)| cfg_value(packed, d) == 0 || cfg_value(packed, d) == dim.extreme) { return s.into_iter().take(2).collect(); }
        // (the quadratic pretty writer: 200 and 400 elements, both past the 64 levels at which it stops nesting)
        let lo = if is_pretty(base) && s[0] > 200 { 200 } else { s[0] };
        let hi = (2 * lo).min(s[s.len() - 1]);
        return if hi > lo { vec![lo, hi] } else { vec![lo] };
    }
    // (quick tier: the histories scan a Vec store about a hundred times)
    if op.starts_with("store-") { return if big >= 1_000_000 { vec![10_000, 100_000, 1_000_000] } else { vec![5_000, 20_000] }; }
    if let Some(v) = loop_sizes(op, big) { return v; }
    // quadratic and slow: build_subject_types scans the whole dataset once per blank node subject
    // (both sizes past the point where the chains reach the serializer's 64 levels of [ ])
    if op == "ttl-lists-bad" { return if big >= 1_000_000 { vec![300, 1000] } else { vec![150, 300] }; }
    if matches!(op, "ttl-annot" | "ttl-cycle" | "trig-pretty-big" | "trig-graphs") { return if big >= 1_000_000 { vec![300, 1000] } else { vec![150, 400] }; }
    if is_pretty(op) { return if big >= 1_000_000 { vec![300, 1000, if cfg!(debug_assertions) { 3000 } else { 10_000 }] } else { vec![300, 1000] }; }
    if op.starts_with("it-") { return vec![big]; }
    let mut v = vec![]; let mut n = 10_000; while n <= big { v.push(n); n *= 10; } if v.is_empty() { v.push(big); } v
}
fn check_value(op: &str, n: usize, v: u64) -> bool { match expected(op, n) { Some(e) => v == e, None => v > 2 * n as u64 } }
/// bytes of stack per element, measured in-process on a huge stack at two small sizes
fn slope_of(op: &str) -> (f64, f64) {
    let (n1, n2) = if is_pretty(op) { (100, 200) } else { (1000, 3000) };
    let (o1, o2, o3) = (op.to_string(), op.to_string(), op.to_string());
    let _ = on_big_thread(move || run_op(&o3, 10));
    let (Some((_, s1, _, u1)), Some((_, s2, _, u2))) = (on_big_thread(move || run_op(&o1, n1)), on_big_thread(move || run_op(&o2, n2))) else { return (f64::NAN, f64::NAN) };
    ((s2 as f64 - s1 as f64) / (n2 - n1) as f64, (u2 as f64 - u1 as f64) / (n2 - n1) as f64)
}

const VARIANT_CASE_BASE: usize = 10_000_000;
/// the configuration dimensions that `op` consults (measured: the operation is run once, small, in this process)
fn op_dims(op: &str) -> u64 {
    if op.starts_with("it-") || op.starts_with("store-") { return 0; } // (stores and their iterators: nothing to configure)
    CFG_USED.store(0, SeqCst); QUIET.store(true, SeqCst);
    let o = op.to_string();
    let _ = on_big_thread(move || run_op(&o, 12));
    QUIET.store(false, SeqCst);
    CFG_USED.load(SeqCst)
}
/// one operation under one configuration
#[derive(Clone)]
struct Inst { oi: usize, name: String, desc: String, id_base: usize }
/// the default configuration of every operation, then the configured variants: the configuration of the legal extremes
/// and one configuration drawn from the seed (quick tier) / every configuration (thorough tier)
fn instances(seed: u64, big: usize, sum: &mut Summary) -> Vec<Inst> {
    let mut v: Vec<Inst> = ops().iter().enumerate().map(|(oi, (op, desc))| Inst { oi, name: op.to_string(), desc: desc.to_string(), id_base: STACK_CASE_BASE + oi * 10 }).collect();
    let rng = Rng::new(seed ^ 0xc0f1_6000);
    let mut by_dims: std::collections::BTreeMap<String, usize> = Default::default();
    for (oi, (op, desc)) in ops().iter().enumerate() {
        let dims = op_dims(op);
        if dims == 0 { continue; }
        *by_dims.entry(DIMS.iter().enumerate().filter(|(d, _)| dims & (1 << d) != 0).map(|(_, dim)| dim.letter).collect()).or_default() += 1;
        let all = all_configs(dims);
        let chosen: Vec<usize> = if big >= 1_000_000 { (0..all.len()).collect() } else {
            let ext = all.iter().position(|c| *c == extreme_config(dims));
            let mut c: Vec<usize> = ext.into_iter().collect();
            let rest: Vec<usize> = (0..all.len()).filter(|k| Some(*k) != ext).collect();
            if !rest.is_empty() { let mut r = rng.fork(oi as u64); c.push(rest[r.below(rest.len())]); }
            c
        };
        for vi in chosen { v.push(Inst { oi, name: format!("{op}@{}", cfg_suffix(all[vi])), desc: format!("{desc}; CONFIGURATION: {}", cfg_describe(all[vi])), id_base: VARIANT_CASE_BASE + (oi * 256 + vi) * 10 }); }
    }
    CFG.store(0, SeqCst);
    for (k, n) in by_dims { sum.bump_by(&format!("configurable:{k}"), n as u64); }
    // the helpers must have seen the configurable components of these families
    for (op, letter) in [("ttl-chain", 'i'), ("ttl-kinds", 'p'), ("jsonld-list", 's'), ("jsonld-list", 'm'), ("xml-ser", 'x'), ("nt-escape", 'a'), ("sparql-graph", 'q')] {
        assert!(op_dims(op) & (1 << DIMS.iter().position(|d| d.letter == letter).unwrap()) != 0, "operation {op} does not consult dimension {letter}");
    }
    CFG.store(0, SeqCst);
    v
}

fn main() {
    let a = parse_args();
    let flag = |name: &str| a.rest.iter().position(|s| s == name);
    if let Some(i) = flag("--child") { child_main(&a.rest[i + 1], a.rest[i + 2].parse().unwrap(), a.rest[i + 3].parse().unwrap()); return; }
    if let Some(i) = flag("--measure") {
        // exploration: c16 --measure <op> <n>...
        let op = a.rest[i + 1].clone();
        for n in a.rest[i + 2..].iter().filter_map(|s| s.parse::<usize>().ok()) {
            let op2 = op.clone();
            let Some((v, spread, calls, used)) = on_big_thread(move || run_op(&op2, n)) else { println!("{op} n={n}: panicked"); continue };
            println!("{op} n={n} [{PROFILE}] result={v} callback-spread={spread}B over {calls} calls, stack high-water={used}B");
        }
        return;
    }
    if flag("--list-variants").is_some() {
        // exploration: every operation under every configuration of the dimensions it consults
        for (op, _) in ops() { for c in all_configs(op_dims(op)) { println!("{op}@{}", cfg_suffix(c)); } }
        return;
    }
    if let Some(i) = flag("--crash-table") {
        // exploration: every operation x sizes on a 2 MiB thread in a subprocess
        let sizes: Vec<usize> = a.rest[i + 1..].iter().filter_map(|s| s.parse().ok()).collect();
        let only: Vec<&str> = a.rest[i + 1..].iter().filter(|s| s.parse::<usize>().is_err()).map(|s| s.as_str()).collect();
        for (op, _) in ops() { if !only.is_empty() && !only.iter().any(|o| op.starts_with(o)) { continue; } for &n in &sizes {
            let (o, dt) = run_child(op, n, STACK, 1200);
            println!("{op:18} n={n:<8} [{PROFILE}] {o:?} ({dt:.1}s)");
        } }
        return;
    }
    let big: usize = flag("--big").map_or(100_000, |i| a.rest[i + 1].parse().unwrap());
    let jobs: usize = flag("--jobs").map_or(16, |i| a.rest[i + 1].parse().unwrap());
    let mut sum = Summary::default();
    sum.rule = "two kinds of evaluations. (1) correspondence case = a small generated input through the real code, compared inside Coq with C16/Model.v: \
a pattern query (0-13 quads over a 12-term pool, light/fast graph/dataset, every arm of graph.rs/dataset.rs that uses one of the five matching iterators, caller-supplied matchers that log their calls), \
a literal through nt::write_term (escapable bytes over-represented), GRAPH ?g over 0-4 named graphs, a nested RDF list or a list with a damaged cell through the JSON-LD serializer, constituents/atoms (borrowed, consuming, through &T) of a nested term, nt::write_term on a term of any kind, NtSerializer on 0-5 statements; \
non-trivial = at least two rows of which one is skipped / two escaped bytes / two graph names / two cells / a quoted triple / a quoted triple or an escaped byte / two statements. \
directed streams (ids from 500000): a history of 3-25 insert / remove / remove_quad / remove_all / remove_matching / retain_matching / contains on a Vec<Gspo>, Vec<Spog> or Vec<[T; 3]> store over 2-4 statements held in many copies (non-trivial = some statement held at least 3 times and a mutation other than insert), compared step by step (value returned, Vec in index order) with C16/VecStore.v; a chain of 1-260 blank nodes through the pretty Turtle / TriG writer under one of 5 indentations (the empty one included) and 3 prefix maps, brackets / labels / indentation widths compared with C16/PrettyChain.v, oracle: brackets at most 64 deep and the document reads back (non-trivial = at least 2 nodes). \
(2) stack case (ids from 1000000; from 10000000 for an operation under a non-default configuration) = one operation at one size on a thread with a 2 MiB stack in a subprocess of this binary (profile of the binary), with callback address spread and mincore high-water mark; all are non-trivial".into();

    // one stack case, verbosely
    if let Some(id) = a.only.filter(|i| *i >= STACK_CASE_BASE) {
        let (opname, desc, si): (String, String, usize) = if id >= VARIANT_CASE_BASE {
            let k = id - VARIANT_CASE_BASE; let (oi, vi) = (k / 10 / 256, k / 10 % 256); let (op, desc) = ops()[oi];
            let c = all_configs(op_dims(op))[vi]; CFG.store(0, SeqCst);
            (format!("{op}@{}", cfg_suffix(c)), format!("{desc}; CONFIGURATION: {}", cfg_describe(c)), k % 10)
        } else { let k = id - STACK_CASE_BASE; (ops()[k / 10].0.to_string(), ops()[k / 10].1.to_string(), k % 10) };
        let (op, desc) = (opname.as_str(), desc.as_str());
        let sizes = sizes_for(op, big);
        let n = *sizes.get(si).unwrap_or(&sizes[sizes.len() - 1]);
        let (o, dt) = run_child(op, n, STACK, 3600);
        println!("STACK CASE {id}: {op} ({desc}) n={n} on a {STACK}-byte stack [{PROFILE}] => {o:?} in {dt:.1}s");
        let (cs, ws) = slope_of(op);
        println!("  measured on a 768 MiB stack: {cs:.1} bytes/element between callback addresses, {ws:.1} bytes/element of stack high-water mark");
        return;
    }

    // ---- (1) correspondence
    let base = Rng::new(a.seed);
    let mut cases = vec![]; let mut seen = std::collections::HashSet::new();
    let range: Vec<usize> = match a.only { Some(i) if i < EXTRA_CASE_BASE => vec![i], Some(_) => vec![], None => (0..a.n).collect() };
    for idx in range {
        let Some(c) = gen_case(idx, &base, &mut sum) else { continue };
        if a.only.is_some() { println!("CASE {idx} [{}]: {}\n  Coq: {}", c.kind, c.text, c.body); }
        if seen.insert(c.body.clone()) && c.nontrivial { sum.distinct_nontrivial += 1; }
        if sum.samples.len() < 6 && c.nontrivial && sum.samples.iter().filter(|s: &&String| s.contains(&format!("[{}]", c.kind))).count() == 0 { sum.samples.push(format!("case {idx} [{}]: {}", c.kind, c.text.chars().take(400).collect::<String>())); }
        sum.evaluations += 1;
        cases.push((c.idx, c.body));
    }
    // directed streams: Vec store histories, blank node chains under a configuration
    let extra: Vec<usize> = match a.only { Some(i) if i >= EXTRA_CASE_BASE && i < STACK_CASE_BASE => vec![i - EXTRA_CASE_BASE], Some(_) => vec![], None => (0..(a.n / 6).max(8)).collect() };
    for k in extra {
        let Some(c) = gen_extra_case(k, &base, &mut sum) else { continue };
        if a.only.is_some() { println!("CASE {} [{}]: {}\n  Coq: {}", c.idx, c.kind, c.text, c.body); }
        if seen.insert(c.body.clone()) && c.nontrivial { sum.distinct_nontrivial += 1; }
        if sum.samples.len() < 8 && c.nontrivial && sum.samples.iter().filter(|s: &&String| s.contains(&format!("[{}]", c.kind))).count() == 0 { sum.samples.push(format!("case {} [{}]: {}", c.idx, c.kind, c.text.chars().take(400).collect::<String>())); }
        sum.evaluations += 1;
        cases.push((c.idx, c.body));
    }
    if a.only.is_some() { return; }

    // ---- (2) the stack oracle: all (operation, size) pairs, `jobs` children at a time
    let insts = instances(a.seed, big, &mut sum);
    let mut work: Vec<(usize, usize, String, usize)> = vec![]; // (case id, instance index, operation[@configuration], n)
    for (ii, inst) in insts.iter().enumerate() { for (si, n) in sizes_for(&inst.name, big).into_iter().enumerate() { work.push((inst.id_base + si, ii, inst.name.clone(), n)); } }
    let queue = std::sync::Arc::new(std::sync::Mutex::new(work.clone().into_iter().rev().collect::<Vec<_>>()));
    let results = std::sync::Arc::new(std::sync::Mutex::new(Vec::<(usize, usize, usize, ChildOutcome, f64)>::new()));
    let t_stack = std::time::Instant::now();
    let handles: Vec<_> = (0..jobs).map(|_| { let (q, res) = (queue.clone(), results.clone()); std::thread::spawn(move || loop {
        let job = q.lock().unwrap().pop(); let Some((id, oi, op, n)) = job else { break };
        let (o, dt) = run_child(&op, n, STACK, 3000);
        res.lock().unwrap().push((id, oi, n, o, dt));
    }) }).collect();
    for h in handles { h.join().unwrap(); }
    let mut results = results.lock().unwrap().clone(); results.sort_by_key(|r| r.0);
    let mut table = vec![];
    for (oi, inst) in insts.iter().enumerate() {
        let (op, desc) = (inst.name.as_str(), inst.desc.as_str());
        let mine: Vec<_> = results.iter().filter(|r| r.1 == oi).collect();
        let mut oks: Vec<(usize, usize, u64, usize)> = vec![]; // n, spread, calls, used
        let mut crashed = false;
        for (id, _, n, o, dt) in mine.iter().map(|r| (r.0, r.1, r.2, &r.3, r.4)) {
            sum.evaluations += 1; sum.distinct_nontrivial += 1; sum.bump(&format!("stack:{}", if !in_oracle(op) { "exploration" } else if op.contains('@') { "oracle:configured" } else { "oracle" }));
            let (status, detail) = match o {
                ChildOutcome::Ok { value, spread, calls, used } => {
                    if check_value(op, n, *value) { oks.push((n, *spread, *calls, *used)); ("ok".to_string(), String::new()) }
                    else { ("wrong-result".to_string(), format!("returned the functional summary {value}, expected {:?}", expected(op, n))) }
                }
                ChildOutcome::Crashed(why) => { crashed = true; ("crashed".to_string(), why.clone()) }
                ChildOutcome::TimedOut => ("timeout".to_string(), "did not finish within 3000 s".to_string()),
                ChildOutcome::Wrong(s) => ("garbled".to_string(), format!("unexpected output {s:?}")),
            };
            table.push(format!("{{\"case\": {id}, \"op\": {}, \"n\": {n}, \"profile\": {}, \"status\": {}, \"seconds\": {dt:.1}{}}}", json_str(op), json_str(PROFILE), json_str(&status),
                match o { ChildOutcome::Ok { spread, calls, used, .. } => format!(", \"callback_spread\": {spread}, \"callback_calls\": {calls}, \"stack_high_water\": {used}"), _ => String::new() }));
            if status != "ok" {
                let slope = if status == "crashed" { let (cs, ws) = slope_of(op); format!("; measured on a 768 MiB stack: {ws:.0} bytes of stack per element ({cs:.0} between the addresses seen by the callbacks)") } else { String::new() };
                let msg = format!("operation {op} [{desc}] at n = {n} elements on a thread with a {STACK}-byte stack, {PROFILE} profile: {status}: {detail}{slope}");
                if in_oracle(op) { sum.oracle_failures.push((id.to_string(), msg)); } else { sum.extra.push((format!("exploration_{op}_{n}"), json_str(&msg))); }
            }
        }
        // (i) spread of the callback addresses, growth of the high-water mark
        if !crashed && oks.len() >= 1 {
            let (n_hi, spread, calls, used_hi) = oks[oks.len() - 1]; let (n_lo, spread_lo, _, used_lo) = oks[0];
            let id = inst.id_base + oks.len() - 1;
            let per = |hi: usize, lo: usize| if n_hi > n_lo { (hi as f64 - lo as f64) / (n_hi - n_lo) as f64 } else { 0.0 };
            table.push(format!("{{\"op\": {}, \"profile\": {}, \"slope_callback_bytes_per_element\": {:.4}, \"slope_high_water_bytes_per_element\": {:.4}, \"from_n\": {n_lo}, \"to_n\": {n_hi}}}", json_str(op), json_str(PROFILE), per(spread, spread_lo), per(used_hi, used_lo)));
            let mut bad = vec![];
            let bound = spread_bound(op);
            if calls > 0 && spread > bound { bad.push(format!("the addresses of a local variable of the caller-supplied callback spread over {spread} bytes in {calls} calls (bound {bound}; {:.1} bytes/element)", per(spread, spread_lo))); }
            if calls > 0 && bound > SPREAD_BOUND && n_hi > n_lo && spread > spread_lo + SPREAD_BOUND { bad.push(format!("the spread of the addresses seen by the callback grew from {spread_lo} bytes at n = {n_lo} to {spread} bytes at n = {n_hi} ({:.1} bytes/element)", per(spread, spread_lo))); }
            if used_hi != usize::MAX && used_lo != usize::MAX && used_hi > used_lo + SPREAD_BOUND { bad.push(format!("the high-water mark of the stack grew from {used_lo} bytes at n = {n_lo} to {used_hi} bytes at n = {n_hi} ({:.1} bytes/element)", per(used_hi, used_lo))); }
            if !bad.is_empty() {
                let msg = format!("operation {op} [{desc}] at n = {n_hi} elements, {PROFILE} profile: stack use grows with the number of elements: {}", bad.join("; "));
                if in_oracle(op) { sum.oracle_failures.push((id.to_string(), msg)); } else { sum.extra.push((format!("exploration_{op}_slope"), json_str(&msg))); }
            }
        }
    }
    // ---- exploration, NOT part of the oracle: recursion proportional to the size of the QUERY (triple patterns of a
    // basic graph pattern: bgp::bgp_rec; ORDER BY keys that tie: exec::cmp_bindings_with; nesting of UNION), over 3 triples
    for (op, sizes) in [("x-sparql-patterns", [200usize, 500, 1000]), ("x-sparql-keys", [1000, 3000, 10000]), ("x-sparql-unions", [1000, 3000, 10000])] {
        for n in sizes {
            let (o, dt) = run_child(op, n, STACK, 600);
            let outcome = match &o { ChildOutcome::Ok { value, used, .. } if *value == n as u64 => format!("ok-{}KiB", used / 1024), ChildOutcome::Ok { .. } => "wrong-result".to_string(), ChildOutcome::Crashed(why) if why.contains("overflow") || why.contains("signal") => "overflow".to_string(), ChildOutcome::Crashed(_) => "crashed".to_string(), ChildOutcome::TimedOut => "timeout".to_string(), ChildOutcome::Wrong(_) => "garbled".to_string() };
            sum.bump(&format!("explore:{PROFILE}:{op}:{n}:{outcome}"));
            table.push(format!("{{\"exploration\": {}, \"n\": {n}, \"profile\": {}, \"outcome\": {}, \"seconds\": {dt:.1}}}", json_str(op), json_str(PROFILE), json_str(&outcome)));
        }
    }
    { let (o, dt) = run_child("x-nt-ascii", 10, STACK, 600);
      let outcome = match &o { ChildOutcome::Ok { .. } => "ok".to_string(), ChildOutcome::Crashed(why) if why.contains("panicked") => "panics-todo".to_string(), ChildOutcome::Crashed(_) => "crashed".to_string(), _ => "other".to_string() };
      sum.bump(&format!("explore:{PROFILE}:x-nt-ascii:{outcome}"));
      table.push(format!("{{\"exploration\": \"x-nt-ascii (NtConfig::set_ascii(true))\", \"n\": 10, \"profile\": {}, \"outcome\": {}, \"seconds\": {dt:.1}}}", json_str(PROFILE), json_str(&outcome))); }
    sum.extra.push(("stack_table".into(), format!("[{}]", table.join(", "))));
    sum.extra.push(("stack_seconds".into(), format!("{:.1}", t_stack.elapsed().as_secs_f64())));
    sum.extra.push(("profile".into(), json_str(PROFILE)));
    sum.shards = write_shards(&a.out, "From Sophia.C16 Require Import Model VecStore PrettyChain.\n", &cases, a.shards);
    sum.extra.push(("coq_cases".into(), cases.len().to_string()));
    std::fs::write(format!("{}/summary.json", a.out), sum.to_json()).unwrap();
    println!("c16 [{PROFILE}]: {} evaluations ({} correspondence cases, {} stack runs in {:.0}s), {} distinct non-trivial, {} oracle failures", sum.evaluations, cases.len(), results.len(), t_stack.elapsed().as_secs_f64(), sum.distinct_nontrivial, sum.oracle_failures.len());
    for (c, d) in sum.oracle_failures.iter().take(40) { println!("  ORACLE {c}: {d}"); }
    let _ = std::io::stdout().flush();
}
