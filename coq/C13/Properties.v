(* C13/Properties.v -- pinned statements of property C13 (SPARQL evaluation returns exactly the
   algebra's solutions or 'not implemented').  Strings are lists of code points: tag:a is
   [116;97;103;58;97], ... (this file is generated once from readable text, see the comments). *)
From Sophia.C13 Require Import Model Maps BgpProofs Proofs NumModel NumProofs Eval Exists ExistsProofs ExistsSubst Nested NestedProofs.
From Sophia.C13 Require Import Fresh FreshProofs.
From Coq Require Import Permutation.

(* ===== (1) the engine (after fixes c, d, e) computes the algebra ===== *)
(* basic graph patterns: any number of triple patterns, repeated variables, blank node
   placeholders, quoted triple patterns, over the triples G of one graph: the recursive matcher
   returns each pattern instance mapping (mu, sigma) exactly once *)
Check (bgp_rec_is_spec : forall (G : list triple) (gm : list (option term)) (ps : list tp3),
  NoDup G -> Permutation (bgp_rec (qmG G) ps empty_binding gm) (spec_bgp_full G ps)).
(* every operator composed, for every expression library L: BGP, FILTER, UNION, GRAPH (constant
   or variable), BIND, ORDER BY, projection (also as sub-select), DISTINCT *)
Check (select_correct : forall (L : exprlib),
  (forall c l, Permutation (sorter L c l) l) ->
  forall D : dataset, NoDup D -> forall (p : pattern L) g vs rows,
  slice_free L p = true ->
  select L (ds_qm D) (ds_names D) p [g] None = Ok vs rows ->
  Permutation (map bv rows) (spec L D p g) /\ Forall (row_inv vs) rows).
Check (select_query_correct : forall (L : exprlib),
  (forall c l, Permutation (sorter L c l) l) ->
  forall D (p : pattern L) vs rows, NoDup D -> slice_free L p = true ->
  run_query L D (QSelect None p) = ARows vs rows ->
  vs = out_vars L p /\ Permutation rows (map (mu_row vs) (spec L D p None))).
Check (ask_query_correct : forall (L : exprlib),
  (forall c l, Permutation (sorter L c l) l) ->
  forall D (p : pattern L) b, NoDup D -> slice_free L p = true ->
  run_query L D (QAsk None p) = ABool b ->
  b = match spec L D p None with [] => false | _ => true end).
(* ... and for EVERY supported pattern, OFFSET / LIMIT anywhere (sub-selects): the engine
   returns an admissible answer of the relational form of the same semantics; without
   OFFSET / LIMIT the admissible answers are exactly the orderings of [spec], and [spec] is
   always admissible *)
Check (select_answers : forall (L : exprlib),
  (forall c l, Permutation (sorter L c l) l) ->
  forall D : dataset, NoDup D -> forall (p : pattern L) g vs rows,
  select L (ds_qm D) (ds_names D) p [g] None = Ok vs rows ->
  answers L D p g (map bv rows) /\ Forall (row_inv vs) rows).
Check (answers_spec : forall L D (p : pattern L) g rows,
  slice_free L p = true -> answers L D p g rows -> Permutation rows (spec L D p g)).
Check (spec_answers : forall L D (p : pattern L) g,
  supported L p = true -> answers L D p g (spec L D p g)).
Check (select_query_answers : forall (L : exprlib),
  (forall c l, Permutation (sorter L c l) l) ->
  forall D (p : pattern L) vs rows, NoDup D ->
  run_query L D (QSelect None p) = ARows vs rows ->
  vs = out_vars L p /\ exists sols, answers L D p None sols /\ rows = map (mu_row vs) sols).
Check (ask_query_answers : forall (L : exprlib),
  (forall c l, Permutation (sorter L c l) l) ->
  forall D (p : pattern L) b, NoDup D ->
  run_query L D (QAsk None p) = ABool b ->
  exists sols, answers L D p None sols /\ b = match sols with [] => false | _ => true end).
(* OFFSET / LIMIT *)
Check (slice_operator : forall L qm gnames (p : pattern L) start len gm b,
  select L qm gnames (Slice p start len) gm b =
  match select L qm gnames p gm b with
  | Ok vs rows => Ok vs (slice start len rows)
  | Err e => Err e
  end).
Check (slice_top_correct : forall (L : exprlib),
  (forall c l, Permutation (sorter L c l) l) ->
  forall D (p : pattern L) start len g vs rows, NoDup D -> slice_free L p = true ->
  select L (ds_qm D) (ds_names D) (Slice p start len) [g] None = Ok vs rows ->
  exists ordering, Permutation ordering (spec L D p g) /\ map bv rows = slice start len ordering).

(* ===== (2) unsupported operators / forms: an explicit error, never rows ===== *)
Check (unsupported_is_error : forall L D ds (p : pattern L), supported L p = false ->
  (exists e, run_query L D (QSelect ds p) = AErr e) /\ (exists e, run_query L D (QAsk ds p) = AErr e)).
Check (error_is_explicit : forall L D (p : pattern L) gm e,
  select L (ds_qm D) (ds_names D) p gm None = Err e ->
  (exists k, e = NotImplemented k /\ supported L p = false)
  \/ (exists v, e = Override v /\ no_override L p = false)).
Check (supported_succeeds : forall L D (p : pattern L) gm,
  supported L p = true -> no_override L p = true ->
  exists vs rows, select L (ds_qm D) (ds_names D) p gm None = Ok vs rows).
Check (other_forms_not_implemented : forall L D ds named (p : pattern L),
  run_query L D QConstruct = AErr NotImplementedForm
  /\ run_query L D QDescribe = AErr NotImplementedForm
  /\ run_query L D (QSelect (Some (ds, Some named)) p) = AErr NotImplementedFromNamed
  /\ run_query L D (QAsk (Some (ds, Some named)) p) = AErr NotImplementedFromNamed).

(* ===== (3) auxiliary invariants ===== *)
Check (graph_matcher_at_most_one : forall L qm1 qm2 gnames (p : pattern L),
  (forall m gm, length gm <= 1 -> qm1 m gm = qm2 m gm)%nat ->
  forall gm b, (length gm <= 1)%nat ->
  select L qm1 gnames p gm b = select L qm2 gnames p gm b).
Check (populate_no_panic : forall D tp b gm m,
  In m (ds_qm D (build3 tp b) gm) -> shape_ok3 tp m = true).

(* ===== (4) SparqlNumber ===== *)
Check (neg_exact : forall F n z, int_val F n = Some z ->
  exists m, neg F n = Some m /\ int_val F m = Some (- z)%Z /\ num_wf F m).
Check (neg_total : forall F n, exists m, neg F n = Some m).
Check (abs_exact : forall F n z, num_wf F n -> int_val F n = Some z ->
  int_val F (abs F n) = Some (Z.abs z) /\ num_wf F (abs F n)).
Check (add_exact : forall F a b x y, int_val F a = Some x -> int_val F b = Some y ->
  exists m, add F a b = Some m /\ int_val F m = Some (x + y)%Z /\ num_wf F m).
Check (sub_exact : forall F a b x y, int_val F a = Some x -> int_val F b = Some y ->
  exists m, sub F a b = Some m /\ int_val F m = Some (x - y)%Z /\ num_wf F m).
Check (mul_exact : forall F a b x y, int_val F a = Some x -> int_val F b = Some y ->
  exists m, mul F a b = Some m /\ int_val F m = Some (x * y)%Z /\ num_wf F m).
Check (div_int : forall F a b x y, int_val F a = Some x -> int_val F b = Some y ->
  div F a b = if (y =? 0)%Z then None
              else Some (Decimal F (dec_div F (dec_of_Z F x) (dec_of_Z F y)))).
Check (cmp_int : forall F a b x y, int_val F a = Some x -> int_val F b = Some y ->
  num_cmp F a b = Some (x ?= y)%Z).
Check (neg0_agrees : forall F n r, neg0 F n = Val r -> r = neg F n).
(* rows 22 / 23 of DESIGN section 4 on the code before fixes a, b *)
Check (neg0_refuted : forall F, neg0 F (NativeInt F isize_min) = Panic).
Check (abs0_min_refuted : forall F, abs0 F (NativeInt F isize_min) = Panic).
Check (abs0_big_refuted : forall F,
  abs0 F (BigInt F (-99999999999999999999)) = Val (BigInt F (-99999999999999999999))).

(* ===== witnesses: the code before fixes c, d, e, run with the concrete library CL ===== *)
Definition ta := Iri [116;97;103;58;97]. Definition tb := Iri [116;97;103;58;98]. Definition tc := Iri [116;97;103;58;99].
Definition tp := Iri [116;97;103;58;112]. Definition tq := Iri [116;97;103;58;113].
Definition g1 := Iri [116;97;103;58;103;49]. Definition g2 := Iri [116;97;103;58;103;50].
Definition vs_ := [115]. Definition vo_ := [111]. Definition vg_ := [103]. Definition vh_ := [104].
Definition pv (v : str) : tpat := PAtom (AV v).
(* default graph { a p b . b p c }, no named graph *)
Definition D0 : dataset := [((ta, tp, tb), None); ((tb, tp, tc), None)].
(* the same plus g1 { a p b } and g2 { a p b . a q g1 } *)
Definition D1 : dataset :=
  D0 ++ [((ta, tp, tb), Some g1); ((ta, tp, tb), Some g2); ((ta, tq, g1), Some g2)].
Definition spo : cpattern := Bgp [(pv vs_, PConst tp, pv vo_)].

(* row 25: ASK { GRAPH ?g {} } without named graph, ASK { GRAPH <tag:absent> {} } *)
Definition q25a : cquery := QAsk None (Graph (NVar vg_) (Bgp [])).
Definition q25b : cquery := QAsk None (Graph (NConst [116;97;103;58;97;98;115;101;110;116]) (Bgp [])).
Example graph_empty_refuted :
  run_query0 CL D0 q25a = ABool true /\ run_query0 CL D1 q25b = ABool true
  /\ spec CL D0 (Graph (NVar vg_) (Bgp [])) None = []
  /\ spec CL D1 (Graph (NConst [116;97;103;58;97;98;115;101;110;116]) (Bgp [])) None = [].
Proof. vm_compute. repeat split. Qed.
Example graph_empty_fixed : run_query CL D0 q25a = ABool false /\ run_query CL D1 q25b = ABool false.
Proof. vm_compute. split; reflexivity. Qed.

(* row 26: SELECT ?s { { SELECT ?s { ?s <tag:p> ?o } } FILTER(BOUND(?o)) } *)
Definition p26 : cpattern := Project (cFilter (CBound vo_) (Project spo [vs_])) [vs_].
Example project_scope_refuted :
  run_query0 CL D0 (QSelect None p26) = ARows [vs_] [[Some ta]; [Some tb]]
  /\ spec CL D0 p26 None = [].
Proof. vm_compute. split; reflexivity. Qed.
Example project_scope_fixed : run_query CL D0 (QSelect None p26) = ARows [vs_] [].
Proof. vm_compute. reflexivity. Qed.

(* found while modelling (fix e): GRAPH ?g { ?s <tag:p> ?o FILTER(BOUND(?g)) } -- ?g is not in
   scope inside the group (18.6: eval(D(G), Graph(var, P)) joins { var -> name } AFTER
   evaluating P); and GRAPH ?g { SELECT ?s { ?s <tag:q> ?g } }, where the inner ?g is another
   variable *)
Definition pe1 : cpattern := Graph (NVar vg_) (cFilter (CBound vg_) spo).
Definition pe2 : cpattern :=
  Graph (NVar vg_) (Project (Bgp [(pv vs_, PConst tq, pv vg_)]) [vs_]).
Example graph_var_scope_refuted :
  run_query0 CL D1 (QSelect None pe1)
    = ARows [vg_; vs_; vo_] [[Some g1; Some ta; Some tb]; [Some g2; Some ta; Some tb]]
  /\ spec CL D1 pe1 None = []
  /\ run_query0 CL D1 (QSelect None pe2) = ARows [vs_] []
  /\ spec CL D1 pe2 None = [[(vg_, g2); (vs_, ta)]].
Proof. vm_compute. repeat split. Qed.
Example graph_var_scope_fixed :
  run_query CL D1 (QSelect None pe1) = ARows [vs_; vo_; vg_] []
  /\ run_query CL D1 (QSelect None pe2) = ARows [vs_; vg_] [[Some ta; Some g2]].
Proof. vm_compute. split; reflexivity. Qed.

(* non-vacuity: a query with a repeated variable, a blank node placeholder, UNION, GRAPH ?g,
   FILTER with a type error, BIND and DISTINCT: engine = specification, and not empty *)
Definition p_nv : cpattern :=
  Distinct (Project
    (Union (cExtend (cFilter (CLess (CVar vo_) (CConst tc))
                           (Bgp [(pv vs_, PConst tp, PAtom (AB [120])); (PAtom (AB [120]), PConst tp, pv vo_)]))
                   vh_ (CConst ta))
           (Graph (NVar vg_) (Bgp [(pv vs_, pv vo_, pv vo_)] )))
    [vs_; vg_; vh_]).
Example nonvacuous :
  slice_free CL p_nv = true /\ supported CL p_nv = true /\
  run_query CL D1 (QSelect None (Union spo (Graph (NVar vg_) spo)))
    = ARows [vs_; vo_; vg_] [[Some ta; Some tb; None]; [Some tb; Some tc; None];
                             [Some ta; Some tb; Some g1]; [Some ta; Some tb; Some g2]]
  /\ spec CL D1 (Union spo (Graph (NVar vg_) spo)) None
    = [[(vo_, tb); (vs_, ta)]; [(vo_, tc); (vs_, tb)];
       [(vg_, g1); (vo_, tb); (vs_, ta)]; [(vg_, g2); (vo_, tb); (vs_, ta)]].
Proof. vm_compute. repeat split. Qed.
Example sorter_id_perm : forall c l, Permutation (sorter CL c l) l.
Proof. intros. apply Permutation_refl. Qed.


(* ===== (5) the representation of an integer is not observable =====
   + - * on a BigInt operand keep their result as a BigInt even when it fits an isize again
   (computed_bigint_in_range below); [num_sim] relates the representations of one number:
   every comparison (= != < <= > >=, IN) and every arithmetic operator treats them alike *)
Check (cmp_sim : forall F a a' b b', num_sim F a a' -> num_sim F b b' ->
  num_cmp F a b = num_cmp F a' b').
Check (eq_sim : forall F a a' b b', num_sim F a a' -> num_sim F b b' ->
  num_eq F a b = num_eq F a' b').
Check (cmp_normalize : forall F a b, num_cmp F (normalize F a) (normalize F b) = num_cmp F a b).
Check (cmp_bigint_native : forall F x y,
  num_cmp F (BigInt F x) (NativeInt F y) = Some (x ?= y)%Z
  /\ num_cmp F (NativeInt F x) (BigInt F y) = Some (x ?= y)%Z).
Check (add_sim : forall F a a' b b', num_sim F a a' -> num_sim F b b' -> osim F (add F a b) (add F a' b')).
Check (sub_sim : forall F a a' b b', num_sim F a a' -> num_sim F b b' -> osim F (sub F a b) (sub F a' b')).
Check (mul_sim : forall F a a' b b', num_sim F a a' -> num_sim F b b' -> osim F (mul F a b) (mul F a' b')).
Check (div_sim : forall F a a' b b', num_sim F a a' -> num_sim F b b' -> osim F (div F a b) (div F a' b')).
Check (neg_sim : forall F a a', num_sim F a a' -> osim F (neg F a) (neg F a')).
Check (abs_sim : forall F a a', num_wf F a -> num_wf F a' -> num_sim F a a' ->
  num_sim F (abs F a) (abs F a')).
Check (normalize_sim : forall F n, num_sim F (normalize F n) n).
Example computed_bigint_in_range :
  sub trivF (BigInt trivF 100000000000000000030) (BigInt trivF 100000000000000000000) = Some (BigInt trivF 30)
  /\ mul trivF (BigInt trivF 100000000000000000000) (NativeInt trivF 0) = Some (BigInt trivF 0)
  /\ num_eq trivF (BigInt trivF 30) (NativeInt trivF 30) = true
  /\ num_cmp trivF (NativeInt trivF 35) (BigInt trivF 30) = Some Gt
  /\ num_cmp trivF (BigInt trivF 0) (NativeInt trivF 1) = Some Lt
  /\ ceval (CEqual (CSubtract (CConst (LitDt [49;48;48;48;48;48;48;48;48;48;48;48;48;48;48;48;48;48;48;51;48] (xsd s_integer)))
                              (CConst (LitDt [49;48;48;48;48;48;48;48;48;48;48;48;48;48;48;48;48;48;48;48;48] (xsd s_integer))))
                   (CConst (LitDt [51;48] (xsd s_integer)))) [] = Some (vbool true).
Proof. vm_compute. repeat split. Qed.

(* ===== (6) EXISTS (Exists.v): the group is evaluated by the same select, from the whole current
   solution, on the active graph ===== *)
(* conservative extension: without EXISTS, the model with EXISTS is the model above *)
Check (wselect_embed : forall qm gnames (p : cpattern) gm b,
  wselect qm gnames (embed_p p) gm b = select CL qm gnames p gm b).
Check (wrun_select_embed : forall D ds (p : cpattern),
  wrun_query D (WSelect ds (embed_p p)) = run_query CL D (QSelect ds p)).
Check (wrun_ask_embed : forall D ds (p : cpattern),
  wrun_query D (WAsk ds (embed_p p)) = run_query CL D (QAsk ds p)).
(* a BGP started from a solution only extends it, whatever the dataset answers *)
Check (bgp_rec_extends : forall qm gm ps b r, In r (bgp_rec qm ps b gm) -> ext b r).
(* a group (no sub-select) evaluated from an outer solution b0: every solution extends b0, and
   the variables of b0 are in the variable list (a BIND of the group cannot override them
   silently) -- so FILTER, BIND, nested EXISTS and GRAPH inside the group see ALL the variables of
   the outer solution, also those that occur in none of its triple patterns (18.6: substitute) *)
Check (group_carries_outer_solution : forall qm gnames (p : wpat), group_p p = true ->
  forall gm b0, carries b0 (wselect qm gnames p gm (Some b0))).
Check (group_sees_outer_variables : forall qm gnames (p : wpat) gm b0 vs rows r v t,
  group_p p = true -> wselect qm gnames p gm (Some b0) = Ok vs rows -> In r rows ->
  lookup v (bv b0) = Some t -> lookup v (bv r) = Some t).
Check (exists_total : forall qm gnames p b gm,
  exists t, weval qm gnames (WExists p) b gm = Some (vbool t)).
Check (exists_filter_only : forall qm gnames e b gm,
  weval qm gnames (WExists (WFilter e (WBgp []))) b gm
  = Some (vbool (wkeep (weval qm gnames e b gm)))).
Check (exists_filter_rows : forall qm gnames e i b gm vs rows,
  group_p i = true -> wselect qm gnames i gm (Some b) = Ok vs rows ->
  weval qm gnames (WExists (WFilter e i)) b gm
  = Some (vbool (existsb (fun r => wkeep (weval qm gnames e r gm)) rows))
  /\ forall r, In r rows -> ext b r).
Check (not_exists_is_negation : forall qm gnames p b gm t,
  weval qm gnames (WExists p) b gm = Some (vbool t) ->
  weval qm gnames (WNot (WExists p)) b gm = Some (vbool (negb t))).
(* non-vacuity: a 30 . b 25 . c 35 (tag:n), a p b . a p c . b p c:
   SELECT ?x { ?x <tag:n> ?a FILTER EXISTS { ?x <tag:p> ?y . ?y <tag:n> ?b FILTER(?b > ?a) } }  = a, b
   (?a occurs in no triple pattern of the group), NOT EXISTS = c; and a nested EXISTS whose
   innermost group is the only place where ?x occurs *)
Definition tn := Iri [116;97;103;58;110].
Definition int_ (s : str) : term := LitDt s (xsd s_integer).
Definition D2 : dataset :=
  [((ta, tn, int_ [51;48]), None); ((tb, tn, int_ [50;53]), None); ((tc, tn, int_ [51;53]), None);
   ((ta, tp, tb), None); ((ta, tp, tc), None); ((tb, tp, tc), None)].
Definition vx_ := [120]. Definition va_ := [97]. Definition vb_ := [98]. Definition vy_ := [121].
Definition older : wpat :=
  WFilter (WGreater (WVar vb_) (WVar va_)) (WBgp [(pv vx_, PConst tp, pv vy_); (pv vy_, PConst tn, pv vb_)]).
Definition ages : wpat := WBgp [(pv vx_, PConst tn, pv va_)].
Example exists_correlated :
  wrun_query D2 (WSelect None (WProject (WFilter (WExists older) ages) [vx_])) = ARows [vx_] [[Some ta]; [Some tb]]
  /\ wrun_query D2 (WSelect None (WProject (WFilter (WNot (WExists older)) ages) [vx_])) = ARows [vx_] [[Some tc]]
  /\ wrun_query D2 (WSelect None (WProject (WFilter
        (WExists (WFilter (WExists (WBgp [(pv vx_, PConst tp, pv vy_)])) (WBgp [(pv vy_, PConst tn, PConst (int_ [51;53]))])))
        ages) [vx_])) = ARows [vx_] [[Some ta]; [Some tb]]
  /\ wrun_query D2 (WSelect None (WProject (WFilter
        (WExists (WFilter (WGreater (WVar va_) (WConst (int_ [50;54]))) (WBgp []))) ages) [vx_]))
     = ARows [vx_] [[Some ta]; [Some tc]].
Proof. vm_compute. repeat split. Qed.

(* ===== (7) EXISTS computes 18.6: evaluating the group from the outer solution b0 (what the engine
   does) is evaluating substitute(group, b0) from scratch, for groups of BGP / FILTER / UNION /
   GRAPH / BIND, whatever the dataset answers provided it only returns matching triples;
   [over b0 r1 r2]: r1 is b0 overlaid on r2 ===== *)
Check (select_subst : forall b0 qm,
  (forall m gm t, In t (qm m gm) -> matches3 m t = true) ->
  forall gnames (p : cpattern), sgroup (bv b0) p = true -> bn_fresh (bb b0) p = true ->
  forall gm, rel b0 (select CL qm gnames p gm (Some b0)) (select CL qm gnames (subst_p (bv b0) p) gm None)).
Check (bgp_rec_subst : forall b0 qm,
  (forall m gm t, In t (qm m gm) -> matches3 m t = true) ->
  forall gm ps, forallb (fresh3 b0) ps = true -> forall r1 r2, over b0 r1 r2 ->
  Forall2 (over b0) (bgp_rec qm ps r1 gm) (bgp_rec qm (map (subst_tp3 (bv b0)) ps) r2 gm)).
Check (ceval_subst : forall b0 e r1 r2, over b0 r1 r2 -> sgroup_e (bv b0) e = true ->
  ceval e (bv r1) = ceval (subst_e (bv b0) e) (bv r2)).
(* with select_correct: FILTER EXISTS { p } keeps the solution b0 iff the algebra's
   eval(D(g), substitute(p, b0)) is not empty; NOT EXISTS iff it is empty *)
Check (exists_is_substitution : forall D g (p : cpattern) b0,
  NoDup D -> sgroup (bv b0) p = true -> bn_fresh (bb b0) p = true ->
  no_override CL (subst_p (bv b0) p) = true ->
  weval (ds_qm D) (ds_names D) (WExists (embed_p p)) b0 [g] = Some (vbool (exists_spec D g p (bv b0)))).
Check (not_exists_is_substitution : forall D g (p : cpattern) b0,
  NoDup D -> sgroup (bv b0) p = true -> bn_fresh (bb b0) p = true ->
  no_override CL (subst_p (bv b0) p) = true ->
  weval (ds_qm D) (ds_names D) (WNot (WExists (embed_p p))) b0 [g]
  = Some (vbool (negb (exists_spec D g p (bv b0))))).
(* non-vacuity: the hypotheses hold for the group `older` above in the solutions of `ages`, and
   the specification separates them *)
Definition older_c : cpattern :=
  cFilter (CGreater (CVar vb_) (CVar va_)) (Bgp [(pv vx_, PConst tp, pv vy_); (pv vy_, PConst tn, pv vb_)]).
Definition sol (x : term) (a : str) : binding := mkB [(va_, int_ a); (vx_, x)] [].
Example exists_spec_example :
  embed_p older_c = older
  /\ sgroup (bv (sol ta [51;48])) older_c = true /\ bn_fresh (bb (sol ta [51;48])) older_c = true
  /\ no_override CL (subst_p (bv (sol ta [51;48])) older_c) = true
  /\ subst_p (bv (sol ta [51;48])) older_c
     = cFilter (CGreater (CVar vb_) (CConst (int_ [51;48])))
               (Bgp [(PConst ta, PConst tp, pv vy_); (pv vy_, PConst tn, pv vb_)])
  /\ exists_spec D2 None older_c (bv (sol ta [51;48])) = true
  /\ exists_spec D2 None older_c (bv (sol tb [50;53])) = true
  /\ exists_spec D2 None older_c (bv (sol tc [51;53])) = false
  /\ NoDup D2.
Proof.
  repeat split.
  all: try (vm_compute; reflexivity).
  unfold D2. repeat (constructor; [cbn [In]; intuition discriminate|]). constructor.
Qed.


(* ===== (8) quoted-triple patterns nested in quoted-triple patterns (depth 2, 3, ...) =====
   The engine matches in two phases: the SparqlMatcher built from the pattern under the current
   binding filters the triples (matcher.rs), then populate_bindings walks the pattern and the
   accepted triple side by side WITHOUT comparing constants and unwrapping quoted triples
   (binding.rs).  [pmatch] is one unification walk (the Rust oracle's `unify`). *)
(* a quoted-triple pattern, ground or not, at any depth and under any binding, accepts exactly the
   quoted triples whose components its component matchers accept: an inner non-ground pattern
   is never a wildcard *)
Check (quoted_pattern_matches_componentwise : forall s p o b t,
  m_matches (build (PTrip s p o) b) t = true <->
  exists ts tp to, t = Triple ts tp to /\ m_matches (build s b) ts = true
                   /\ m_matches (build p b) tp = true /\ m_matches (build o b) to = true).
(* filter-by-matcher then populate = unification, for every pattern, term and current binding *)
Check (engine_match_is_unification : forall p t b, engine_match p t b = pmatch p t b).
Check (engine_match3_is_unification : forall tp m b, engine_match3 tp m b = pmatch3 tp m b).
(* unification yields exactly the extensions of the binding that instantiate the pattern to the
   term (18.3), binding the atoms of the pattern and nothing else *)
Check (pmatch_sound : forall p t b b',
  pmatch p t b = Some b' -> ext b b' /\ inst p b' = Some t /\ dom_add b b' (atoms p)).
Check (pmatch_complete : forall p t b r,
  ext b r -> inst p r = Some t -> exists b', pmatch p t b = Some b' /\ ext b' r).
(* a pattern with d levels of quoted-triple structure never matches a term with fewer levels *)
Check (pmatch_depth : forall p t b b', pmatch p t b = Some b' -> (sdepth p <= tdepth t)%nat).
Check (engine_match_depth : forall p t b b',
  engine_match p t b = Some b' -> (sdepth p <= tdepth t)%nat).
(* one step of bgp_rec over the triples of the active graph, written with unification *)
Check (bgp_rec_unify : forall G gm first rest b,
  bgp_rec (qmG G) (first :: rest) b gm =
  if all_bound3 (build3 first b)
  then (if existsb (matches3 (build3 first b)) G then bgp_rec (qmG G) rest b gm else [])
  else flat_map (unify_step (fun b' => bgp_rec (qmG G) rest b' gm) first b) G).
(* non-vacuity.  P2 = << << ?a <tag:p> ?c >> ?q ?o >>, P3 = << <tag:d> <tag:p> P2 >>; the terms
   differ from an instance of the pattern at ONE place of the INNER quoted triple *)
Definition td := Iri [116;97;103;58;100].
Definition vc_ := [99]. Definition vq_ := [113]. Definition vz_ := [122].
Definition P2 : tpat := PTrip (PTrip (pv va_) (PConst tp) (pv vc_)) (pv vq_) (pv vo_).
Definition P3 : tpat := PTrip (PConst td) (PConst tp) P2.
(* << << ?a <tag:p> <tag:b> >> <tag:q> <tag:c> >> *)
Definition PS2 : tpat := PTrip (PTrip (pv va_) (PConst tp) (PConst tb)) (PConst tq) (PConst tc).
Definition T2 (inner : term) : term := Triple inner tq tc.
Definition T3 (inner : term) : term := Triple td tp (T2 inner).
Definition tz (k : N) : term := Iri [116;97;103;58;122;k].
(* default graph: z1 the instance; z2 inner predicate differs; z3 an atom where the pattern has a
   quoted triple; z4 depth 1; z5..z7 the same at depth 3, in object position *)
Definition DN : dataset :=
  [((T2 (Triple ta tp tb), tq, tz 49), None); ((T2 (Triple ta tq tb), tq, tz 50), None);
   ((T2 ta, tq, tz 51), None); ((Triple ta tp tb, tq, tz 52), None);
   ((tz 53, tp, T3 (Triple ta tp tb)), None); ((tz 54, tp, T3 (Triple ta tq tb)), None);
   ((tz 55, tp, T3 ta), None); ((tz 56, tp, T2 (Triple ta tp tb)), None);
   ((ta, tp, tb), None)].
Example nested_patterns_example :
  ground P2 = false /\ sdepth P2 = 2%nat /\ sdepth P3 = 3%nat
  /\ engine_match P2 (T2 (Triple ta tp tb)) empty_binding
     = Some (mkB [(va_, ta); (vc_, tb); (vo_, tc); (vq_, tq)] [])
  /\ engine_match P2 (T2 (Triple ta tq tb)) empty_binding = None
  /\ engine_match P2 (T2 ta) empty_binding = None
  /\ engine_match P2 (Triple ta tp tb) empty_binding = None
  /\ engine_match P3 (T3 (Triple ta tp tb)) empty_binding
     = Some (mkB [(va_, ta); (vc_, tb); (vo_, tc); (vq_, tq)] [])
  /\ engine_match P3 (T3 (Triple ta tq tb)) empty_binding = None
  /\ engine_match P3 (T3 ta) empty_binding = None
  /\ engine_match P3 (T2 (Triple ta tp tb)) empty_binding = None
  (* an inner variable bound earlier: ?c -> tag:c *)
  /\ engine_match P2 (T2 (Triple ta tp tb)) (mkB [(vc_, tc)] []) = None
  (* the whole queries: SELECT ?z { P2 <tag:q> ?z }, SELECT ?z { ?z <tag:p> P3 },
     SELECT ?z { ?a <tag:p> ?c . ?z <tag:p> P3 }, ASK { P2 <tag:q> <tag:z3> } *)
  /\ run_query CL DN (QSelect None (Project (Bgp [(P2, PConst tq, pv vz_)]) [vz_])) = ARows [vz_] [[Some (tz 49)]]
  /\ run_query CL DN (QSelect None (Bgp [(PS2, PConst tq, pv vz_)])) = ARows [va_; vz_] [[Some ta; Some (tz 49)]]
  /\ spec CL DN (Bgp [(PS2, PConst tq, pv vz_)]) None = [[(va_, ta); (vz_, tz 49)]]
  /\ run_query CL DN (QSelect None (Project (Bgp [(pv vz_, PConst tp, P3)]) [vz_])) = ARows [vz_] [[Some (tz 53)]]
  /\ run_query CL DN (QSelect None (Project (Bgp [(pv va_, PConst tp, pv vc_); (pv vz_, PConst tp, P3)]) [vz_]))
     = ARows [vz_] [[Some (tz 53)]]
  /\ run_query CL DN (QAsk None (Bgp [(P2, PConst tq, PConst (tz 51))])) = ABool false
  /\ NoDup DN.
Proof.
  repeat (split; [vm_compute; reflexivity|]).
  unfold DN. repeat (constructor; [cbn [In]; intuition discriminate|]). constructor.
Qed.

Print Assumptions bgp_rec_is_spec.
Print Assumptions select_correct.
Print Assumptions select_query_correct.
Print Assumptions ask_query_correct.
Print Assumptions select_answers.
Print Assumptions answers_spec.
Print Assumptions spec_answers.
Print Assumptions select_query_answers.
Print Assumptions ask_query_answers.
Print Assumptions slice_operator.
Print Assumptions slice_top_correct.
Print Assumptions unsupported_is_error.
Print Assumptions error_is_explicit.
Print Assumptions supported_succeeds.
Print Assumptions other_forms_not_implemented.
Print Assumptions graph_matcher_at_most_one.
Print Assumptions populate_no_panic.
Print Assumptions neg_exact.
Print Assumptions neg_total.
Print Assumptions abs_exact.
Print Assumptions add_exact.
Print Assumptions sub_exact.
Print Assumptions mul_exact.
Print Assumptions div_int.
Print Assumptions cmp_int.
Print Assumptions neg0_agrees.
Print Assumptions neg0_refuted.
Print Assumptions abs0_min_refuted.
Print Assumptions abs0_big_refuted.
Print Assumptions graph_empty_refuted.
Print Assumptions project_scope_refuted.
Print Assumptions graph_var_scope_refuted.
Print Assumptions nonvacuous.
Print Assumptions cmp_sim.
Print Assumptions eq_sim.
Print Assumptions cmp_normalize.
Print Assumptions cmp_bigint_native.
Print Assumptions add_sim.
Print Assumptions sub_sim.
Print Assumptions mul_sim.
Print Assumptions div_sim.
Print Assumptions neg_sim.
Print Assumptions abs_sim.
Print Assumptions normalize_sim.
Print Assumptions computed_bigint_in_range.
Print Assumptions wselect_embed.
Print Assumptions wrun_select_embed.
Print Assumptions wrun_ask_embed.
Print Assumptions bgp_rec_extends.
Print Assumptions group_carries_outer_solution.
Print Assumptions group_sees_outer_variables.
Print Assumptions exists_total.
Print Assumptions exists_filter_only.
Print Assumptions exists_filter_rows.
Print Assumptions not_exists_is_negation.
Print Assumptions exists_correlated.
Print Assumptions select_subst.
Print Assumptions bgp_rec_subst.
Print Assumptions ceval_subst.
Print Assumptions exists_is_substitution.
Print Assumptions not_exists_is_substitution.
Print Assumptions exists_spec_example.
Print Assumptions quoted_pattern_matches_componentwise.
Print Assumptions engine_match_is_unification.
Print Assumptions engine_match3_is_unification.
Print Assumptions pmatch_sound.
Print Assumptions pmatch_complete.
Print Assumptions pmatch_depth.
Print Assumptions engine_match_depth.
Print Assumptions bgp_rec_unify.
Print Assumptions nested_patterns_example.

(* ===== blank nodes created by BNODE() and OFFSET / LIMIT windows (Fresh.v) ===== *)
(* the condition checked on the labels of the engine's created nodes, row by row *)
Check (fresh_ok_spec : forall (D : dataset) (rows : list (list str)),
  fresh_ok D rows = true <->
  NoDup (concat rows) /\ forall l, In l (concat rows) -> ~ In l (ds_bnodes D)).
Check (fresh_ok_rows_disjoint : forall (D : dataset) (rows : list (list str)) (i j : nat) ri rj l,
  fresh_ok D rows = true -> nth_error rows i = Some ri -> nth_error rows j = Some rj ->
  In l ri -> In l rj -> i = j).
(* Extend(P, v, BNODE()): one node per solution keeps the solutions apart, so DISTINCT merges none *)
Check (extend_fresh_distinct : forall (v : str) (rows : list amap) (labels : list str),
  NoDup labels -> NoDup (map (lookup v) (extend_fresh v rows labels))).
Check (extend_fresh_NoDup : forall (v : str) (rows : list amap) (labels : list str),
  NoDup labels -> NoDup (extend_fresh v rows labels)).
Check (extend_fresh_length : forall (v : str) (rows : list amap) (labels : list str),
  length labels = length rows -> length (extend_fresh v rows labels) = length rows).
(* OFFSET s LIMIT n keeps min(n, N - s) solutions, the s-th to the (s+n-1)-th of the sequence below *)
Check (select_slice_window : forall (L : exprlib) qm names (inner : pattern L) (s n : nat) gm b vs rows,
  select L qm names inner gm b = Ok vs rows ->
  exists rows', select L qm names (@Slice L inner s (Some n)) gm b = Ok vs rows' /\
                length rows' = Nat.min n (length rows - s)%nat /\
                forall k : nat, (k < n)%nat -> nth_error rows' k = nth_error rows (s + k)%nat).
(* three equal solutions extended with three labels stay three; a label used twice is refused, and so
   is a label of the dataset *)
Example fresh_example :
  length (extend_fresh [98] [[]; []; []] [[1]; [2]; [3]]) = 3%nat
  /\ fresh_ok [((Bnode [120], Iri [112], Iri [111]), None)] [[[1]]; [[2]]; [[3]]] = true
  /\ fresh_ok [((Bnode [120], Iri [112], Iri [111]), None)] [[[1]]; [[1]]; [[1]]] = false
  /\ fresh_ok [((Bnode [120], Iri [112], Iri [111]), None)] [[[1]]; [[120]]] = false.
Proof. repeat split; reflexivity. Qed.
Print Assumptions fresh_ok_spec.
Print Assumptions fresh_ok_rows_disjoint.
Print Assumptions extend_fresh_distinct.
Print Assumptions extend_fresh_NoDup.
Print Assumptions extend_fresh_length.
Print Assumptions select_slice_window.
Print Assumptions fresh_example.
