(* C06/Proofs.v -- gathers the proof files of property C06 (Limits.v: escape table, limits,
   rejection of unsupported input, memoisation; Agree*.v: the model of the implementation against
   the transcription of the specification; Closure*.v: step 5.2.1 is unobservable) and adds the refutations of conformance for the code
   before the two repairs of build/proposed/C06.diff. *)
From Sophia.C06 Require Export Model Limits Agree1 Agree2 Agree Closure1 Closure ClosureCex.
From Sophia.C05 Require Export Reader.

(* conformance, all limits: whenever the (repaired) implementation returns a result, it is the
   canonical document and the issued identifiers map that RDFC-1.0 defines *)
Theorem conformance : forall H fuel df pl d bytes issued,
  Forall wf_quad d ->
  normalize_with H (mkVar true true) fuel df pl d = Ok (bytes, issued) ->
  spec_model H heap_perms label_order true d fuel = SpOk (bytes, issued).
Proof.
  intros H fuel df pl d bytes issued W E.
  apply impl_ok_is_rdfc10; [exact W|]. eapply run_limited_ok; exact E.
Qed.

(* does the canonical document of variant [v] differ from the specification's? *)
Definition differs_from_spec (v : variant) (H : str -> str) (d : list quad) (fuel : nat) : bool :=
  match normalize_with H v fuel None None d, spec_model H heap_perms label_order true d fuel with
  | Ok (a, _), SpOk (c, _) => negb (str_eqb a c)
  | _, _ => false
  end.

(* ---------- DESIGN.md section 4 row 27: a quad mentioning one blank node twice ---------- *)
(* toy hash: the input prefixed by its length (injective) *)
Definition toyL (x : str) : str := N.of_nat (length x) :: x.
(* _:e3 <p> _:e3 .   _:e1 <p> "llllll" . *)
Definition w27 : list quad :=
  [(Bnode [101;51], Iri [112], Bnode [101;51], None);
   (Bnode [101;49], Iri [112], LitDt [108;108;108;108;108;108] xsd_string, None)].
(* before the repair the self-loop is hashed over a doubled line: the two nodes swap identifiers *)
Example b2q_prefix_refuted :
  differs_from_spec (mkVar false true) toyL w27 20 = true
  /\ differs_from_spec (mkVar true true) toyL w27 20 = false.
Proof. split; vm_compute; reflexivity. Qed.

(* ---------- second defect: smaller_path prefers the SHORTER path ---------- *)
(* Needs ten temporary identifiers (_:b9 / _:b10) and a related-node list in which one node occurs
   twice, so that two permutations give paths of different lengths: a chain n0 -> ... -> n8, then
   n8 q x g1 . n8 q x g2 . n8 q y_k g1 . m q y_k g2 . (k = 0, 1), the whole thing twice. *)
(* toy hash of constant length: a 32-bit polynomial checksum in 8 hexadecimal digits *)
Definition hexl (d : N) : N := if d <? 10 then 48 + d else 87 + d.
Fixpoint hex_n (k : nat) (n : N) (acc : str) : str :=
  match k with O => acc | S k' => hex_n k' (n / 16) (hexl (n mod 16) :: acc) end.
Definition toyC (x : str) : str :=
  hex_n 8 (fold_left (fun a c => (a * 31 + c + 1) mod 4294967296) x 7) [].
Definition w_nd (c i : N) : term := Bnode ([99] ++ dec c ++ [110] ++ dec i).
Definition w_pc : term := Iri [112].
Definition w_pg : term := Iri [113].
Definition w_g1 : term := Iri [103;49].
Definition w_g2 : term := Iri [103;50].
Fixpoint w_chain (c : N) (l : nat) (i : N) : list quad :=
  match l with O => [] | S l' => (w_nd c i, w_pc, w_nd c (i + 1), None) :: w_chain c l' (i + 1) end.
Fixpoint w_ys (c : N) (n m : term) (k : nat) : list quad :=
  match k with
  | O => []
  | S k' => (n, w_pg, w_nd c (300 + N.of_nat k'), Some w_g1)
            :: (m, w_pg, w_nd c (300 + N.of_nat k'), Some w_g2) :: w_ys c n m k'
  end.
Definition w_comp (c : N) (l ny : nat) : list quad :=
  w_chain c (l - 1) 0
  ++ [(w_nd c (N.of_nat l - 1), w_pg, w_nd c 200, Some w_g1);
      (w_nd c (N.of_nat l - 1), w_pg, w_nd c 200, Some w_g2)]
  ++ w_ys c (w_nd c (N.of_nat l - 1)) (w_nd c 100) ny.
Definition w_b9b10 : list quad := w_comp 0 9 2 ++ w_comp 1 9 2.

Example prune_prefix_refuted :
  differs_from_spec (mkVar true false) toyC w_b9b10 80 = true
  /\ differs_from_spec (mkVar true true) toyC w_b9b10 80 = false.
Proof. split; vm_compute; reflexivity. Qed.
