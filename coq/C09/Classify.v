(* C09/Classify.v -- the two rules of RFC 3987 are disjoint: no string is both an IRI and an
   irelative-ref, so "absolute" and "relative" classify IRI references.
   IRI is included in  S = schemechar* ":" any*  and irelative-ref in  T = nondelim* [ ("/"|"?"|"#") any* ]
   (two inclusions decided by `ka`); S and T are separated by the first character among : / ? #. *)
From RelationAlgebra Require Import lattice monoid kleene kat_tac lang.
From Coq Require Import NArith List Lia.
From Sophia.C09 Require Import Regex Rfc3987 Eval AtomsProofs Lang.
Import ListNotations.
Close Scope N_scope.

(* classes, as unions of atom ranges so that they are aligned with the atom table *)
Definition any_c : cclass := [(0, max_cp)]%N.
Definition delim_c : cclass := [(0x23, 0x23); (0x2F, 0x2F); (0x3A, 0x3A); (0x3F, 0x3F)]%N.      (* # / : ? *)
Definition nondelim_c : cclass :=
  [(0, 0x22); (0x24, 0x2E); (0x30, 0x39); (0x3B, 0x3E); (0x40, max_cp)]%N.
Definition dl_c : cclass := [(0x23, 0x23); (0x2F, 0x2F); (0x3F, 0x3F)]%N.                         (* # / ? *)
Definition S_rx : rex cclass := Cat (Star (Lf nondelim_c)) (Cat (Lf [(0x3A, 0x3A)]%N) (Star (Lf any_c))).
Definition T_rx : rex cclass := Cat (Star (Lf nondelim_c)) (Alt Eps (Cat (Lf dl_c) (Star (Lf any_c)))).

(* is the first character among # / : ? a colon? *)
Fixpoint colon_first (w : list N) : bool :=
  match w with
  | [] => false
  | c :: w' => if inr c delim_c then N.eqb c 0x3A else colon_first w'
  end.

Lemma star_class_forall rs w : langc (Star (Lf rs)) w -> Forall (fun c => inr c rs = true) w.
Proof.
  intros [n H]. revert w H. induction n as [|n IH]; intros w H.
  - change ([] = w) in H. subst w. constructor.
  - destruct H as [u [c [-> Hc]] [v Hv ->]]. simpl. constructor; [exact Hc|]. apply IH. exact Hv.
Qed.

Lemma nondelim_not_delim c : inr c nondelim_c = true -> inr c delim_c = false.
Proof.
  unfold inr, nondelim_c, delim_c, in_range. simpl. unfold max_cp.
  rewrite !Bool.orb_false_r. rewrite !Bool.orb_true_iff, !Bool.andb_true_iff, !N.leb_le.
  intro H. apply Bool.not_true_is_false. rewrite !Bool.orb_true_iff, !Bool.andb_true_iff, !N.leb_le. lia.
Qed.

Lemma colon_first_skip u w : Forall (fun c => inr c nondelim_c = true) u -> colon_first (u ++ w) = colon_first w.
Proof.
  induction 1 as [|c u Hc _ IH]; [reflexivity|]. simpl app. cbn [colon_first].
  rewrite (nondelim_not_delim c Hc). exact IH.
Qed.

Lemma S_colon_first w : langc S_rx w -> colon_first w = true.
Proof.
  intros [u Hu [x [c [d [-> Hd]] [v _ ->]] ->]].
  rewrite (colon_first_skip u _ (star_class_forall _ _ Hu)).
  assert (d = 0x3A%N).
  { unfold inr, in_range in Hd. simpl in Hd. rewrite Bool.orb_false_r in Hd.
    apply Bool.andb_true_iff in Hd. rewrite !N.leb_le in Hd. lia. }
  subst d. reflexivity.
Qed.

Lemma T_colon_first w : langc T_rx w -> colon_first w = false.
Proof.
  intros [u Hu [x [Hx|Hx] ->]].
  - change ([] = x) in Hx. subst x. rewrite (colon_first_skip u [] (star_class_forall _ _ Hu)). reflexivity.
  - destruct Hx as [c [d [-> Hd]] [v _ ->]].
    rewrite (colon_first_skip u _ (star_class_forall _ _ Hu)).
    simpl app. cbn [colon_first].
    assert (E : d = 0x23%N \/ d = 0x2F%N \/ d = 0x3F%N).
    { unfold inr, in_range, dl_c in Hd. simpl in Hd. rewrite Bool.orb_false_r in Hd.
      rewrite !Bool.orb_true_iff, !Bool.andb_true_iff, !N.leb_le in Hd. lia. }
    destruct E as [->|[->| ->]]; reflexivity.
Qed.

(* the two inclusions, in every Kleene algebra *)
Section s.
  Context `{L : monoid.laws} `{Hl : BKA ≪ l} (n : ob X) (f : N -> X n n).
  Lemma iri_in_S_ka : eval n f (abstract IRI) ≦ eval n f (abstract S_rx).
  Proof. rewrite leq_iff_cup. vm_compute. ka. Qed.
  Lemma irel_in_T_ka : eval n f (abstract irelative_ref) ≦ eval n f (abstract T_rx).
  Proof. rewrite leq_iff_cup. vm_compute. ka. Qed.
End s.

Lemma incl_transport (r s : rex cclass) :
  all_aligned r = true -> all_aligned s = true ->
  (forall (f : N -> lang' N), eval lang_tt f (abstract r) ≦ eval lang_tt f (abstract s)) ->
  forall w, langc r w -> langc s w.
Proof.
  intros Hr Hs H w Hw. apply (abstract_sound s Hs w). apply (H _ w). apply (abstract_sound r Hr w). exact Hw.
Qed.

Theorem iri_irelative_ref_disjoint : forall w, matchb IRI w = true -> matchb irelative_ref w = false.
Proof.
  intros w H. apply matchb_spec in H.
  assert (HS : langc S_rx w).
  { revert H. apply incl_transport; [vm_compute; reflexivity | vm_compute; reflexivity | intro f; apply iri_in_S_ka]. }
  apply Bool.not_true_is_false. intro H'. apply matchb_spec in H'.
  assert (HT : langc T_rx w).
  { revert H'. apply incl_transport; [vm_compute; reflexivity | vm_compute; reflexivity | intro f; apply irel_in_T_ka]. }
  apply S_colon_first in HS. apply T_colon_first in HT. congruence.
Qed.
