(* C11/ProofsSeq.v -- theorems about the relay of read errors through views (ModelSeq.v) *)
From Sophia.C11 Require Import Model Proofs ModelErr ProofsErr ModelSeq.

(* ---------- the combinators: statements are filtered / mapped, error items all pass, in order ---------- *)
Lemma oks_app {A} (a b : list (item A)) : oks (a ++ b) = oks a ++ oks b.
Proof. unfold oks. apply flat_map_app. Qed.
Lemma errs_app {A} (a b : list (item A)) : errs (a ++ b) = errs a ++ errs b.
Proof. unfold errs. apply flat_map_app. Qed.

Theorem filter_ok_oks {A} (f : A -> bool) (l : list (item A)) : oks (filter_ok f l) = filter f (oks l).
Proof.
  unfold oks, filter_ok. induction l as [|[a|c] l IH]; simpl; auto.
  destruct (f a); simpl; rewrite IH; reflexivity.
Qed.
Theorem filter_ok_errs {A} (f : A -> bool) (l : list (item A)) : errs (filter_ok f l) = errs l.
Proof.
  unfold errs, filter_ok. induction l as [|[a|c] l IH]; simpl; auto.
  - destruct (f a); simpl; exact IH.
  - rewrite IH. reflexivity.
Qed.
Theorem map_ok_oks {A B} (f : A -> B) (l : list (item A)) : oks (map_ok f l) = map f (oks l).
Proof. unfold oks, map_ok. induction l as [|[a|c] l IH]; simpl; auto. rewrite IH. reflexivity. Qed.
Theorem map_ok_errs {A B} (f : A -> B) (l : list (item A)) : errs (map_ok f l) = errs l.
Proof. unfold errs, map_ok. induction l as [|[a|c] l IH]; simpl; auto. rewrite IH. reflexivity. Qed.
Lemma oks_map_IOk {A} (l : list A) : oks (map IOk l) = l.
Proof. unfold oks. induction l as [|a l IH]; simpl; auto. rewrite IH. reflexivity. Qed.
Lemma errs_map_IOk {A} (l : list A) : errs (map (@IOk A) l) = [].
Proof. unfold errs. induction l as [|a l IH]; simpl; auto. Qed.
Theorem flat_map_ok_oks {A B} (f : A -> list B) (l : list (item A)) : oks (flat_map_ok f l) = flat_map f (oks l).
Proof.
  induction l as [|[a|c] l IH]; [reflexivity| |].
  - change (flat_map_ok f (IOk a :: l)) with (map IOk (f a) ++ flat_map_ok f l).
    change (oks (IOk a :: l)) with (a :: oks l). rewrite oks_app, oks_map_IOk, IH. reflexivity.
  - change (flat_map_ok f (IErr c :: l)) with ([IErr c] ++ flat_map_ok f l).
    change (oks (IErr c :: l)) with (oks l). rewrite oks_app, IH. reflexivity.
Qed.
Theorem flat_map_ok_errs {A B} (f : A -> list B) (l : list (item A)) : errs (flat_map_ok f l) = errs l.
Proof.
  induction l as [|[a|c] l IH]; [reflexivity| |].
  - change (flat_map_ok f (IOk a :: l)) with (map IOk (f a) ++ flat_map_ok f l).
    change (errs (IOk a :: l)) with (errs l). rewrite errs_app, errs_map_IOk, IH. reflexivity.
  - change (flat_map_ok f (IErr c :: l)) with ([IErr c] ++ flat_map_ok f l).
    change (errs (IErr c :: l)) with (c :: errs l). rewrite errs_app, IH. reflexivity.
Qed.

Lemma filter_ok_app {A} (f : A -> bool) a b : filter_ok f (a ++ b) = filter_ok f a ++ filter_ok f b.
Proof. unfold filter_ok. apply filter_app. Qed.
Lemma map_ok_app {A B} (f : A -> B) a b : map_ok f (a ++ b) = map_ok f a ++ map_ok f b.
Proof. unfold map_ok. apply map_app. Qed.
Lemma filter_ok_ext {A} (f g : A -> bool) l : (forall a, f a = g a) -> filter_ok f l = filter_ok g l.
Proof. intros H. unfold filter_ok. apply filter_ext. intros [a|c]; auto. Qed.
Lemma filter_ok_filter_ok {A} (f g : A -> bool) l : filter_ok f (filter_ok g l) = filter_ok (fun a => g a && f a) l.
Proof.
  unfold filter_ok. induction l as [|[a|c] l IH]; simpl; auto.
  - destruct (g a); simpl; [destruct (f a)|]; rewrite IH; reflexivity.
  - rewrite IH. reflexivity.
Qed.
Lemma filter_ok_map_ok {A B} (f : B -> bool) (g : A -> B) l : filter_ok f (map_ok g l) = map_ok g (filter_ok (fun a => f (g a)) l).
Proof.
  unfold filter_ok, map_ok. induction l as [|[a|c] l IH]; simpl; auto.
  - destruct (f (g a)); simpl; rewrite IH; reflexivity.
  - rewrite IH. reflexivity.
Qed.
Lemma filter_all {A} (l : list A) : filter (fun _ => true) l = l.
Proof. induction l as [|a l IH]; cbn [filter]; congruence. Qed.

(* ---------- a view of the store: one item for one ---------- *)
Definition shown (own : list (item tq)) h sm pm om := f_triples_matching (FRoot false own) h sm pm om.

(* every error item is relayed, in order, whatever the view and the pattern *)
Theorem store_view_errs own h sm pm om : errs (shown own h sm pm om) = errs own.
Proof. unfold shown, f_triples_matching. cbn [f_quads_matching]. rewrite map_ok_errs, filter_ok_errs. reflexivity. Qed.

Lemma hop_matching_unfold d h sm pm om : hop_matching d h sm pm om = map qt (ds_quads_matching N d sm pm om (hop_g h)).
Proof. destruct h; reflexivity. Qed.

(* the statements shown are those of Model.v's view of the store's statements: the errors erased, a view
   of a store with unreadable records shows what it shows of the readable ones *)
Theorem store_view_oks own h sm pm om : oks (shown own h sm pm om) = hop_matching (oks own) h sm pm om.
Proof.
  unfold shown, f_triples_matching. cbn [f_quads_matching]. rewrite map_ok_oks, filter_ok_oks, hop_matching_unfold. reflexivity.
Qed.
Theorem store_view_triples_oks own h : oks (f_triples (FRoot false own) h) = hop_triples (oks own) h.
Proof.
  unfold f_triples. fold (shown own h (any_t N) (any_t N) (any_t N)). rewrite store_view_oks, hop_matching_unfold.
  destruct h; cbn [hop_triples hop_g]; try reflexivity.
  unfold union_triples, ds_quads_matching. f_equal. apply filter_all.
Qed.

(* item by item: the view of a concatenation is the concatenation of the views; an error item is shown as
   it is; a statement is shown iff it is in a selected graph and matches the pattern *)
Theorem store_view_app a b h sm pm om : shown (a ++ b) h sm pm om = shown a h sm pm om ++ shown b h sm pm om.
Proof. unfold shown, f_triples_matching. cbn [f_quads_matching]. rewrite filter_ok_app, map_ok_app. reflexivity. Qed.
Theorem store_view_err c h sm pm om : shown [IErr c] h sm pm om = [IErr c].
Proof. reflexivity. Qed.
Theorem store_view_ok q h sm pm om :
  shown [IOk q] h sm pm om = if triple_matches N sm pm om (qt q) && hop_g h (qg q) then [IOk (qt q)] else [].
Proof.
  unfold shown, f_triples_matching. cbn [f_quads_matching filter_ok filter].
  destruct (triple_matches N sm pm om (qt q) && hop_g h (qg q)); reflexivity.
Qed.
(* the enumeration goes on after an error *)
Theorem view_continues_after_error a c b h sm pm om :
  shown (a ++ IErr c :: b) h sm pm om = shown a h sm pm om ++ IErr c :: shown b h sm pm om.
Proof.
  change (IErr c :: b) with ([IErr c] ++ b). rewrite !store_view_app, store_view_err. reflexivity.
Qed.
(* and nothing is lost, wherever the errors are *)
Theorem nothing_lost own h sm pm om q :
  In (IOk q) own -> triple_matches N sm pm om (qt q) = true -> hop_g h (qg q) = true ->
  In (IOk (qt q)) (shown own h sm pm om).
Proof.
  intros Hin Ht Hg. unfold shown, f_triples_matching. cbn [f_quads_matching]. unfold map_ok.
  apply in_map_iff. exists (IOk q). split; auto. unfold filter_ok. apply filter_In. split; auto.
  rewrite Ht, Hg. reflexivity.
Qed.
Theorem nothing_invented own h sm pm om t :
  In (IOk t) (shown own h sm pm om) ->
  exists q, In (IOk q) own /\ qt q = t /\ triple_matches N sm pm om t = true /\ hop_g h (qg q) = true.
Proof.
  unfold shown, f_triples_matching. cbn [f_quads_matching]. unfold map_ok. intros H.
  apply in_map_iff in H. destruct H as [[q|c] [E H]]; try discriminate. inversion E; subst.
  unfold filter_ok in H. apply filter_In in H. destruct H as [H1 H2]. apply andb_true_iff in H2.
  exists q. tauto.
Qed.

(* ---------- every view (views of views included): a pattern query is the filter of the enumeration,
   error items included ---------- *)
Lemma to_default_qt q : qt (to_default q) = qt q.
Proof. reflexivity. Qed.
Lemma f_quads_matching_is_filter : forall v sm pm om gm,
  f_quads_matching v sm pm om gm =
  filter_ok (fun q => triple_matches N sm pm om (qt q)) (f_quads_matching v (any_t N) (any_t N) (any_t N) gm).
Proof.
  induction v as [[|] own | d IH h]; intros sm pm om gm; cbn [f_quads_matching].
  - destruct (gm None); auto. rewrite filter_ok_filter_ok. apply filter_ok_ext. intros a. reflexivity.
  - rewrite filter_ok_filter_ok. apply filter_ok_ext. intros a. cbn. apply andb_comm.
  - destruct (gm None); auto. rewrite (IH sm pm om). rewrite filter_ok_map_ok. reflexivity.
Qed.
Theorem seq_matching_is_filter v h sm pm om :
  f_triples_matching v h sm pm om = filter_ok (triple_matches N sm pm om) (f_triples v h).
Proof.
  unfold f_triples, f_triples_matching. rewrite f_quads_matching_is_filter. rewrite filter_ok_map_ok. reflexivity.
Qed.
Theorem seq_quads_matching_default v sm pm om gm :
  is_adapter v = true -> gm None = false -> f_quads_matching v sm pm om gm = [].
Proof. destruct v as [[|] own | d h]; cbn [is_adapter f_quads_matching]; intros H1 H2; try discriminate; rewrite H2; reflexivity. Qed.

(* the statements shown by any view path, errors erased, are those of Model.v's path_quads *)
Fixpoint view_ds (v : fview) : dataset N :=
  match v with
  | FRoot _ own => oks own
  | FGad d h => gad_quads N (hop_triples (view_ds d) h)
  end.
Fixpoint root_default (v : fview) : Prop :=
  match v with
  | FRoot true own => Forall (fun q => qg q = None) (oks own)
  | FRoot false _ => True
  | FGad d _ => root_default d
  end.
Lemma view_ds_mk_view : forall p v, view_ds (mk_view v p) = path_quads (view_ds v) p.
Proof. induction p as [|h p IH]; intros v; cbn [mk_view path_quads]; auto. rewrite IH. reflexivity. Qed.
Lemma root_default_mk_view : forall p v, root_default v -> root_default (mk_view v p).
Proof. induction p as [|h p IH]; intros v H; cbn [mk_view]; auto. Qed.
Lemma hop_triples_unfold d h : hop_triples d h = map qt (ds_quads_matching N d (any_t N) (any_t N) (any_t N) (hop_g h)).
Proof.
  destruct h; cbn [hop_triples hop_g]; try reflexivity.
  unfold union_triples, ds_quads_matching. f_equal. symmetry. apply filter_all.
Qed.
Lemma filter_default_only (f : tq -> bool) (gm : gmatch N) (l : list tq) :
  Forall (fun q => qg q = None) l ->
  filter (fun q => f q && gm (qg q)) l = if gm None then filter f l else [].
Proof.
  induction 1 as [|q l Hq Hl IH]; cbn [filter]. { destruct (gm None); reflexivity. }
  rewrite Hq, IH. destruct (gm None); rewrite ?andb_true_r, ?andb_false_r; reflexivity.
Qed.
Lemma gad_quads_default (l : list tt) : Forall (fun q : tq => qg q = None) (gad_quads N l).
Proof. unfold gad_quads. apply Forall_forall. intros q H. apply in_map_iff in H. destruct H as [t [E _]]. subst. reflexivity. Qed.
Lemma filter_map_comm {A B} (f : B -> bool) (g : A -> B) l : filter f (map g l) = map g (filter (fun a => f (g a)) l).
Proof. induction l as [|a l IH]; cbn [map filter]; auto. destruct (f (g a)); cbn [map]; rewrite IH; reflexivity. Qed.
Lemma filter_filter2 {A} (f g : A -> bool) l : filter f (filter g l) = filter (fun a => g a && f a) l.
Proof. induction l as [|a l IH]; cbn [filter]; auto. destruct (g a); cbn [filter andb]; [destruct (f a)|]; rewrite IH; reflexivity. Qed.
Theorem view_oks : forall v sm pm om gm, root_default v ->
  oks (f_quads_matching v sm pm om gm) = ds_quads_matching N (view_ds v) sm pm om gm.
Proof.
  induction v as [[|] own | d IH h]; intros sm pm om gm HR; cbn [f_quads_matching view_ds root_default] in *.
  - unfold ds_quads_matching. rewrite (filter_default_only _ gm _ HR). destruct (gm None); auto. apply filter_ok_oks.
  - apply filter_ok_oks.
  - unfold ds_quads_matching at 1. rewrite (filter_default_only _ gm _ (gad_quads_default _)).
    destruct (gm None); auto. rewrite map_ok_oks, (IH _ _ _ _ HR), hop_triples_unfold.
    unfold gad_quads. rewrite map_map, filter_map_comm.
    unfold ds_quads_matching. rewrite filter_filter2. unfold to_default.
    f_equal. apply filter_ext. intros q. cbn [qt]. unfold any_t, triple_matches at 2. cbn [andb].
    destruct (triple_matches N sm pm om (qt q)); destruct (hop_g h (qg q)); reflexivity.
Qed.
(* what an observation of Model.v sees is what the complete sequence holds, errors erased *)
Theorem seq_path_oks gs own p h sm pm om :
  root_default (FRoot gs own) ->
  oks (f_triples_matching (mk_view (FRoot gs own) p) h sm pm om) = hop_matching (path_quads (oks own) p) h sm pm om.
Proof.
  intros HR. unfold f_triples_matching. rewrite map_ok_oks, view_oks by (apply root_default_mk_view; exact HR).
  rewrite view_ds_mk_view, hop_matching_unfold. reflexivity.
Qed.
Theorem seq_path_quads_oks gs own p sm pm om gm :
  root_default (FRoot gs own) ->
  oks (f_quads_matching (mk_view (FRoot gs own) p) sm pm om gm) = ds_quads_matching N (path_quads (oks own) p) sm pm om gm.
Proof. intros HR. rewrite view_oks by (apply root_default_mk_view; exact HR). rewrite view_ds_mk_view. reflexivity. Qed.

(* ---------- the store's enumeration under a plan ---------- *)
Lemma oks_errs_at pl here : oks (errs_at pl here) = [].
Proof.
  unfold errs_at. induction pl as [|pc pl IH]; cbn [flat_map]; auto. rewrite oks_app, IH.
  destruct (here (fst pc)); reflexivity.
Qed.
Theorem with_plan_oks pl : forall l i, oks (with_plan_from pl i l) = l.
Proof.
  induction l as [|q l IH]; intros i; cbn [with_plan_from]. { apply oks_errs_at. }
  rewrite oks_app, oks_errs_at. cbn [app]. change (IOk q :: with_plan_from pl (N.succ i) l) with ([IOk q] ++ with_plan_from pl (N.succ i) l).
  rewrite oks_app, IH. reflexivity.
Qed.
Theorem with_plan_nil : forall l i, with_plan_from [] i l = map IOk l.
Proof. induction l as [|q l IH]; intros i; cbn [with_plan_from errs_at flat_map app map]; auto. rewrite IH. reflexivity. Qed.

(* ---------- the histories of ModelErr.v are embedded unchanged ---------- *)
Theorem srun_embeds sk gs pl : forall ops st p, srun sk gs pl (st, p) (map SE ops) = map SX (erun sk pl st ops).
Proof.
  induction ops as [|o ops IH]; intros st p; cbn [map srun erun sstep fst snd]; auto.
  destruct (estep sk pl st o) as [st' r]. rewrite IH. reflexivity.
Qed.
Lemma list_eqb_map_SX : forall a b, list_eqb sout_eqb (map SX a) (map SX b) = list_eqb eout_eqb a b.
Proof. induction a as [|x a IH]; intros [|y b]; simpl; auto. rewrite IH. reflexivity. Qed.
Theorem scase_embeds sk gs pl init ops obs :
  scase_ok sk gs pl init (map SE ops) (map SX obs) = ecase_ok sk pl init ops obs.
Proof. unfold scase_ok, ecase_ok. rewrite srun_embeds, list_eqb_map_SX. reflexivity. Qed.
(* an observation of a complete sequence leaves the state alone *)
Theorem sseq_keeps_state sk gs pl st own x : fst (sstep sk gs pl st (SSeq own x)) = st.
Proof. reflexivity. Qed.
