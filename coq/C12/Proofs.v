(* C12/Proofs.v -- lemmas and theorems about the model of the JSON-LD serializer engine. *)
From Coq Require Import Permutation.
From Sophia.C12 Require Import Model.

(* ================================================================== *)
(* generic facts about association lists                               *)
(* ================================================================== *)
Section AlistFacts.
Context {K V : Type} (eqb : K -> K -> bool).
Hypothesis eqb_spec : forall a b, reflect (a = b) (eqb a b).

Lemma eqb_refl a : eqb a a = true.
Proof. destruct (eqb_spec a a); congruence. Qed.
Lemma eqb_neq a b : a <> b -> eqb a b = false.
Proof. destruct (eqb_spec a b); congruence. Qed.

Lemma aget_aupd_same (l : list (K * V)) k f :
  aget eqb (aupd eqb l k f) k = Some (f (aget eqb l k)).
Proof.
  induction l as [|[k' v] l IH]; simpl.
  - rewrite eqb_refl. reflexivity.
  - destruct (eqb k k') eqn:E; simpl; rewrite E; auto.
Qed.

Lemma aget_aupd_other (l : list (K * V)) k k' f :
  k <> k' -> aget eqb (aupd eqb l k f) k' = aget eqb l k'.
Proof.
  intros Hn. induction l as [|[k0 v] l IH]; simpl.
  - rewrite eqb_neq; auto.
  - destruct (eqb k k0) eqn:E; simpl.
    + destruct (eqb_spec k k0); try discriminate. subst.
      rewrite !(eqb_neq k' k0) by congruence. reflexivity.
    + destruct (eqb k' k0); auto.
Qed.

Lemma aget_In (l : list (K * V)) k v : aget eqb l k = Some v -> In (k, v) l.
Proof.
  induction l as [|[k0 v0] l IH]; simpl; [discriminate|].
  destruct (eqb_spec k k0); intros H.
  - injection H as ->. subst. auto.
  - auto.
Qed.

Lemma In_aget (l : list (K * V)) k v : NoDup (map fst l) -> In (k, v) l -> aget eqb l k = Some v.
Proof.
  induction l as [|[k0 v0] l IH]; simpl; [tauto|]. intros Hnd [E|H].
  - injection E as -> ->. rewrite eqb_refl. reflexivity.
  - inversion Hnd as [|? ? Hn Hnd']; subst. destruct (eqb_spec k k0) as [->|].
    + exfalso. apply Hn. apply (in_map fst) in H. exact H.
    + auto.
Qed.

Lemma aget_None_notin (l : list (K * V)) k : aget eqb l k = None -> ~ In k (map fst l).
Proof.
  induction l as [|[k0 v0] l IH]; simpl; [tauto|].
  destruct (eqb_spec k k0); [discriminate|]. intros H [E|E]; [congruence|]. apply IH; auto.
Qed.

Lemma aget_Some_in (l : list (K * V)) k v : aget eqb l k = Some v -> In k (map fst l).
Proof. intros H. apply aget_In in H. apply (in_map fst) in H. exact H. Qed.

Lemma in_keys_aget (l : list (K * V)) k : In k (map fst l) -> exists v, aget eqb l k = Some v.
Proof.
  destruct (aget eqb l k) eqn:E; [eauto|]. intros H. apply aget_None_notin in E. tauto.
Qed.

Lemma aupd_keys (l : list (K * V)) k f :
  map fst (aupd eqb l k f) =
  match aget eqb l k with Some _ => map fst l | None => map fst l ++ [k] end.
Proof.
  induction l as [|[k0 v0] l IH]; simpl; [reflexivity|].
  destruct (eqb k k0) eqn:E; simpl; [reflexivity|].
  rewrite IH. destruct (aget eqb l k); reflexivity.
Qed.

Lemma aupd_nodup (l : list (K * V)) k f :
  NoDup (map fst l) -> NoDup (map fst (aupd eqb l k f)).
Proof.
  intros H. rewrite aupd_keys. destruct (aget eqb l k) eqn:E; [exact H|].
  apply aget_None_notin in E.
  apply (Permutation_NoDup (l := k :: map fst l)).
  - apply Permutation_cons_append.
  - constructor; auto.
Qed.

Lemma in_keys_aupd (l : list (K * V)) k f x :
  In x (map fst (aupd eqb l k f)) <-> In x (map fst l) \/ x = k.
Proof.
  rewrite aupd_keys. destruct (aget eqb l k) eqn:E.
  - split; [auto|]. intros [H| ->]; [exact H|]. eapply aget_Some_in; eauto.
  - rewrite in_app_iff. simpl. intuition.
Qed.

Lemma aupd_length_ge (l : list (K * V)) k f : (length l <= length (aupd eqb l k f))%nat.
Proof.
  induction l as [|[k0 v0] l IH]; simpl; [lia|]. destruct (eqb k k0); simpl; lia.
Qed.

(* lookup after a filter that only looks at the key *)
Lemma aget_filter_key (P : K -> bool) (l : list (K * V)) k :
  aget eqb (filter (fun e => P (fst e)) l) k = if P k then aget eqb l k else None.
Proof.
  induction l as [|[k0 v0] l IH]; simpl.
  - destruct (P k); reflexivity.
  - destruct (P k0) eqn:E0; simpl.
    + destruct (eqb_spec k k0).
      * subst. rewrite E0. reflexivity.
      * exact IH.
    + destruct (eqb_spec k k0).
      * subst. rewrite IH, E0. reflexivity.
      * exact IH.
Qed.

(* a two-entry map with duplicate-free keys has no third key *)
Lemma two_keys (l : list (K * V)) a b x y c z :
  NoDup (map fst l) -> length l = 2%nat -> a <> b ->
  aget eqb l a = Some x -> aget eqb l b = Some y -> aget eqb l c = Some z -> c = a \/ c = b.
Proof.
  intros Hnd Hlen Hab Ha Hb Hc.
  destruct l as [|[k1 v1] [|[k2 v2] [|? ?]]]; try discriminate.
  simpl in *.
  destruct (eqb_spec a k1), (eqb_spec a k2), (eqb_spec b k1), (eqb_spec b k2),
           (eqb_spec c k1), (eqb_spec c k2); subst; try discriminate; try congruence; auto.
Qed.
End AlistFacts.

(* ================================================================== *)
(* the boolean equalities decide equality                              *)
(* ================================================================== *)
Lemma gkey_eqb_spec a b : reflect (a = b) (gkey_eqb a b).
Proof.
  destruct a as [x|], b as [y|]; simpl; try (constructor; congruence).
  destruct (N.eqb_spec x y); constructor; congruence.
Qed.
Lemma nkey_eqb_spec a b : reflect (a = b) (nkey_eqb a b).
Proof.
  destruct a as [g x], b as [h y]. unfold nkey_eqb; simpl.
  destruct (gkey_eqb_spec g h); simpl; [|constructor; congruence].
  destruct (N.eqb_spec x y); constructor; congruence.
Qed.
Lemma pkey_eqb_spec a b : reflect (a = b) (pkey_eqb a b).
Proof.
  destruct a, b; simpl; try (constructor; congruence).
  destruct (N.eqb_spec p p0); constructor; congruence.
Qed.
Lemma robj_eqb_spec a b : reflect (a = b) (robj_eqb a b).
Proof.
  destruct a, b; simpl; try (constructor; congruence).
  - destruct (N.eqb_spec l l0); constructor; congruence.
  - destruct (nkey_eqb_spec k k0); constructor; congruence.
Qed.
Lemma parent_eqb_spec a b : reflect (a = b) (parent_eqb a b).
Proof.
  destruct a as [k x], b as [h y]. unfold parent_eqb; simpl.
  destruct (nkey_eqb_spec k h); simpl; [|constructor; congruence].
  destruct (N.eqb_spec x y); constructor; congruence.
Qed.
Lemma Neqb_spec a b : reflect (a = b) (N.eqb a b).
Proof. apply N.eqb_spec. Qed.

Lemma fold_left_snoc_ind {A B} (f : A -> B -> A) (P : A -> list B -> Prop) a0 :
  P a0 [] ->
  (forall a l b, P a l -> P (f a b) (l ++ [b])) ->
  forall l, P (fold_left f l a0) l.
Proof.
  intros H0 Hs l. induction l as [|b l IH] using rev_ind; [exact H0|].
  rewrite fold_left_app. simpl. apply Hs. exact IH.
Qed.

(* ================================================================== *)
(* (1) the filter                                                      *)
(* ================================================================== *)
Section Filter.
Variable info : N -> tinfo.
Variable o : opts.

(* the property's wording: subject IRI or blank, predicate IRI, graph name IRI, blank or default;
   the code also requires the object to be an IRI, a blank node or a literal *)
Definition node_kind (t : N) : Prop := kind info t = KIri \/ kind info t = KBlank.
Definition representable (q : quad) : Prop :=
  node_kind (qs q) /\ kind info (qp q) = KIri
  /\ (node_kind (qo q) \/ kind info (qo q) = KLit)
  /\ match qg q with None => True | Some g => node_kind g end.

Lemma is_subject_spec t : is_subject info t = true <-> node_kind t.
Proof.
  unfold is_subject, is_iri, is_blank, node_kind. destruct (kind info t); simpl; intuition congruence.
Qed.

Theorem is_jsonld_spec q : is_jsonld info q = true <-> representable q.
Proof.
  unfold is_jsonld, representable.
  rewrite !andb_true_iff, is_subject_spec.
  assert (Hp : is_iri info (qp q) = true <-> kind info (qp q) = KIri).
  { unfold is_iri. destruct (kind info (qp q)); intuition congruence. }
  assert (Ho : is_object info (qo q) = true <-> node_kind (qo q) \/ kind info (qo q) = KLit).
  { unfold is_object, is_iri, is_blank, is_lit, node_kind.
    destruct (kind info (qo q)); simpl; intuition congruence. }
  rewrite Hp, Ho.
  destruct (qg q) as [g|]; [rewrite is_subject_spec|]; intuition.
Qed.

Lemma process_quad_skip s q : is_jsonld info q = false -> process_quad info o s q = s.
Proof. intros H. unfold process_quad. rewrite H. reflexivity. Qed.

Lemma fold_process_filter d : forall s,
  fold_left (process_quad info o) d s = fold_left (process_quad info o) (filter (is_jsonld info) d) s.
Proof.
  induction d as [|q d IH]; intros s; simpl; [reflexivity|].
  destruct (is_jsonld info q) eqn:E; simpl.
  - apply IH.
  - rewrite process_quad_skip by exact E. apply IH.
Qed.

(* exactly the quads rejected by is_jsonld are ignored: the state, hence the document, is the
   one obtained from the accepted quads alone *)
Theorem process_filter d : process info o d = process info o (filter (is_jsonld info) d).
Proof. apply fold_process_filter. Qed.
Theorem serialise_filter d : serialise info o d = serialise info o (filter (is_jsonld info) d).
Proof. unfold serialise. rewrite <- process_filter. reflexivity. Qed.
End Filter.

(* ================================================================== *)
(* invariants of process_quads                                         *)
(* ================================================================== *)
Section Process.
Variable info : N -> tinfo.
Variable o : opts.
Notation is_jsonld := (is_jsonld info).
Notation is_blank := (is_blank info).
Notation is_lit := (is_lit info).
Notation is_iri := (is_iri info).
Notation process_quad := (process_quad info o).
Notation obj_of := (obj_of info).
Notation pkey_of := (pkey_of info o).

(* values stored for key p of node k *)
Definition pat (ns : list (nkey * props)) (k : nkey) (p : pkey) : list robj :=
  match aget nkey_eqb ns k with
  | Some ps => match aget pkey_eqb ps p with Some v => v | None => [] end
  | None => []
  end.

Lemma pat_index ns k0 k p : pat (index ns k0) k p = pat ns k p.
Proof.
  unfold pat, index. destruct (nkey_eqb_spec k0 k) as [->|Hn].
  - rewrite (aget_aupd_same _ nkey_eqb_spec). destruct (aget nkey_eqb ns k); reflexivity.
  - rewrite (aget_aupd_other _ nkey_eqb_spec) by exact Hn. reflexivity.
Qed.

Lemma existsb_robj x v : existsb (robj_eqb x) v = true <-> In x v.
Proof.
  rewrite existsb_exists. split.
  - intros [y [Hy E]]. destruct (robj_eqb_spec x y); [subst; auto|discriminate].
  - intros H. exists x. split; auto. destruct (robj_eqb_spec x x); congruence.
Qed.
Lemma existsb_nkey x v : existsb (nkey_eqb x) v = true <-> In x v.
Proof.
  rewrite existsb_exists. split.
  - intros [y [Hy E]]. destruct (nkey_eqb_spec x y); [subst; auto|discriminate].
  - intros H. exists x. split; auto. destruct (nkey_eqb_spec x x); congruence.
Qed.

Lemma In_vec_push v x y : In y (vec_push_if_new v x) <-> In y v \/ y = x.
Proof.
  unfold vec_push_if_new. destruct (existsb (robj_eqb x) v) eqn:E.
  - apply existsb_robj in E. split; [auto|]. intros [H| ->]; auto.
  - rewrite in_app_iff. simpl. intuition.
Qed.
Lemma vec_push_nonempty v x : vec_push_if_new v x <> [].
Proof.
  unfold vec_push_if_new. destruct (existsb (robj_eqb x) v) eqn:E.
  - destruct v; [discriminate|congruence].
  - destruct v; discriminate.
Qed.
Lemma In_nkey_push v x y : In y (nkey_push_if_new v x) <-> In y v \/ y = x.
Proof.
  unfold nkey_push_if_new. destruct (existsb (nkey_eqb x) v) eqn:E.
  - apply existsb_nkey in E. split; [auto|]. intros [H| ->]; auto.
  - rewrite in_app_iff. simpl. intuition.
Qed.

Definition dflt {A} (x : option (list A)) : list A := match x with Some v => v | None => [] end.

Lemma aget_props_push ps p0 x p :
  aget pkey_eqb (props_push ps p0 x) p =
  if pkey_eqb p0 p then Some (vec_push_if_new (dflt (aget pkey_eqb ps p0)) x) else aget pkey_eqb ps p.
Proof.
  unfold props_push. destruct (pkey_eqb_spec p0 p) as [->|Hn].
  - rewrite (aget_aupd_same _ pkey_eqb_spec). destruct (aget pkey_eqb ps p); reflexivity.
  - apply (aget_aupd_other _ pkey_eqb_spec). exact Hn.
Qed.

Lemma aget_node_push ns k0 p0 x k :
  aget nkey_eqb (node_push ns k0 p0 x) k =
  if nkey_eqb k0 k then Some (props_push (dflt (aget nkey_eqb ns k0)) p0 x) else aget nkey_eqb ns k.
Proof.
  unfold node_push. destruct (nkey_eqb_spec k0 k) as [->|Hn].
  - rewrite (aget_aupd_same _ nkey_eqb_spec). destruct (aget nkey_eqb ns k); reflexivity.
  - apply (aget_aupd_other _ nkey_eqb_spec). exact Hn.
Qed.

Lemma aget_index ns k0 k :
  aget nkey_eqb (index ns k0) k =
  if nkey_eqb k0 k then Some (dflt (aget nkey_eqb ns k0)) else aget nkey_eqb ns k.
Proof.
  unfold index. destruct (nkey_eqb_spec k0 k) as [->|Hn].
  - rewrite (aget_aupd_same _ nkey_eqb_spec). destruct (aget nkey_eqb ns k); reflexivity.
  - apply (aget_aupd_other _ nkey_eqb_spec). exact Hn.
Qed.

Lemma In_pat_node_push ns k0 p0 x k p y :
  In y (pat (node_push ns k0 p0 x) k p) <-> In y (pat ns k p) \/ (k = k0 /\ p = p0 /\ y = x).
Proof.
  unfold pat. rewrite aget_node_push. destruct (nkey_eqb_spec k0 k) as [->|Hn].
  - rewrite aget_props_push. destruct (pkey_eqb_spec p0 p) as [->|Hp].
    + rewrite In_vec_push. destruct (aget nkey_eqb ns k) as [ps|]; simpl.
      * destruct (aget pkey_eqb ps p); simpl; intuition.
      * intuition.
    + destruct (aget nkey_eqb ns k) as [ps|]; simpl; intuition congruence.
  - intuition congruence.
Qed.

(* what one quad contributes to the node map *)
Definition contrib (q : quad) (k : nkey) (p : pkey) (y : robj) : Prop :=
  (k = skey q /\ p = pkey_of q /\ y = obj_of q)
  \/ (exists g, qg q = Some g /\ k = (None, g) /\ p = PGraph /\ y = ONode (skey q)).

Lemma pat_step s q k p y : is_jsonld q = true ->
  In y (pat (nodes (process_quad s q)) k p) <-> In y (pat (nodes s) k p) \/ contrib q k p y.
Proof.
  intros Hj. unfold process_quad, contrib. rewrite Hj. simpl.
  rewrite In_pat_node_push.
  assert (H3 : forall ns, In y (pat (if is_lit (qo q) then ns else index ns (qg q, qo q)) k p)
                          <-> In y (pat ns k p)).
  { intros ns. destruct (is_lit (qo q)); [reflexivity|]. rewrite pat_index. reflexivity. }
  rewrite H3. destruct (qg q) as [g|] eqn:Eg.
  - rewrite In_pat_node_push, !pat_index. split.
    + intros [[H|H]|H]; auto. right. right. exists g. intuition.
    + intros [H|[H|[g' [E H]]]]; auto. injection E as <-. left. right. intuition.
  - rewrite pat_index. split.
    + intros [H|H]; auto.
    + intros [H|[H|[g' [E H]]]]; auto. discriminate.
Qed.

Definition key_of (q : quad) (k : nkey) : Prop :=
  k = skey q \/ (exists g, qg q = Some g /\ k = (None, g)) \/ (is_lit (qo q) = false /\ k = (qg q, qo q)).

Lemma keys_step s q k : is_jsonld q = true ->
  In k (map fst (nodes (process_quad s q))) <-> In k (map fst (nodes s)) \/ key_of q k.
Proof.
  intros Hj. unfold process_quad, key_of. rewrite Hj. simpl.
  unfold node_push at 1. rewrite (in_keys_aupd _ nkey_eqb_spec).
  assert (H3 : forall ns, In k (map fst (if is_lit (qo q) then ns else index ns (qg q, qo q)))
                          <-> In k (map fst ns) \/ (is_lit (qo q) = false /\ k = (qg q, qo q))).
  { intros ns. destruct (is_lit (qo q)).
    - intuition discriminate.
    - unfold index. rewrite (in_keys_aupd _ nkey_eqb_spec). intuition. }
  rewrite H3. destruct (qg q) as [g|] eqn:Eg.
  - unfold node_push, index. rewrite !(in_keys_aupd _ nkey_eqb_spec). split.
    + intros H. assert (Hg : exists g0, Some g = Some g0 /\ (@None N, g) = (@None N, g0)) by eauto.
      intuition (subst; auto).
    + intros [H|[H|[[g' [E H]]|H]]]; auto.
      * tauto.
      * injection E as <-. tauto.
  - unfold index. rewrite (in_keys_aupd _ nkey_eqb_spec). split.
    + intros H. intuition.
    + intros [H|[H|[[g' [E H]]|H]]]; auto; try discriminate; tauto.
Qed.

(* well-formed node maps *)
Definition wf_props (ps : props) : Prop :=
  NoDup (map fst ps) /\ forall p v, aget pkey_eqb ps p = Some v -> v <> [].
Definition wf_nodes (ns : list (nkey * props)) : Prop :=
  NoDup (map fst ns) /\ forall k ps, aget nkey_eqb ns k = Some ps -> wf_props ps.

Lemma wf_props_nil : wf_props [].
Proof. split; [constructor|]. intros p v H. discriminate. Qed.
Lemma wf_props_push ps p x : wf_props ps -> wf_props (props_push ps p x).
Proof.
  intros [H1 H2]. split.
  - apply (aupd_nodup _ pkey_eqb_spec). exact H1.
  - intros p' v. rewrite aget_props_push. destruct (pkey_eqb p p').
    + intros E. injection E as <-. apply vec_push_nonempty.
    + apply H2.
Qed.
Lemma wf_index ns k : wf_nodes ns -> wf_nodes (index ns k).
Proof.
  intros [H1 H2]. split.
  - apply (aupd_nodup _ nkey_eqb_spec). exact H1.
  - intros k' ps. rewrite aget_index. destruct (nkey_eqb k k').
    + intros E. injection E as <-. destruct (aget nkey_eqb ns k) eqn:E; simpl; [eauto|apply wf_props_nil].
    + apply H2.
Qed.
Lemma wf_node_push ns k p x : wf_nodes ns -> wf_nodes (node_push ns k p x).
Proof.
  intros [H1 H2]. split.
  - apply (aupd_nodup _ nkey_eqb_spec). exact H1.
  - intros k' ps. rewrite aget_node_push. destruct (nkey_eqb k k').
    + intros E. injection E as <-. apply wf_props_push.
      destruct (aget nkey_eqb ns k) eqn:E; simpl; [eauto|apply wf_props_nil].
    + apply H2.
Qed.
Lemma wf_step s q : wf_nodes (nodes s) -> wf_nodes (nodes (process_quad s q)).
Proof.
  intros H. unfold process_quad. destruct (is_jsonld q); simpl; [|exact H].
  apply wf_node_push.
  assert (H2 : wf_nodes match qg q with
                        | Some g => node_push (index (index (nodes s) (skey q)) (None, g)) (None, g) PGraph (ONode (skey q))
                        | None => index (nodes s) (skey q) end).
  { destruct (qg q); [apply wf_node_push|]; repeat apply wf_index; exact H. }
  destruct (is_lit (qo q)); [|apply wf_index]; exact H2.
Qed.

(* unique_parent *)
Definition merge (ov : option (option parent)) (par : parent) : option parent :=
  match ov with
  | None => Some par
  | Some (Some p) => if parent_eqb p par then Some p else None
  | Some None => None
  end.
Lemma up_step s q b : is_jsonld q = true ->
  aget N.eqb (uparent (process_quad s q)) b =
  if is_blank (qo q) && (qo q =? b) then Some (merge (aget N.eqb (uparent s) b) (skey q, qp q))
  else aget N.eqb (uparent s) b.
Proof.
  intros Hj. unfold process_quad. rewrite Hj. simpl.
  destruct (is_blank (qo q)); simpl; [|reflexivity].
  unfold up_update. destruct (N.eqb_spec (qo q) b) as [->|Hn].
  - rewrite (aget_aupd_same _ Neqb_spec). reflexivity.
  - apply (aget_aupd_other _ Neqb_spec). exact Hn.
Qed.

Definition up_inv (u : list (N * option parent)) (D : list quad) : Prop :=
  forall b, match aget N.eqb u b with
            | None => forall q, In q D -> is_blank (qo q) = true -> qo q <> b
            | Some (Some par) =>
                is_blank b = true
                /\ (exists q, In q D /\ qo q = b /\ (skey q, qp q) = par)
                /\ (forall q, In q D -> qo q = b -> (skey q, qp q) = par)
            | Some None => True
            end.

Lemma up_inv_step s q D : is_jsonld q = true ->
  up_inv (uparent s) D -> up_inv (uparent (process_quad s q)) (D ++ [q]).
Proof.
  intros Hj H b. rewrite up_step by exact Hj. specialize (H b).
  destruct (is_blank (qo q) && (qo q =? b)) eqn:E.
  - apply andb_true_iff in E as [Eb Eq]. apply N.eqb_eq in Eq.
    destruct (aget N.eqb (uparent s) b) as [[par|]|]; simpl.
    + destruct (parent_eqb_spec par (skey q, qp q)) as [->|Hn]; [|exact Logic.I].
      destruct H as [Hb [[q0 [Hin Hq0]] Hall]]. split; [exact Hb|]. split.
      * exists q0. rewrite in_app_iff. auto.
      * intros q' Hin'. apply in_app_iff in Hin' as [Hin'|[<-|[]]]; auto.
    + exact Logic.I.
    + split; [congruence|]. split.
      * exists q. rewrite in_app_iff. simpl. auto.
      * intros q' Hin'. apply in_app_iff in Hin' as [Hin'|[<-|[]]]; [|reflexivity].
        intros Hq'. exfalso. apply (H q' Hin'); congruence.
  - destruct (aget N.eqb (uparent s) b) as [[par|]|].
    + destruct H as [Hb [[q0 [Hin Hq0]] Hall]]. split; [exact Hb|]. split.
      * exists q0. rewrite in_app_iff. auto.
      * intros q' Hin'. apply in_app_iff in Hin' as [Hin'|[<-|[]]]; auto.
        intros Hq. exfalso. rewrite Hq, Hb in E. simpl in E. rewrite N.eqb_refl in E. discriminate.
    + exact Logic.I.
    + intros q' Hin'. apply in_app_iff in Hin' as [Hin'|[<-|[]]]; auto.
      intros Hbq Hq. rewrite Hbq, Hq, N.eqb_refl in E. discriminate.
Qed.

(* everything the later proofs need about the state after the quads D *)
Record inv (s : st) (D : list quad) : Prop := mkInv {
  inv_jsonld : forall q, In q D -> is_jsonld q = true;
  inv_wf : wf_nodes (nodes s);
  inv_pat : forall k p y, In y (pat (nodes s) k p) <-> exists q, In q D /\ contrib q k p y;
  inv_keys : forall k, In k (map fst (nodes s)) <-> exists q, In q D /\ key_of q k;
  inv_up : up_inv (uparent s) D;
  inv_seeds : forall k, In k (seeds s) ->
      exists q, In q D /\ skey q = k /\ is_blank (qs q) = true /\ qp q = c_rest /\ qo q = c_nil;
  inv_cands : forall k, In k (cands s) ->
      exists q, In q D /\ skey q = k /\ is_blank (qs q) = true /\ qp q = c_direction
}.

Lemma inv_init : inv st0 [].
Proof.
  constructor; simpl.
  - tauto.
  - split; [constructor|]. intros k ps H. discriminate.
  - intros k p y. unfold pat. simpl. split; [tauto|]. intros [q [[] _]].
  - intros k. split; [tauto|]. intros [q [[] _]].
  - intros b. simpl. tauto.
  - tauto.
  - tauto.
Qed.

Lemma inv_step s D q : is_jsonld q = true -> inv s D -> inv (process_quad s q) (D ++ [q]).
Proof.
  intros Hj [I1 I2 I3 I4 I5 I6 I7]. constructor.
  - intros q' H. apply in_app_iff in H as [H|[<-|[]]]; auto.
  - apply wf_step. exact I2.
  - intros k p y. rewrite pat_step by exact Hj. rewrite I3. split.
    + intros [[q' [H1 H2]]|H].
      * exists q'. rewrite in_app_iff. auto.
      * exists q. rewrite in_app_iff. simpl. auto.
    + intros [q' [H1 H2]]. apply in_app_iff in H1 as [H1|[<-|[]]]; eauto.
  - intros k. rewrite keys_step by exact Hj. rewrite I4. split.
    + intros [[q' [H1 H2]]|H].
      * exists q'. rewrite in_app_iff. auto.
      * exists q. rewrite in_app_iff. simpl. auto.
    + intros [q' [H1 H2]]. apply in_app_iff in H1 as [H1|[<-|[]]]; eauto.
  - apply up_inv_step; assumption.
  - intros k. unfold process_quad. rewrite Hj. simpl.
    destruct (is_blank (qs q) && (qp q =? c_rest) && (qo q =? c_nil)) eqn:E.
    + rewrite In_nkey_push. intros [H| ->].
      * destruct (I6 k H) as [q' [H1 H2]]. exists q'. rewrite in_app_iff. auto.
      * apply andb_true_iff in E as [E E3]. apply andb_true_iff in E as [E1 E2].
        apply N.eqb_eq in E2, E3. exists q. rewrite in_app_iff. simpl. auto.
    + intros H. destruct (I6 k H) as [q' [H1 H2]]. exists q'. rewrite in_app_iff. auto.
  - intros k. unfold process_quad. rewrite Hj. simpl.
    match goal with |- In k (if ?c then _ else _) -> _ => destruct c eqn:E end.
    + rewrite In_nkey_push. intros [H| ->].
      * destruct (I7 k H) as [q' [H1 H2]]. exists q'. rewrite in_app_iff. auto.
      * apply andb_true_iff in E as [E E4]. apply andb_true_iff in E as [E E3].
        apply andb_true_iff in E as [E1 E2]. apply N.eqb_eq in E4.
        exists q. rewrite in_app_iff. simpl. auto.
    + intros H. destruct (I7 k H) as [q' [H1 H2]]. exists q'. rewrite in_app_iff. auto.
Qed.

Theorem inv_process d : inv (process info o d) (filter is_jsonld d).
Proof.
  unfold process.
  apply (fold_left_snoc_ind process_quad (fun s l => inv s (filter is_jsonld l))).
  - apply inv_init.
  - intros s l q H. rewrite filter_app. simpl. destruct (is_jsonld q) eqn:E.
    + apply inv_step; assumption.
    + rewrite app_nil_r. unfold Model.process_quad. rewrite E. exact H.
Qed.
End Process.

(* ================================================================== *)
(* (2) list nodes                                                      *)
(* ================================================================== *)
Lemma quad_eta q : q = mkQ (qs q) (qp q) (qo q) (qg q).
Proof. destruct q; reflexivity. Qed.
Lemma nkey_eta (k : nkey) : k = (fst k, snd k).
Proof. destruct k; reflexivity. Qed.

Section Marking.
Variable info : N -> tinfo.
Variable o : opts.
Variable s : st.
Variable D : list quad.
Hypothesis HI : inv info o s D.
Notation is_blank := (is_blank info).
Notation is_lit := (is_lit info).
Notation obj_of := (obj_of info).
Notation pkey_of := (pkey_of info o).

Lemma pat_get k p : pat (nodes s) k p = dflt (get_prop (get_node s k) p).
Proof.
  unfold pat, get_node, get_prop. destruct (aget nkey_eqb (nodes s) k); reflexivity.
Qed.

Lemma get_node_wf k : wf_props (get_node s k).
Proof.
  unfold get_node. destruct (aget nkey_eqb (nodes s) k) eqn:E.
  - destruct (inv_wf _ _ _ _ HI) as [_ H]. eauto.
  - apply wf_props_nil.
Qed.

Lemma get_prop_In k p v x : get_prop (get_node s k) p = Some v -> In x v -> In x (pat (nodes s) k p).
Proof. intros H Hx. rewrite pat_get, H. exact Hx. Qed.

Lemma In_pat_get k p x : In x (pat (nodes s) k p) -> exists v, get_prop (get_node s k) p = Some v /\ In x v.
Proof.
  rewrite pat_get. destruct (get_prop (get_node s k) p) as [v|]; simpl; [eauto|tauto].
Qed.

Lemma complete_obj q : In q D -> In (obj_of q) (pat (nodes s) (skey q) (pkey_of q)).
Proof. intros H. apply (inv_pat _ _ _ _ HI). exists q. split; [exact H|]. left. auto. Qed.
Lemma complete_graph q g : In q D -> qg q = Some g -> In (ONode (skey q)) (pat (nodes s) (None, g) PGraph).
Proof. intros H E. apply (inv_pat _ _ _ _ HI). exists q. split; [exact H|]. right. eauto. Qed.

Lemma pkey_of_cases q : pkey_of q = PType \/ pkey_of q = PIri (qp q).
Proof. unfold Model.pkey_of. destruct (_ && _ && _); auto. Qed.
Lemma pkey_of_iri q p : pkey_of q = PIri p -> qp q = p.
Proof. destruct (pkey_of_cases q) as [E|E]; rewrite E; congruence. Qed.
Lemma pkey_of_not_type q : qp q <> c_type -> pkey_of q = PIri (qp q).
Proof.
  intros H. unfold Model.pkey_of. destruct (N.eqb_spec (qp q) c_type); [contradiction|reflexivity].
Qed.
Lemma obj_of_inj q q' : qg q = qg q' -> obj_of q = obj_of q' -> qo q = qo q'.
Proof.
  unfold Model.obj_of. intros Eg. destruct (is_lit (qo q)), (is_lit (qo q')); congruence.
Qed.
Lemma obj_of_node q r : obj_of q = ONode r -> is_lit (qo q) = false /\ r = (qg q, qo q).
Proof. unfold Model.obj_of. destruct (is_lit (qo q)); [discriminate|]. intros E. injection E as <-. auto. Qed.
Lemma obj_of_blank q : is_blank (qo q) = true -> obj_of q = ONode (qg q, qo q).
Proof.
  unfold Model.obj_of, Model.is_lit, Model.is_blank. destruct (kind info (qo q)); try discriminate. reflexivity.
Qed.

(* contributions to a key other than @graph come from quads with that subject *)
Lemma sound_iri k p x : In x (pat (nodes s) k (PIri p)) ->
  exists q, In q D /\ k = skey q /\ qp q = p /\ x = obj_of q.
Proof.
  intros H. apply (inv_pat _ _ _ _ HI) in H as [q [Hq [[E1 [E2 E3]]|[g [_ [_ [E _]]]]]]]; [|discriminate].
  exists q. repeat split; auto. apply pkey_of_iri. auto.
Qed.

(* ---------- bnode_graphs ---------- *)
Lemma in_keys_entry (ns : list (nkey * props)) k : In k (map fst ns) -> exists ps, In (k, ps) ns.
Proof. rewrite in_map_iff. intros [[k' ps] [E H]]. simpl in E. subst. eauto. Qed.

Lemma ngraphs_unique g1 g2 b :
  ngraphs s b = 1%nat -> In (g1, b) (map fst (nodes s)) -> In (g2, b) (map fst (nodes s)) -> g1 = g2.
Proof.
  unfold ngraphs. intros Hlen H1 H2.
  destruct (inv_wf _ _ _ _ HI) as [Hnd _].
  apply in_keys_entry in H1 as [ps1 H1]. apply in_keys_entry in H2 as [ps2 H2].
  match type of Hlen with length ?fl = _ =>
    assert (F1 : In ((g1, b), ps1) fl) by (apply filter_In; split; [auto|apply N.eqb_refl]);
    assert (F2 : In ((g2, b), ps2) fl) by (apply filter_In; split; [auto|apply N.eqb_refl]);
    destruct fl as [|e [|e' l]]; try discriminate
  end.
  destruct F1 as [F1|[]], F2 as [F2|[]]. congruence.
Qed.

Lemma key_in_of_nonempty k : get_node s k <> [] -> In k (map fst (nodes s)).
Proof.
  unfold get_node. destruct (aget nkey_eqb (nodes s) k) eqn:E; [|congruence].
  intros _. eapply (aget_Some_in _ nkey_eqb_spec); eauto.
Qed.

Lemma subject_key q : In q D -> In (skey q) (map fst (nodes s)).
Proof. intros H. apply (inv_keys _ _ _ _ HI). exists q. split; auto. left. reflexivity. Qed.
Lemma graph_key q g : In q D -> qg q = Some g -> In (None, g) (map fst (nodes s)).
Proof. intros H E. apply (inv_keys _ _ _ _ HI). exists q. split; auto. right. left. eauto. Qed.

(* ---------- is_list_node ---------- *)
Lemma is_list_node_inv ps : is_list_node ps = true ->
  length ps = 2%nat /\ exists x r, get_prop ps (PIri c_first) = Some [x] /\ get_prop ps (PIri c_rest) = Some [ONode r].
Proof.
  unfold is_list_node. rewrite !andb_true_iff. intros [[H1 H2] H3].
  apply Nat.eqb_eq in H1. split; [exact H1|].
  destruct (get_prop ps (PIri c_first)) as [[|x [|? ?]]|]; try discriminate.
  destruct (get_prop ps (PIri c_rest)) as [[|[l|r] [|? ?]]|]; try discriminate.
  eauto.
Qed.

Lemma first_rest_neq : PIri c_first <> PIri c_rest.
Proof. discriminate. Qed.

(* what being a list node in a single graph says about the quads *)
Lemma list_node_quads k : is_list_node (get_node s k) = true -> ngraphs s (snd k) = 1%nat ->
  (forall q, In q D -> qs q = snd k -> qg q = fst k)
  /\ (forall q, In q D -> qg q <> Some (snd k))
  /\ exists f r, In (mkQ (snd k) c_first f (fst k)) D /\ In (mkQ (snd k) c_rest r (fst k)) D
       /\ is_lit r = false /\ rest_val (get_node s k) = ONode (fst k, r)
       /\ first_val (get_node s k) = obj_of (mkQ (snd k) c_first f (fst k))
       /\ forall q, In q D -> qs q = snd k -> (qp q = c_first /\ qo q = f) \/ (qp q = c_rest /\ qo q = r).
Proof.
  intros Hl Hn. pose proof (is_list_node_inv _ Hl) as [Hlen [x [r [Hf Hr]]]].
  assert (Hk : In k (map fst (nodes s))).
  { apply key_in_of_nonempty. intros E. rewrite E in Hlen. discriminate. }
  rewrite (nkey_eta k) in Hk.
  assert (Hgraph : forall q, In q D -> qs q = snd k -> qg q = fst k).
  { intros q Hq E. pose proof (subject_key q Hq) as H. unfold skey in H. rewrite E in H.
    eapply ngraphs_unique; eauto. }
  assert (Hkeys : forall p v, get_prop (get_node s k) p = Some v -> p = PIri c_first \/ p = PIri c_rest).
  { intros p v H. destruct (get_node_wf k) as [Hnd _].
    eapply (two_keys _ pkey_eqb_spec); eauto. apply first_rest_neq. }
  split; [exact Hgraph|]. split.
  { intros q Hq E. pose proof (graph_key q _ Hq E) as H.
    assert (Eg : None = fst k) by (eapply ngraphs_unique; eauto).
    pose proof (complete_graph q _ Hq E) as H2.
    assert (Ek : k = (None, snd k)) by (rewrite Eg; apply nkey_eta).
    rewrite <- Ek in H2. apply In_pat_get in H2 as [v [H2 _]].
    apply Hkeys in H2 as [H2|H2]; discriminate. }
  assert (Hx : In x (pat (nodes s) k (PIri c_first))) by (eapply get_prop_In; eauto; simpl; auto).
  assert (Hrr : In (ONode r) (pat (nodes s) k (PIri c_rest))) by (eapply get_prop_In; eauto; simpl; auto).
  apply sound_iri in Hx as [q0 [Hq0 [Ek0 [Ep0 Ex0]]]].
  apply sound_iri in Hrr as [q1 [Hq1 [Ek1 [Ep1 Ex1]]]].
  symmetry in Ex1. apply obj_of_node in Ex1 as [Hlit Er].
  exists (qo q0), (qo q1).
  assert (E0 : q0 = mkQ (snd k) c_first (qo q0) (fst k)).
  { rewrite (quad_eta q0) at 1. rewrite Ep0. rewrite Ek0. reflexivity. }
  assert (E1 : q1 = mkQ (snd k) c_rest (qo q1) (fst k)).
  { rewrite (quad_eta q1) at 1. rewrite Ep1. rewrite Ek1. reflexivity. }
  split; [rewrite <- E0; exact Hq0|]. split; [rewrite <- E1; exact Hq1|]. split; [exact Hlit|].
  split. { unfold rest_val. rewrite Hr. rewrite Er. rewrite Ek1. reflexivity. }
  split. { unfold first_val. rewrite Hf. rewrite <- E0. exact Ex0. }
  intros q Hq Es.
  assert (Eg : qg q = fst k) by auto.
  assert (Ek : skey q = k) by (unfold skey; rewrite Eg, Es; symmetry; apply nkey_eta).
  pose proof (complete_obj q Hq) as H. rewrite Ek in H.
  apply In_pat_get in H as [v [Hv Hin]].
  destruct (Hkeys _ _ Hv) as [Ep|Ep]; rewrite Ep in Hv.
  - left. split; [apply pkey_of_iri; exact Ep|].
    rewrite Hf in Hv. injection Hv as <-. destruct Hin as [Hin|[]].
    apply obj_of_inj; [rewrite Eg, Ek0; reflexivity|congruence].
  - right. split; [apply pkey_of_iri; exact Ep|].
    rewrite Hr in Hv. injection Hv as <-. destruct Hin as [Hin|[]].
    apply obj_of_inj; [rewrite Eg, Ek1; reflexivity|].
    rewrite <- Hin. rewrite Er. unfold Model.obj_of. rewrite Hlit. reflexivity.
Qed.

(* ---------- mark_list_node ---------- *)
Definition node_ok (k pk : nkey) : Prop :=
  is_blank (snd k) = true
  /\ (exists pp, aget N.eqb (uparent s) (snd k) = Some (Some (pk, pp))
                 /\ (mode10 o = true -> pp <> c_first))
  /\ fst pk = fst k
  /\ ngraphs s (snd k) = 1%nat
  /\ is_list_node (get_node s k) = true.
Definition good (m : marks) : Prop := forall k pk, aget nkey_eqb m k = Some pk -> node_ok k pk.
Definition closed (m : marks) : Prop :=
  forall k pk, aget nkey_eqb m k = Some pk ->
  forall r, rest_val (get_node s k) = ONode r -> snd r = c_nil \/ aget nkey_eqb m r = Some k.
Definition pre (m : marks) (k : nkey) : Prop :=
  is_list_node (get_node s k) = true ->
  forall r, rest_val (get_node s k) = ONode r -> snd r = c_nil \/ aget nkey_eqb m r = Some k.

Lemma node_ok_fun k a b : node_ok k a -> node_ok k b -> a = b.
Proof. intros [_ [[pa [Ha _]] _]] [_ [[pb [Hb _]] _]]. congruence. Qed.

Lemma aget_mark_insert m k pk x :
  aget nkey_eqb (mark_insert m k pk) x = if nkey_eqb k x then Some pk else aget nkey_eqb m x.
Proof.
  unfold mark_insert. destruct (nkey_eqb_spec k x) as [->|Hn].
  - apply (aget_aupd_same _ nkey_eqb_spec).
  - apply (aget_aupd_other _ nkey_eqb_spec). exact Hn.
Qed.

Lemma insert_good m k pk : good m -> node_ok k pk -> good (mark_insert m k pk).
Proof.
  intros Hg Hok x px. rewrite aget_mark_insert. destruct (nkey_eqb_spec k x) as [->|Hn].
  - intros E. injection E as <-. exact Hok.
  - apply Hg.
Qed.

Lemma insert_closed m k pk : good m -> closed m -> node_ok k pk -> pre m k -> closed (mark_insert m k pk).
Proof.
  intros Hg Hc Hok Hpre x px. rewrite aget_mark_insert.
  assert (Hfix : forall y, aget nkey_eqb m k = Some y -> y = pk).
  { intros y Hy. eapply node_ok_fun; eauto. }
  destruct (nkey_eqb_spec k x) as [<-|Hn].
  - intros E r Hr. injection E as <-. destruct Hok as [_ [_ [_ [_ Hl]]]].
    destruct (Hpre Hl r Hr) as [H|H]; [auto|]. right.
    rewrite aget_mark_insert. destruct (nkey_eqb_spec k r) as [<-|]; [|exact H].
    f_equal. symmetry. auto.
  - intros E r Hr. destruct (Hc _ _ E r Hr) as [H|H]; [auto|]. right.
    rewrite aget_mark_insert. destruct (nkey_eqb_spec k r) as [<-|]; [|exact H].
    f_equal. symmetry. auto.
Qed.

Lemma mark_inv fuel : forall m k, is_blank (snd k) = true -> good m -> closed m -> pre m k ->
  good (mark info o s fuel m k) /\ closed (mark info o s fuel m k).
Proof.
  induction fuel as [|f IH]; intros m k Hb Hg Hc Hpre; simpl; [auto|].
  destruct (aget N.eqb (uparent s) (snd k)) as [[[pk pp]|]|] eqn:Eu; auto.
  destruct (mode10 o && (pp =? c_first)) eqn:E1; auto.
  destruct (gkey_eqb (fst pk) (fst k) && (ngraphs s (snd k) =? 1)%nat) eqn:E2; auto.
  destruct (is_list_node (get_node s k)) eqn:E3; auto.
  apply andb_true_iff in E2 as [E2 E2']. apply Nat.eqb_eq in E2'.
  destruct (gkey_eqb_spec (fst pk) (fst k)) as [Eg|]; [|discriminate].
  assert (Hok : node_ok k pk).
  { split; [exact Hb|]. split; [|auto]. exists pp. split; [exact Eu|].
    intros Hm Hp. rewrite Hm, Hp in E1. discriminate. }
  pose proof (insert_good m k pk Hg Hok) as Hg'.
  pose proof (insert_closed m k pk Hg Hc Hok Hpre) as Hc'.
  destruct (is_blank (snd pk) && (pp =? c_rest)) eqn:E4; [|auto].
  apply andb_true_iff in E4 as [E4 E5]. apply N.eqb_eq in E5. subst pp.
  apply IH; auto.
  (* the parent's only rdf:rest value is k, which has just been marked *)
  intros Hl r Hr. right.
  pose proof (inv_up _ _ _ _ HI (snd k)) as Hu. rewrite Eu in Hu.
  destruct Hu as [_ [[q [Hq [Eo Ep]]] _]]. injection Ep as Ek Epp.
  pose proof (complete_obj q Hq) as Hin.
  rewrite (pkey_of_not_type q) in Hin by (rewrite Epp; discriminate).
  rewrite Epp, Ek in Hin. rewrite obj_of_blank in Hin by (rewrite Eo; exact Hb).
  apply In_pat_get in Hin as [v [Hv Hin]].
  apply is_list_node_inv in Hl as [_ [x [r' [_ Hr']]]].
  rewrite Hr' in Hv. injection Hv as <-. destruct Hin as [Hin|[]].
  unfold rest_val in Hr. rewrite Hr' in Hr. injection Hr as <-. injection Hin as ->.
  rewrite aget_mark_insert.
  assert (Ekk : (qg q, qo q) = k).
  { rewrite Eo. rewrite <- Ek in Eg. simpl in Eg. rewrite Eg. symmetry. apply nkey_eta. }
  rewrite Ekk. destruct (nkey_eqb_spec k k); congruence.
Qed.

Lemma seed_pre m k : In k (seeds s) -> pre m k.
Proof.
  intros Hs Hl r Hr. left.
  destruct (inv_seeds _ _ _ _ HI k Hs) as [q [Hq [Ek [_ [Ep Eo]]]]].
  pose proof (complete_obj q Hq) as Hin.
  rewrite (pkey_of_not_type q) in Hin by (rewrite Ep; discriminate).
  rewrite Ep, Ek in Hin. apply In_pat_get in Hin as [v [Hv Hin]].
  apply is_list_node_inv in Hl as [_ [x [r' [_ Hr']]]].
  rewrite Hr' in Hv. injection Hv as <-. destruct Hin as [Hin|[]].
  unfold rest_val in Hr. rewrite Hr' in Hr. injection Hr as <-.
  symmetry in Hin. apply obj_of_node in Hin as [_ ->]. simpl. exact Eo.
Qed.

Lemma mark_fold_inv fuel l : forall m, (forall k, In k l -> In k (seeds s)) -> good m -> closed m ->
  good (fold_left (mark info o s fuel) l m) /\ closed (fold_left (mark info o s fuel) l m).
Proof.
  induction l as [|k l IH]; intros m Hl Hg Hc; simpl; [auto|].
  assert (Hk : In k (seeds s)) by (apply Hl; simpl; auto).
  destruct (inv_seeds _ _ _ _ HI k Hk) as [q [_ [Ek [Hb _]]]].
  destruct (mark_inv fuel m k) as [Hg' Hc']; auto.
  - rewrite <- Ek. exact Hb.
  - apply seed_pre. exact Hk.
  - apply IH; auto. intros k' H. apply Hl. simpl. auto.
Qed.

Lemma mark_all_inv : good (mark_all info o s) /\ closed (mark_all info o s).
Proof.
  unfold mark_all. apply mark_fold_inv; auto.
  - intros k pk H. discriminate.
  - intros k pk H. discriminate.
Qed.
End Marking.

(* ================================================================== *)
(* anchoring (patch c): walks along the parents                        *)
(* ================================================================== *)
Section Anchoring.
Lemma anchored_eq n m k :
  anchored n m k = match aget nkey_eqb m k with
                   | None => true
                   | Some p => match n with O => false | S f => anchored f m p end
                   end.
Proof. destruct n; reflexivity. Qed.

Lemma anchored_mono n : forall n' m x, anchored n m x = true -> (n <= n')%nat -> anchored n' m x = true.
Proof.
  induction n as [|n IH]; intros n' m x H Hle; rewrite anchored_eq in H |- *;
    destruct (aget nkey_eqb m x) as [p|]; auto; try discriminate.
  destruct n' as [|n']; [lia|]. apply IH; [exact H|lia].
Qed.

Inductive reach (m : marks) : nkey -> nkey -> nat -> Prop :=
| reach0 x : reach m x x 0
| reachS x p y j : aget nkey_eqb m x = Some p -> reach m p y j -> reach m x y (S j).

Lemma reach_snoc m x y j z : reach m x y j -> aget nkey_eqb m y = Some z -> reach m x z (S j).
Proof.
  induction 1 as [x|x p y j Hx Hr IH]; intros Hz.
  - econstructor; [exact Hz|constructor].
  - econstructor; [exact Hx|]. apply IH. exact Hz.
Qed.

Lemma anchored_reach m x y j : reach m x y j ->
  forall n, anchored n m x = if (j <=? n)%nat then anchored (n - j) m y else false.
Proof.
  induction 1 as [x|x p y j Hx Hr IH]; intros n.
  - simpl. rewrite Nat.sub_0_r. reflexivity.
  - rewrite anchored_eq, Hx. destruct n as [|n]; [reflexivity|]. rewrite IH. reflexivity.
Qed.

(* a node that comes back to itself is never anchored *)
Lemma cyc m x p j : aget nkey_eqb m x = Some p -> reach m p x j -> forall n, anchored n m x = false.
Proof.
  intros Hx Hr n. induction n as [n IH] using lt_wf_ind.
  rewrite anchored_eq, Hx. destruct n as [|n]; [reflexivity|].
  rewrite (anchored_reach _ _ _ _ Hr). destruct (j <=? n)%nat eqn:E; [|reflexivity].
  apply IH. apply Nat.leb_le in E. lia.
Qed.

Definition mremove (c : nkey) (m : marks) : marks := filter (fun e => negb (nkey_eqb c (fst e))) m.
Lemma aget_mremove c m x :
  aget nkey_eqb (mremove c m) x = if nkey_eqb c x then None else aget nkey_eqb m x.
Proof.
  unfold mremove. rewrite (aget_filter_key _ nkey_eqb_spec (fun k => negb (nkey_eqb c k))).
  destruct (nkey_eqb c x); reflexivity.
Qed.

Lemma anchored_remove c m n : forall x, anchored n m x = true -> anchored n (mremove c m) x = true.
Proof.
  induction n as [|n IH]; intros x H; rewrite anchored_eq in H |- *; rewrite aget_mremove;
    destruct (nkey_eqb c x); auto; destruct (aget nkey_eqb m x); auto.
Qed.

Lemma transfer c m n : forall p, anchored n (mremove c m) p = true ->
  anchored n m p = true \/ exists j, reach m p c j.
Proof.
  induction n as [|n IH]; intros p H; rewrite anchored_eq in H |- *; rewrite aget_mremove in H;
    destruct (nkey_eqb_spec c p) as [->|Hn]; try (right; exists 0%nat; constructor);
    destruct (aget nkey_eqb m p) as [p'|] eqn:E; auto.
  destruct (IH _ H) as [H'|[j Hj]]; [auto|]. right. exists (S j). econstructor; eauto.
Qed.

Lemma filter_len_le {A} (P : A -> bool) (l : list A) : (length (filter P l) <= length l)%nat.
Proof. induction l as [|a l IH]; simpl; [lia|]. destruct (P a); simpl; lia. Qed.

Lemma length_mremove c (m : marks) p : aget nkey_eqb m c = Some p -> (length (mremove c m) < length m)%nat.
Proof.
  induction m as [|[k v] m IH]; simpl; [discriminate|].
  destruct (nkey_eqb_spec c k) as [->|Hn]; simpl.
  - intros _. destruct (nkey_eqb_spec k k); [|congruence]. simpl.
    pose proof (filter_len_le (fun e => negb (nkey_eqb k (fst e))) m). unfold mremove. lia.
  - intros H. destruct (nkey_eqb_spec c k); [congruence|]. simpl. specialize (IH H). lia.
Qed.

(* a successful walk never needs more steps than there are list nodes *)
Lemma anchored_len l : forall m, (length m <= l)%nat -> forall n x, anchored n m x = true -> anchored l m x = true.
Proof.
  induction l as [|l IH]; intros m Hlen n x H.
  - destruct m; [|simpl in Hlen; lia]. rewrite anchored_eq. reflexivity.
  - rewrite anchored_eq. destruct (aget nkey_eqb m x) as [p|] eqn:Ex; [|reflexivity].
    rewrite anchored_eq, Ex in H. destruct n as [|n]; [discriminate|].
    pose proof (length_mremove _ _ _ Ex) as Hlt.
    pose proof (anchored_remove x m n p H) as H1.
    assert (H2 : anchored l (mremove x m) p = true) by (eapply IH; [lia|exact H1]).
    destruct (transfer _ _ _ _ H2) as [H3|[j Hj]]; [exact H3|].
    pose proof (cyc m x p j Ex Hj (S n)) as Hc. rewrite anchored_eq, Ex in Hc. congruence.
Qed.

Definition keep (m : marks) : marks := filter (fun e => anchored (length m) m (fst e)) m.
Lemma aget_keep m k :
  aget nkey_eqb (keep m) k = if anchored (length m) m k then aget nkey_eqb m k else None.
Proof. unfold keep. apply (aget_filter_key _ nkey_eqb_spec (fun k => anchored (length m) m k)). Qed.

(* the child of a kept node is kept *)
Lemma keep_child m k r : anchored (length m) m k = true -> aget nkey_eqb m r = Some k ->
  anchored (length m) m r = true.
Proof.
  intros Hk Hr. rewrite anchored_eq, Hr.
  destruct (length m) as [|l] eqn:El; [destruct m; discriminate|].
  pose proof (length_mremove _ _ _ Hr) as Hlt.
  pose proof (anchored_remove r m _ k Hk) as H1.
  assert (H2 : anchored l (mremove r m) k = true) by (eapply anchored_len; [lia|exact H1]).
  destruct (transfer _ _ _ _ H2) as [H3|[j Hj]]; [exact H3|].
  (* k reaches r whose parent is k: k is on a cycle *)
  pose proof (reach_snoc _ _ _ _ _ Hj Hr) as Hkk. inversion Hkk as [|x p y j' Hx Hp]; subst.
  pose proof (cyc m k p j Hx Hp (S l)) as Hc. congruence.
Qed.

(* in the kept set, every walk ends *)
Lemma keep_anchored m n : forall x, anchored n m x = true -> anchored n (keep m) x = true.
Proof.
  induction n as [|n IH]; intros x H; rewrite anchored_eq in H |- *; rewrite aget_keep;
    destruct (anchored (length m) m x); auto; destruct (aget nkey_eqb m x); auto.
Qed.
End Anchoring.

(* ================================================================== *)
(* (2) the theorem on suppressed list nodes                            *)
(* ================================================================== *)
Section ListNodesSound.
Variable info : N -> tinfo.
Variable o : opts.
Variable d : list quad.
Let s := process info o d.
Let D := filter (is_jsonld info) d.

Lemma list_nodes_keep : list_nodes info o s = keep (mark_all info o s).
Proof. reflexivity. Qed.

(* A node (graph g, blank node b) is suppressed from the document as a list node only if:
   b is a blank node; the dataset has exactly one quad with object b, its subject is pk, it is in
   graph g (and its predicate is not rdf:first in 1.0 mode); b is the subject of quads of graph g
   only and is not a graph name; these quads are exactly one rdf:first and one rdf:rest; the
   rdf:rest object is rdf:nil or a suppressed cell of the same graph whose recorded parent is
   (g, b); and the chain of recorded parents leaves the set of suppressed nodes. *)
Theorem list_nodes_sound k pk : aget nkey_eqb (list_nodes info o s) k = Some pk ->
  is_blank info (snd k) = true
  /\ (exists pp, (exists q, In q D /\ qo q = snd k /\ skey q = pk /\ qp q = pp)
        /\ (forall q, In q D -> qo q = snd k -> skey q = pk /\ qp q = pp)
        /\ (mode10 o = true -> pp <> c_first))
  /\ fst pk = fst k
  /\ (forall q, In q D -> qs q = snd k -> qg q = fst k)
  /\ (forall q, In q D -> qg q <> Some (snd k))
  /\ (exists f r, In (mkQ (snd k) c_first f (fst k)) D /\ In (mkQ (snd k) c_rest r (fst k)) D
        /\ is_lit info r = false
        /\ (forall q, In q D -> qs q = snd k -> (qp q = c_first /\ qo q = f) \/ (qp q = c_rest /\ qo q = r))
        /\ (r = c_nil \/ aget nkey_eqb (list_nodes info o s) (fst k, r) = Some k))
  /\ (exists n, anchored n (list_nodes info o s) k = true).
Proof.
  pose proof (inv_process info o d) as HI. fold s D in HI.
  destruct (mark_all_inv info o s D HI) as [Hg Hc].
  rewrite list_nodes_keep, aget_keep.
  destruct (anchored (length (mark_all info o s)) (mark_all info o s) k) eqn:Ea; [|discriminate].
  intros Hm. destruct (Hg _ _ Hm) as [Hb [[pp [Eu Hmode]] [Eg [Hn Hl]]]].
  pose proof (inv_up _ _ _ _ HI (snd k)) as Hu. rewrite Eu in Hu. destruct Hu as [_ [[q0 [Hq0 [Eo0 Ep0]]] Hall]].
  destruct (list_node_quads info o s D HI k Hl Hn) as [H1 [H2 [f [r [Hf [Hr [Hlit [Erest [_ Hex]]]]]]]]].
  split; [exact Hb|]. split.
  { exists pp. split; [|split; [|exact Hmode]].
    - exists q0. injection Ep0 as E1 E2. auto.
    - intros q Hq Eo. specialize (Hall q Hq Eo). injection Hall as E1 E2. auto. }
  split; [exact Eg|]. split; [exact H1|]. split; [exact H2|]. split.
  { exists f, r. repeat (split; [assumption|]).
    destruct (Hc _ _ Hm _ Erest) as [Hnil|Hch]; [left; exact Hnil|]. right.
    rewrite aget_keep. rewrite (keep_child _ _ _ Ea Hch). exact Hch. }
  exists (length (mark_all info o s)). apply keep_anchored. exact Ea.
Qed.

(* the cells of a suppressed chain: following rdf:rest from a list node only meets list nodes,
   and ends on rdf:nil (so populate_list never leaves the suppressed chain) *)
Lemma cells_marked fuel : forall k, is_marked (list_nodes info o s) k = true ->
  forall c, In c (cells s fuel k) -> is_marked (list_nodes info o s) c = true.
Proof.
  pose proof (inv_process info o d) as HI. fold s D in HI.
  destruct (mark_all_inv info o s D HI) as [Hg Hc].
  induction fuel as [|fuel IH]; intros k Hk c; simpl; [tauto|].
  intros [<-|Hin]; [exact Hk|].
  unfold is_marked in Hk. destruct (aget nkey_eqb (list_nodes info o s) k) as [pk|] eqn:Em; [|discriminate].
  destruct (rest_val (get_node s k)) as [l|r] eqn:Er; [destruct Hin|].
  destruct (N.eqb_spec (snd r) c_nil) as [|Hnn]; [destruct Hin|].
  apply (IH r); [|exact Hin].
  rewrite list_nodes_keep, aget_keep in Em.
  destruct (anchored (length (mark_all info o s)) (mark_all info o s) k) eqn:Ea; [|discriminate].
  destruct (Hc _ _ Em _ Er) as [Hnil|Hch]; [contradiction|].
  unfold is_marked. rewrite list_nodes_keep, aget_keep, (keep_child _ _ _ Ea Hch), Hch. reflexivity.
Qed.
End ListNodesSound.

(* ================================================================== *)
(* (2') compound literals (patch e)                                    *)
(* ================================================================== *)
Lemma keys_bounded {V} (l : list (pkey * V)) (ks : list pkey) :
  NoDup ks -> (forall k, In k ks -> In k (map fst l)) -> (length l <= length ks)%nat ->
  forall k v, aget pkey_eqb l k = Some v -> In k ks.
Proof.
  intros Hnd Hin Hlen k v Hk.
  assert (Hincl : incl (map fst l) ks).
  { apply NoDup_length_incl; [exact Hnd|rewrite map_length; exact Hlen|exact Hin]. }
  apply Hincl. eapply (aget_Some_in _ pkey_eqb_spec); eauto.
Qed.

Section CompoundSound.
Variable info : N -> tinfo.
Variable o : opts.
Variable d : list quad.
Let s := process info o d.
Let D := filter (is_jsonld info) d.

Lemma one_lit_inv test ov : one_lit info test ov = true -> exists l, ov = Some [OLit l] /\ test (info l) = true.
Proof.
  unfold one_lit. destruct ov as [[|[l|?] [|? ?]]|]; try discriminate. eauto.
Qed.

(* A node (g, b) is replaced by a value object with @direction only if: b is a blank node; exactly
   one quad has object b, in graph g; b is the subject of quads of graph g only and is not a graph
   name; every quad with subject b has a literal object and predicate rdf:value, rdf:direction or
   rdf:language, at most one object per predicate; and the node passes is_compound_literal
   (one plain rdf:value, one "ltr"/"rtl" rdf:direction, at most one normalised rdf:language). *)
Theorem compounds_sound k : In k (compounds info o s) ->
  compound o = true
  /\ is_blank info (snd k) = true
  /\ is_compound_literal info (get_node s k) = true
  /\ (exists pk pp, (exists q, In q D /\ qo q = snd k /\ skey q = pk /\ qp q = pp)
        /\ (forall q, In q D -> qo q = snd k -> skey q = pk /\ qp q = pp)
        /\ fst pk = fst k)
  /\ (forall q, In q D -> qs q = snd k ->
        qg q = fst k /\ is_lit info (qo q) = true
        /\ (qp q = c_value \/ qp q = c_direction \/ qp q = c_language)
        /\ forall q', In q' D -> qs q' = snd k -> qp q' = qp q -> qo q' = qo q)
  /\ (forall q, In q D -> qg q <> Some (snd k)).
Proof.
  pose proof (inv_process info o d) as HI. fold s D in HI.
  unfold compounds. destruct (compound o) eqn:Ec; [|intros []].
  rewrite filter_In, andb_true_iff. intros [Hcand [Hcl Hro]].
  destruct (inv_cands _ _ _ _ HI k Hcand) as [qc [Hqc [Ekc [Hb _]]]].
  assert (Hbk : is_blank info (snd k) = true) by (rewrite <- Ekc; exact Hb).
  unfold referenced_once in Hro. apply andb_true_iff in Hro as [Hn Hu]. apply Nat.eqb_eq in Hn.
  destruct (aget N.eqb (uparent s) (snd k)) as [[[pk pp]|]|] eqn:Eu; try discriminate.
  destruct (gkey_eqb_spec (fst pk) (fst k)) as [Eg|]; [|discriminate].
  pose proof (inv_up _ _ _ _ HI (snd k)) as Hup. rewrite Eu in Hup.
  destruct Hup as [_ [[q0 [Hq0 [Eo0 Ep0]]] Hall]].
  (* the keys of the node *)
  pose proof Hcl as Hcl'. unfold is_compound_literal in Hcl'. rewrite !andb_true_iff in Hcl'.
  destruct Hcl' as [[[[Hl2 Hl3] Hdir] Hval] Hlang].
  apply Nat.leb_le in Hl2, Hl3.
  apply one_lit_inv in Hdir as [ld [Hdir _]]. apply one_lit_inv in Hval as [lv [Hval _]].
  destruct (get_node_wf info o s D HI k) as [Hnd _].
  assert (Hkin : In k (map fst (nodes s))).
  { apply key_in_of_nonempty. intros E. rewrite E in Hl2. simpl in Hl2. lia. }
  rewrite (nkey_eta k) in Hkin.
  assert (Hkeys : forall p v, get_prop (get_node s k) p = Some v ->
            exists l, v = [OLit l] /\ (p = PIri c_value \/ p = PIri c_direction \/ p = PIri c_language)).
  { apply orb_true_iff in Hlang as [Hlen|Hlang].
    - apply Nat.eqb_eq in Hlen. intros p v Hp.
      assert (Hin : In p [PIri c_direction; PIri c_value]).
      { eapply keys_bounded; [| |rewrite Hlen; simpl; lia|exact Hp].
        - repeat constructor; simpl; intuition discriminate.
        - intros x [<-|[<-|[]]]; eapply (aget_Some_in _ pkey_eqb_spec); eauto. }
      destruct Hin as [<-|[<-|[]]]; [exists ld|exists lv]; split; auto; congruence.
    - apply one_lit_inv in Hlang as [ll [Hlang _]]. intros p v Hp.
      assert (Hin : In p [PIri c_direction; PIri c_value; PIri c_language]).
      { eapply keys_bounded; [| |simpl; exact Hl3|exact Hp].
        - repeat constructor; simpl; intuition discriminate.
        - intros x [<-|[<-|[<-|[]]]]; eapply (aget_Some_in _ pkey_eqb_spec); eauto. }
      destruct Hin as [<-|[<-|[<-|[]]]]; [exists ld|exists lv|exists ll]; split; auto; congruence. }
  assert (Hgraph : forall q, In q D -> qs q = snd k -> qg q = fst k).
  { intros q Hq E. pose proof (subject_key info o s D HI q Hq) as H. unfold skey in H. rewrite E in H.
    eapply (ngraphs_unique info o s D HI); eauto. }
  assert (Hsub : forall q, In q D -> qs q = snd k ->
            exists l, get_prop (get_node s k) (pkey_of info o q) = Some [OLit l] /\ obj_of info q = OLit l
                      /\ (qp q = c_value \/ qp q = c_direction \/ qp q = c_language)).
  { intros q Hq Es. assert (Ek : skey q = k).
    { unfold skey. rewrite (Hgraph q Hq Es), Es. symmetry. apply nkey_eta. }
    pose proof (complete_obj info o s D HI q Hq) as H. rewrite Ek in H.
    apply In_pat_get in H as [v [Hv Hin]].
    destruct (Hkeys _ _ Hv) as [l [-> Hp]]. destruct Hin as [Hin|[]].
    exists l. split; [exact Hv|]. split; [auto|].
    destruct Hp as [Hp|[Hp|Hp]]; apply (pkey_of_iri info o) in Hp; auto. }
  split; [reflexivity|]. split; [exact Hbk|]. split; [exact Hcl|]. split.
  { exists pk, pp. split; [|split; [|exact Eg]].
    - exists q0. injection Ep0 as E1 E2. auto.
    - intros q Hq Eo. specialize (Hall q Hq Eo). injection Hall as E1 E2. auto. }
  split.
  { intros q Hq Es. destruct (Hsub q Hq Es) as [l [Hv [Ho Hp]]].
    split; [auto|]. split.
    { unfold Model.obj_of in Ho. destruct (Model.is_lit info (qo q)); [reflexivity|discriminate]. }
    split; [exact Hp|].
    intros q' Hq' Es' Ep. destruct (Hsub q' Hq' Es') as [l' [Hv' [Ho' _]]].
    assert (Epk : pkey_of info o q' = pkey_of info o q).
    { destruct (pkey_of_cases info o q) as [E|E]; [rewrite E in Hv; destruct (Hkeys _ _ Hv) as [? [_ [?|[?|?]]]]; discriminate|].
      destruct (pkey_of_cases info o q') as [E'|E']; [rewrite E' in Hv'; destruct (Hkeys _ _ Hv') as [? [_ [?|[?|?]]]]; discriminate|].
      congruence. }
    rewrite Epk, Hv in Hv'. injection Hv' as <-.
    apply (obj_of_inj info); [rewrite (Hgraph q Hq Es), (Hgraph q' Hq' Es'); reflexivity|congruence]. }
  intros q Hq E. pose proof (graph_key info o s D HI q _ Hq E) as H.
  assert (Eg0 : None = fst k) by (eapply (ngraphs_unique info o s D HI); eauto).
  pose proof (complete_graph info o s D HI q _ Hq E) as H2.
  assert (Ek : k = (None, snd k)) by (rewrite Eg0; apply nkey_eta).
  rewrite <- Ek in H2. apply In_pat_get in H2 as [v [H2 _]].
  destruct (Hkeys _ _ H2) as [_ [_ [?|[?|?]]]]; discriminate.
Qed.
End CompoundSound.

(* ================================================================== *)
(* (3) the @type shortcut is lossless                                  *)
(* ================================================================== *)
Definition term_of (x : robj) : N := match x with OLit l => l | ONode k => snd k end.
(* the quad the reference reader regenerates from a stored (key, value) of node k *)
Definition regen (k : nkey) (p : pkey) (x : robj) : option quad :=
  match p, x with
  | PType, ONode k' => Some (mkQ (snd k) c_type (snd k') (fst k))
  | PIri p', _ => Some (mkQ (snd k) p' (term_of x) (fst k))
  | _, _ => None
  end.

Section TypeShortcut.
Variable info : N -> tinfo.
Variable o : opts.

Lemma term_of_obj q : term_of (obj_of info q) = qo q.
Proof. unfold obj_of. destruct (is_lit info (qo q)); reflexivity. Qed.

Lemma pkey_of_type q : pkey_of info o q = PType ->
  qp q = c_type /\ obj_of info q = ONode (qg q, qo q) /\ use_rdf_type o = false /\ is_iri info (qo q) = true.
Proof.
  unfold pkey_of. destruct (N.eqb_spec (qp q) c_type) as [E|]; simpl; [|discriminate].
  destruct (is_iri info (qo q)) eqn:Ei; simpl; [|discriminate].
  destruct (use_rdf_type o); simpl; [discriminate|]. intros _.
  repeat split; auto. unfold obj_of, is_lit. unfold is_iri in Ei.
  destruct (kind info (qo q)); try discriminate. reflexivity.
Qed.

(* whatever the value of use_rdf_type, the way a quad is filed (under "@type" or under its
   predicate) determines the quad *)
Theorem type_shortcut_lossless q : regen (skey q) (pkey_of info o q) (obj_of info q) = Some q.
Proof.
  destruct (pkey_of_cases info o q) as [E|E]; rewrite E.
  - apply pkey_of_type in E as [Ep [Eo _]]. rewrite Eo. simpl. rewrite <- Ep. destruct q; reflexivity.
  - simpl. rewrite term_of_obj. destruct q; reflexivity.
Qed.
End TypeShortcut.

(* ================================================================== *)
(* (4) round trip without suppressed nodes                             *)
(* ================================================================== *)
Section RoundTripPlain.
Variable info : N -> tinfo.
Variable o : opts.
Variable d : list quad.
Let s := process info o d.
Let D := filter (is_jsonld info) d.
Notation conv0 := (conv info s [] []).

Lemma conv_plain g fr x : val_to_rdf g fr (conv0 x) = (term_of x, [], fr).
Proof.
  unfold conv. destruct x as [l|k]; simpl; [reflexivity|].
  destruct (N.eqb_spec (snd k) c_nil) as [E|]; simpl; [rewrite E; reflexivity|].
  destruct (is_blank info (snd k)); reflexivity.
Qed.

Lemma vals_plain g fr sb p vs :
  vals_to_rdf g fr sb p (map conv0 vs) = (map (fun x => mkQ sb p (term_of x) g) vs, fr).
Proof.
  induction vs as [|x vs IH]; simpl; [reflexivity|].
  rewrite conv_plain, IH. reflexivity.
Qed.

Definition prop_quads g sb (ps : props) : list quad :=
  flat_map (fun e => match fst e with
                     | PIri p => map (fun x => mkQ sb p (term_of x) g) (snd e)
                     | _ => [] end) ps.
Lemma props_plain g fr sb ps :
  props_to_rdf g fr sb (node_props info s [] [] ps) = (prop_quads g sb ps, fr).
Proof.
  induction ps as [|[p vs] ps IH]; simpl; [reflexivity|].
  destruct p as [| |p]; simpl; try exact IH.
  fold conv0. rewrite vals_plain.
  change (props_to_rdf g fr sb (node_props info s [] [] ps)) with (props_to_rdf g fr sb (node_props info s [] [] ps)).
  unfold node_props in IH |- *. rewrite IH. reflexivity.
Qed.

Definition node_quads g (k : nkey) (ps : props) : list quad :=
  map (fun t => mkQ (snd k) c_type t g) (node_types ps) ++ prop_quads g (snd k) ps.
Lemma node_plain g fr k ps : node_to_rdf g fr (make_node info s [] [] k ps) = (node_quads g k ps, fr).
Proof. unfold node_to_rdf, make_node. simpl. rewrite props_plain. reflexivity. Qed.

Definition inner_quads g (x : robj) : list quad :=
  match x with
  | ONode k2 => match get_node s k2 with [] => [] | ps => node_quads g k2 ps end
  | OLit _ => []
  end.
Lemma jsonify_inner_plain k2 :
  jsonify_inner info s [] [] k2 =
  match get_node s k2 with [] => None | ps => Some (make_node info s [] [] k2 ps) end.
Proof. unfold jsonify_inner. destruct (get_node s k2); reflexivity. Qed.
Lemma nodes_plain g fr v :
  nodes_to_rdf g fr (flat_map (fun x => match x with
                                        | ONode k2 => opt_list (jsonify_inner info s [] [] k2)
                                        | OLit _ => [] end) v)
  = (flat_map (inner_quads g) v, fr).
Proof.
  induction v as [|x v IH]; simpl; [reflexivity|].
  destruct x as [l|k2]; simpl; [exact IH|].
  rewrite jsonify_inner_plain. destruct (get_node s k2) as [|e ps] eqn:E; simpl; [exact IH|].
  rewrite node_plain, IH. reflexivity.
Qed.

Definition entry_quads (e : nkey * props) : list quad :=
  match snd e, fst (fst e) with
  | [], _ => []
  | _, Some _ => []
  | ps, None =>
      node_quads None (fst e) ps
      ++ match get_prop ps PGraph with
         | Some v => flat_map (inner_quads (Some (snd (fst e)))) v
         | None => []
         end
  end.
Local Opaque get_prop.
Lemma tops_plain es : forall fr,
  tops_to_rdf fr (flat_map (fun e => opt_list (jsonify_root info s [] [] e)) es)
  = (flat_map entry_quads es, fr).
Proof.
  induction es as [|[[g id] ps] es IH]; intros fr; simpl; [reflexivity|].
  unfold entry_quads at 1. simpl.
  destruct ps as [|e0 ps]; simpl; [apply IH|].
  destruct g as [g|]; simpl; [apply IH|].
  rewrite node_plain.
  destruct (get_prop (e0 :: ps) PGraph) as [v|]; simpl.
  - rewrite nodes_plain, IH. rewrite app_assoc. reflexivity.
  - rewrite IH, app_nil_r. reflexivity.
Qed.

Local Transparent get_prop.

Lemma to_rdf_plain base :
  to_rdf base (document info s [] []) = flat_map entry_quads (nodes s).
Proof. unfold to_rdf, document. rewrite tops_plain. reflexivity. Qed.

(* quads of a rendered node come from stored values through [regen] *)
Lemma in_node_quads g k ps q : NoDup (map fst ps) ->
  (In q (node_quads g k ps) <->
   exists p x, In x (dflt (get_prop ps p)) /\ regen (g, snd k) p x = Some q).
Proof.
  intros Hnd. unfold node_quads. rewrite in_app_iff. split.
  - intros [H|H].
    + apply in_map_iff in H as [t [<- Ht]]. unfold node_types in Ht.
      destruct (get_prop ps PType) as [v|] eqn:Ev; [|destruct Ht].
      apply in_flat_map in Ht as [x [Hx Ht]]. destruct x as [l|k']; [destruct Ht|].
      destruct Ht as [<-|[]]. exists PType, (ONode k'). rewrite Ev. auto.
    + unfold prop_quads in H. apply in_flat_map in H as [[p vs] [He H]]. simpl in H.
      destruct p as [| |p]; try destruct H. apply in_map_iff in H as [x [<- Hx]].
      exists (PIri p), x. split; [|reflexivity].
      unfold get_prop. rewrite (In_aget _ pkey_eqb_spec _ _ _ Hnd He). exact Hx.
  - intros [p [x [Hx Hr]]]. destruct (get_prop ps p) as [v|] eqn:Ev; [|destruct Hx]. simpl in Hx.
    destruct p as [| |p]; simpl in Hr.
    + destruct x as [l|k']; [discriminate|]. injection Hr as <-. left.
      apply in_map_iff. exists (snd k'). split; [reflexivity|].
      unfold node_types. rewrite Ev. apply in_flat_map. exists (ONode k'). simpl. auto.
    + discriminate.
    + injection Hr as <-. right. unfold prop_quads. apply in_flat_map.
      exists (PIri p, v). split; [eapply (aget_In _ pkey_eqb_spec); exact Ev|].
      simpl. apply in_map_iff. eauto.
Qed.

(* every rendered quad is a quad of the (filtered) input, and conversely *)
Local Opaque get_prop.
Theorem roundtrip_plain base :
  list_nodes info o s = [] -> compounds info o s = [] ->
  forall q, In q (to_rdf base (serialise info o d)) <-> In q D.
Proof.
  intros HL HC q. unfold serialise. fold s. rewrite HL, HC, to_rdf_plain.
  pose proof (inv_process info o d) as HI. fold s D in HI.
  destruct (inv_wf _ _ _ _ HI) as [Hnd Hwf].
  assert (Hentry : forall k ps, In (k, ps) (nodes s) -> get_node s k = ps).
  { intros k ps H. unfold get_node. rewrite (In_aget _ nkey_eqb_spec _ _ _ Hnd H). reflexivity. }
  (* a quad read from node kk is in D *)
  assert (Hsound : forall (kk : nkey) ps', get_node s kk = ps' -> In q (node_quads (fst kk) kk ps') -> In q D).
  { intros kk ps' Eps' H. subst ps'. apply in_node_quads in H; [|apply (get_node_wf info o s D HI)].
    destruct H as [p [x [Hx Hr]]]. rewrite <- (pat_get s) in Hx.
    apply (inv_pat _ _ _ _ HI) in Hx as [q0 [Hq0 [[E1 [E2 E3]]|[g [_ [_ [E _]]]]]]].
    - rewrite <- nkey_eta in Hr. subst. rewrite type_shortcut_lossless in Hr. congruence.
    - subst p. destruct x; discriminate. }
  (* a quad of D is read from node skey q0 *)
  assert (Hcomplete : forall q0, In q0 D -> In q0 (node_quads (qg q0) (skey q0) (get_node s (skey q0)))).
  { intros q0 Hq0. apply in_node_quads; [apply (get_node_wf info o s D HI)|].
    exists (pkey_of info o q0), (obj_of info q0). split.
    - rewrite <- (pat_get s). apply (complete_obj info o s D HI). exact Hq0.
    - pose proof (type_shortcut_lossless info o q0) as H. unfold skey in *. simpl. exact H. }
  rewrite in_flat_map. split.
  - intros [[k ps] [He H]]. pose proof (Hentry _ _ He) as Eps. unfold entry_quads in H. simpl in H.
    destruct ps as [|e0 ps]; [destruct H|]. destruct k as [[g|] id]; simpl in H; [destruct H|].
    apply in_app_iff in H as [H|H].
    + apply (Hsound _ _ Eps). exact H.
    + destruct (get_prop (e0 :: ps) PGraph) as [v|] eqn:Ev; [|destruct H].
      apply in_flat_map in H as [x [Hx H]]. destruct x as [l|k2]; [destruct H|]. simpl in H.
      assert (Hpat : In (ONode k2) (pat (nodes s) (None, id) PGraph)).
      { unfold gkey in *. rewrite (pat_get s), Eps, Ev. exact Hx. }
      apply (inv_pat _ _ _ _ HI) in Hpat as [q0 [Hq0 [[_ [E _]]|[g [Eg [Ek [_ Ex]]]]]]].
      { destruct (pkey_of_cases info o q0) as [E'|E']; rewrite E' in E; discriminate. }
      injection Ek as ->. injection Ex as ->.
      apply (Hsound (skey q0) _ eq_refl). unfold skey at 1. simpl. rewrite Eg.
      destruct (get_node s (skey q0)); [destruct H|exact H].
  - intros Hq. pose proof (Hcomplete q Hq) as Hin.
    assert (Hne : get_node s (skey q) <> []).
    { intros E. rewrite E in Hin. destruct Hin. }
    destruct (qg q) as [g|] eqn:Eg.
    + (* named graph: rendered below the graph node *)
      pose proof (complete_graph info o s D HI q g Hq Eg) as Hg.
      apply In_pat_get in Hg as [v [Hv Hx]].
      assert (Hk : In (None, g) (map fst (nodes s))) by (eapply (graph_key info o s D HI); eauto).
      apply in_keys_entry in Hk as [psg Hk]. pose proof (Hentry _ _ Hk) as Epsg.
      exists ((None, g), psg). split; [exact Hk|]. unfold entry_quads. simpl.
      rewrite Epsg in Hv. destruct psg as [|e0 psg]; [discriminate|].
      apply in_app_iff. right. rewrite Hv. apply in_flat_map. exists (ONode (skey q)). split; [exact Hx|].
      simpl. destruct (get_node s (skey q)) eqn:E; [congruence|]. exact Hin.
    + (* default graph: a top-level node *)
      assert (Hk : In (skey q) (map fst (nodes s))) by (apply (subject_key info o s D HI); exact Hq).
      apply in_keys_entry in Hk as [ps Hk]. pose proof (Hentry _ _ Hk) as Eps.
      exists (skey q, ps). split; [exact Hk|]. unfold entry_quads. simpl. rewrite Eg. simpl.
      rewrite Eps in Hin, Hne. destruct ps as [|e0 ps]; [congruence|].
      apply in_app_iff. left. exact Hin.
Qed.

Local Transparent get_prop.

(* a sufficient, purely syntactic condition: no quad "x rdf:rest rdf:nil" and no compound-literal mode *)
Corollary roundtrip_no_lists base :
  (forall q, In q d -> ~ (qp q = c_rest /\ qo q = c_nil)) -> compound o = false ->
  forall q, In q (to_rdf base (serialise info o d)) <-> In q D.
Proof.
  intros Hno Hc. pose proof (inv_process info o d) as HI. fold s D in HI.
  assert (Hs : seeds s = []).
  { destruct (seeds s) as [|k l] eqn:E; [reflexivity|]. exfalso.
    destruct (inv_seeds _ _ _ _ HI k) as [q0 [Hq0 [_ [_ [Ep Eo]]]]]; [rewrite E; simpl; auto|].
    apply filter_In in Hq0 as [Hq0 _]. apply (Hno q0 Hq0). auto. }
  apply roundtrip_plain.
  - unfold list_nodes, mark_all. rewrite Hs. reflexivity.
  - unfold compounds. rewrite Hc. reflexivity.
Qed.
End RoundTripPlain.

(* ================================================================== *)
(* the general round trip: statement, and meaning of the checker       *)
(* ================================================================== *)
Lemma quad_eqb_spec a b : reflect (a = b) (quad_eqb a b).
Proof.
  destruct a as [s1 p1 o1 g1], b as [s2 p2 o2 g2]. unfold quad_eqb; simpl.
  destruct (N.eqb_spec s1 s2); simpl; [|constructor; congruence].
  destruct (N.eqb_spec p1 p2); simpl; [|constructor; congruence].
  destruct (N.eqb_spec o1 o2); simpl; [|constructor; congruence].
  change (opt_eqb N.eqb g1 g2) with (gkey_eqb g1 g2).
  destruct (gkey_eqb_spec g1 g2); constructor; congruence.
Qed.
Lemma subset_q_spec a b : subset_q a b = true <-> forall q, In q a -> In q b.
Proof.
  unfold subset_q. rewrite forallb_forall. split; intros H q Hq; specialize (H q Hq).
  - apply existsb_exists in H as [q' [Hq' E]]. destruct (quad_eqb_spec q q'); [subst; auto|discriminate].
  - apply existsb_exists. exists q. split; auto. destruct (quad_eqb_spec q q); congruence.
Qed.
Lemma nodupb_spec l : nodupb l = true -> NoDup l.
Proof.
  induction l as [|x l IH]; simpl; [constructor|]. rewrite andb_true_iff, negb_true_iff.
  intros [H1 H2]. constructor; [|auto]. intros Hin.
  assert (existsb (N.eqb x) l = true) by (apply existsb_exists; exists x; split; auto; apply N.eqb_refl).
  congruence.
Qed.

(* what the boolean checker evaluated on every correspondence case establishes: the document read by
   the reference reader is the expressible part of the input up to a renaming of the fresh nodes
   which is injective, maps fresh identifiers (>= base > every input identifier) to blank nodes of
   the input that the document does not mention *)
Theorem roundtrip_doc_ok_sound info d base doc : roundtrip_doc_ok info d base doc = true ->
  let r := witness base doc in
  (forall q, In q (map (rename_q r) (to_rdf base doc)) <-> In q (filter (is_jsonld info) d))
  /\ NoDup (map snd r) /\ NoDup (map fst r)
  /\ (forall p, In p r -> base <= fst p /\ kind info (snd p) = KBlank
                           /\ ~ In (snd p) (ids_of (to_rdf base doc)))
  /\ (forall x, In x (ids_of d) -> x < base).
Proof.
  unfold roundtrip_doc_ok. rewrite !andb_true_iff.
  intros [[[[[[H1 H2] H3] H4] H5] H6] H7]. cbv zeta.
  rewrite subset_q_spec in H1, H2.
  split; [intros q; split; auto|].
  split; [apply nodupb_spec; exact H3|]. split; [apply nodupb_spec; exact H4|]. split.
  - intros p Hp. rewrite forallb_forall in H5, H7. specialize (H5 p Hp).
    apply andb_true_iff in H5 as [Ha Hb]. apply N.leb_le in Ha. split; [exact Ha|]. split.
    + unfold kind. destruct (ti_kind (info (snd p))); try discriminate. reflexivity.
    + intros Hin. specialize (H7 (snd p) (in_map snd _ _ Hp)). apply negb_true_iff in H7.
      assert (existsb (N.eqb (snd p)) (ids_of (to_rdf base doc)) = true)
        by (apply existsb_exists; exists (snd p); split; auto; apply N.eqb_refl).
      congruence.
  - intros x Hx. rewrite forallb_forall in H6. apply N.ltb_lt. auto.
Qed.

(* the identifiers 1..8 denote the IRIs rdf:first ... rdf:language *)
Definition wf_info (info : N -> tinfo) : Prop :=
  forall c, In c [c_first; c_rest; c_nil; c_type; c_List; c_value; c_direction; c_language] ->
  kind info c = KIri.

(* THE FULL ROUND TRIP (stated, not proved in general): for every dataset, options and base above
   the identifiers of the dataset, the checker succeeds, i.e. (roundtrip_doc_ok_sound) reading the
   emitted document gives a dataset isomorphic to the expressible part of the input. *)
Definition roundtrip_full_statement : Prop :=
  forall info o d base, wf_info info -> (forall x, In x (ids_of d) -> x < base) ->
  roundtrip_doc_ok info d base (serialise info o d) = true.

(* the part that is proved: when no node is suppressed (no list compaction, no compound literal),
   the reference reader returns exactly the expressible quads, without any renaming *)
Theorem roundtrip_partial info o d base :
  list_nodes info o (process info o d) = [] -> compounds info o (process info o d) = [] ->
  forall q, In q (to_rdf base (serialise info o d)) <-> In q (filter (is_jsonld info) d).
Proof. apply roundtrip_plain. Qed.

(* ================================================================== *)
(* literal level: the i18n-datatype shortcut (patch f)                 *)
(* ================================================================== *)
Lemma split_us_some s a b : split_us s = (a, Some b) -> s = a ++ 95 :: b.
Proof.
  revert a b. induction s as [|c s IH]; intros a b; simpl; [discriminate|].
  destruct (N.eqb_spec c 95) as [->|].
  - intros E. injection E as E1 E2. subst. reflexivity.
  - destruct (split_us s) as [a' b'] eqn:E. intros E'. injection E' as E1 E2. subst.
    simpl. f_equal. apply IH. reflexivity.
Qed.
Lemma lower_no_upper s : no_upper s = true -> lower s = s.
Proof.
  induction s as [|c s IH]; simpl; [reflexivity|]. rewrite andb_true_iff, negb_true_iff.
  intros [H1 H2]. unfold lower1. rewrite H1. f_equal. apply IH. exact H2.
Qed.
Lemma is_direction_nil : is_direction [] = false.
Proof. reflexivity. Qed.

(* whenever "@direction" is used, the reference reader rebuilds the same datatype; otherwise the
   datatype is written as is *)
Theorem i18n_shortcut_lossless wf suffix : i18n_back (i18n_value wf suffix) = suffix.
Proof.
  unfold i18n_value. destruct (split_us suffix) as [tag od] eqn:E.
  destruct od as [d|]; [|rewrite is_direction_nil; reflexivity].
  apply split_us_some in E.
  destruct (is_direction d && _) eqn:C; [|reflexivity].
  apply andb_true_iff in C as [_ C]. simpl. destruct tag as [|c tag]; [exact (eq_sym E)|].
  apply andb_true_iff in C as [_ C]. rewrite (lower_no_upper _ C). exact (eq_sym E).
Qed.

(* the original conversion loses the datatype: i18n#en, i18n#EN_ltr, i18n#en_up *)
Theorem prefix_f_refuted :
  i18n_back_original (i18n_value_original [101; 110]) = None
  /\ i18n_back_original (i18n_value_original [69; 78; 95; 108; 116; 114]) = Some [101; 110; 95; 108; 116; 114]
  /\ i18n_back_original (i18n_value_original [101; 110; 95; 117; 112]) = None.
Proof. vm_compute. auto. Qed.
