(* C05/NqProofs.v -- the canonical N-Quads serialiser of _cnq.rs is injective: a reader
   (Reader.v) recovers every well-formed term, line and document from its serialisation. *)
From Sophia.C05 Require Import Model Reader.

(* ---------- the 32 control characters ---------- *)
Lemma small_cases c : c <= 31 -> In c (map N.of_nat (seq 0 32)).
Proof.
  intros H. rewrite <- (N2Nat.id c). apply in_map. apply in_seq. lia.
Qed.

Ltac enum_small H :=
  apply small_cases in H; vm_compute in H;
  repeat (destruct H as [H|H]; [subst|]); [..|contradiction].

(* ---------- esc_char, case by case ---------- *)
Lemma esc_char_plain c :
  31 < c -> c <> 34 -> c <> 92 -> c <> 127 -> esc_char c = [c].
Proof.
  intros. unfold esc_char.
  repeat match goal with
         | |- context [c =? ?k] => destruct (N.eqb_spec c k); [lia|]
         end.
  destruct (N.leb_spec c 31); [lia|]. reflexivity.
Qed.

Lemma unesc_plain c r : c <> 92 -> unesc (c :: r) = c :: unesc r.
Proof.
  intros H. cbn [unesc]. destruct (N.eqb_spec c 92); [contradiction|reflexivity].
Qed.

Lemma unesc_esc_char c r : unesc (esc_char c ++ r) = c :: unesc r.
Proof.
  destruct (N.leb_spec c 31) as [Hle|Hgt].
  - enum_small Hle; reflexivity.
  - destruct (N.eq_dec c 34) as [->|H1]; [reflexivity|].
    destruct (N.eq_dec c 92) as [->|H2]; [reflexivity|].
    destruct (N.eq_dec c 127) as [->|H3]; [reflexivity|].
    rewrite esc_char_plain by assumption. cbn [app]. apply unesc_plain; assumption.
Qed.

Lemma esc_cons c s : esc (c :: s) = esc_char c ++ esc s.
Proof. reflexivity. Qed.

Theorem unesc_esc : forall s : str, unesc (esc s) = s.
Proof.
  induction s as [|c s IH]; [reflexivity|].
  rewrite esc_cons, unesc_esc_char, IH. reflexivity.
Qed.

Corollary esc_inj : forall a b, esc a = esc b -> a = b.
Proof.
  intros a b H. rewrite <- (unesc_esc a), <- (unesc_esc b), H. reflexivity.
Qed.

(* ---------- the first unescaped quote after [esc s] is the one that follows it ---------- *)
Lemma scan_plain c r a r' :
  c <> 34 -> c <> 92 -> scan_quote r = Some (a, r') -> scan_quote (c :: r) = Some (c :: a, r').
Proof.
  intros H1 H2 H. cbn [scan_quote].
  destruct (N.eqb_spec c 34); [contradiction|].
  destruct (N.eqb_spec c 92); [contradiction|].
  rewrite H. reflexivity.
Qed.

Lemma scan_bs d r a r' :
  scan_quote r = Some (a, r') -> scan_quote (92 :: d :: r) = Some (92 :: d :: a, r').
Proof.
  intros H. cbn [scan_quote]. change (92 =? 34) with false. change (92 =? 92) with true.
  cbv iota. rewrite H. reflexivity.
Qed.

Lemma scan_esc_char c r a r' :
  scan_quote r = Some (a, r') -> scan_quote (esc_char c ++ r) = Some (esc_char c ++ a, r').
Proof.
  intros H.
  assert (U : forall h3 h4, h3 <> 34 -> h3 <> 92 -> h4 <> 34 -> h4 <> 92 ->
              scan_quote ([92;117;48;48;h3;h4] ++ r) = Some ([92;117;48;48;h3;h4] ++ a, r')).
  { intros. cbn [app]. apply scan_bs. repeat (apply scan_plain; [lia|lia|]). 
    repeat (apply scan_plain; [assumption|assumption|]). exact H. }
  destruct (N.leb_spec c 31) as [Hle|Hgt].
  - enum_small Hle;
      first [ apply (scan_bs _ _ _ _ H) | apply U; vm_compute; discriminate ].
  - destruct (N.eq_dec c 34) as [->|H1]; [apply (scan_bs _ _ _ _ H)|].
    destruct (N.eq_dec c 92) as [->|H2]; [apply (scan_bs _ _ _ _ H)|].
    destruct (N.eq_dec c 127) as [->|H3]; [apply U; discriminate|].
    rewrite esc_char_plain by assumption. cbn [app]. apply scan_plain; assumption.
Qed.

Lemma scan_quote_esc s rest : scan_quote (esc s ++ 34 :: rest) = Some (esc s, rest).
Proof.
  induction s as [|c s IH]; [reflexivity|].
  rewrite esc_cons, <- app_assoc. apply scan_esc_char. exact IH.
Qed.

(* ---------- reading one term ---------- *)
Lemma split_at_app d a r : ~ In d a -> split_at d (a ++ d :: r) = Some (a, r).
Proof.
  induction a as [|c a IH]; intros Hn.
  - cbn [app split_at]. rewrite N.eqb_refl. reflexivity.
  - cbn [app split_at]. destruct (N.eqb_spec c d) as [->|Hne].
    + exfalso. apply Hn. left. reflexivity.
    + rewrite IH; [reflexivity|]. intros Hin. apply Hn. right. exact Hin.
Qed.

Lemma read_iri_body_app i r : ~ In 62 i -> read_iri_body (i ++ 62 :: 32 :: r) = Some (i, r).
Proof. intros H. unfold read_iri_body. rewrite split_at_app by exact H. reflexivity. Qed.

Lemma read_term_iri s : read_term (60 :: s) =
  match read_iri_body s with Some (i, r) => Some (Iri i, r) | None => None end.
Proof. reflexivity. Qed.
Lemma read_term_bnode s : read_term (95 :: 58 :: s) =
  match split_at 32 s with Some (b, r) => Some (Bnode b, r) | None => None end.
Proof. reflexivity. Qed.
Lemma read_term_lit s : read_term (34 :: s) = read_lit_body s.
Proof. reflexivity. Qed.

Theorem read_term_nq : forall t rest, wf_term t -> read_term (nq t ++ rest) = Some (t, rest).
Proof.
  intros t rest Hwf. destruct t as [s|b|l dt|l tag|s p o|v]; cbn [wf_term] in Hwf;
    try contradiction.
  - (* Iri *)
    cbn [nq]. rewrite <- !app_assoc. cbn [app]. rewrite read_term_iri.
    rewrite read_iri_body_app by exact Hwf. reflexivity.
  - (* Bnode *)
    cbn [nq]. unfold s_bn. rewrite <- !app_assoc. cbn [app]. rewrite read_term_bnode.
    rewrite split_at_app by exact Hwf. reflexivity.
  - (* LitDt *)
    cbn [nq]. rewrite <- !app_assoc. cbn [app]. rewrite read_term_lit.
    unfold read_lit_body. rewrite scan_quote_esc. rewrite unesc_esc.
    destruct (str_eqb_spec dt xsd_string) as [->|Hne].
    + reflexivity.
    + cbn [app]. rewrite <- app_assoc. cbn [app].
      change (94 =? 32) with false. change (94 =? 64) with false. change (94 =? 94) with true.
      change (60 =? 60) with true. cbv iota. cbn [andb].
      rewrite read_iri_body_app by exact Hwf. reflexivity.
  - (* LitLang *)
    cbn [nq]. rewrite <- !app_assoc. cbn [app]. rewrite read_term_lit.
    unfold read_lit_body. rewrite scan_quote_esc. rewrite unesc_esc.
    change (64 =? 32) with false. change (64 =? 64) with true. cbv iota.
    rewrite split_at_app by exact Hwf. reflexivity.
Qed.

Corollary nq_app_inj a b x y :
  wf_term a -> wf_term b -> nq a ++ x = nq b ++ y -> a = b /\ x = y.
Proof.
  intros Ha Hb E. pose proof (read_term_nq a x Ha) as R. rewrite E, (read_term_nq b y Hb) in R.
  injection R as -> ->. split; reflexivity.
Qed.

Corollary nq_inj a b : wf_term a -> wf_term b -> nq a = nq b -> a = b.
Proof.
  intros Ha Hb E. apply (nq_app_inj a b [] [] Ha Hb). rewrite E. reflexivity.
Qed.

(* ---------- reading one line ---------- *)
Lemma nq_head t : wf_term t ->
  exists c r, nq t = c :: r /\ (c = 60 \/ c = 95 \/ (c = 34 /\ ~ is_iri_or_bnode t)).
Proof.
  destruct t as [s|b|l dt|l tag|s p o|v]; cbn [wf_term]; intros Hwf; try contradiction;
    cbn [nq s_bn app]; eexists; eexists; (split; [reflexivity|]); cbn [is_iri_or_bnode]; tauto.
Qed.

Lemma read_eol_eol r : read_eol (s_eol ++ r) = Some r.
Proof. reflexivity. Qed.

Lemma read_eol_other c r : c <> 46 -> read_eol (c :: r) = None.
Proof.
  intros H. destruct r as [|b r]; [reflexivity|]. cbn [read_eol].
  destruct (N.eqb_spec c 46); [contradiction|reflexivity].
Qed.

Lemma read_eol_nq t x : wf_term t -> read_eol (nq t ++ x) = None.
Proof.
  intros Hwf. destruct (nq_head t Hwf) as (c & r & -> & Hc). cbn [app].
  apply read_eol_other. lia.
Qed.

Theorem read_line_nq_line : forall q rest, wf_quad q -> read_line (nq_line q ++ rest) = Some (q, rest).
Proof.
  intros [[[s p] o] g] rest ((Hs & _) & (Hp & _) & Ho & Hg).
  unfold nq_line, read_line. rewrite <- !app_assoc.
  rewrite (read_term_nq s _ Hs), (read_term_nq p _ Hp), (read_term_nq o _ Ho).
  destruct g as [g|]; cbn [nq_opt wf_graph] in *.
  - destruct Hg as [Hg _]. rewrite read_eol_nq by exact Hg.
    rewrite (read_term_nq g _ Hg). rewrite read_eol_eol. reflexivity.
  - cbn [app]. rewrite read_eol_eol. reflexivity.
Qed.

Corollary nq_line_app_inj a b x y :
  wf_quad a -> wf_quad b -> nq_line a ++ x = nq_line b ++ y -> a = b /\ x = y.
Proof.
  intros Ha Hb E. pose proof (read_line_nq_line a x Ha) as R.
  rewrite E, (read_line_nq_line b y Hb) in R. injection R as -> ->. split; reflexivity.
Qed.

Corollary nq_line_inj a b : wf_quad a -> wf_quad b -> nq_line a = nq_line b -> a = b.
Proof.
  intros Ha Hb E. apply (nq_line_app_inj a b [] [] Ha Hb). rewrite E. reflexivity.
Qed.

(* ---------- reading a document ---------- *)
Lemma nq_cons t : exists c r, nq t = c :: r.
Proof. destruct t; cbn [nq s_bn app]; eexists; eexists; reflexivity. Qed.

Lemma nq_line_cons q : exists c r, nq_line q = c :: r.
Proof.
  destruct q as [[[s p] o] g]. unfold nq_line. destruct (nq_cons s) as (c & r & ->).
  cbn [app]. eexists; eexists; reflexivity.
Qed.

Lemma read_doc_lines qs : Forall wf_quad qs ->
  forall fuel, (length qs <= fuel)%nat -> read_doc fuel (concat (map nq_line qs)) = Some qs.
Proof.
  induction 1 as [|q qs Hq Hqs IH]; intros fuel Hf.
  - destruct fuel; reflexivity.
  - cbn [map concat]. cbn [length] in Hf. destruct fuel as [|f]; [lia|].
    destruct (nq_line_cons q) as (c & r & E).
    assert (R : read_doc (S f) (nq_line q ++ concat (map nq_line qs)) =
                match read_line (nq_line q ++ concat (map nq_line qs)) with
                | Some (q', r') => match read_doc f r' with Some l => Some (q' :: l) | None => None end
                | None => None
                end).
    { rewrite E. reflexivity. }
    rewrite R, (read_line_nq_line q _ Hq), IH by lia. reflexivity.
Qed.

Lemma lines_length qs : (length qs <= length (concat (map nq_line qs)))%nat.
Proof.
  induction qs as [|q qs IH]; [apply Nat.le_refl|].
  cbn [map concat length]. rewrite app_length. destruct (nq_line_cons q) as (c & r & ->).
  cbn [length]. lia.
Qed.

Theorem read_doc_serialize : forall qs, Forall wf_quad qs ->
  read_doc (length (concat (map nq_line qs))) (concat (map nq_line qs)) = Some qs.
Proof. intros qs H. apply read_doc_lines; [exact H|apply lines_length]. Qed.

Corollary doc_inj : forall a b, Forall wf_quad a -> Forall wf_quad b ->
  concat (map nq_line a) = concat (map nq_line b) -> a = b.
Proof.
  intros a b Ha Hb E. pose proof (read_doc_serialize a Ha) as R.
  rewrite E, (read_doc_serialize b Hb) in R. injection R as ->. reflexivity.
Qed.

(* ---------- the term-by-term comparison is the comparison of the lines ---------- *)
(* neither string is a proper prefix of the other *)
Definition no_proper_prefix (a b : str) : Prop :=
  (forall z, b = a ++ z -> z = []) /\ (forall z, a = b ++ z -> z = []).

Lemma str_cmp_app a : forall b x y, no_proper_prefix a b ->
  str_cmp (a ++ x) (b ++ y) = then_cmp (str_cmp a b) (str_cmp x y).
Proof.
  induction a as [|c a IH]; intros [|d b] x y [H1 H2].
  - reflexivity.
  - specialize (H1 (d :: b) eq_refl). discriminate.
  - specialize (H2 (c :: a) eq_refl). discriminate.
  - cbn [app str_cmp]. destruct (N.compare_spec c d) as [->|Hlt|Hgt]; [|reflexivity|reflexivity].
    apply IH. split; intros z Hz.
    + apply H1. rewrite Hz. reflexivity.
    + apply H2. rewrite Hz. reflexivity.
Qed.

Lemma nq_prefix_free a b z : wf_term a -> wf_term b -> nq b = nq a ++ z -> z = [].
Proof.
  intros Ha Hb E. destruct (nq_app_inj b a [] z Hb Ha) as [_ Hz].
  - rewrite app_nil_r. exact E.
  - symmetry. exact Hz.
Qed.

Lemma nq_no_proper_prefix a b : wf_term a -> wf_term b -> no_proper_prefix (nq a) (nq b).
Proof.
  intros Ha Hb. split; intros z Hz.
  - exact (nq_prefix_free a b z Ha Hb Hz).
  - exact (nq_prefix_free b a z Hb Ha Hz).
Qed.

Lemma str_cmp_nq_app a b x y : wf_term a -> wf_term b ->
  str_cmp (nq a ++ x) (nq b ++ y) = then_cmp (str_cmp (nq a) (nq b)) (str_cmp x y).
Proof. intros Ha Hb. apply str_cmp_app. apply nq_no_proper_prefix; assumption. Qed.

(* [.] (46) is smaller than [<] (60) and [_] (95): a triple of the default graph sorts before
   the same triple in a named graph, in both orders *)
Lemma cmp_graph g1 g2 : wf_graph g1 -> wf_graph g2 ->
  str_cmp (nq_opt g1 ++ s_eol) (nq_opt g2 ++ s_eol) = cmp_c14n g1 g2.
Proof.
  unfold cmp_c14n. destruct g1 as [a|], g2 as [b|]; cbn [wf_graph nq_opt]; intros H1 H2.
  - destruct H1 as [H1 _], H2 as [H2 _]. rewrite str_cmp_nq_app by assumption.
    rewrite str_cmp_refl. destruct (str_cmp (nq a) (nq b)); reflexivity.
  - destruct H1 as [H1 I1]. destruct (nq_head a H1) as (c & r & -> & Hc).
    cbn [app s_eol str_cmp].
    destruct Hc as [->|[->|[_ Hn]]]; [reflexivity|reflexivity|contradiction].
  - destruct H2 as [H2 I2]. destruct (nq_head b H2) as (c & r & -> & Hc).
    cbn [app s_eol str_cmp].
    destruct Hc as [->|[->|[_ Hn]]]; [reflexivity|reflexivity|contradiction].
  - reflexivity.
Qed.

Theorem quad_cmp_lines : forall q1 q2, wf_quad q1 -> wf_quad q2 ->
  quad_cmp q1 q2 = str_cmp (nq_line q1) (nq_line q2).
Proof.
  intros [[[s1 p1] o1] g1] [[[s2 p2] o2] g2]
         ((Hs1 & _) & (Hp1 & _) & Ho1 & Hg1) ((Hs2 & _) & (Hp2 & _) & Ho2 & Hg2).
  unfold quad_cmp, nq_line. rewrite !str_cmp_nq_app by assumption.
  rewrite cmp_graph by assumption. reflexivity.
Qed.

Corollary quad_leb_lines q1 q2 : wf_quad q1 -> wf_quad q2 ->
  quad_leb q1 q2 = str_leb (nq_line q1) (nq_line q2).
Proof. intros H1 H2. unfold quad_leb, str_leb. rewrite quad_cmp_lines by assumption. reflexivity. Qed.

(* ---------- sorting the quads = sorting the lines ---------- *)
Section SortMap.
Context {A B : Type} (f : A -> B) (leA : A -> A -> bool) (leB : B -> B -> bool) (P : A -> Prop).
Hypothesis agree : forall x y, P x -> P y -> leA x y = leB (f x) (f y).

Lemma insert_by_Forall x l : P x -> Forall P l -> Forall P (insert_by leA x l).
Proof.
  intros Hx Hl. induction Hl as [|y l Hy Hl IH]; cbn [insert_by].
  - constructor; [exact Hx|constructor].
  - destruct (leA x y); repeat (constructor; try assumption).
Qed.

Lemma sort_by_Forall l : Forall P l -> Forall P (sort_by leA l).
Proof.
  induction 1 as [|x l Hx Hl IH]; [constructor|].
  unfold sort_by. cbn [fold_right]. apply insert_by_Forall; assumption.
Qed.

Lemma map_insert_by x l : P x -> Forall P l ->
  map f (insert_by leA x l) = insert_by leB (f x) (map f l).
Proof.
  intros Hx Hl. induction Hl as [|y l Hy Hl IH]; [reflexivity|].
  cbn [insert_by map]. rewrite <- (agree x y Hx Hy).
  destruct (leA x y); cbn [map]; [reflexivity|]. rewrite IH. reflexivity.
Qed.

Lemma map_sort_by l : Forall P l -> map f (sort_by leA l) = sort_by leB (map f l).
Proof.
  induction 1 as [|x l Hx Hl IH]; [reflexivity|].
  unfold sort_by in *. cbn [map fold_right].
  rewrite map_insert_by; [|exact Hx|apply (sort_by_Forall l Hl)].
  rewrite IH. reflexivity.
Qed.
End SortMap.

Theorem serialize_sorts_lines : forall qs, Forall wf_quad qs ->
  serialize qs = concat (sort_by str_leb (map nq_line qs)).
Proof.
  intros qs H. unfold serialize. f_equal.
  apply (map_sort_by nq_line quad_leb str_leb wf_quad quad_leb_lines qs H).
Qed.


(* ---------- non-vacuity: a concrete document with every kind of term ---------- *)
Example doc_example :
  let lit := [34; 92; 10; 13; 9; 8; 12; 127; 0; 11; 31; 32; 233; 128512] in
  let qs := [ (Iri [97], Iri [112], LitDt lit xsd_string, None);
              (Bnode [98;48], Iri [112], LitLang lit [101;110], Some (Bnode [103]));
              (Iri [97], Iri [112], LitDt lit [100;116], Some (Iri [103])) ] in
  Forall wf_quad qs /\
  read_doc (length (serialize qs)) (serialize qs) = Some (sort_by quad_leb qs).
Proof.
  split.
  - repeat apply Forall_cons; try apply Forall_nil;
      unfold xsd_string; cbn [wf_quad wf_term wf_graph is_iri is_iri_or_bnode In];
      intuition (try discriminate).
  - vm_compute. reflexivity.
Qed.
