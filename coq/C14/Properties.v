(* C14/Properties.v -- pinned statements of property C14 (ORDER BY sorts by a consistent total
   preorder that respects SPARQL's operator '<').

   [order_by] is the comparator of the repaired code (build/proposed/C14.diff),
   [order_by_prefix] the one of the original tree.  Abstractions (see Model.v): the lexical ->
   value mapping is an input ([item] = term + parsed value); finite floats are exact dyadic
   values; the integer/decimal -> float conversions used by the operator '<' are arbitrary
   functions c64 c32 that satisfy [conv_ok] (they never cross a number of the target format);
   [conv_ok] is PROVED for round-to-nearest-even into binary64 / binary32 (Rounding.v: c64_round,
   c32_round; section "conversions" below), which is what `isize as f64/f32` computes, and REFUTED
   for the library routines that the engine calls on decimals (Engine.v: c64_engine, transcribed
   from bigdecimal 0.4.10 / num-bigint 0.4.8 and tied by the harness);
   sort_unstable_by is specified by its contract (a sorted permutation). *)
From Coq Require Import QArith Sorting.Sorted Sorting.Permutation.
From Sophia.C14 Require Import Model Proofs Context ContextProofs Rounding RoundingProofs Engine EngineProofs Directed DirectedProofs.
Close Scope Q_scope.
Open Scope N_scope.

(* the repaired comparator is a total preorder on items (term + value attached to literals only,
   well-formed terms): antisymmetric/total, 'Equal' is a congruence, 'Less' is transitive *)
Check (order_by_preorder : preorder_on item_ok order_by).
Theorem order_by_antisym : forall a b, item_ok a -> item_ok b -> order_by b a = CompOpp (order_by a b).
Proof. exact (po_antisym _ _ order_by_preorder). Qed.
Theorem order_by_le_trans : forall a b d, item_ok a -> item_ok b -> item_ok d ->
  order_by a b <> Gt -> order_by b d <> Gt -> order_by a d <> Gt.
Proof. exact (po_le_trans _ _ order_by_preorder). Qed.
Theorem order_by_lt_trans : forall a b d, item_ok a -> item_ok b -> item_ok d ->
  order_by a b = Lt -> order_by b d = Lt -> order_by a d = Lt.
Proof. exact (po_lt _ _ order_by_preorder). Qed.
Theorem order_by_eq_congruence : forall a b d x, item_ok a -> item_ok b -> item_ok d ->
  order_by a b = Eq -> order_by b d = x -> order_by a d = x.
Proof. exact (po_eq _ _ order_by_preorder). Qed.

(* unbound < blank node < IRI < literal < triple term *)
Check (rank_order : forall k1 k2, key_rank k1 < key_rank k2 -> key_cmp order_by k1 k2 = Lt).
Check (rank_values :
  key_rank None = 0
  /\ (forall s v, key_rank (Some (mkItem (Bnode s) v)) = 1)
  /\ (forall s v, key_rank (Some (mkItem (Iri s) v)) = 2)
  /\ (forall l d v, key_rank (Some (mkItem (LitDt l d) v)) = 3)
  /\ (forall l t v, key_rank (Some (mkItem (LitLang l t) v)) = 3)
  /\ (forall s p o v, key_rank (Some (mkItem (Triple s p o) v)) = 4)).

(* the comparator agrees with the implementation's operator '<' (and '>') wherever it is defined *)
Check (order_by_refines_cmp : forall c64 c32 f64 f32 a b r,
  conv_ok c64 f64 -> conv_ok c32 f32 ->
  item_ok a -> item_ok b -> item_fmt f64 f32 a -> item_fmt f64 f32 b ->
  sparql_cmp c64 c32 a b = Some r -> r <> Eq -> order_by a b = r).
Check (order_by_respects_lt : forall c64 c32 f64 f32 a b,
  conv_ok c64 f64 -> conv_ok c32 f32 ->
  item_ok a -> item_ok b -> item_fmt f64 f32 a -> item_fmt f64 f32 b ->
  lt_sparql c64 c32 a b = Some true -> order_by a b = Lt).

(* DESC reverses; several criteria combine lexicographically into a total preorder on solutions *)
Check (desc_is_reversal : forall ob k1 k2,
  dir true (key_cmp ob k1 k2) = CompOpp (dir false (key_cmp ob k1 k2))).
Check (later_keys_break_ties : forall ob d ds k1 t1 k2 t2,
  cmp_bindings_with ob (d :: ds) (k1 :: t1) (k2 :: t2) =
  match dir d (key_cmp ob k1 k2) with Eq => cmp_bindings_with ob ds t1 t2 | c => c end).
Check (cmp_bindings_preorder : forall ob descs,
  preorder_on item_ok ob -> preorder_on (row_ok descs) (cmp_bindings_with ob descs)).
Theorem cmp_bindings_order_by_preorder : forall descs,
  preorder_on (row_ok descs) (cmp_bindings_with order_by descs).
Proof. intros. apply cmp_bindings_preorder. apply order_by_preorder. Qed.

(* sorting: a sorted permutation exists, and every sorted permutation is free of inversions at
   any distance, in particular with respect to '<' on the first key (reversed for DESC) *)
Check (sorted_permutation_exists : forall descs rows, Forall (row_ok descs) rows ->
  exists out, Permutation rows out /\ StronglySorted (rows_le descs) out).
Check (sorted_output_has_no_inversion : forall descs rows out,
  Forall (row_ok descs) rows -> Permutation rows out -> Sorted (rows_le descs) out ->
  forall i j, (i < j < length out)%nat ->
    cmp_bindings_with order_by descs (nth i out []) (nth j out []) <> Gt).
Check (sorted_output_respects_lt : forall c64 c32 f64 f32 d ds rows out,
  conv_ok c64 f64 -> conv_ok c32 f32 ->
  Forall (row_ok (d :: ds)) rows ->
  Forall (Forall (fun k => match k with Some a => item_fmt f64 f32 a | None => True end)) rows ->
  Permutation rows out -> Sorted (rows_le (d :: ds)) out ->
  forall i j a b, (i < j < length out)%nat ->
    hd None (nth i out []) = Some a -> hd None (nth j out []) = Some b ->
    (if d then lt_sparql c64 c32 a b else lt_sparql c64 c32 b a) <> Some true).

(* the same at any key whose predecessors tie *)
Check (sorted_output_key_order : forall descs rows out,
  Forall (row_ok descs) rows -> Permutation rows out -> Sorted (rows_le descs) out ->
  forall i j k, (i < j < length out)%nat -> (k < length descs)%nat ->
    (forall m, (m < k)%nat ->
       key_cmp order_by (nth m (nth i out []) None) (nth m (nth j out []) None) = Eq) ->
    dir (nth k descs false)
        (key_cmp order_by (nth k (nth i out []) None) (nth k (nth j out []) None)) <> Gt).
Check (sorted_output_respects_lt_at_key : forall c64 c32 f64 f32 descs rows out,
  conv_ok c64 f64 -> conv_ok c32 f32 ->
  Forall (row_ok descs) rows ->
  Forall (Forall (fun k => match k with Some a => item_fmt f64 f32 a | None => True end)) rows ->
  Permutation rows out -> Sorted (rows_le descs) out ->
  forall i j k a b, (i < j < length out)%nat -> (k < length descs)%nat ->
    (forall m, (m < k)%nat ->
       key_cmp order_by (nth m (nth i out []) None) (nth m (nth j out []) None) = Eq) ->
    nth k (nth i out []) None = Some a -> nth k (nth j out []) None = Some b ->
    (if nth k descs false then lt_sparql c64 c32 a b else lt_sparql c64 c32 b a) <> Some true).

(* the comparator of the original tree is not transitive, whatever the conversions are *)
Check (order_not_transitive_prefix : forall c64 c32, exists a b d,
  item_ok a /\ item_ok b /\ item_ok d /\
  order_by_prefix c64 c32 a b = Lt /\ order_by_prefix c64 c32 b d = Lt /\
  order_by_prefix c64 c32 a d = Gt).
Check (order_not_transitive_prefix_illtyped : forall c64 c32,
  order_by_prefix c64 c32 w_int10 w_bad = Lt /\ order_by_prefix c64 c32 w_bad w_int9 = Lt /\
  order_by_prefix c64 c32 w_int10 w_int9 = Gt).
Check (order_not_transitive_prefix_datetime : forall c64 c32,
  order_by_prefix c64 c32 w_t1 w_t2 = Lt /\ order_by_prefix c64 c32 w_t2 w_n = Lt /\
  order_by_prefix c64 c32 w_t1 w_n = Gt).
Check (order_equal_not_transitive_prefix_rounding :
  order_by_prefix c64_rne c32_rne w_2p53p1 w_2p53d = Eq /\
  order_by_prefix c64_rne c32_rne w_2p53d w_2p53 = Eq /\
  order_by_prefix c64_rne c32_rne w_2p53p1 w_2p53 = Gt).

(* ---------- end-to-end queries (harness kinds q:..): the operator '<' of expressions, equal values
   written differently, computed integer keys, windows ---------- *)
(* '<' as FILTER / BIND evaluate it (sparql_compare: two numbers are never an error) is true exactly when
   the relation lt_sparql of the theorems above is, so every sorted output respects it *)
Check (sparql_compare_lt_iff : forall c64 c32 a b,
  sparql_compare c64 c32 is_lt a b = Some true <-> lt_sparql c64 c32 a b = Some true).
Check (order_by_respects_compare : forall c64 c32 f64 f32 a b,
  conv_ok c64 f64 -> conv_ok c32 f32 ->
  item_ok a -> item_ok b -> item_fmt f64 f32 a -> item_fmt f64 f32 b ->
  sparql_compare c64 c32 is_lt a b = Some true -> order_by a b = Lt).
Check (sparql_compare_numbers_total : forall c64 c32 pred a b x y,
  val a = Some (VNum x) -> val b = Some (VNum y) -> sparql_compare c64 c32 pred a b <> None).
Check (lt_entry_ok_true : forall k1 k2, lt_entry_ok k1 k2 1 = true -> key_cmp order_by k1 k2 = Lt).
(* two literals whose values are equal (1 / 1.0 / 1e0, one instant in two time zones, true / "1") are
   tied whatever their spelling, and the next criterion decides *)
Check (order_by_value_tie : forall a b x y,
  val a = Some x -> val b = Some y -> is_literal (tm a) = true -> is_literal (tm b) = true ->
  value_order_by_cmp x y = Some Eq -> order_by a b = Eq).
Check (equal_values_defer_to_next_key : forall d ds a b t1 t2 x y,
  val a = Some x -> val b = Some y -> is_literal (tm a) = true -> is_literal (tm b) = true ->
  value_order_by_cmp x y = Some Eq ->
  cmp_bindings_with order_by (d :: ds) (Some a :: t1) (Some b :: t2) = cmp_bindings_with order_by ds t1 t2).
Check equal_values_witnesses.
(* integer arithmetic of the engine: exact, results of operations on a BigInt are not normalised, and
   ORDER BY sorts computed integers by value whatever their representation *)
Check (int_arith_value : forall o a b r, int_arith o a b = Some r ->
  exists x y, int_val a = Some x /\ (o = ONeg \/ int_val b = Some y) /\ int_val r = Some (z_op o x y)).
Check (int_arith_native_fits : forall o x y z,
  int_arith o (NativeInt x) (NativeInt y) = Some (NativeInt z) -> fits_isize z = true).
Check int_arith_not_normalised.
Check (computed_int_keys_order : forall a b n1 n2 x y,
  val a = Some (VNum n1) -> val b = Some (VNum n2) ->
  is_literal (tm a) = true -> is_literal (tm b) = true ->
  int_val n1 = Some x -> int_val n2 = Some y -> order_by a b = Z.compare x y).
Check (order_by_int_repr_indep : forall t z b,
  order_by (mkItem t (Some (VNum (BigInt z)))) b = order_by (mkItem t (Some (VNum (NativeInt z)))) b
  /\ order_by b (mkItem t (Some (VNum (BigInt z)))) = order_by b (mkItem t (Some (VNum (NativeInt z))))).
Check (cancelling_sums_sorted_by_value : forall a b ra rb h1 h2 d1 d2,
  int_arith OAdd (BigInt h1) (NativeInt (d1 - h1)) = Some ra ->
  int_arith OAdd (NativeInt d2) (NativeInt h2) = Some rb ->
  val a = Some (VNum ra) -> val b = Some (VNum rb) ->
  is_literal (tm a) = true -> is_literal (tm b) = true ->
  order_by a b = Z.compare d1 (d2 + h2)).
(* LIMIT / OFFSET above ORDER BY (exec.rs slice) and the removal of solutions (DISTINCT) keep the order *)
Check (window_sorted : forall descs start len rs,
  sorted_ok descs rs = true -> sorted_ok descs (window start len rs) = true).
Check (window_of_sorted_result : forall descs rows full start len,
  rows_ok descs rows full = true -> sorted_ok descs (rows_at rows (window start len full)) = true).
Check (@window_length : forall (A : Type) start len (l : list A),
  List.length (window start len l) =
  let rest := (List.length l - N.to_nat start)%nat in
  match len with Some n => Nat.min (N.to_nat n) rest | None => rest end).
Check (filter_sorted : forall descs (keep : row -> bool) rs,
  sorted_ok descs rs = true -> sorted_ok descs (filter keep rs) = true).

(* ---------- ORDER BY in its evaluation context (harness kinds c:.., model Context.v): the keys of an ORDER BY
   are evaluated against the active graph of the SELECT it belongs to ---------- *)
(* the sort: a permutation, strictly sorted for the keys evaluated against the graph_matcher that order_by
   received; every sorted permutation (all that sort_unstable_by promises) is that sequence *)
Check (@strictly_sorted_unique : forall (A : Type) (P : A -> Prop) (c : A -> A -> comparison),
  (forall a b, P a -> P b -> c b a = CompOpp (c a b)) ->
  forall l1 l2, Forall P l1 -> strictly_sorted c l1 = true -> Permutation l1 l2 ->
    all_pairs_le (leb_of c) l2 = true -> l1 = l2).
Check (order_by_output : forall ds gm keys q out o,
  ceval ds gm (COrder keys q) = Some (out, o) ->
  exists l o', ceval ds gm q = Some (l, o') /\ o = true /\ Permutation l out
               /\ strictly_sorted (cmp_sol ds gm keys) out = true).
Check (any_sorted_permutation_is_the_output : forall ds gm keys q l o' out o out',
  ceval ds gm q = Some (l, o') -> ceval ds gm (COrder keys q) = Some (out, o) ->
  Forall (keys_ok ds gm keys) l ->
  Permutation l out' -> all_pairs_le (leb_of (cmp_sol ds gm keys)) out' = true ->
  out' = out).
Check (order_by_output_strict : forall ds gm keys q out o,
  ceval ds gm (COrder keys q) = Some (out, o) ->
  forall i j d, (i < j < length out)%nat ->
    cmp_bindings_with order_by (map snd keys) (keys_of ds gm keys (nth i out d)) (keys_of ds gm keys (nth j out d)) = Lt).
(* GRAPH <g> / GRAPH ?g replace the active graph, for the keys of the ORDER BYs below them too *)
Check (graph_const_ignores_outer_graph : forall ds gm gm' g q,
  ceval ds gm (CGraphC g q) = ceval ds gm' (CGraphC g q)).
Check (graph_var_ignores_outer_graph : forall ds gm gm' v q,
  ceval ds gm (CGraphV v q) = ceval ds gm' (CGraphV v q)).
Check (subselect_under_graph_const : forall ds gm g vs keys st len q out o,
  is_named ds g = true ->
  ceval ds gm (CGraphC g (CSlice st len (CProject vs (COrder keys q)))) = Some (out, o) ->
  exists l o' sorted,
    ceval ds [Some g] q = Some (l, o') /\ Permutation l sorted
    /\ strictly_sorted (cmp_sol ds [Some g] keys) sorted = true
    /\ out = window st len (map (project_to vs) sorted)).
Check (graph_const_not_named : forall ds gm g q,
  is_named ds g = false -> ceval ds gm (CGraphC g q) = Some ([], false)).
Check (graph_var_each_graph : forall ds gm v q out o,
  ceval ds gm (CGraphV v q) = Some (out, o) ->
  forall g, In g (graph_names ds) ->
    exists l o', ceval ds [Some g] q = Some (l, o') /\ forall b, In b (join_graph v g l) -> In b out).
(* EXISTS { pattern of the active graph } only sees the active graph, and its value does depend on it *)
Check (exists_only_sees_the_active_graph : forall ds1 ds2 gm b p,
  filter (fun q => in_matcher gm (qg q)) ds1 = filter (fun q => in_matcher gm (qg q)) ds2 ->
  eval_exists ds1 gm b GActive p = eval_exists ds2 gm b GActive p).
Check (key_value_depends_on_active_graph : exists ds b e g,
  eval_expr ds default_matcher b e <> eval_expr ds [Some g] b e).
(* keys evaluated against another graph than the active one: no difference without GRAPH, a different answer
   with it (the witness is rejected by the checker that the harness uses) *)
Check (keys_elsewhere_unobservable_without_graph : forall ds gm q,
  no_graph q = true -> eval_keys_at gm ds gm q = ceval ds gm q).
Check (keys_elsewhere_observable_under_graph :
  ctx_ok w_ds w_query [0] [w_row 97; w_row 99] = true
  /\ ctx_ok w_ds w_query [0] [w_row 98; w_row 97] = false
  /\ option_map (fun r => map (row_of [0]) (fst r)) (eval_keys_at default_matcher w_ds default_matcher w_query)
     = Some [w_row 98; w_row 97]).
Check (ctx_ok_ordered : forall gm0 ds q vs out,
  ctx_ok_at gm0 ds q vs out = true ->
  exists l o, ceval ds gm0 q = Some (l, o) /\ length out = length l
    /\ (o = true -> Forall2 (Forall2 (fun a b => cell_eqb a b = true)) (map (row_of vs) l) out)).
Check (eval_expr_ok : forall ds gm b e,
  (forall v i, lookup b v = Some i -> item_ok i) -> expr_ok e ->
  forall i, eval_expr ds gm b e = Some i -> item_ok i).
Check witness_hypotheses.

(* ---------- conversions integer/decimal -> binary64 / binary32 (harness kinds v:.., Rounding.v, Engine.v) ---------- *)
(* round-to-nearest-even of a rational into any binary format with at least one bit, gradual underflow and
   overflow to infinity: (a) monotone, (b) the identity on the numbers of the format, (c) hence [conv_ok] *)
Check (round_q_monotone : forall prec emin emax, (1 <= prec)%Z ->
  forall x y, Qle x y -> fl_le (round_q prec emin emax x) (round_q prec emin emax y)).
Check (round_q_identity : forall prec emin emax, (1 <= prec)%Z -> forall s m e,
  in_format prec emin emax (FFin s m e) ->
  fl_partial_cmp (round_q prec emin emax (q_of_fin s m e)) (FFin s m e) = Some Eq).
Check (conv_round_ok : forall prec emin emax, (1 <= prec)%Z ->
  conv_ok (conv_round prec emin emax) (in_format prec emin emax)).
Check (round_q_not_nan : forall prec emin emax x, exists E, fl_ext (round_q prec emin emax x) = Some E).
(* binary64 and binary32 *)
Check (round64_monotone : forall x y, Qle x y -> fl_le (round64 x) (round64 y)).
Check (round32_monotone : forall x y, Qle x y -> fl_le (round32 x) (round32 y)).
Check (round64_identity : forall s m e, f64 (FFin s m e) -> fl_partial_cmp (round64 (q_of_fin s m e)) (FFin s m e) = Some Eq).
Check (round32_identity : forall s m e, f32 (FFin s m e) -> fl_partial_cmp (round32 (q_of_fin s m e)) (FFin s m e) = Some Eq).
Check (c64_round_monotone : forall n1 n2 q1 q2,
  num_q n1 = Some q1 -> num_q n2 = Some q2 -> Qle q1 q2 -> fl_le (c64_round n1) (c64_round n2)).
Check (c32_round_monotone : forall n1 n2 q1 q2,
  num_q n1 = Some q1 -> num_q n2 = Some q2 -> Qle q1 q2 -> fl_le (c32_round n1) (c32_round n2)).
Check (c64_round_exact : forall n s m e,
  num_q n = Some (q_of_fin s m e) -> f64 (FFin s m e) -> fl_partial_cmp (c64_round n) (FFin s m e) = Some Eq).
Check (c32_round_exact : forall n s m e,
  num_q n = Some (q_of_fin s m e) -> f32 (FFin s m e) -> fl_partial_cmp (c32_round n) (FFin s m e) = Some Eq).
Check (c64_round_ok : conv_ok c64_round f64).
Check (c32_round_ok : conv_ok c32_round f32).
Check (f64_b_sound : forall f, f64_b f = true -> f64 f).
Check (f32_b_sound : forall f, f32_b f = true -> f32 f).
Check (f32_is_f64 : forall f, f32 f -> f64 f).
(* (d) the cross-type theorems with these conversions: no hypothesis on the conversions is left *)
Check (order_by_refines_cmp_ieee : forall a b r,
  item_ok a -> item_ok b -> item_fmt_ieee a -> item_fmt_ieee b ->
  sparql_cmp c64_round c32_round a b = Some r -> r <> Eq -> order_by a b = r).
Check (order_by_respects_lt_ieee : forall a b,
  item_ok a -> item_ok b -> item_fmt_ieee a -> item_fmt_ieee b ->
  lt_sparql c64_round c32_round a b = Some true -> order_by a b = Lt).
Check (order_by_respects_compare_ieee : forall a b,
  item_ok a -> item_ok b -> item_fmt_ieee a -> item_fmt_ieee b ->
  sparql_compare c64_round c32_round is_lt a b = Some true -> order_by a b = Lt).
Check (sorted_output_respects_lt_ieee : forall d ds rows out,
  Forall (row_ok (d :: ds)) rows -> Forall row_fmt_ieee rows ->
  Permutation rows out -> Sorted (rows_le (d :: ds)) out ->
  forall i j a b, (i < j < length out)%nat ->
    hd None (nth i out []) = Some a -> hd None (nth j out []) = Some b ->
    (if d then lt_sparql c64_round c32_round a b else lt_sparql c64_round c32_round b a) <> Some true).
Check (sorted_output_respects_lt_at_key_ieee : forall descs rows out,
  Forall (row_ok descs) rows -> Forall row_fmt_ieee rows ->
  Permutation rows out -> Sorted (rows_le descs) out ->
  forall i j k a b, (i < j < length out)%nat -> (k < length descs)%nat ->
    (forall m, (m < k)%nat ->
       key_cmp order_by (nth m (nth i out []) None) (nth m (nth j out []) None) = Eq) ->
    nth k (nth i out []) None = Some a -> nth k (nth j out []) None = Some b ->
    (if nth k descs false then lt_sparql c64_round c32_round a b else lt_sparql c64_round c32_round b a) <> Some true).
(* an integer or decimal against a double / a float, for all values: a strict answer of the promoted
   comparison is the order of the exact values *)
Check (num_cmp_ieee_exact : forall n1 n2 r,
  num_fmt f64 f32 n1 -> num_fmt f64 f32 n2 -> r <> Eq ->
  num_partial_cmp c64_round c32_round n1 n2 = Some r -> num_exact_cmp n1 n2 = Some r).
Check (exact_vs_double_ieee : forall n q s m e,
  num_q n = Some q -> f64 (FFin s m e) ->
  (num_partial_cmp c64_round c32_round n (Double (FFin s m e)) = Some Lt -> Qlt q (q_of_fin s m e))
  /\ (num_partial_cmp c64_round c32_round n (Double (FFin s m e)) = Some Gt -> Qlt (q_of_fin s m e) q)
  /\ (num_partial_cmp c64_round c32_round (Double (FFin s m e)) n = Some Lt -> Qlt (q_of_fin s m e) q)
  /\ (num_partial_cmp c64_round c32_round (Double (FFin s m e)) n = Some Gt -> Qlt q (q_of_fin s m e))).
Check (exact_vs_float_ieee : forall n q s m e,
  num_q n = Some q -> f32 (FFin s m e) ->
  (num_partial_cmp c64_round c32_round n (Float (FFin s m e)) = Some Lt -> Qlt q (q_of_fin s m e))
  /\ (num_partial_cmp c64_round c32_round n (Float (FFin s m e)) = Some Gt -> Qlt (q_of_fin s m e) q)
  /\ (num_partial_cmp c64_round c32_round (Float (FFin s m e)) n = Some Lt -> Qlt (q_of_fin s m e) q)
  /\ (num_partial_cmp c64_round c32_round (Float (FFin s m e)) n = Some Gt -> Qlt q (q_of_fin s m e))).
(* the conversions that the engine performs (Engine.v: `isize as`, Rust's parser on the digits of a big integer or of
   a decimal) ARE round-to-nearest-even, so [conv_ok] holds for them and nothing is assumed about the conversions any more *)
Check (engine_is_rne : forall n, c64_engine n = c64_round n /\ c32_engine n = c32_round n).
Check (c64_engine_ok : conv_ok c64_engine f64).
Check (c32_engine_ok : conv_ok c32_engine f32).
Check (c64_engine_monotone : forall n1 n2 q1 q2,
  num_q n1 = Some q1 -> num_q n2 = Some q2 -> Qle q1 q2 -> fl_le (c64_engine n1) (c64_engine n2)).
Check (c32_engine_monotone : forall n1 n2 q1 q2,
  num_q n1 = Some q1 -> num_q n2 = Some q2 -> Qle q1 q2 -> fl_le (c32_engine n1) (c32_engine n2)).
Check (order_by_refines_cmp_engine : forall a b r,
  item_ok a -> item_ok b -> item_fmt f64 f32 a -> item_fmt f64 f32 b ->
  sparql_cmp c64_engine c32_engine a b = Some r -> r <> Eq -> order_by a b = r).
Check (order_by_respects_lt_engine : forall a b,
  item_ok a -> item_ok b -> item_fmt f64 f32 a -> item_fmt f64 f32 b ->
  lt_sparql c64_engine c32_engine a b = Some true -> order_by a b = Lt).
Check (order_by_respects_compare_engine : forall a b,
  item_ok a -> item_ok b -> item_fmt f64 f32 a -> item_fmt f64 f32 b ->
  sparql_compare c64_engine c32_engine is_lt a b = Some true -> order_by a b = Lt).
Check (sorted_output_respects_lt_engine : forall d ds rows out,
  Forall (row_ok (d :: ds)) rows -> Forall row_fmt_ieee rows ->
  Permutation rows out -> Sorted (rows_le (d :: ds)) out ->
  forall i j a b, (i < j < length out)%nat ->
    hd None (nth i out []) = Some a -> hd None (nth j out []) = Some b ->
    (if d then lt_sparql c64_engine c32_engine a b else lt_sparql c64_engine c32_engine b a) <> Some true).
Check (sorted_output_respects_lt_at_key_engine : forall descs rows out,
  Forall (row_ok descs) rows -> Forall row_fmt_ieee rows ->
  Permutation rows out -> Sorted (rows_le descs) out ->
  forall i j k a b, (i < j < length out)%nat -> (k < length descs)%nat ->
    (forall m, (m < k)%nat ->
       key_cmp order_by (nth m (nth i out []) None) (nth m (nth j out []) None) = Eq) ->
    nth k (nth i out []) None = Some a -> nth k (nth j out []) None = Some b ->
    (if nth k descs false then lt_sparql c64_engine c32_engine a b else lt_sparql c64_engine c32_engine b a) <> Some true).
Check (num_cmp_engine_exact : forall n1 n2 r,
  num_fmt f64 f32 n1 -> num_fmt f64 f32 n2 -> r <> Eq ->
  num_partial_cmp c64_engine c32_engine n1 n2 = Some r -> num_exact_cmp n1 n2 = Some r).
Check (exact_vs_double_engine : forall n q s m e,
  num_q n = Some q -> f64 (FFin s m e) ->
  (num_partial_cmp c64_engine c32_engine n (Double (FFin s m e)) = Some Lt -> Qlt q (q_of_fin s m e))
  /\ (num_partial_cmp c64_engine c32_engine n (Double (FFin s m e)) = Some Gt -> Qlt (q_of_fin s m e) q)
  /\ (num_partial_cmp c64_engine c32_engine (Double (FFin s m e)) n = Some Lt -> Qlt (q_of_fin s m e) q)
  /\ (num_partial_cmp c64_engine c32_engine (Double (FFin s m e)) n = Some Gt -> Qlt q (q_of_fin s m e))).
Check (exact_vs_float_engine : forall n q s m e,
  num_q n = Some q -> f32 (FFin s m e) ->
  (num_partial_cmp c64_engine c32_engine n (Float (FFin s m e)) = Some Lt -> Qlt q (q_of_fin s m e))
  /\ (num_partial_cmp c64_engine c32_engine n (Float (FFin s m e)) = Some Gt -> Qlt (q_of_fin s m e) q)
  /\ (num_partial_cmp c64_engine c32_engine (Float (FFin s m e)) n = Some Lt -> Qlt (q_of_fin s m e) q)
  /\ (num_partial_cmp c64_engine c32_engine (Float (FFin s m e)) n = Some Gt -> Qlt q (q_of_fin s m e))).
(* before the repairs (c64_prefix / c32_prefix: BigInt::to_f64 / to_f32, BigDecimal::to_f64, to_f32 through f64) the
   full statement was false: BigDecimal::to_f64 maps 10^100 + 1.5 beyond the double nearest to 10^100, and the engine's
   '<' then contradicted ORDER BY; the hypothesis, one number at a time, held wherever the library routines returned the
   correctly rounded values (decidable: prefix_agree_b) *)
Check (c64_prefix_crosses_a_double :
  exists n q f v, num_q n = Some q /\ f64 f /\ fl_ext f = Some (EFin v) /\ Qle q v /\ ~ fl_le (c64_prefix n) f).
Check (c64_prefix_conv_ok_refuted : ~ conv_ok c64_prefix f64).
Check (order_by_respects_lt_prefix_refuted :
  exists a b, item_ok a /\ item_ok b /\ item_fmt f64 f32 a /\ item_fmt f64 f32 b /\
    lt_sparql c64_prefix c32_prefix a b = Some true /\ order_by a b = Gt).
Check witness_repaired.
Check prefix_is_not_rne.
Check (conv_ok_all : forall c fmt, conv_ok c fmt <-> forall n, conv_ok_at c fmt n).
Check (order_by_refines_cmp_at : forall c64 c32 f64 f32 a b r,
  item_conv_ok c64 c32 f64 f32 a -> item_conv_ok c64 c32 f64 f32 b ->
  item_ok a -> item_ok b -> item_fmt f64 f32 a -> item_fmt f64 f32 b ->
  sparql_cmp c64 c32 a b = Some r -> r <> Eq -> order_by a b = r).
Check (order_by_respects_lt_at : forall c64 c32 f64 f32 a b,
  item_conv_ok c64 c32 f64 f32 a -> item_conv_ok c64 c32 f64 f32 b ->
  item_ok a -> item_ok b -> item_fmt f64 f32 a -> item_fmt f64 f32 b ->
  lt_sparql c64 c32 a b = Some true -> order_by a b = Lt).
Check (prefix_ok_when_rne : forall n, prefix_agree_b n = true -> num_conv_ok c64_prefix c32_prefix f64 f32 n).
Check (order_by_respects_lt_prefix_restricted : forall a b,
  item_prefix_safe a -> item_prefix_safe b ->
  item_ok a -> item_ok b -> item_fmt f64 f32 a -> item_fmt f64 f32 b ->
  lt_sparql c64_prefix c32_prefix a b = Some true -> order_by a b = Lt).
(* the hypotheses are satisfiable: floats as the harness prints them are in the formats *)
Example conversion_hypotheses_inhabited :
  f64_b (FFin false 4503599627370496 1) = true /\ f32_b (FFin true 8388608 (-23)) = true
  /\ f64_b (FFin false 1 (-1074)) = true /\ f64_b (FFin false 9007199254740991 971) = true
  /\ f64_b (FFin false 9007199254740992 0) = false /\ f32_b (FFin false 16777215 105) = false
  /\ item_fmt_ieee w_2p53d /\ item_fmt_ieee w_dec2 /\ row_fmt_ieee [Some w_2p53d; None]
  /\ item_prefix_safe w_dec2 /\ item_prefix_safe w_2p53p1 /\ item_prefix_safe w_nan.
Proof.
  do 6 (split; [vm_compute; reflexivity|]).
  split; [apply f64_b_sound; vm_compute; reflexivity|].
  split; [exact I|].
  split; [repeat constructor; apply f64_b_sound; vm_compute; reflexivity|].
  split; [vm_compute; reflexivity|]. split; exact I.
Qed.

(* non-vacuity *)
Check order_by_on_witnesses.
Check hypotheses_inhabited.

(* ---------- criteria over variables that the SELECT clause does not keep; the grain of the timeline (Directed.v) ----------
   exec.rs sorts BEFORE it projects.  The value of a criterion depends on the bindings of [expr_vars] only -- the
   variable of BOUND, of COALESCE, of the pattern of an EXISTS included --, so dropping other variables before the
   sort commutes with it; not counting the variable of BOUND does not (witness: ORDER BY DESC(BOUND(?1)), ?0 kept).
   ORDER BY ties two dateTimes only when they are the same position to the nanosecond (what the parser keeps, and
   what '<' compares); with any coarser grain the comparator is still a total preorder but two dateTimes that '<'
   orders are tied. *)
Check (eval_expr_agree : forall ds gm e b b',
  agree (expr_vars e) b b' -> eval_expr ds gm b e = eval_expr ds gm b' e).
Check (eval_expr_project : forall ds gm keep e b, covers keep (expr_vars e) = true ->
  eval_expr ds gm (project_to keep b) e = eval_expr ds gm b e).
Check (cmp_sol_project : forall ds gm keep keys b1 b2, covers keep (keys_vars keys) = true ->
  cmp_sol ds gm keys (project_to keep b1) (project_to keep b2) = cmp_sol ds gm keys b1 b2).
Check (prune_before_sort_sound : forall ds gm keys keep l, covers keep (keys_vars keys) = true ->
  prune_then_sort ds gm keys keep l = sort_then_prune ds gm keys keep l).
Check (prune_bound_variable_refuted :
  covers [0] (flat_map (fun k => value_vars (fst k)) w_keys) = true
  /\ map (map fst) (sort_then_prune [] default_matcher w_keys [0] w_sols) = [[0]; [0]]
  /\ map (fun b => option_map tm (lookup b 0)) (sort_then_prune [] default_matcher w_keys [0] w_sols)
     = [Some (tm (w_str 98)); Some (tm (w_str 97))]
  /\ map (fun b => option_map tm (lookup b 0)) (prune_then_sort [] default_matcher w_keys [0] w_sols)
     = [Some (tm (w_str 97)); Some (tm (w_str 98))]).
Example prune_hypothesis_inhabited : covers [0; 1] (keys_vars w_keys) = true /\ covers [0] (keys_vars w_keys) = false.
Proof. split; reflexivity. Qed.
Check (timeline_cmp_eq : forall a b, timeline_cmp a b = Eq <-> dt_position a = dt_position b).
Check (date_keys_tied_only_when_same_position : forall a b,
  value_order_by_cmp (VDate (Some a)) (VDate (Some b)) = Some Eq -> dt_position a = dt_position b).
Check (coarse_timeline_unit_1 : forall a b, coarse_timeline_cmp 1 a b = timeline_cmp a b).
Check (coarse_timeline_refuted : forall unit, 1 < unit ->
  exists a b, dt_partial_cmp a b = Some Lt /\ coarse_timeline_cmp unit a b = Eq).
Check (coarse_timeline_ms :
  dt_partial_cmp (Timezoned 1714564800 250300000) (Timezoned 1714564800 250700000) = Some Lt
  /\ timeline_cmp (Timezoned 1714564800 250300000) (Timezoned 1714564800 250700000) = Lt
  /\ coarse_timeline_cmp 1000000 (Timezoned 1714564800 250300000) (Timezoned 1714564800 250700000) = Eq).

Print Assumptions order_by_preorder.
Print Assumptions order_by_antisym.
Print Assumptions order_by_le_trans.
Print Assumptions order_by_lt_trans.
Print Assumptions order_by_eq_congruence.
Print Assumptions rank_order.
Print Assumptions rank_values.
Print Assumptions order_by_refines_cmp.
Print Assumptions order_by_respects_lt.
Print Assumptions desc_is_reversal.
Print Assumptions later_keys_break_ties.
Print Assumptions cmp_bindings_preorder.
Print Assumptions cmp_bindings_order_by_preorder.
Print Assumptions sorted_permutation_exists.
Print Assumptions sorted_output_has_no_inversion.
Print Assumptions sorted_output_respects_lt.
Print Assumptions sorted_output_key_order.
Print Assumptions sorted_output_respects_lt_at_key.
Print Assumptions order_not_transitive_prefix.
Print Assumptions order_not_transitive_prefix_illtyped.
Print Assumptions order_not_transitive_prefix_datetime.
Print Assumptions order_equal_not_transitive_prefix_rounding.
Print Assumptions order_by_on_witnesses.
Print Assumptions hypotheses_inhabited.
Print Assumptions sparql_compare_lt_iff.
Print Assumptions order_by_respects_compare.
Print Assumptions sparql_compare_numbers_total.
Print Assumptions lt_entry_ok_true.
Print Assumptions order_by_value_tie.
Print Assumptions equal_values_defer_to_next_key.
Print Assumptions equal_values_witnesses.
Print Assumptions int_arith_value.
Print Assumptions int_arith_native_fits.
Print Assumptions int_arith_not_normalised.
Print Assumptions computed_int_keys_order.
Print Assumptions order_by_int_repr_indep.
Print Assumptions cancelling_sums_sorted_by_value.
Print Assumptions window_sorted.
Print Assumptions window_of_sorted_result.
Print Assumptions window_length.
Print Assumptions filter_sorted.
Print Assumptions strictly_sorted_unique.
Print Assumptions order_by_output.
Print Assumptions any_sorted_permutation_is_the_output.
Print Assumptions order_by_output_strict.
Print Assumptions graph_const_ignores_outer_graph.
Print Assumptions graph_var_ignores_outer_graph.
Print Assumptions subselect_under_graph_const.
Print Assumptions graph_const_not_named.
Print Assumptions graph_var_each_graph.
Print Assumptions exists_only_sees_the_active_graph.
Print Assumptions key_value_depends_on_active_graph.
Print Assumptions keys_elsewhere_unobservable_without_graph.
Print Assumptions keys_elsewhere_observable_under_graph.
Print Assumptions ctx_ok_ordered.
Print Assumptions eval_expr_ok.
Print Assumptions witness_hypotheses.
Print Assumptions round_q_monotone.
Print Assumptions round_q_identity.
Print Assumptions conv_round_ok.
Print Assumptions round_q_not_nan.
Print Assumptions round64_monotone.
Print Assumptions round32_monotone.
Print Assumptions round64_identity.
Print Assumptions round32_identity.
Print Assumptions c64_round_monotone.
Print Assumptions c32_round_monotone.
Print Assumptions c64_round_exact.
Print Assumptions c32_round_exact.
Print Assumptions c64_round_ok.
Print Assumptions c32_round_ok.
Print Assumptions f64_b_sound.
Print Assumptions f32_b_sound.
Print Assumptions f32_is_f64.
Print Assumptions order_by_refines_cmp_ieee.
Print Assumptions order_by_respects_lt_ieee.
Print Assumptions order_by_respects_compare_ieee.
Print Assumptions sorted_output_respects_lt_ieee.
Print Assumptions sorted_output_respects_lt_at_key_ieee.
Print Assumptions num_cmp_ieee_exact.
Print Assumptions exact_vs_double_ieee.
Print Assumptions exact_vs_float_ieee.
Print Assumptions engine_is_rne.
Print Assumptions c64_engine_ok.
Print Assumptions c32_engine_ok.
Print Assumptions c64_engine_monotone.
Print Assumptions c32_engine_monotone.
Print Assumptions order_by_refines_cmp_engine.
Print Assumptions order_by_respects_lt_engine.
Print Assumptions order_by_respects_compare_engine.
Print Assumptions sorted_output_respects_lt_engine.
Print Assumptions sorted_output_respects_lt_at_key_engine.
Print Assumptions num_cmp_engine_exact.
Print Assumptions exact_vs_double_engine.
Print Assumptions exact_vs_float_engine.
Print Assumptions c64_prefix_crosses_a_double.
Print Assumptions c64_prefix_conv_ok_refuted.
Print Assumptions order_by_respects_lt_prefix_refuted.
Print Assumptions witness_repaired.
Print Assumptions prefix_is_not_rne.
Print Assumptions conv_ok_all.
Print Assumptions order_by_refines_cmp_at.
Print Assumptions order_by_respects_lt_at.
Print Assumptions prefix_ok_when_rne.
Print Assumptions order_by_respects_lt_prefix_restricted.
Print Assumptions conversion_hypotheses_inhabited.
Print Assumptions eval_expr_agree.
Print Assumptions eval_expr_project.
Print Assumptions cmp_sol_project.
Print Assumptions prune_before_sort_sound.
Print Assumptions prune_bound_variable_refuted.
Print Assumptions timeline_cmp_eq.
Print Assumptions date_keys_tied_only_when_same_position.
Print Assumptions coarse_timeline_unit_1.
Print Assumptions coarse_timeline_refuted.
Print Assumptions coarse_timeline_ms.
