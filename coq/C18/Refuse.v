(* C18/Refuse.v -- what an RDF/XML serializer must REFUSE, and a lexical check of the bytes it writes.
   Stated on the XML grammar alone (Name / NCName / QName / Char of C18/Model.v section 1), NOT through
   the way the serializer decides (rio_xml's split_iri, sophia's check_predicate): C18/RefuseProofs.v
   proves that the transcription of the serializer agrees with it.  Definitions only. *)
From Sophia.C18 Require Import Model.

(* ------------------------------------------------------------------------------------------- *)
(* 1. predicates that can be written as a property element                                      *)
(* ------------------------------------------------------------------------------------------- *)
(* RDF/XML 6.1.4 / 7.2.14: a property element is named by a QName whose namespace name and local
   part concatenate to the predicate IRI; so the IRI must be  ns ++ local  with  ns  non-empty and
   local  an NCName.  [writable_from pre p]: some proper suffix of p (any suffix when [pre]) is one. *)
Fixpoint writable_from (pre : bool) (p : str) : bool :=
  match p with
  | [] => false
  | _ :: r => (pre && is_ncname p) || writable_from true r
  end.
Definition writable (p : str) : bool := writable_from false p.
(* ... and the names RDF/XML keeps for its own syntax can not be property elements (7.2.5 + rdf:Description) *)
Definition unwritable_pred (p : str) : bool := negb (writable p) || is_reserved p.

Definition lit_of (o : term) : option str :=
  match o with LitDt v _ | LitLang v _ => Some v | _ => None end.
(* a triple RDF/XML could carry as far as the kinds of its terms go, but which no well-formed document can hold:
   its predicate has no QName, or its text has a character outside the Char production *)
Definition must_refuse (t : term * term * term) : bool :=
  let '(s, p, o) := t in
  representable t &&
  ((match p with Iri pi => unwritable_pred pi | _ => false end)
   || match lit_of o with Some v => negb (xml_str v) | None => false end).

Definition is_doc (o : obs_ser) : bool := match o with ObsDoc _ | ObsSomeDoc => true | _ => false end.
(* harness-facing: with the repair, a graph holding such a triple is never answered with a document *)
Definition refuse_ok (guard : bool) (g : list (term * term * term)) (o : obs_ser) : bool :=
  if guard && existsb must_refuse g then negb (is_doc o) else true.

(* ------------------------------------------------------------------------------------------- *)
(* 2. lexical well-formedness of the bytes: Char everywhere, a QName in every tag               *)
(* ------------------------------------------------------------------------------------------- *)
(* Namespaces in XML [7]-[11]: QName = NCName | NCName ':' NCName *)
Definition is_qname (s : str) : bool :=
  let '(a, b) := span not_colon s in
  match b with [] => is_ncname a | _ :: l => is_ncname a && is_ncname l end.
(* a tag name ends at white space, '>' or '/' *)
Definition name_end (c : N) : bool := is_ws c || (c =? 62) || (c =? 47).
Definition tag_name (r : str) : str := fst (span (fun c => negb (name_end c)) r).
(* every '<' opens a declaration / comment ("<?", "<!": not examined), an end tag "</QName" or a tag "<QName"
   (the formatter escapes '<' in text and attribute values, so every '<' of its output is markup) *)
Fixpoint tags_ok (s : str) : bool :=
  match s with
  | [] => true
  | c :: r =>
      if c =? 60 then
        match r with
        | [] => false
        | d :: r' =>
            if (d =? 63) || (d =? 33) then tags_ok r
            else if d =? 47 then is_qname (tag_name r') && tags_ok r
            else is_qname (tag_name r) && tags_ok r
        end
      else tags_ok r
  end.
Definition wf_ok (o : obs_ser) : bool :=
  match o with ObsDoc d => xml_str d && tags_ok d | _ => true end.

(* the three together: the transcription's outcome, the grammar-level refusal, the lexical check *)
Definition out_ok (guard : bool) (indentation : N) (g : list (term * term * term)) (o : obs_ser) : bool :=
  ser_ok guard indentation g o && refuse_ok guard g o && wf_ok o.

(* the names of the tags the formatter writes *)
Definition qname_wf (q : qname) : bool := is_qname (qname_str q).
Definition event_names_ok (e : event) : bool :=
  match e with EStart q _ | EEnd q | EEmpty q _ => qname_wf q | _ => true end.
