(* C15/Reuse.v -- ONE serializer used for several serialize_* calls, the writer failing in some of
   them and recovering in between.  Definitions only (proofs: ReuseProofs.v).

   turtle/src/serializer/nt.rs, nq.rs:  pub struct NtSerializer<W> { config: NtConfig, write: W }
   The serializer owns its writer and its (immutable) configuration and nothing else: nothing of a
   call survives in the serializer, so a session is the sequence of the calls of SerializerSink.v
   on one and the same writer.  The writer is the probe of SerializerSink.v; it keeps everything it
   has accepted (the bytes of a round are those after the bytes of the earlier rounds), and when
   it recovers its policy and counters start afresh (the policy of a round counts the bytes of
   that round only). *)
From Sophia.Common Require Import Prelude Term.
From Sophia.C03 Require Import Model.
From Sophia.C15 Require Import Generic SerializerSink EndToEnd.

(* the writer becomes writable again: same accepted bytes, counters restart *)
Definition recover (w : wstate) : wstate := mk_w (w_acc w) O false O.
(* the policy of a round sees the bytes accepted since the round began *)
Definition shifted (base : nat) (pol : policy) : policy :=
  fun acc calls buf => pol (acc - base)%nat calls buf.

(* (bytes accepted in the round, write calls, write calls after a failed one, the sink error) *)
Definition round_obs := (list N * nat * nat * option ioerr)%type.
Fixpoint ser_rounds (w : wstate) (rounds : list (list quad * wdesc)) : list round_obs :=
  match rounds with
  | [] => []
  | (qs, wd) :: r =>
      let w1 := recover w in
      let base := length (w_acc w1) in
      let '(w', oe) := gfeed (ser_sink (shifted base (policy_of wd))) qs w1 in
      (skipn base (w_acc w'), w_calls w', w_after w', oe) :: ser_rounds w' r
  end.

Definition round_obs_eqb (a b : round_obs) : bool :=
  let '(b1, c1, a1, e1) := a in
  let '(b2, c2, a2, e2) := b in
  bytes_eqb b1 b2 && Nat.eqb c1 c2 && Nat.eqb a1 a2 && ioerr_eqb e1 e2.
Definition ser_rounds_ok (rounds : list (list quad * wdesc)) (obs : list round_obs) : bool :=
  list_eqb round_obs_eqb (ser_rounds w0 rounds) obs.
