(* C02/Model.v -- harness-facing checkers for the term model of Common/Term.v. *)
From Sophia.Common Require Export Prelude Term.

Definition cmp_eqb (a b : comparison) : bool :=
  match a, b with Eq, Eq | Lt, Lt | Gt, Gt => true | _, _ => false end.

(* what the implementation answered for the ordered pair (a, b), in every pair of representations *)
Definition pair_ok (a b : term) (eq : bool) (cmp : comparison) : bool :=
  Bool.eqb (term_eqb a b) eq && cmp_eqb (term_cmp a b) cmp.

(* the bytes the implementation fed to the Hasher *)
Definition hash_ok (a : term) (bytes : list N) : bool := str_eqb (hash_stream a) bytes.

(* NsTerm::eq on (namespace, suffix) against an IRI *)
Fixpoint strip_prefix (p s : str) : option str :=
  match p, s with
  | [], _ => Some s
  | x :: p', y :: s' => if N.eqb x y then strip_prefix p' s' else None
  | _ :: _, [] => None
  end.
Definition ns_iri_eqb (ns suffix other : str) : bool :=
  match strip_prefix ns other with Some rest => str_eqb rest suffix | None => false end.
Definition ns_ok (ns suffix : str) (other : term) (eq : bool) : bool :=
  Bool.eqb (match other with Iri o => ns_iri_eqb ns suffix o | _ => false end) eq.

(* ===================== accessors, components, constructors (widened harness) ===================== *)

(* same spelling (language-tag case included): what a copy / conversion / accessor must return *)
Fixpoint term_same (a b : term) : bool :=
  match a, b with
  | Iri x, Iri y => str_eqb x y
  | Bnode x, Bnode y => str_eqb x y
  | Var x, Var y => str_eqb x y
  | LitDt l1 d1, LitDt l2 d2 => str_eqb l1 l2 && str_eqb d1 d2
  | LitLang l1 t1, LitLang l2 t2 => str_eqb l1 l2 && str_eqb t1 t2
  | Triple s1 p1 o1, Triple s2 p2 o2 => term_same s1 s2 && term_same p1 p2 && term_same o1 o2
  | _, _ => false
  end.

(* the accessor methods of the Term trait (None for the other kinds) *)
Definition t_is_atom (t : term) : bool := match t with Triple _ _ _ => false | _ => true end.
Definition acc_iri (t : term) : option str := match t with Iri s => Some s | _ => None end.
Definition acc_bnode (t : term) : option str := match t with Bnode s => Some s | _ => None end.
Definition acc_var (t : term) : option str := match t with Var s => Some s | _ => None end.
Definition acc_lex (t : term) : option str := match t with LitDt l _ | LitLang l _ => Some l | _ => None end.
Definition acc_dt (t : term) : option str :=
  match t with LitDt _ d => Some d | LitLang _ _ => Some rdf_langString | _ => None end.
Definition acc_tag (t : term) : option str := match t with LitLang _ g => Some g | _ => None end.
Definition t_to_triple (t : term) : option (term * term * term) :=
  match t with Triple s p o => Some (s, p, o) | _ => None end.

(* what every representation answered to kind / is_atom / iri / bnode_id / lexical_form / datatype /
   language_tag / variable *)
Definition tview_ok (t : term) (k : N) (atom : bool) (i b l d g v : option str) : bool :=
  N.eqb (kind_rank (kind_of t)) k && Bool.eqb (t_is_atom t) atom
  && opt_eqb str_eqb (acc_iri t) i && opt_eqb str_eqb (acc_bnode t) b
  && opt_eqb str_eqb (acc_lex t) l && opt_eqb str_eqb (acc_dt t) d
  && opt_eqb str_eqb (acc_tag t) g && opt_eqb str_eqb (acc_var t) v.

(* the default Term::eq of api/src/term.rs, for atoms, written over the accessors only *)
Definition eq_acc (a b : term) : bool :=
  N.eqb (kind_rank (kind_of a)) (kind_rank (kind_of b)) &&
  match kind_of a with
  | KIri => opt_eqb str_eqb (acc_iri a) (acc_iri b)
  | KBnode => opt_eqb str_eqb (acc_bnode a) (acc_bnode b)
  | KVariable => opt_eqb str_eqb (acc_var a) (acc_var b)
  | KLiteral =>
      opt_eqb str_eqb (acc_lex a) (acc_lex b) &&
      match acc_tag a, acc_tag b with
      | None, None => opt_eqb str_eqb (acc_dt a) (acc_dt b)
      | Some g1, Some g2 => str_eqb_ci g1 g2
      | _, _ => false
      end
  | KTriple => false
  end.

(* Term::constituents / Term::atoms (and their consuming variants) *)
Fixpoint t_constituents (t : term) : list term :=
  t :: match t with
       | Triple s p o => t_constituents s ++ t_constituents p ++ t_constituents o
       | _ => []
       end.
Fixpoint t_atoms (t : term) : list term :=
  match t with
  | Triple s p o => t_atoms s ++ t_atoms p ++ t_atoms o
  | _ => [t]
  end.
Definition terms_same (a b : list term) : bool := list_eqb term_same a b.
Definition atoms_ok (t : term) (obs : list term) : bool := terms_same (t_atoms t) obs.
Definition constituents_ok (t : term) (obs : list term) : bool := terms_same (t_constituents t) obs.
Definition to_triple_ok (t : term) (obs : option (term * term * term)) : bool :=
  match t_to_triple t, obs with
  | None, None => true
  | Some (s, p, o), Some (s', p', o') => term_same s s' && term_same p p' && term_same o o'
  | _, _ => false
  end.

(* every value built for the term t along another construction path (From impls, checked
   constructors, stash copies, vocabulary round trips, statement accessors) spells t *)
Definition built_ok (t : term) (obs : list term) : bool := forallb (term_same t) obs.

(* `lex * NsTerm` (typed literal) and `lex * LanguageTag` (language-tagged string) *)
Definition ns_lit (ns suffix lex : str) : term := LitDt lex (ns ++ suffix).
Definition ns_lit_ok (ns suffix lex : str) (obs : term) : bool := term_same (ns_lit ns suffix lex) obs.
Definition lang_lit_ok (lex tag : str) (obs : term) : bool := term_same (LitLang lex tag) obs.

(* graph_name_eq of api/src/term/_graph_name.rs: None is the default graph *)
Definition gname_eqb (a b : option term) : bool :=
  match a, b with
  | Some x, Some y => term_eqb x y
  | None, None => true
  | _, _ => false
  end.
Definition gname_ok (a b : option term) (eq : bool) : bool := Bool.eqb (gname_eqb a b) eq.

(* ===================== the CALLS made on the Hasher (strengthened harness) ===================== *)
(* `Term::hash` is generic over the Hasher, and a Hasher may depend on how the bytes are split into calls
   (FxHash eats every `write` by words, others mix in the length of each call): "equal terms hash identically" is
   about the SEQUENCE OF CALLS, not only about the concatenated bytes of `hash_stream`.
   A call = (method code, argument bytes): 0 = write(bytes), 1 = write_u8, 3 = write_u32, 12 = write_isize
   (the numbering of the harness).  `TermKind: Hash` (derived) = one write_isize; `str: Hash` = write(utf8) then
   write_u8(0xff); `char: Hash` = one write_u32. *)
Definition hcall : Type := (N * list N)%type.
Definition m_write : N := 0.
Definition m_u8 : N := 1.
Definition m_u32 : N := 3.
Definition m_isize : N := 12.
Definition calls_kind (k : kind) : list hcall := [(m_isize, le_bytes 8 (kind_rank k))].
Definition calls_str (s : str) : list hcall := [(m_write, utf8 s); (m_u8, [255])].
Definition call_char (c : N) : hcall := (m_u32, le_bytes 4 c).
Fixpoint hash_calls (t : term) : list hcall :=
  calls_kind (kind_of t) ++
  match t with
  | Iri s | Bnode s | Var s => calls_str s
  | LitDt l d => calls_str l ++ calls_str d
  | LitLang l tg => calls_str l ++ call_char 64 :: map call_char (lower tg)
  | Triple s p o => hash_calls s ++ hash_calls p ++ hash_calls o
  end.
(* what a boundary-insensitive hasher (SipHash) sees *)
Definition calls_bytes (cs : list hcall) : list N := flat_map snd cs.
Definition hcall_eqb (a b : hcall) : bool := N.eqb (fst a) (fst b) && str_eqb (snd a) (snd b).
(* the calls one representation made through one entry point *)
Definition hash_calls_ok (t : term) (obs : list hcall) : bool := list_eqb hcall_eqb (hash_calls t) obs.

(* ANY hasher: a state, a transition per call *)
Definition run_hasher {S : Type} (step : S -> hcall -> S) (s0 : S) (t : term) : S :=
  fold_left step (hash_calls t) s0.
(* two boundary-sensitive hashers (for the non-vacuity examples): one mixes the length of every call in,
   one eats every `write` by 4-byte little-endian words (FxHash style) *)
Definition mix (h x : N) : N := ((h * 31 + x) mod 18446744073709551616).
Definition lenmix_step (h : N) (c : hcall) : N := mix (fold_left mix (snd c) h) (N.of_nat (length (snd c))).
Fixpoint words4 (fuel : nat) (b : list N) : list N :=
  match fuel, b with
  | S f, b0 :: b1 :: b2 :: b3 :: r => (b0 + 256 * (b1 + 256 * (b2 + 256 * b3))) :: words4 f r
  | _, [] => []
  | _, b0 :: r => [fold_right (fun x acc => x + 256 * acc) 0 (b0 :: r)]
  end.
Definition fx_step (h : N) (c : hcall) : N := fold_left mix (words4 (length (snd c)) (snd c)) h.

(* NsTerm (namespace + suffix) has no hash of its own: the default Term::hash runs on its accessors, and
   `iri()` hands out the concatenation *)
Definition ns_hash_calls (ns suffix : str) : list hcall := hash_calls (Iri (ns ++ suffix)).
(* what a hash "feeding the two parts directly" would do: same bytes, other calls *)
Definition ns_split_calls (ns suffix : str) : list hcall :=
  calls_kind KIri ++ [(m_write, utf8 ns); (m_write, utf8 suffix); (m_u8, [255])].

(* ===================== the string stashes of sophia_term (gen_stash! in term/src/_macro.rs) ===================== *)
(* a set of strings; `get_or_insert` inserts the probe when absent and returns the stored string that compares equal
   to the probe; copy_iri / copy_bnode_id / copy_language_tag / copy_var_name wrap copy_str; copy_term copies every
   string of the term (lexical form before datatype / tag; subject, predicate, object in this order) *)
Definition stash := list str.
Definition stash_mem (s : str) (st : stash) : bool := existsb (str_eqb s) st.
Definition stash_add (st : stash) (s : str) : stash := if stash_mem s st then st else s :: st.
Definition stash_get (st : stash) (s : str) : option str := find (str_eqb s) st.
Definition copy_str (st : stash) (s : str) : stash * str :=
  let st' := stash_add st s in (st', match stash_get st' s with Some x => x | None => s end).
Fixpoint copy_term (st : stash) (t : term) : stash * term :=
  match t with
  | Iri s => let '(st1, s') := copy_str st s in (st1, Iri s')
  | Bnode s => let '(st1, s') := copy_str st s in (st1, Bnode s')
  | Var s => let '(st1, s') := copy_str st s in (st1, Var s')
  | LitDt l d => let '(st1, l') := copy_str st l in let '(st2, d') := copy_str st1 d in (st2, LitDt l' d')
  | LitLang l g => let '(st1, l') := copy_str st l in let '(st2, g') := copy_str st1 g in (st2, LitLang l' g')
  | Triple s p o =>
      let '(st1, s') := copy_term st s in let '(st2, p') := copy_term st1 p in
      let '(st3, o') := copy_term st2 o in (st3, Triple s' p' o')
  end.
Fixpoint copy_terms (st : stash) (ts : list term) : stash * list term :=
  match ts with
  | [] => (st, [])
  | t :: r => let '(st1, t') := copy_term st t in let '(st2, r') := copy_terms st1 r in (st2, t' :: r')
  end.
(* the strings a term is made of *)
Fixpoint term_strs (t : term) : list str :=
  match t with
  | Iri s | Bnode s | Var s => [s]
  | LitDt a b | LitLang a b => [a; b]
  | Triple s p o => term_strs s ++ term_strs p ++ term_strs o
  end.
(* the terms `ts` copied in this order into a new stash: the copies handed out and the final number of strings *)
Definition stash_run_ok (ts copies : list term) (len : N) : bool :=
  let '(st, cs) := copy_terms [] ts in terms_same cs copies && N.eqb (N.of_nat (length st)) len.
