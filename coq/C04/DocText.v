(* C04/DocText.v -- the TEXT OF A WHOLE DOCUMENT written by the pretty Turtle / TriG writer of sophia_turtle
   (turtle/src/serializer/_pretty.rs), for the datasets that need NO ABBREVIATION of blank nodes: every blank node
   that is a subject or an object is written as a label, no collection is abbreviated, no quoted triple is
   annotated (quoted triples may occur as terms).  Transcribed function by function, in the imperative style of the
   code: a state (bytes written so far, current indentation string) threaded through
     prettify, write_prefixes, Prettifier::write_all / next_graph / write_graph / write_tree / write_properties /
     write_objects / write_object / write_newline / indent / unindent,
   every term being written by the term writer of TermText.v.  Definitions only; proofs are in DocProofs.v.

   The dataset is the list of its quads IN STORE ORDER (PrettifiableDataset = BTreeSet<Gspo<SimpleTerm>>, iterated in
   (g, s, p, o) order under Term::cmp, the default graph first): [store_sorted] below.
   `quads_matching`, `dedup`, `==` compare terms with Term::eq (term_eqb of Common/Term.v: language tags without
   letter case), as the code does.

   The CLASS: the writer's decisions about blank nodes and annotations are those of the planning phase
   (build_labelled / build_subject_types / build_lists, modelled in Model.v on interned terms).  Here the set
   `labelled` is a parameter [lab] (label -> bool) and the class is the boolean [in_class]:
     * every blank node that is the subject or the object of a quad is in `labelled` (so build_subject_types makes it
       a Root, build_lists finds no SubTree cell and returns no list, write_bnode takes its `_:label` arm);
     * no subject is a quoted triple that build_subject_types classifies as an Annotation (so write_object never
       takes its `{| |}` arm and every subject is a Root, written by write_graph in the order of subject_types).
   Outside the class the model answers None (those documents are the business of Model.v / Deep.v).
   The correspondence run computes [lab] from Model.make_plan on the interned dataset, inside Coq.

   The layout is GENERIC in the encoding [enc] of strings and in the term writer [wterm]:
     bytes        enc = utf8,      wterm = wr_at absf pm   (what the real writer puts on its io::Write)
     code points  enc = identity,  wterm = wt_at absf pm   (what the reference reader of DocRead.v reads)        *)
From Sophia.Common Require Import Prelude Term.
From Sophia.C04 Require Import Regex Grammar TermGrammar Model TermRead TermText DocRead.
From Sophia.C03 Require Model.

(* Gspo<SimpleTerm>: (graph name, [s, p, o]) *)
Definition tquad := (option term * term * term * term)%type.
Definition tq_g (q : tquad) : option term := fst (fst (fst q)).
Definition tq_s (q : tquad) : term := snd (fst (fst q)).
Definition tq_p (q : tquad) : term := snd (fst q).
Definition tq_o (q : tquad) : term := snd q.

(* sophia_api::ns::rdf *)
Definition w_rdf_ns : str :=
  [104;116;116;112;58;47;47;119;119;119;46;119;51;46;111;114;103;47;49;57;57;57;47;48;50;47;50;50;45;114;100;102;45;
   115;121;110;116;97;120;45;110;115;35].
Definition w_rdf_type : str := w_rdf_ns ++ [116;121;112;101].
Definition w_rdf_first : str := w_rdf_ns ++ [102;105;114;115;116].
Definition w_rdf_rest : str := w_rdf_ns ++ [114;101;115;116].

(* GraphName equality (sophia_api::term::graph_name_eq) and the key of subject_types *)
Definition gn_eqb : option term -> option term -> bool := opt_eqb term_eqb.
Definition tkey := (option term * term)%type.
Definition key_eqb (a b : tkey) : bool := gn_eqb (fst a) (fst b) && term_eqb (snd a) (snd b).
Definition key_of (q : tquad) : tkey := (tq_g q, tq_s q).
Definition is_none {A} (o : option A) : bool := match o with None => true | Some _ => false end.

(* Iterator::take_while *)
Fixpoint take_while {A} (f : A -> bool) (l : list A) : list A :=
  match l with
  | [] => []
  | x :: l' => if f x then x :: take_while f l' else []
  end.

(* DedupIterator: an item equal to the previous one is skipped (the FIRST of a run is kept) *)
Fixpoint dedup_first (prev : option tkey) (l : list tkey) : list tkey :=
  match l with
  | [] => []
  | x :: l' => if opt_eqb key_eqb (Some x) prev then dedup_first prev l' else x :: dedup_first (Some x) l'
  end.

(* ------------------------------------------------------------------------------------------ *)
(** * The store order                                                                          *)
(* ------------------------------------------------------------------------------------------ *)
(* Ord of Gspo<SimpleTerm> = (Option<SimpleTerm>, [SimpleTerm; 3]): None first, then Term::cmp, lexicographically *)
Definition gn_cmp (a b : option term) : comparison :=
  match a, b with
  | None, None => Eq
  | None, Some _ => Lt
  | Some _, None => Gt
  | Some x, Some y => term_cmp x y
  end.
Definition tquad_cmp (a b : tquad) : comparison :=
  then_cmp (gn_cmp (tq_g a) (tq_g b))
    (then_cmp (term_cmp (tq_s a) (tq_s b)) (then_cmp (term_cmp (tq_p a) (tq_p b)) (term_cmp (tq_o a) (tq_o b)))).
Definition is_lt (c : comparison) : bool := match c with Lt => true | _ => false end.
(* the iteration order of a BTreeSet: strictly increasing *)
Fixpoint store_sorted (d : list tquad) : bool :=
  match d with
  | [] => true
  | a :: d' => match d' with
               | [] => true
               | b :: _ => is_lt (tquad_cmp a b) && store_sorted d'
               end
  end.
(* the part of it that the layout needs: the quads of the default graph come first *)
Fixpoint nones_first (l : list (option term)) : bool :=
  match l with
  | [] => true
  | None :: l' => nones_first l'
  | Some _ :: l' => forallb (fun g => negb (is_none g)) l'
  end.

(* ------------------------------------------------------------------------------------------ *)
(** * The class                                                                                *)
(* ------------------------------------------------------------------------------------------ *)
Section Class.
  Variable lab : str -> bool.              (* self.labelled.contains(bn), by label *)
  Variable d : list tquad.

  (* Dataset::contains(d, s, p, o, g) *)
  Definition t_contains (g : option term) (s p o : term) : bool :=
    existsb (fun q => gn_eqb (tq_g q) g && term_eqb (tq_s q) s && term_eqb (tq_p q) p && term_eqb (tq_o q) o) d.
  (* d.quads_matching(Any, Any, [s], [g]).take(2).count() == 1 *)
  Definition t_object_once (g : option term) (s : term) : bool :=
    Nat.eqb (length (filter (fun q => term_eqb (tq_o q) s && gn_eqb (tq_g q) g) d)) 1.
  (* build_subject_types, for one (g, s) *)
  Definition t_subject_type (g : option term) (s : term) : stype :=
    match s with
    | Bnode l => if negb (lab l) && t_object_once g s then SubTree else Root
    | Triple a b c =>
        if negb (term_eqb (Iri w_rdf_first) b) && negb (term_eqb (Iri w_rdf_rest) b) && t_contains g a b c
        then Annotation else Root
    | _ => Root
    end.
  Definition bn_lab (t : term) : bool := match t with Bnode l => lab l | _ => true end.
  Definition in_class : bool :=
    forallb (fun q => bn_lab (tq_s q) && bn_lab (tq_o q) && stype_eqb (t_subject_type (tq_g q) (tq_s q)) Root) d.
End Class.

(* ------------------------------------------------------------------------------------------ *)
(** * The layout                                                                               *)
(* ------------------------------------------------------------------------------------------ *)
Section Layout.
  Variable enc : str -> list N.              (* str::as_bytes / the identity *)
  Variable wterm : tpos -> term -> list N.   (* write_term (TSubj, TObj) / write_non_list_term (TPred, TGraph) *)
  Variable indentation : str.                (* config.indentation() *)
  Variable d : list tquad.                   (* self.dataset *)

  (* the part of the Prettifier that write_* change: the output and `indent: String` *)
  Record lst := { l_out : list N; l_ind : list N }.
  (* write_bytes *)
  Definition put (b : list N) (s : lst) : lst := {| l_out := l_out s ++ b; l_ind := l_ind s |}.
  (* write_newline: "\n", then the current indentation *)
  Definition newline (s : lst) : lst := put (10 :: l_ind s) s.
  (* indent: self.indent.push_str(self.config.indentation()) *)
  Definition indent (s : lst) : lst := {| l_out := l_out s; l_ind := l_ind s ++ enc indentation |}.
  (* unindent: self.indent.truncate(self.indent.len() - ilen) *)
  Definition unindent (s : lst) : lst :=
    {| l_out := l_out s; l_ind := firstn (length (l_ind s) - length (enc indentation)) (l_ind s) |}.

  (* the matchers of quads_matching *)
  Definition m_subj (subject : term) (q : tquad) : bool := term_eqb (tq_s q) subject.
  Definition m_g (g : option term) (q : tquad) : bool := gn_eqb (tq_g q) g.
  Definition is_type (q : tquad) : bool := term_eqb (Iri w_rdf_type) (tq_p q).

  (* write_object, without the annotation arm (no subject is an Annotation in the class) *)
  Definition w_object (o : term) (s : lst) : lst := put (wterm TObj o) s.
  (* write_objects: objects[0], then "," newline object for the others *)
  Fixpoint w_objects_tail (os : list term) (s : lst) : lst :=
    match os with
    | [] => s
    | o :: os' => w_objects_tail os' (w_object o (newline (put [44] s)))
    end.
  Definition w_objects (os : list term) (s : lst) : lst :=
    match os with
    | [] => s                                  (* objects[0] would panic; write_properties calls it with types *)
    | o :: os' => w_objects_tail os' (w_object o s)
    end.

  (* one turn of the `for t in quads_matching([subject], Any, Any, [g])` loop of write_properties;
     the accumulator is (state, `predicate`) *)
  Definition prop_step (acc : lst * option term) (t : tquad) : lst * option term :=
    let p := tq_p t in
    if term_eqb (Iri w_rdf_type) p then acc                       (* if rdf::type_ == p { continue; } *)
    else if negb (opt_eqb term_eqb (Some p) (snd acc)) then       (* if Some(p) != predicate *)
      let s1 := match snd acc with
                | Some _ => unindent (put [59] (fst acc))          (* ";", back to predicate-level *)
                | None => fst acc
                end in
      (w_object (tq_o t) (indent (put [32] (put (wterm TPred p) (newline s1)))), Some p)
    else (w_object (tq_o t) (newline (put [44] (fst acc))), snd acc).

  (* write_properties(subject) in the graph g = current_graph_name() *)
  Definition w_properties (g : option term) (subject : term) (s : lst) : lst :=
    let s := indent s in                                           (* to predicate-level *)
    let tys := filter (fun q => m_subj subject q && is_type q && m_g g q) d in
    let acc := match tys with
               | [] => (s, None)
               | q0 :: _ => (w_objects (map tq_o tys) (indent (put [32; 97; 32] s)), Some (tq_p q0))   (* " a " *)
               end in
    let acc := fold_left prop_step (filter (fun q => m_subj subject q && m_g g q) d) acc in
    let s := match snd acc with Some _ => unindent (fst acc) | None => fst acc end in
    unindent s.

  (* write_tree: newline, root, properties, ".\n" *)
  Definition w_tree (g : option term) (root : term) (s : lst) : lst :=
    put [46; 10] (w_properties g root (put (wterm TSubj root) (newline s))).

  (* write_graph over the subjects of graph_range: in the class they are all Roots, written in order by the first
     pass of the `while again` loop (the second pass finds them Done and writes nothing) *)
  Definition w_graph (g : option term) (keys : list tkey) (s : lst) : lst :=
    fold_left (fun s k => w_tree g (snd k) s) keys s.

  (* subject_types: d.iter().map(|q| (q.g(), q.s())).dedup(), collected into a BTreeMap -- on a store in order the
     keys arrive sorted and distinct, so that the map iterates them in the same order *)
  Definition subject_keys : list tkey := dedup_first None (map key_of d).

  (* the `while let Some(g) = self.next_graph()` loop of write_all, [keys] = subject_types[graph_range.end..];
     None = g1.unwrap() panics (a subject of the default graph after a named graph: not a store in order) *)
  Fixpoint w_named (fuel : nat) (keys : list tkey) (s : lst) : option lst :=
    match fuel with
    | O => Some s
    | S f =>
        match keys with
        | [] => Some s
        | k1 :: _ =>
            let run := take_while (fun k => gn_eqb (fst k1) (fst k)) keys in
            match fst k1 with
            | None => None
            | Some g =>
                let s := put (wterm TGraph g) (put [71; 82; 65; 80; 72; 32] (newline s)) in     (* "GRAPH " *)
                let s := indent (put [32; 123] s) in                                             (* " {" *)
                let s := unindent (w_graph (fst k1) run s) in
                w_named f (skipn (length run) keys) (put [125; 10] s)                            (* "}\n" *)
            end
        end
    end.

  (* Prettifier::new + write_all, the indentation being base_indent at the start *)
  Definition w_all (base : str) : option lst :=
    let keys := subject_keys in
    let s0 := {| l_out := []; l_ind := enc base |} in
    let dflt := take_while (fun k => is_none (fst k)) keys in      (* graph_range = 0..upper *)
    let s1 := match dflt with [] => s0 | _ :: _ => w_graph None dflt s0 end in
    w_named (length keys) (skipn (length dflt) keys) s1.

  (* write_prefixes: writeln!("PREFIX {}: <{}>") *)
  Definition w_prefixes (pm : list (str * str)) : list N :=
    flat_map (fun e => [80; 82; 69; 70; 73; 88; 32] ++ enc (fst e) ++ [58; 32; 60] ++ enc (snd e) ++ [62; 10]) pm.
End Layout.

(* prettify(dataset, write, config, base_indent); None = outside the class, or the writer panics *)
Definition doc_gen (enc : str -> list N) (wterm : tpos -> term -> list N) (pm : list (str * str))
           (base indentation : str) (lab : str -> bool) (d : list tquad) : option (list N) :=
  if in_class lab d then
    match w_all enc wterm indentation d base with
    | Some s => Some (w_prefixes enc pm ++ l_out s)
    | None => None
    end
  else None.

(* on bytes: what the real writer emits *)
Definition wr_doc (absf : str -> bool) (pm : list (str * str)) (base indentation : str) (lab : str -> bool)
           (d : list tquad) : option (list N) :=
  doc_gen utf8 (wr_at absf pm) pm base indentation lab d.
(* on code points *)
Definition wt_doc (absf : str -> bool) (pm : list (str * str)) (base indentation : str) (lab : str -> bool)
           (d : list tquad) : option str :=
  doc_gen (fun s => s) (wt_at absf pm) pm base indentation lab d.

(* ------------------------------------------------------------------------------------------ *)
(** * What the document states                                                                 *)
(* ------------------------------------------------------------------------------------------ *)
(* the quads of d, in the order the writer states them: graph after graph (default graph first), subject after
   subject, the rdf:type statements of a subject first; graph name and subject in the spelling of the first quad
   of their group (they are equal to the others' in the sense of Term::eq) *)
Section Stated.
  Variable d : list tquad.
  Definition group (g : option term) (s : term) : list tquad := filter (fun q => m_subj s q && m_g g q) d.
  Definition props_quads (g : option term) (s : term) : list tquad :=
    filter is_type (group g s) ++ filter (fun q => negb (is_type q)) (group g s).
  Definition tree_quads (g : option term) (k : tkey) : list rquad :=
    map (fun q => (g, snd k, tq_p q, tq_o q)) (props_quads g (snd k)).
  Definition graph_quads (g : option term) (keys : list tkey) : list rquad := flat_map (tree_quads g) keys.
  Fixpoint named_quads (fuel : nat) (keys : list tkey) : list rquad :=
    match fuel with
    | O => []
    | S f =>
        match keys with
        | [] => []
        | k1 :: _ =>
            let run := take_while (fun k => gn_eqb (fst k1) (fst k)) keys in
            graph_quads (fst k1) run ++ named_quads f (skipn (length run) keys)
        end
    end.
  Definition doc_quads : list rquad :=
    let keys := subject_keys d in
    let dflt := take_while (fun k => is_none (fst k)) keys in
    graph_quads None dflt ++ named_quads (length keys) (skipn (length dflt) keys).
End Stated.

(* ------------------------------------------------------------------------------------------ *)
(** * Hypotheses of the document theorem (boolean)                                             *)
(* ------------------------------------------------------------------------------------------ *)
(* strict RDF-star quads whose terms satisfy the hypotheses of the term theorem *)
Definition wf_quad (q : tquad) : bool :=
  match tq_g q with Some g => wf_at TGraph g | None => true end &&
  wf_at TSubj (tq_s q) && wf_at TPred (tq_p q) && wf_at TObj (tq_o q).
(* the namespaces of the prefix map can stand between '<' and '>' (they are `Iri`s) *)
Definition ns_ok (pm : list (str * str)) : bool := forallb (fun e => iri_ok (snd e)) pm.
Definition ws_str (s : str) : bool := forallb is_ws s.
Definition doc_hyps (pm : list (str * str)) (base indentation : str) (d : list tquad) : bool :=
  pm_ok pm && ns_ok pm && ws_str base && ws_str indentation && forallb wf_quad d && nones_first (map tq_g d).
(* the Term contract (no untagged literal with datatype rdf:langString) on the graph name and the subject: with it
   Term::cmp = Equal iff Term::eq (C02), which the store order needs *)
Definition key_wfb (q : tquad) : bool := match tq_g q with Some g => wfb g | None => true end && wfb (tq_s q).
Definition scalar_quad (q : tquad) : bool :=
  match tq_g q with Some g => scalar_term g | None => true end &&
  scalar_term (tq_s q) && scalar_term (tq_p q) && scalar_term (tq_o q).

(* ------------------------------------------------------------------------------------------ *)
(** * Harness-facing checkers                                                                  *)
(* ------------------------------------------------------------------------------------------ *)
Definition rquad_eqx (a b : rquad) : bool :=
  opt_eqb term_eqx (fst (fst (fst a))) (fst (fst (fst b))) && term_eqx (snd (fst (fst a))) (snd (fst (fst b))) &&
  term_eqx (snd (fst a)) (snd (fst b)) && term_eqx (snd a) (snd b).

(* the planning model (Model.v) works on terms interned modulo Term::eq in Term::cmp order: [tab] is the table
   (sent by the harness in that order, rdf:first / rest / nil / type included), a term is its index in it *)
Fixpoint index_from (i : N) (tab : list term) (t : term) : option N :=
  match tab with
  | [] => None
  | x :: tab' => if term_eqb x t then Some i else index_from (i + 1) tab' t
  end.
Definition idx (tab : list term) (t : term) : N := match index_from 0 tab t with Some i => i | None => 0 end.
Definition ks_of (tab : list term) : list tk :=
  map (fun t => match t with
                | Bnode _ => TB
                | Iri _ => TI
                | Triple a b c => TT (idx tab a) (idx tab b) (idx tab c)
                | _ => TL
                end) tab.
Definition interned (tab : list term) (d : list tquad) : list quad :=
  map (fun q => (option_map (idx tab) (tq_g q), idx tab (tq_s q), idx tab (tq_p q), idx tab (tq_o q))) d.
Definition covers (tab : list term) (d : list tquad) : bool :=
  let has t := match index_from 0 tab t with Some _ => true | None => false end in
  forallb (fun q => match tq_g q with Some g => has g | None => true end && has (tq_s q) && has (tq_p q) && has (tq_o q)) d
  && has (Iri w_rdf_first) && has (Iri w_rdf_rest) && has (Iri w_rdf_nil).
(* `labelled` as computed by the model of build_labelled on the interned dataset *)
Definition plan_lab (tab : list term) (d : list tquad) : str -> bool :=
  let pl := make_plan (ks_of tab) (idx tab (Iri w_rdf_first)) (idx tab (Iri w_rdf_rest)) (idx tab (Iri w_rdf_nil))
                      (interned tab d) in
  fun l => match index_from 0 tab (Bnode l) with
           | Some i => memN i (pl_labelled pl)
           | None => false
           end.

(* one case of the correspondence.  [obs] = the whole output of the real serializer.
     1. the hypotheses of the document theorems hold on the case (the dataset is in store order for the model of
        Term::cmp), the table covers the dataset;
     2. the model, with the plan of Model.v, finds the dataset IN the class and writes exactly these bytes;
     3. the reference reader reads the observed bytes back to exactly the quads the model says are stated. *)
Definition doc_reads_back (d : list tquad) (obs : list N) : bool :=
  match read_doc_bytes obs with
  | Some qs => list_eqb rquad_eqx qs (doc_quads d)
  | None => false
  end.
Definition doc_case_ok (absf : str -> bool) (pm : list (str * str)) (base indentation : str)
           (tab : list term) (d : list tquad) (obs : list N) : bool :=
  doc_hyps pm base indentation d && store_sorted d && forallb key_wfb d && scalar_pm pm && forallb scalar_quad d &&
  covers tab d &&
  match wr_doc absf pm base indentation (plan_lab tab d) d with
  | Some bytes => bytes_eqb bytes obs
  | None => false
  end &&
  doc_reads_back d obs.
(* a dataset whose real output shows an abbreviation (`[`, a non-empty `(`, `{|`): the model must find it OUTSIDE
   the class *)
Definition doc_outside_ok (absf : str -> bool) (pm : list (str * str)) (base indentation : str)
           (tab : list term) (d : list tquad) : bool :=
  covers tab d &&
  match wr_doc absf pm base indentation (plan_lab tab d) d with Some _ => false | None => true end.
